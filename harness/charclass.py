"""Character classes computed by Python for the characters of a case (shipped to the model)."""
import re, unicodedata

_W = re.compile(r"\w")
_LT = re.compile(r"[^\d\W]")
WS6 = "\t\n\x0b\x0c\r "


def _int_space(c):
    # what int() strips: ASCII whitespace of WS6 and non-ASCII Unicode whitespace; not \x1c..\x1f
    return c in WS6 or (ord(c) >= 128 and c.isspace())


def char_class(*texts):
    chars = set()
    for t in texts:
        if t:
            chars.update(t)
    chars.update(" -_+0123456789)(][x")
    space, word, letter, ispace, digits = [], [], [], [], []
    for c in sorted(chars):
        o = ord(c)
        if c.isspace(): space.append(o)
        if _W.match(c): word.append(o)
        if _LT.match(c): letter.append(o)
        if _int_space(c): ispace.append(o)
        try:
            digits.append([o, unicodedata.decimal(c)])
        except ValueError:
            pass
    return {"space": space, "word": word, "letter": letter, "intspace": ispace, "digits": digits}


def strings_of(obj):
    """all strings inside a JSON-like value"""
    if isinstance(obj, str):
        yield obj
    elif isinstance(obj, (list, tuple)):
        for x in obj:
            yield from strings_of(x)
    elif isinstance(obj, dict):
        for x in obj.values():
            yield from strings_of(x)
