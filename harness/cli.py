"""Entry point: python -m harness.cli <property id> [--tier quick|thorough]   |   python -m harness.cli replay <file>"""
import argparse, importlib, json, os, sys


def main():
    ap = argparse.ArgumentParser()
    ap.add_argument("prop")
    ap.add_argument("path", nargs="?")
    ap.add_argument("--tier", default=os.environ.get("VERIF_TIER", "quick"))
    a = ap.parse_args()
    seed = int(os.environ.get("VERIF_SEED", "0") or 0)
    from harness import core
    try:
        if a.prop == "replay":
            data = json.load(open(a.path))
            mod = importlib.import_module("harness.props." + data["property"])
            case = data.get("case") or (data.get("correspondence") or {}).get("case")
            if case is None:
                print(json.dumps(data, indent=1)[:3000]); return 0
            case = mod.with_cc(case) if hasattr(mod, "with_cc") else case
            obs = mod.run_impl(case)
            print("implementation:", json.dumps(obs, ensure_ascii=False, default=str)[:3000])
            if isinstance(case, dict) and case.get("op") == "render_race":
                from harness.props.common import race_verdict
                v = race_verdict(case, obs)
            else:
                v = mod.monitor(case, obs)
            print("property verdict on the implementation:", v or "holds")
            try:
                from harness.driver import run_model
                m = run_model([mod.model_input(case, obs) if hasattr(mod, "model_input") else mod.model_case(case)])[0]
                print("model:", json.dumps(m, ensure_ascii=False)[:3000])
                print("correspondence:", mod.compare(case, obs, m) or "agrees")
            except Exception as e:
                print("model: unavailable (%s)" % e)
            if v:
                print("VIOLATION property=%s replay=%s" % (data["property"], a.path)); return 1
            return 0
        mod = importlib.import_module("harness.props." + a.prop)
        return core.run_check(a.prop, mod, a.tier, seed)
    except core.Infra as e:
        print("INFRASTRUCTURE FAILURE:", e); return 2


if __name__ == "__main__":
    try:
        sys.exit(main())
    except SystemExit:
        raise
    except BaseException as e:
        import traceback; traceback.print_exc()
        print("INFRASTRUCTURE FAILURE:", e); sys.exit(2)
