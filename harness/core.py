"""The check pipeline shared by all properties (DESIGN.md sections 1, 5, 6).

One check = build (A) -> axiom audit (B) -> correspondence model/implementation (C) -> property oracle on the
implementation (D) -> verdict, evidence, replay files.
"""
import itertools, collections, hashlib, json, multiprocessing, os, random, re, subprocess, sys, time, traceback

VERIF = os.path.dirname(os.path.dirname(os.path.abspath(__file__)))
LEAN = os.path.join(VERIF, "lean")
OUT = os.path.join(VERIF, "out")
REPLAYS = os.path.join(OUT, "replays")
EVIDENCE = os.path.join(VERIF, "evidence") if os.environ.get("VERIF_REPO", "/repo") == "/repo" else os.path.join(VERIF, "out", "evidence-scratch")
ALLOWED_AXIOMS = {"propext", "Classical.choice", "Quot.sound"}
FORBIDDEN = re.compile(r"\b(sorry|admit|native_decide|bv_decide|implemented_by|unsafe)\b|^\s*axiom\s|maxHeartbeats\s+0\b", re.M)


class Infra(Exception):
    """infrastructure failure: exit status 2, never a violation"""


def sh(cmd, cwd=None, timeout=3600):
    p = subprocess.run(cmd, cwd=cwd, stdout=subprocess.PIPE, stderr=subprocess.STDOUT, timeout=timeout)
    return p.returncode, p.stdout.decode("utf-8", "replace")


# ----------------------------------------------------------------------------------------------- stage A, B
def strip_comments(src):
    """remove Lean block comments (nested) and line comments"""
    out = []; i = 0; depth = 0; n = len(src)
    while i < n:
        if src.startswith("/-", i): depth += 1; i += 2; continue
        if depth and src.startswith("-/", i): depth -= 1; i += 2; continue
        if depth: i += 1; continue
        if src.startswith("--", i):
            j = src.find("\n", i); i = n if j < 0 else j; continue
        out.append(src[i]); i += 1
    return "".join(out)


def lean_imports(module, seen=None):
    """transitive project-local imports of a module (paths relative to lean/)"""
    seen = seen if seen is not None else []
    path = module.replace(".", "/") + ".lean"
    if path in seen or not os.path.exists(os.path.join(LEAN, path)):
        return seen
    seen.append(path)
    for m in re.findall(r"^import\s+((?:Simpleline|Driver)[\w.]*)", open(os.path.join(LEAN, path)).read(), re.M):
        lean_imports(m, seen)
    return seen


def stage_build(prop, modules=None):
    """A: kernel-check every theorem of the property (and build the driver). Returns (ok, log)."""
    rc, out = sh(["lake", "build"] + ["Simpleline.Props." + m for m in (modules or [prop])] + ["sldriver"], cwd=LEAN)
    warn_sorry = "declaration uses 'sorry'" in out or "declaration uses `sorry`" in out
    return rc == 0 and not warn_sorry, out


def stage_audit(prop, modules=None):
    """B: axioms of every property theorem, forbidden tokens in the sources it depends on."""
    mods = ["Simpleline.Props." + m for m in (modules or [prop])]
    theorems = []; files = []; per_mod = []
    for module in mods:
        src = open(os.path.join(LEAN, module.replace(".", "/") + ".lean")).read()
        namespaces = ["Simpleline"]
        for ns in re.findall(r"^namespace\s+([\w.]+)", strip_comments(src), re.M):
            if ns not in namespaces: namespaces.append(ns)
        ths = re.findall(r"^theorem\s+([\w.'?!]+)", strip_comments(src), re.M)
        theorems += ths; per_mod.append((module, namespaces, ths))
        for f in lean_imports(module):
            if f not in files: files.append(f)
    problems = []
    for f in files:
        body = strip_comments(open(os.path.join(LEAN, f)).read())
        for m in FORBIDDEN.finditer(body):
            problems.append("%s: forbidden token %r" % (f, m.group(0).strip()))
    os.makedirs(OUT, exist_ok=True)
    axioms = {}
    # one audit file per property file (the files of one property need not be importable together: helper developments may reuse names)
    for module, namespaces, ths in per_mod:
        audit = os.path.join(OUT, "Audit_%s_%s.lean" % (prop, module.split(".")[-1]))
        with open(audit, "w") as fh:
            fh.write("import %s\n" % module + "open " + " ".join(namespaces) + "\n")
            for t in ths:
                fh.write("#print axioms %s\n" % t)
        rc, out = sh(["lake", "env", "lean", audit], cwd=LEAN)
        if rc != 0:
            problems.append("audit file of %s does not check: %s" % (module, out[-1500:]))
        for m in re.finditer(r"'([\w.'?!]+)' depends on axioms: \[([^\]]*)\]", out.replace("\n", " ")):
            axioms[m.group(1).split(".")[-1]] = sorted(a.strip() for a in m.group(2).split(",") if a.strip())
        for m in re.finditer(r"'([\w.'?!]+)' does not depend on any axioms", out):
            axioms[m.group(1).split(".")[-1]] = []
    for t in theorems:
        if t not in axioms:
            problems.append("no axiom report for theorem " + t)
        else:
            extra = set(axioms[t]) - ALLOWED_AXIOMS
            if extra:
                problems.append("theorem %s depends on %s" % (t, sorted(extra)))
    return theorems, axioms, problems, files


# ----------------------------------------------------------------------------------------------- stage C, D
_WORKER = {}
CASE_TIMEOUT = 15          # seconds of wall time per case on the implementation; a case that exceeds it is reported as a hanging adapter (broken correspondence)


class CaseTimeout(BaseException):
    pass


def _alarm(signum, frame):
    raise CaseTimeout()


IMPL_BUDGET = {"quick": 20 * 60, "thorough": 120 * 60}      # seconds of wall time for running all cases on the implementation; what is left over is reported as not run
_DEADLINE = [None]
_FAILS = multiprocessing.Value("i", 0)          # shared with the forked workers: once several hundred cases have failed the rest of the cases is not run
ENOUGH_FAILS = 400


def _work(args):
    prop_mod, chunk = args
    try:
        import resource
        soft, hard = resource.getrlimit(resource.RLIMIT_AS)
        lim = 6 * 1024 ** 3
        if soft == resource.RLIM_INFINITY or soft > lim: resource.setrlimit(resource.RLIMIT_AS, (lim, hard))      # an implementation that eats memory fails its case, not the machine
    except Exception:
        pass
    mod = _WORKER.get(prop_mod)
    if mod is None:
        mod = __import__(prop_mod, fromlist=["x"]); _WORKER[prop_mod] = mod
    out = []
    import signal
    try:
        signal.signal(signal.SIGALRM, _alarm)
    except ValueError:
        pass
    for case in chunk:
        if _FAILS.value > ENOUGH_FAILS and not hasattr(mod, "classify"):        # (checks with known findings count classified cases too: no early stop there)
            out.append(({"adapter_error": "not run: more than %d cases of this run have already failed" % ENOUGH_FAILS}, None)); continue
        if _DEADLINE[0] is not None and time.time() > _DEADLINE[0]:
            out.append(({"adapter_error": "not run: the time budget of this check for the implementation was used up (the implementation has become very slow)"}, None)); continue
        try:
            signal.setitimer(signal.ITIMER_REAL, CASE_TIMEOUT)
            try:
                obs = mod.run_impl(case)
            finally:
                signal.setitimer(signal.ITIMER_REAL, 0)
        except CaseTimeout:
            obs = {"adapter_error": "the implementation did not finish this case within %d s (it hangs)" % CASE_TIMEOUT}
        except BaseException as e:       # the adapter itself failed: reported as a broken correspondence
            obs = {"adapter_error": "%s: %s" % (type(e).__name__, e), "tb": traceback.format_exc()[-800:]}
        try:
            signal.setitimer(signal.ITIMER_REAL, CASE_TIMEOUT)
            try:
                verdict = mod.monitor(case, obs) if "adapter_error" not in (obs if isinstance(obs, dict) else {}) else None
            finally:
                signal.setitimer(signal.ITIMER_REAL, 0)
        except CaseTimeout:
            # the oracle could not digest the observation in time (an implementation that prints / renders without end): no verdict, reported as an adapter error
            verdict = None; obs = {"adapter_error": "the observation of this case is too large to be judged within %d s" % CASE_TIMEOUT, "head": repr(obs)[:2000]}
        except BaseException as e:
            verdict = "monitor crashed: %s: %s" % (type(e).__name__, e)
        try:
            if len(repr(obs)) > 30000000:
                # an observation of this size (the implementation prints / renders without end) is not shipped around: the verdict was taken, the rest is a summary
                obs = {"adapter_error": "the observation of this case is %d characters long (not kept)" % len(repr(obs)), "head": repr(obs)[:2000]}
        except BaseException:
            pass
        if verdict is not None:
            with _FAILS.get_lock(): _FAILS.value += 1
        out.append((obs, verdict))
    return out


def run_impl_parallel(prop_mod, cases, jobs=16):
    if not cases:
        return []
    n = max(1, min(jobs, len(cases) // 50 or 1))
    if n == 1:
        return _work((prop_mod, cases))
    size = max(1, len(cases) // (n * 4))
    chunks = [cases[i:i + size] for i in range(0, len(cases), size)]
    with multiprocessing.get_context("fork").Pool(n) as pool:
        res = pool.map(_work, [(prop_mod, c) for c in chunks])
    return [x for r in res for x in r]


def case_key(case):
    return hashlib.sha1(json.dumps(case, sort_keys=True, ensure_ascii=False, default=str).encode("utf-8")).hexdigest()[:12]


def write_replay(prop, kind, payload):
    os.makedirs(REPLAYS, exist_ok=True)
    path = os.path.join(REPLAYS, "%s-%s-%s.json" % (prop, kind, case_key(payload)))
    with open(path, "w") as fh:
        json.dump(payload, fh, indent=1, ensure_ascii=False, default=str)
    return os.path.relpath(path, VERIF)


def load_known():
    with open(os.path.join(VERIF, "known_findings.json")) as fh:
        return json.load(fh)["findings"]


def slim(mod, obs):
    return mod.strip_obs(obs) if hasattr(mod, "strip_obs") else obs


def strip_cc(case):
    return {k: v for k, v in case.items() if k != "cc"} if isinstance(case, dict) else case


# ----------------------------------------------------------------------------------------------- the check
def run_check(prop, mod, tier, seed):
    """mod: the property's harness module (harness.props.<id>), providing
         THEOREM_NOTE, ASSUMPTIONS, RULE
         generate(rnd, tier) -> list of cases (dicts; 'op' names the driver operation)
         run_impl(case) -> observation of the real code       model_case(case) -> what is sent to the driver
         compare(case, impl_obs, model_obs) -> None | description of the first difference
         monitor(case, impl_obs) -> None | description of the property violation on the implementation
         nontrivial(case, impl_obs) -> bool
         classify(case, impl_obs, verdict) -> id of a known finding or None   (optional)
         shrink(case) -> iterable of smaller cases                             (optional)
    """
    t0 = time.time()
    from harness.driver import run_model, DriverError
    import signal
    signal.signal(signal.SIGALRM, _alarm)

    def impl(c):
        """the adapter under the per-case watchdog (shrinking, neighbourhood search and replays run in this process)"""
        signal.setitimer(signal.ITIMER_REAL, CASE_TIMEOUT)
        try:
            return mod.run_impl(c)
        finally:
            signal.setitimer(signal.ITIMER_REAL, 0)
    lines = []          # VIOLATION / KNOWN-FINDING lines
    violations = 0
    prop_mod = mod.__name__

    modules = getattr(mod, "LEAN_MODULES", [prop])
    ok_build, build_log = stage_build(prop, modules)
    theorems, axioms, audit_problems, files = ([], {}, [], [])
    driver_ok = os.path.exists(os.path.join(LEAN, ".lake", "build", "bin", "sldriver"))
    if ok_build:
        theorems, axioms, audit_problems, files = stage_audit(prop, modules)
    else:
        # try to build at least the driver so that the failing-input search can use the model
        rc, _ = sh(["lake", "build", "sldriver"], cwd=LEAN)
        driver_ok = rc == 0
        for m in modules:
            try:
                src = open(os.path.join(LEAN, "Simpleline/Props/%s.lean" % m)).read()
                theorems += re.findall(r"^theorem\s+([\w.'?!]+)", strip_comments(src), re.M)
            except OSError:
                pass
    recheck = None
    if ok_build and tier == "thorough":
        # independent re-check of the compiled .olean files of every Lean module the property depends on
        mods_all = [f[:-5].replace("/", ".") for f in files]
        rc, out = sh(["lake", "env", "leanchecker"] + mods_all, cwd=LEAN, timeout=3000)
        recheck = {"modules": len(mods_all), "exit": rc, "tail": out[-300:]}
        if rc != 0: audit_problems.append("leanchecker rejects: " + out[-800:])
    proof_ok = ok_build and not audit_problems

    # ---- cases: corpus first, then generated
    rnd = random.Random(seed)
    corpus = list(mod.corpus()) if hasattr(mod, "corpus") else []
    cases = corpus + list(mod.generate(rnd, tier))
    _DEADLINE[0] = time.time() + IMPL_BUDGET.get(tier, 20 * 60)          # inherited by the forked workers
    _FAILS.value = 0
    results = run_impl_parallel(prop_mod, cases)
    _DEADLINE[0] = None
    adapter_errors = [(c, o) for c, (o, v) in zip(cases, results) if isinstance(o, dict) and "adapter_error" in o]

    # ---- C: correspondence
    disagreements = []
    model_obs = [None] * len(cases)
    model_error = None
    if driver_ok:
        idx = [i for i, c in enumerate(cases) if mod.model_case(c) is not None and not (isinstance(results[i][0], dict) and "adapter_error" in results[i][0])]
        def minput(i):
            # trace validation: the model's input is the implementation's own record
            return mod.model_input(cases[i], results[i][0]) if hasattr(mod, "model_input") else mod.model_case(cases[i])
        try:
            res = run_model([minput(i) for i in idx])
            for i, r in zip(idx, res):
                model_obs[i] = r
        except (DriverError, Infra) as e:
            model_error = str(e)
        if model_error is None:
            for i in idx:
                o = results[i][0]
                if isinstance(o, dict) and "adapter_error" in o:
                    continue
                d = mod.compare(cases[i], o, model_obs[i])
                if d is not None:
                    disagreements.append((i, d))
    else:
        model_error = "model driver could not be built"

    # ---- D: oracle on the implementation
    known = [k for k in load_known() if k["property"] == prop]
    known_hits = collections.Counter()
    failing = []
    for i, (o, v) in enumerate(results):
        if v is None:
            continue
        if hasattr(mod, "truncate") and isinstance(model_obs[i], dict):
            # cut runs: judge the prefix both sides cover
            o2 = mod.truncate(cases[i], o, model_obs[i])
            if o2 is not o:
                try: v = mod.monitor(cases[i], o2)
                except BaseException: v = None
                o = o2; results[i] = (o, v)
                if v is None: continue
        kid = mod.classify(cases[i], o, v, model_obs[i]) if hasattr(mod, "classify") else None
        if kid is not None and any(k["id"] == kid and k["status"] == "known" for k in known):
            known_hits[kid] += 1
        else:
            failing.append((i, v))

    if getattr(mod, "HANG_IS_VIOLATION", None):
        hung = [i for i, (o, v) in enumerate(results) if isinstance(o, dict) and "hangs" in str(o.get("adapter_error", ""))]
        # the model is asked whether the session finishes (cases whose implementation run failed were left out of the correspondence stage above)
        ask = [i for i in hung if model_obs[i] is None and driver_ok and mod.model_case(cases[i]) is not None][:200]
        if ask:
            try:
                for i, r in zip(ask, run_model([mod.model_case(cases[i]) for i in ask])): model_obs[i] = r
            except (DriverError, Infra):
                pass
        retried = 0
        for i in hung:
            if True:
                if retried < 12:
                    # a loaded machine can make a long case miss the per-case limit: before a hang is reported the case is run once more, alone, with four times the limit
                    retried += 1
                    signal.setitimer(signal.ITIMER_REAL, 4 * CASE_TIMEOUT)
                    try:
                        o2 = mod.run_impl(cases[i]); signal.setitimer(signal.ITIMER_REAL, 0)
                        v2 = mod.monitor(cases[i], o2)
                        results[i] = (o2, v2)
                        if v2 is not None and not (hasattr(mod, "classify") and mod.classify(cases[i], o2, v2, model_obs[i]) is not None): failing.append((i, v2))
                        continue
                    except BaseException:
                        pass
                    finally:
                        signal.setitimer(signal.ITIMER_REAL, 0)
                m = model_obs[i]
                finishes = (m is None and mod.model_case(cases[i]) is None) or (isinstance(m, dict) and (m.get("outcome") or ["?"])[0] not in ("fuel", "livelock"))
                if finishes:
                    failing.append((i, "%s (model: %s)" % (mod.HANG_IS_VIOLATION, (m or {}).get("outcome") if isinstance(m, dict) else "n/a")))

    # ---- structural part of the correspondence (where a property module states one)
    structure_problems = list(mod.structure()) if hasattr(mod, "structure") else []

    def shrink(case, pred):
        if not hasattr(mod, "shrink"):
            return case
        cur = case; improved = True; budget = 400; t_end = time.time() + 180        # shrinking is a convenience: bounded in candidates and in wall time
        while improved and budget > 0 and time.time() < t_end:
            improved = False
            try:
                cands = list(itertools.islice(mod.shrink(cur), 2000))
            except BaseException:
                cands = []          # no shrinker for this kind of case
            for cand in cands:
                budget -= 1
                if budget <= 0 or time.time() > t_end: break
                try:
                    if pred(cand):
                        cur = cand; improved = True; break
                except BaseException:
                    pass
        return cur

    if failing:
        i, v = failing[0]
        def still_fails(c):
            try:
                o = impl(c)
            except CaseTimeout:
                return "hangs" in v
            return mod.monitor(c, o) is not None
        small = shrink(cases[i], still_fails) if "hangs" not in v else cases[i]
        try:
            o = impl(small)
        except CaseTimeout:
            o = {"adapter_error": "the implementation hangs on this case"}
        path = write_replay(prop, "violation", {"property": prop, "kind": "property violated on the implementation",
                                                 "case": strip_cc(small), "original_case": strip_cc(cases[i]),
                                                 "impl_observation": slim(mod, o), "verdict": (mod.monitor(small, o) if "adapter_error" not in o else None) or v,
                                                 "model_observation": model_obs[i], "seed": seed,
                                                 "other_failing_cases": len(failing) - 1})
        lines.append("VIOLATION property=%s replay=%s" % (prop, path)); violations += len(failing)
    elif disagreements or adapter_errors or model_error or not proof_ok or structure_problems:
        # the property is no longer shown to hold; no concrete failing input among everything explored (the oracle ran
        # on all cases above, including the disagreeing ones) -> search the neighbourhood of the disagreeing cases
        found = None
        for i, d in disagreements[:20]:
            for cand in (mod.neighbours(cases[i], rnd) if hasattr(mod, "neighbours") else []):
                try:
                    o = impl(cand); v = mod.monitor(cand, o)
                except BaseException:
                    continue
                if v is not None and not (hasattr(mod, "classify") and mod.classify(cand, o, v, None) is not None):
                    found = (cand, o, v); break
            if found: break
        if not found and structure_problems and hasattr(mod, "structure_search"):
            try:
                found = mod.structure_search(structure_problems, rnd)
            except BaseException:
                found = None
        if found:
            cand, o, v = found
            path = write_replay(prop, "violation", {"property": prop, "kind": "property violated on the implementation (found near a model/implementation disagreement)",
                                                     "case": strip_cc(cand), "impl_observation": slim(mod, o), "verdict": v, "seed": seed})
            lines.append("VIOLATION property=%s replay=%s" % (prop, path)); violations += 1
        else:
            what = {"property": prop, "kind": "no longer shown to hold", "seed": seed}
            if not ok_build:
                what["theorems_not_checked"] = theorems; what["build_log_tail"] = build_log[-3000:]
            if audit_problems:
                what["audit_problems"] = audit_problems
            if structure_problems:
                what["correspondence_structure"] = structure_problems
            if model_error:
                what["correspondence"] = "model driver failed: " + model_error
            if adapter_errors:
                what["correspondence_adapter_errors"] = [{"case": strip_cc(c), "error": o} for c, o in adapter_errors[:3]]
            if disagreements:
                i, d = disagreements[0]
                def mrun(c, o):
                    return run_model([mod.model_input(c, o) if hasattr(mod, "model_input") else mod.model_case(c)])[0]
                def still_differs(c):
                    o = impl(c); m = mrun(c, o)
                    return mod.compare(c, o, m) is not None
                small = shrink(cases[i], still_differs)
                o = impl(small); m = mrun(small, o)
                what["correspondence"] = {"domain": small.get("op") if isinstance(small, dict) else None, "case": strip_cc(small),
                                          "first_difference": mod.compare(small, o, m) or d, "impl_observation": slim(mod, o),
                                          "model_observation": m, "disagreeing_cases": len(disagreements),
                                          "theorems_relying_on_this_model": theorems}
            path = write_replay(prop, "unproved", what)
            lines.append("VIOLATION property=%s replay=%s no-failing-input-found" % (prop, path)); violations += 1

    # ---- known / fixed findings
    for k in known:
        if k["status"] == "known":
            wit = k.get("witness")
            still = None
            if wit is not None and hasattr(mod, "run_witness"):
                still = mod.run_witness(wit)      # True: the witness still fails as recorded
            if still is False:
                # the recorded defect no longer reproduces: say so (not a violation)
                print("NOTE: known finding %s no longer reproduces on the recorded witness" % k["id"])
            else:
                lines.append("KNOWN-FINDING: property=%s %s (%s; seen in %d generated cases)" % (prop, k["what"], k["id"], known_hits.get(k["id"], 0)))

    # ---- evidence
    keys = set(); nontrivial = 0; outcomes = collections.Counter()
    for c, (o, v) in zip(cases, results):
        try:
            nt = mod.nontrivial(c, o)
        except BaseException:
            nt = False
        k = case_key(strip_cc(c))
        if nt and k not in keys:
            nontrivial += 1
        keys.add(k)
        if hasattr(mod, "outcome"):
            try: outcomes[mod.outcome(c, o)] += 1
            except BaseException: outcomes["?"] += 1
    # which instructions / API actions of the machine model the generated cases exercised (reported by the driver per case)
    ALL = ("act.closeDirect act.closeLoop act.closeSig act.enq act.forceQuit act.getUserInput act.newLoop act.proc act.push act.pushModal act.raiseErr act.raiseExit "
           "act.redrawSig act.regSource act.replace act.schedRedraw act.schedule afterQuit afterSetup afterSetup2 afterSetupFail apprun blockingInput callH callScr catchDraw "
           "catchExit catchHandler catchPI catchPS classify closeLoop closeScreen closeScreen2 closeScreen3 countAndAct dispatch drawScreen endPI getDispatch getInput getInput2 "
           "hret identCheck inputReady inputReceived kill loopCheck mainCheck maybeInput modalRet newLoop note popLevel printLines printWidget procIter procWait processInput "
           "processScreen processSignal pushModal quitCb restoreRun scrRet waitCheck waitInput waitStep").split()
    seen_instrs = set()
    for m in model_obs:
        if isinstance(m, dict) and "instrs" in m: seen_instrs.update(m["instrs"])
    model_cov = None
    if seen_instrs:
        model_cov = {"exercised": len(seen_instrs & set(ALL)), "of": len(ALL), "not_exercised": sorted(set(ALL) - seen_instrs)}
    rs = random.Random(seed)
    samples = [strip_cc(c) for c in rs.sample(cases, min(3, len(cases)))]
    discharged = len(theorems) if proof_ok else 0
    ev = {
        "property_id": prop, "tier": tier, "seed": seed, "level": "proof",
        "coverage": {
            "obligations": len(theorems), "discharged": discharged,
            "checker_cmd": "cd lean && lake build %s && lake env lean ../out/Audit_%s.lean   (#print axioms for every theorem)" % (" ".join("Simpleline.Props." + m for m in modules), prop),
            "trusted_base": ["Lean 4.33.0 kernel",
                             "axioms used by this property's theorems: " + ", ".join(sorted({a for t in theorems for a in axioms.get(t, [])}) or ["none"]),
                             "harness/ (correspondence check, adapters, JSON driver glue in lean/Driver)"] + list(mod.ASSUMPTIONS),
            "theorems": {t: axioms.get(t) for t in theorems},
            "lean_files": files, "leanchecker": recheck, "model_instruction_coverage": model_cov,
            "evaluations": len(cases), "distinct_nontrivial": nontrivial, "rule": mod.RULE,
            "samples": samples,
            "traces_validated_against_impl": sum(1 for m in model_obs if m is not None),
            "disagreements_checked": len(disagreements),
            "outcomes": dict(outcomes),
            "corpus_cases": len(corpus),
            "structure_check": ({"checked": True, "problems": structure_problems} if hasattr(mod, "structure") else None),
            "known_findings_seen": dict(known_hits),
            "explanation": mod.THEOREM_NOTE,
        },
        "assumptions": list(mod.ASSUMPTIONS),
        "wall_s": round(time.time() - t0, 2),
        "violations": violations,
    }
    os.makedirs(EVIDENCE, exist_ok=True)
    with open(os.path.join(EVIDENCE, prop + ".json"), "w") as fh:
        json.dump(ev, fh, indent=1, ensure_ascii=False, default=str)
    for l in lines:
        print(l)
    print("%s tier=%s seed=%d: theorems %d/%d, cases %d (model-checked %d, disagreements %d), oracle failures %d, known %s, %.1fs"
          % (prop, tier, seed, discharged, len(theorems), len(cases), ev["coverage"]["traces_validated_against_impl"],
             len(disagreements), len(failing), dict(known_hits), time.time() - t0))
    return 1 if violations else 0
