"""Run cases through the Lean model driver (line protocol: one JSON case in, one JSON result out)."""
import json, os, subprocess, tempfile, threading

VERIF = os.path.dirname(os.path.dirname(os.path.abspath(__file__)))
LEAN = os.path.join(VERIF, "lean")
EXE = os.path.join(LEAN, ".lake", "build", "bin", "sldriver")


class DriverError(Exception):
    pass


def run_model(cases, jobs=None):
    """Return the model's result for every case (same order). Cases are JSON-serialisable dicts."""
    if not cases:
        return []
    if not os.path.exists(EXE):
        raise DriverError("model driver not built: " + EXE)
    jobs = jobs or min(16, max(1, len(cases) // 200))
    chunks = [cases[i::jobs] for i in range(jobs)]
    results = [None] * jobs
    errors = []

    def work(k):
        data = "".join(json.dumps(c, ensure_ascii=False) + "\n" for c in chunks[k]).encode("utf-8")
        try:
            p = subprocess.run([EXE], input=data, stdout=subprocess.PIPE, stderr=subprocess.PIPE, timeout=3600)
        except Exception as e:  # pragma: no cover
            errors.append(repr(e)); return
        if p.returncode != 0:
            errors.append("driver exit %d: %s" % (p.returncode, p.stderr.decode("utf-8", "replace")[-2000:])); return
        lines = p.stdout.decode("utf-8").split("\n")
        if lines and lines[-1] == "":
            lines.pop()
        if len(lines) != len(chunks[k]):
            errors.append("driver returned %d lines for %d cases: %s" % (len(lines), len(chunks[k]), p.stderr.decode("utf-8", "replace")[-2000:])); return
        results[k] = [json.loads(l) for l in lines]

    ths = [threading.Thread(target=work, args=(k,)) for k in range(jobs)]
    for t in ths: t.start()
    for t in ths: t.join()
    if errors:
        raise DriverError("; ".join(errors))
    out = [None] * len(cases)
    for k in range(jobs):
        out[k::jobs] = results[k]
    for c, r in zip(cases, out):
        if isinstance(r, dict) and "fatal" in r:
            raise DriverError("driver rejected case %r: %s" % (c, r["fatal"]))
    return out
