"""Small-scope exhaustive enumeration of loop programs (thorough tier): every program of the shape
     handler A (class U0): first invocation = any sequence of <= 2 actions, later invocations empty
     handler B (class U1): first invocation = any sequence of <= 1 action
     start-up: enq U0, enq U1, enq U0 with one of three priority patterns
   over the action alphabet below (enqueues of both classes at two priorities, nested loop open / close, both processing forms, ordinary exception, exit, force-quit)."""
import itertools


def alphabet(sid):
    return [lambda: ["enq", "U0", 0, None, sid.next()], lambda: ["enq", "U1", 0, None, sid.next()], lambda: ["enq", "U1", -1, None, sid.next()],
            lambda: ["new_loop", "U1", 0, sid.next()], lambda: ["close_loop"], lambda: ["proc", None], lambda: ["proc", "U1"],
            lambda: ["raise_err"], lambda: ["raise_exit"], lambda: ["force_quit"]]


def loop_programs(sid, limit=None):
    A = alphabet(sid); n = 0
    seqs_a = [()] + [(i,) for i in range(len(A))] + list(itertools.product(range(len(A)), repeat=2))
    seqs_b = [()] + [(i,) for i in range(len(A))]
    for prios in ((0, 0, 0), (0, 1, 0), (1, 0, -1)):
        for sa in seqs_a:
            for sb in seqs_b:
                handlers = [dict(cls="U0", hid=0, data=None, scripts=[[A[i]() for i in sa]]), dict(cls="U1", hid=1, data=7, scripts=[[A[i]() for i in sb]])]
                init = [["enq", "U0", prios[0], None, sid.next()], ["enq", "U1", prios[1], None, sid.next()], ["enq", "U0", prios[2], None, sid.next()]]
                yield dict(op="machine", mode="exhaustive", width=80, screens=[], handlers=handlers, init=init, stdin=[], quit_cb=5, quit_screen=None,
                           exc_handler=True, run_empty=True, deliver_at=[])
                n += 1
                if limit and n >= limit: return
