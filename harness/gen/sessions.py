"""Generators of loop / app cases (JSON-friendly: lists, no tuples). Modes:
   loop  - handler programs on the bare event loop API (enqueue, nested loops, waits, force-quit, exceptions)
   app   - chaotic applications: screens x handlers x nested loops x exceptions
   tame  - sessions driven by typed lines: stack operations issued from input(), 5..30 typed lines
"""
KEYS = ["r", "c", "q", "x", "", "1", "c", "c", "q"]


class SidCounter:
    def __init__(self): self.n = 0
    def next(self): self.n += 1; return self.n


def gen_case(rnd, mode, sid=None):
    sid = sid or SidCounter()
    nscr = rnd.randint(1, 4); ncls = 3

    def gact(in_screen=None):
        r = rnd.random()
        if mode == "tame":
            k = rnd.choice(["push", "push", "push_modal", "push_modal", "replace", "close_sig", "redraw_sig", "sched_redraw", "schedule"])
            s = rnd.randrange(nscr)
            if k in ("push", "push_modal", "replace", "schedule"): return [k, s, rnd.choice([None, 1, 2])]
            if k in ("close_sig", "redraw_sig"): return [k, in_screen if in_screen is not None else s]
            return [k]
        if mode == "loop" or r < 0.25:
            k = rnd.choice(["enq", "enq", "enq", "reg_source", "new_loop", "close_loop", "proc", "proc", "force_quit", "raise_exit", "raise_err"]
                           if rnd.random() < 0.5 else ["enq", "enq", "new_loop", "close_loop", "proc"])
            if k == "enq":
                return ["enq", "U%d" % rnd.randrange(ncls), rnd.choice([0, 0, 0, 0, 1, -1, -20, -25, 5]),
                        rnd.choice([None, None, ["src", 0], ["src", 1]]), sid.next()]
            if k == "reg_source": return ["reg_source", ["src", rnd.randrange(2)]]
            if k == "new_loop": return ["new_loop", "U%d" % rnd.randrange(ncls), 0, sid.next()]
            if k == "proc": return ["proc", rnd.choice([None, None, "U0", "U1"])]
            return [k]
        k = rnd.choice(["push", "push", "push_modal", "push_modal", "replace", "close_direct", "close_sig", "redraw_sig", "sched_redraw", "schedule", "get_user_input"])
        s = rnd.randrange(nscr)
        if k in ("push", "push_modal", "replace", "schedule"): return [k, s, rnd.choice([None, 1, 2])]
        if k in ("close_sig", "redraw_sig"): return [k, s if in_screen is None or rnd.random() < 0.3 else in_screen]
        if k == "get_user_input": return [k, s if in_screen is None else in_screen, False]
        return [k]

    def acts(n, in_screen=None):
        return [gact(in_screen) for _ in range(rnd.choice([0, 0, 1, 1, 2, 3]) if n is None else n)]

    screens = []
    for i in range(nscr):
        sc = {}
        for cb in ["setup", "refresh", "show", "prompt", "input", "closed"]:
            lst = []
            for _ in range(rnd.choice([0, 1, 2, 3])):
                ent = {}
                if mode == "tame":
                    if cb == "input" and rnd.random() < 0.5: ent["acts"] = acts(1, i)
                elif rnd.random() < (0.25 if mode == "app" else 0.1): ent["acts"] = acts(None, i)
                if cb == "setup" and rnd.random() < 0.15: ent["ret"] = rnd.choice(["fail_before", "fail_after"])
                if cb == "prompt" and rnd.random() < 0.1: ent["ret"] = "none"
                if cb == "input" and rnd.random() < 0.7:
                    ent["ret"] = rnd.choice(["PROCESSED", "REDRAW", "CLOSE", "DISCARDED", "DISCARDED", "r", "c", "q", "zz", "NONE"])
                lst.append(ent)
            if lst: sc[cb] = lst
        spec = dict(id=i, name="S%d" % i, title=rnd.choice([None, "T%d" % i, "long title " * 5]),
                    text=rnd.choice([None, "hello", "line\n" * rnd.randint(1, 12)]), height=rnd.choice([30, 30, 6, 4, 8]),
                    input_required=rnd.random() < 0.85, no_separator=rnd.random() < 0.1, skip_check=rnd.random() < 0.1, scripts=sc)
        if rnd.random() < 0.3: spec["answer"] = rnd.choice([True, False, None])
        screens.append(spec)
    handlers = []
    for c in range(ncls):
        for _ in range(rnd.choice([0, 1, 1, 2]) if mode != "tame" else 0):
            handlers.append(dict(cls="U%d" % c, hid=len(handlers), data=rnd.choice([None, 7]), scripts=[acts(None) for _ in range(rnd.randint(0, 4))]))
    init = []
    if mode in ("app", "tame") or rnd.random() < 0.5:
        for _ in range(rnd.randint(1, 2)): init.append(["schedule", rnd.randrange(nscr), rnd.choice([None, 3])])
    for _ in range(rnd.randint(0, 6) if mode == "loop" else (rnd.randint(0, 2) if mode == "app" else 0)):
        init.append(["enq", "U%d" % rnd.randrange(ncls), rnd.choice([0, 0, 0, 1, -1, 5]), rnd.choice([None, ["src", 0]]), sid.next()])
    return dict(op="machine", mode=mode, width=rnd.choice([80, 80, 40, 20]), screens=screens, handlers=handlers, init=init,
                stdin=[rnd.choice(KEYS) for _ in range(rnd.randint(0, 10) if mode != "tame" else rnd.randint(5, 30))],
                quit_cb=rnd.choice([None, 9]), quit_screen=rnd.choice([None, None, rnd.randrange(nscr)]), exc_handler=rnd.random() < 0.3,
                run_empty=rnd.random() < 0.3, deliver_at=sorted(rnd.sample(range(1, 60), rnd.choice([0, 0, 3, 8, 20]))))
