"""Generators of widget tree specs (JSON lists understood by harness.impl.render.build and Driver.Json.tree)."""
WORDS = ["a", "bb", "ccc", "dddd", "eeeee-ff", "x" * 12, "", "  ", "é", "-", "--", "a--b", "1)", "\t", "long word here"]
WIDTHS = [1, 2, 3, 5, 8, 10, 13, 20, 21, 40, 80]


def gen_text(rnd):
    k = rnd.choice([0, 1, 1, 2, 3, 5, 9])
    parts = [rnd.choice(WORDS) for _ in range(k)]
    seps = [rnd.choice([" ", " ", "  ", "\n", "\n\n", "\t"]) for _ in range(k)]
    return "".join(p + s for p, s in zip(parts, seps))[: rnd.choice([1000, 1000, 3])]


def gen_tree(rnd, depth, lists_only=False):
    r = rnd.random()
    if depth <= 0 or (r < 0.45 and not lists_only):
        if rnd.random() < 0.1: return ["entry", rnd.choice(["Title", "a longer title here"]), rnd.choice([None, "", "value", "a value of several words"])]
        return ["text", gen_text(rnd)]
    if r < 0.5 and not lists_only: return ["sep", rnd.randint(1, 3)]
    if r < 0.58 and not lists_only: return ["center", gen_tree(rnd, depth - 1)]
    if r < 0.66 and not lists_only:
        return ["checkbox", rnd.choice(["x", "*", "ab", ""]), rnd.choice([None, "", "title", "a long title here"]), rnd.choice([None, "desc text", ""]), rnd.choice([True, False])]
    if r < 0.72 and not lists_only:
        items = share_leaves(rnd, [gen_tree(rnd, depth - 1) for _ in range(rnd.randint(0, 3))])
        # one widget object shown by the window itself and, further down, inside a container item of the same window (there at a narrower width)
        for j, x in enumerate(items):
            if x[0] in ("text", "entry") and rnd.random() < 0.3:
                for c_ in items[j + 1:]:
                    if c_[0] == "list" and c_[6] and not any(y[0] in ("ref", "upref") for y in c_[6]):
                        c_[6][rnd.randrange(len(c_[6]))] = ["upref", j]; break
                break
        return ["window", rnd.choice([None, "", "Title", "a long title of the window"]), items]
    kp = rnd.choice([None, ["", ") ", 1], ["", ") ", 1], ["", ") ", rnd.choice([0, 5, 98, -2])], ["(", ")", 1]])
    items = [gen_tree(rnd, depth - 1) for _ in range(rnd.choice([0, 1, 2, 3, 4, 5, 7, 11]))]
    # (a numbered list renders every item first - at a width that depends on its label - and draws afterwards: one object in two cells is not two equal
    # items there; without numbering every cell gets the same width)
    if kp is None: items = share_leaves(rnd, items)
    return ["list", rnd.random() < 0.4, rnd.choice([1, 1, 2, 2, 3, 4, 0]), rnd.choice([None, None, None, 6, 12]), rnd.choice([0, 1, 3, 3]), kp, items]


def share_leaves(rnd, items):
    """now and then the application adds the very same leaf widget object to a container twice (e.g. one 'n/a' text in several cells)"""
    if len(items) >= 2 and rnd.random() < 0.12:
        leaves = [j for j, x in enumerate(items) if x[0] in ("text", "entry", "checkbox", "sep")]
        if leaves:
            j = rnd.choice(leaves)
            later = [i for i in range(j + 1, len(items))]
            if later:
                for i in rnd.sample(later, rnd.randint(1, min(2, len(later)))): items[i] = ["ref", j]
    return items


def gen_column(rnd):
    """a ColumnWidget: columns (width or None, widgets), spacing, and the widths it is rendered at in turn"""
    def item():
        r = rnd.random()
        if r < 0.5: return ["text", gen_text(rnd)]
        if r < 0.65: return ["entry", rnd.choice(["Title", "a longer title here", "t"]), rnd.choice([None, "", "value", "a value of several words"])]
        if r < 0.75: return ["sep", rnd.randint(1, 2)]
        return gen_tree(rnd, 1)
    cols = [[rnd.choice([None, None, 0, 3, 8, 12, 20]), [item() for _ in range(rnd.choice([0, 1, 1, 2, 3]))]] for _ in range(rnd.randint(1, 4))]
    w = rnd.choice(WIDTHS)
    return {"op": "column", "cols": cols, "spacing": rnd.choice([0, 1, 1, 3]), "widths": rnd.choice([[w], [w, w], [w, rnd.choice(WIDTHS), w]])}


def container_paths(spec, prefix=()):
    """paths (child indices) to every container nested strictly inside the tree"""
    out = []
    kids = spec[2] if spec[0] == "window" else spec[6] if spec[0] == "list" else [spec[1]] if spec[0] == "center" else []
    for i, k in enumerate(kids):
        if k[0] in ("ref", "upref"): continue
        if k[0] in ("window", "list"): out.append(list(prefix) + [i])
        out += container_paths(k, tuple(prefix) + (i,))
    return out


def gen_ops(rnd, lo=1, hi=4, tree=None):
    ops = []
    for _ in range(rnd.randint(lo, hi)):
        r = rnd.random()
        if r < 0.3: ops.append(["add", gen_tree(rnd, 1)])
        elif r < 0.55 and tree is not None:
            paths = container_paths(tree)
            if paths: ops.append(["add_at", rnd.choice(paths), gen_tree(rnd, 1)])
        ops.append(["render", rnd.choice(WIDTHS) if rnd.random() < 0.6 or not ops else next(o[1] for o in reversed(ops) if o[0] == "render") if any(o[0] == "render" for o in ops) else rnd.choice(WIDTHS)])
    return ops
