"""Session adapter: run a loop/app case on the REAL simpleline (imported from /repo's working tree) and log the same events as
the abstract machine (lean/Simpleline/Model/Machine.lean).  Patches only below the repo (queue.Queue.get, sys.stdout) and at the
repo's own test seam InputHandlerRequest._get_input; see DESIGN.md section 5."""
import io, os, queue, sys, threading, time
sys.path.insert(0, os.environ.get("VERIF_REPO", "/repo"))      # VERIF_REPO: only for trying a change in a scratch worktree (never set by the registered commands)
from simpleline import App
from simpleline.event_loop import AbstractSignal, ExitMainLoop
from simpleline.event_loop.main_loop import MainLoop
from simpleline.event_loop.signals import ExceptionSignal
from simpleline.render.containers import WindowContainer
from simpleline.render.prompt import Prompt
from simpleline.render.screen import UIScreen, InputState
from simpleline.render.widgets import TextWidget
from simpleline.errors import NothingScheduledError
import simpleline.input.input_handler as ih

threading.excepthook = lambda args: None       # a reader thread that dies (e.g. the loop is gone) is not reported on stderr
class Blocked(BaseException): pass
class Budget(BaseException): pass
EVENT_BUDGET = 6000        # observations per session; beyond it the session is cut with outcome "fuel"
CALL_BUDGET = 20000        # process_signals calls per session (a spinning wait_on_input logs nothing)
class Render:
    """rendering oracle shared by machine and adapter checks (rendering is modelled separately)"""
    @staticmethod
    def window_lines(spec, width):
        w = WindowContainer(spec.get("title"))
        if spec.get("text"): w.add(TextWidget(spec["text"]))
        w.render(width); return w.get_lines()
    @staticmethod
    def prompt_text(p, width):
        if p == "default" or p is None:
            pr = Prompt(); pr.add_refresh_option(); pr.add_continue_option(); pr.add_quit_option(); s = str(pr)
        elif p == "cont": s = str(Prompt("\nPress %s to continue" % Prompt.ENTER))
        else: s = str(p)
        t = TextWidget(s); t.render(width)
        return "\n".join(t.get_lines()) + " "

def _join(t, timeout):
    """join a reader thread; a thread that is listed but not started yet (it sits between start() and its bootstrap) is waited for briefly instead"""
    for _ in range(200):
        try:
            t.join(timeout); return
        except RuntimeError:
            time.sleep(0.001)


class Session:
    def __init__(self, lines):
        self.lines = list(lines); self.gate = threading.Semaphore(0); self.waiting = 0; self.lock = threading.Lock(); self.dead = False
SESS = None
XLOG = []          # implementation-only observations for the property oracles: [event, context]; not compared with the model
OUTBUF = [None]
_QUIDS = {}
def _uid(obj):
    """small stable number of an object (the object is kept, so that a number is never reused for another object)"""
    # the number is written on the object itself, so that the adapter keeps nothing alive (a queue object holds its sources, a stack entry its screen); objects
    # that take no attribute are kept instead
    n = getattr(obj, "_verif_uid", None)
    if n is not None and _QUIDS.get(("n", n)) == id(obj): return n
    k = id(obj)
    if k in _QUIDS and _QUIDS[k][1] is obj: return _QUIDS[k][0]
    n = _QUIDS["count"] = _QUIDS.get("count", 0) + 1
    try:
        obj._verif_uid = n; _QUIDS[("n", n)] = id(obj)
    except Exception:
        _QUIDS[k] = (n, obj)
    return n
def _ctx():
    """context of an observation: nesting depth, identity of the active level, the screen stack, stdout position"""
    ctx = {}
    try:
        loop = App.get_event_loop()
        qs = getattr(loop, "_event_queues", None)
        if qs is not None:
            ctx["depth"] = len(qs)
            ctx["run_loop"] = bool(getattr(loop, "_run_loop", True))
            ctx["lvl"] = _uid(loop._active_queue)
            ctx["levels"] = [_uid(q) for q in qs]
        else:
            ctx["depth"] = len(getattr(loop, "_event_loops", []))
        dump = App.get_scheduler().dump_stack().split("\n")[2:-2]
        ctx["stack"] = [l[len("ScreenData("):-1].split(",") for l in reversed(dump)]      # bottom ... top: [name, args, modal]
        ents = getattr(getattr(App.get_scheduler(), "_screen_stack", None), "_screens", None)
        if ents is not None: ctx["top"] = _uid(ents[-1]) if ents else None           # identity of the top stack entry (the entry object, not the screen)
    except Exception as e:      # pragma: no cover
        ctx["ctx_error"] = repr(e)
    if OUTBUF[0] is not None:
        ctx["out"] = OUTBUF[0].tell()
    nr = sum(1 for t in threading.enumerate() if t.name == "SimplelineInputThread")
    if nr > 1: ctx["readers"] = nr          # more than one console reader alive at this moment
    return ctx
def xlog(ev):
    if threading.current_thread().name == "SimplelineInputThread":
        XLOG.append([list(ev), {"reader": True, "out": OUTBUF[0].tell() if OUTBUF[0] is not None else None}])
    else:
        XLOG.append([list(ev), _ctx()])
class Log(list):
    deliver_at = set()
    def append(self, ev):
        list.append(self, ev)
        xlog(ev)
        if len(XLOG) > EVENT_BUDGET and threading.current_thread().name != "SimplelineInputThread": raise Budget()
        if len(self) in Log.deliver_at and threading.current_thread().name != "SimplelineInputThread":
            if SESS is not None and SESS.waiting > 0 and not SESS.dead:
                ths = [t for t in threading.enumerate() if t.name == "SimplelineInputThread"]
                SESS.gate.release()
                for t in ths: _join(t, 5)
LOG = Log()

def fake_input():
    with SESS.lock: SESS.waiting += 1
    SESS.gate.acquire()
    with SESS.lock: SESS.waiting -= 1
    if SESS.dead: raise EOFError()
    if not SESS.lines:
        LOG.append(("read", "")); raise EOFError()
    l = SESS.lines.pop(0); LOG.append(("read", l)); return l
REAL_GET_INPUT = ih.InputHandlerRequest.__dict__["_get_input"]        # the library's own console read (used by the rawread cases of C06)
ih.InputHandlerRequest._get_input = staticmethod(fake_input)

_orig_get = queue.Queue.get
def _get(self, block=True, timeout=None):
    if block and self.empty():
        ths = [t for t in threading.enumerate() if t.name == "SimplelineInputThread"]
        if ths:
            for _ in range(5000):
                if SESS.waiting > 0: break
                time.sleep(0.0005)
            SESS.gate.release()
            for t in ths: _join(t, 5)
        if self.empty(): raise Blocked()
    return _orig_get(self, block, timeout)
queue.Queue.get = _get
def deliver_hook():
    ths = [t for t in threading.enumerate() if t.name == "SimplelineInputThread"]
    if not ths: return False
    for _ in range(5000):
        if SESS.waiting > 0: break
        time.sleep(0.0005)
    SESS.gate.release()
    for t in ths: _join(t, 5)
    return True

# wait until the reader printed its prompt (the machine prints it at request time)
from simpleline.input.input_threading import InputRequest
_orig_start = InputRequest.start_thread
def _start(self):
    _orig_start(self)
    for _ in range(5000):
        if SESS.waiting > 0: break
        time.sleep(0.0005)
InputRequest.start_thread = _start

RET = {"PROCESSED": InputState.PROCESSED, "REDRAW": InputState.PROCESSED_AND_REDRAW,
       "CLOSE": InputState.PROCESSED_AND_CLOSE, "DISCARDED": InputState.DISCARDED}

from simpleline.event_loop.signals import InputReadySignal, InputReceivedSignal, RenderScreenSignal, CloseScreenSignal
FRAMEWORK_CLASSES = {"InputReady": InputReadySignal, "InputReceived": InputReceivedSignal, "Render": RenderScreenSignal, "Close": CloseScreenSignal, "Exception": ExceptionSignal}

class LazyScreens(dict):
    """screen objects created when they are first needed (and forgotten by the application when they were closed: see Scr.closed)"""
    def __init__(self, W): dict.__init__(self); self.W = W
    def __missing__(self, k):
        spec = next(s_ for s_ in self.W.case["screens"] if s_["id"] == k)
        self[k] = make_screen(self.W, spec); return self[k]


class World:
    def __init__(self, case):
        self.silent = False
        self.case = case; self.screens = {}; self.srcs = {}; self.classes = {}; self.ucalls = {}; self.sigs = {}
    def obj(self, ref):
        if ref is None: return None
        ref = tuple(ref)
        if ref[0] == "scr": return self.screens[ref[1]]
        # (every other source object is falsy - an empty container-like object: a source is "anything", identified by equality / hash, not by its truth value)
        if len(ref) > 1 and ref[1] == 2:
            # a source identified by its value: a fresh, equal tuple at every use (registered with one object, signals carry another)
            return tuple(["value-source", int(ref[1])])
        if ref not in self.srcs:
            falsy = len(ref) > 1 and isinstance(ref[1], int) and ref[1] % 2 == 1
            self.srcs[ref] = type("Src", (), {"__len__": lambda s_: 0} if falsy else {})()
        return self.srcs[ref]
    def cls(self, name):
        if name in FRAMEWORK_CLASSES: return FRAMEWORK_CLASSES[name]       # an application handler registered for one of the framework's own signal classes
        if name not in self.classes:
            # distinct classes; with case["same_name"] they all carry the same __name__ (identity, not the name, is what a waiter waits for)
            base = (self.case.get("derive") or {}).get(name)       # a signal class deriving from another signal class (dispatch is by exact class)
            body = {}
            if self.case.get("prio_property") and not base:
                # a signal class that computes its priority (overrides the public `priority` property; the base class's private field keeps its default)
                def __init__(s_, source, priority=0): AbstractSignal.__init__(s_, source); s_._vp = priority
                body = {"__init__": __init__, "priority": property(lambda s_: s_._vp)}
            self.classes[name] = type("Same" if self.case.get("same_name") else name, (self.cls(base) if base else AbstractSignal,), body)
        return self.classes[name]
    def act(self, a, me=None):
        xlog(("api",) + tuple(a))
        if len(XLOG) > EVENT_BUDGET: raise Budget()
        self._act(a, me)
        xlog(("api<", a[0]))
    def _act(self, a, me=None):
        loop = App.get_event_loop(); sch = App.get_scheduler(); k = a[0]
        if k == "enq":
            # an id used before means: the application enqueues the very same signal object again (possibly while an earlier occurrence is still pending)
            if a[4] in self.sigs: s = self.sigs[a[4]]
            else:
                s = self.cls(a[1])(self.obj(a[3]), a[2]); s.sid = a[4]; self.sigs[a[4]] = s
            # from a screen callback every other signal is emitted through the screen's SignalHandler.emit
            if me is not None and hasattr(me, "emit") and a[4] % 2 == 0: me.emit(s)
            else: loop.enqueue_signal(s)
        elif k == "reg_source": loop.register_signal_source(self.obj(a[1]))
        elif k == "reg_handler":
            # a handler the application registers while the loop is running (an entry of case["handlers"] marked late)
            h = self.late[a[1]]; loop.register_signal_handler(self.cls(h["cls"]), self.funcs.setdefault(h["hid"], self.mkh(h)), h.get("data"))
        elif k == "new_loop":
            # (an optional fifth element: the source of the start signal - adapter-only, such cases are not compared with the model)
            s = self.cls(a[1])(self.obj(a[4]) if len(a) > 4 else None, a[2]); s.sid = a[3]; loop.execute_new_loop(s); LOG.append(("new<",))
        elif k == "close_loop": loop.close_loop(); LOG.append(("closed<",))
        elif k == "proc":
            loop.process_signals(self.cls(a[1]) if a[1] is not None else None); LOG.append(("proc<",))
        elif k == "force_quit": loop.force_quit()
        elif k == "raise_exit": raise ExitMainLoop()
        elif k == "raise_err": raise RuntimeError("scripted")
        elif k in ("schedule", "push", "push_modal", "replace"):
            # every other stack operation goes through the public facade simpleline.render.screen_handler.ScreenHandler (which forwards to the scheduler)
            self.nstack = getattr(self, "nstack", 0) + 1
            if self.nstack % 2 == 0:
                from simpleline.render.screen_handler import ScreenHandler
                tgt = ScreenHandler
            else: tgt = sch
            if k == "schedule": tgt.schedule_screen(self.screens[a[1]], a[2])
            elif k == "push": tgt.push_screen(self.screens[a[1]], a[2])
            elif k == "push_modal": tgt.push_screen_modal(self.screens[a[1]], a[2]); LOG.append(("modal<",))
            else: tgt.replace_screen(self.screens[a[1]], a[2])
        elif k == "close_direct": sch.close_screen()
        elif k == "close_sig": self.screens[a[1]].close()
        elif k == "redraw_sig":
            # every other time through SignalHandler.create_and_emit (the same signal: a RenderScreenSignal of default priority whose source is the screen)
            self.nredraw = getattr(self, "nredraw", 0) + 1
            if self.nredraw % 2 == 0:
                from simpleline.event_loop.signals import RenderScreenSignal
                self.screens[a[1]].create_and_emit(RenderScreenSignal)
            else: self.screens[a[1]].redraw()
        elif k == "sched_redraw": sch.redraw()
        elif k == "set_width": App.get_configuration().width = a[1]       # (adapter-only: the model's width is a constant of the program)
        elif k == "get_user_input": self.screens[a[1]].get_user_input("msg", a[2]); LOG.append(("gui<",))
        else: raise AssertionError(a)

def make_screen(W, spec):
    class Scr(UIScreen):
        def __init__(s):
            super().__init__(title=spec.get("title"), screen_height=spec.get("height", 30))
            s.sid = spec["id"]; s.n = {}
            s.input_required = spec.get("input_required", True)
            s.no_separator = spec.get("no_separator", False)
            s.input_manager.skip_concurrency_check = spec.get("skip_check", False)
            if spec.get("hidden"):
                # hidden (password) input: the getpass function is replaced through the public password_func; it prints the prompt and reads from the gated console
                s.hide_user_input = True
                s.password_func = lambda prompt: (sys.stdout.write(prompt), sys.stdout.flush(), xlog(("hidden-read",)), fake_input())[3]
            if spec.get("answer", "noattr") != "noattr": s.answer = spec["answer"]
        def __str__(s): return spec["name"]
        def _take(s, cb):
            i = s.n.get(cb, 0); s.n[cb] = i + 1
            sc = (spec.get("scripts") or {}).get(cb, [])
            return sc[i] if i < len(sc) else {}
        def _run(s, ent):
            for a in ent.get("acts", []): W.act(a, s)
            return ent.get("ret")
        def _script(s, cb): return s._run(s._take(cb))
        def setup(s, args):
            if W.silent: return UIScreen.setup(s, args)
            LOG.append(("cb", s.sid, "setup", args)); r = s._script("setup")
            if r == "fail_before":
                xlog(("cb<", s.sid, "setup", False)); return False
            UIScreen.setup(s, args)
            xlog(("cb<", s.sid, "setup", r != "fail_after"))
            return r != "fail_after"
        def refresh(s, args=None):
            if W.silent: return UIScreen.refresh(s, args)
            LOG.append(("cb", s.sid, "refresh", args)); ent = s._take("refresh"); UIScreen.refresh(s, args)
            if spec.get("text"): s.window.add(TextWidget(spec["text"]))
            s._run(ent); xlog(("cb<", s.sid, "refresh"))
        def show_all(s):
            if W.silent: return UIScreen.show_all(s)
            LOG.append(("cb", s.sid, "show")); ent = s._take("show"); UIScreen.show_all(s); s._run(ent); xlog(("cb<", s.sid, "show"))
        def prompt(s, args=None):
            if W.silent: return UIScreen.prompt(s, args)
            LOG.append(("cb", s.sid, "prompt", args)); r = s._script("prompt")
            if r == "none": return None
            return UIScreen.prompt(s, args)
        def input(s, args, key):
            if W.silent: return key
            if W.case.get("lazy_screens"):
                import gc; gc.collect()
            LOG.append(("cb", s.sid, "input", args, key)); r = s._script("input")
            if r is None: return key
            if r == "NONE": return None
            return RET.get(r, r)
        def closed(s):
            if W.silent: return None
            LOG.append(("cb", s.sid, "closed")); s._script("closed"); xlog(("cb<", s.sid, "closed"))
            if W.case.get("lazy_screens") and s.sid != 0: W.screens.pop(s.sid, None)       # the application forgets a closed dialog
    return Scr()

def prelife(W):
    """an earlier life of the application: App.initialize(), every screen object of the case shown once on its own and answered with the quit key, the application
    ends; the callbacks are the base class's (nothing is logged, no script is consumed). The application then marks its screens as not set up (public setter) and
    starts over with App.initialize(), which is documented as callable again: from there on everything must be as in a first life."""
    global SESS
    for scr in W.screens.values():
        SESS = Session(["q"]); App.initialize(); App.get_configuration().width = 80
        W.silent = True
        buf = io.StringIO(); old = sys.stdout, sys.stderr; sys.stdout = sys.stderr = buf; OUTBUF[0] = buf
        try:
            App.get_scheduler().schedule_screen(scr)
            try: App.run()
            except BaseException: pass
        finally:
            sys.stdout, sys.stderr = old; OUTBUF[0] = None; W.silent = False
            for t in [t for t in threading.enumerate() if t.name == "SimplelineInputThread"]:
                SESS.dead = True; SESS.gate.release(); _join(t, 2)
        scr.screen_ready = False


def run_real(case, loopkind="main"):
    global SESS
    W0 = None
    if case.get("prelife") and loopkind == "main" and case.get("screens"):
        LOG.clear(); Log.deliver_at = set(); del XLOG[:]; _QUIDS.clear(); OUTBUF[0] = None
        App.initialize(); W0 = World(case)
        for spec in case["screens"]: W0.screens[spec["id"]] = make_screen(W0, spec)
        prelife(W0)
    SESS = Session(case["stdin"]); LOG.clear(); Log.deliver_at = set(case.get("deliver_at", [])); del XLOG[:]; _QUIDS.clear(); OUTBUF[0] = None
    if loopkind == "glib":
        sys.path.insert(0, os.path.join(os.path.dirname(os.path.abspath(__file__)), "fakegi"))
        from gi.repository import GLib
        # the same reader schedule as on MainLoop (where a typed line is handed in when the loop blocks on an empty queue): on GLib a line is handed in when a
        # blocking iteration finds nothing ready, or when the polling loop of a *waiting* processing call does - not inside a single non-blocking iteration of
        # process_signals() without return_after, which MainLoop's counterpart never waits in
        polling = [False]
        GLib.reset(); GLib.on_idle = lambda may_block=True: (may_block or polling[0]) and deliver_hook()
        from simpleline.event_loop.glib_event_loop import GLibEventLoop
        class BudgetLoop(GLibEventLoop):
            calls = 0
            def process_signals(self, return_after=None):
                BudgetLoop.calls += 1
                if BudgetLoop.calls > 20000: raise GLib.Blocked()
                old = polling[0]; polling[0] = return_after is not None
                try:
                    return super().process_signals(return_after)
                finally:
                    polling[0] = old
        App.initialize(event_loop=BudgetLoop())
    else:
        class BudgetMainLoop(MainLoop):
            calls = 0
            def process_signals(self, return_after=None):
                BudgetMainLoop.calls += 1
                if BudgetMainLoop.calls > CALL_BUDGET: raise Budget()
                return super().process_signals(return_after)
        App.initialize(event_loop=BudgetMainLoop())
    App.get_configuration().width = case.get("width", 80)
    if case.get("width", 80) == 80 and len(case.get("stdin") or []) % 2 == 0:
        # the default width restored through the public clear_width() after another width had been configured
        App.get_configuration().width = 33; App.get_configuration().clear_width()
    App.get_configuration().should_run_with_empty_stack = bool(case.get("run_empty"))
    W = W0 or World(case); loop = App.get_event_loop()
    if W0 is None:
        if case.get("lazy_screens"): W.screens = LazyScreens(W)
        else:
            for spec in case["screens"]: W.screens[spec["id"]] = make_screen(W, spec)
    if case.get("quit_screen") is not None: App.get_scheduler().quit_screen = W.screens[case["quit_screen"]]
    def mkh(h):
        def f(sig, data):
            hid = h["hid"]; i = W.ucalls.get(hid, 0); W.ucalls[hid] = i + 1
            LOG.append(("H", hid, getattr(sig, "sid", None), data, len(getattr(loop, "_event_queues", None) or getattr(loop, "_event_loops", []))))
            sc = h["scripts"]
            for a in (sc[i] if i < len(sc) else []): W.act(a)
            LOG.append(("h<", hid))
        return f
    funcs = {}; W.funcs = funcs; W.mkh = mkh; W.late = {h["hid"]: h for h in case.get("handlers", []) if h.get("late")}
    class _Receiver:
        """an application object whose bound method is the handler; nothing but the registration refers to it"""
        def __init__(self, f): self.f = f
        def on_signal(self, sig, data): self.f(sig, data)
    hid_count = {}
    for h in case.get("handlers", []): hid_count[h["hid"]] = hid_count.get(h["hid"], 0) + 1
    for h in case.get("handlers", []):
        if h.get("late"): continue          # registered by a reg_handler action
        # two entries with the same handler id register the SAME callback object again (same class, same data): a signal then reaches it twice
        f = funcs.setdefault(h["hid"], mkh(h))
        if h["hid"] % 2 == 1 and hid_count[h["hid"]] == 1:
            f = _Receiver(f).on_signal          # every other handler is a bound method of an object the application does not keep
        elif h["hid"] % 4 == 2 and hid_count[h["hid"]] == 1:
            import functools
            f = functools.partial(f)            # a partial object (a callable without __name__)
        elif h["hid"] % 4 == 0 and h["hid"] > 0 and hid_count[h["hid"]] == 1:
            class _Call:
                def __init__(self, g): self.g = g
                def __call__(self, sig, data): return self.g(sig, data)
            f = _Call(f)                        # a callable object
        if W.screens and h["hid"] % 3 == 2: next(iter(W.screens.values())).connect(W.cls(h["cls"]), f, h.get("data"))       # SignalHandler.connect of a screen
        else: loop.register_signal_handler(W.cls(h["cls"]), f, h.get("data"))
    import gc; gc.collect()
    if case.get("exc_handler"):
        exc_calls = [0]
        def on_exc(s_, d):
            exc_calls[0] += 1; LOG.append(("EXC-handled",))
            if exc_calls[0] in (case.get("exc_raises") or []): raise RuntimeError("the exception handler fails")     # adapter-only (such cases are not compared with the model)
        loop.register_signal_handler(ExceptionSignal, on_exc)
    if case.get("quit_cb") is not None:
        if case.get("quit_cb_first") is not None:
            # the application registers a quit callback and later replaces it (other argument): only the last registration counts
            loop.set_quit_callback(lambda d: LOG.append(("quitcb", d)), case["quit_cb_first"])
        loop.set_quit_callback(lambda d: LOG.append(("quitcb", d)), case["quit_cb"])
    out = io.StringIO(); err = io.StringIO(); old = sys.stdout, sys.stderr; sys.stdout, sys.stderr = out, err; OUTBUF[0] = out
    try:
        try:
            for a in case["init"]: W.act(a)
            App.run(); outcome = ("returned",)
        except Blocked: outcome = ("blocked",)
        except Budget: outcome = ("fuel",)
        except SystemExit as e: outcome = ("killed", e.code)
        except NothingScheduledError: outcome = ("raised", "NothingScheduled", None)
        except ExitMainLoop: outcome = ("raised", "exit", None)
        except BaseException as e:
            if type(e).__name__ == "CaseTimeout": raise          # the per-case watchdog of the harness: the session hangs (reported as such, not as an outcome)
            outcome = ("blocked",) if type(e).__name__ == "Blocked" else ("raised", "err", type(e).__name__)
    finally:
        try: xlog(("end",))
        except BaseException: pass
        sys.stdout, sys.stderr = old; OUTBUF[0] = None
        snapshot = list(LOG)
        # release any reader still waiting so threads do not pile up
        for t in [t for t in threading.enumerate() if t.name == "SimplelineInputThread"]:
            SESS.dead = True; SESS.gate.release(); _join(t, 2)
    run_real.xlog = [list(x) for x in XLOG]; run_real.stderr = err.getvalue()
    return outcome, snapshot, out.getvalue()


def run_inputs(case):
    """C18: drive InputHandler / PasswordInputHandler objects directly through their public API.
    ops: ["req", i, skip, hidden] | ["deliver"] | ["proc"] | ["wait", i]"""
    global SESS
    from simpleline.input.input_handler import InputHandler, PasswordInputHandler
    SESS = Session(case["stdin"]); LOG.clear(); Log.deliver_at = set(); del XLOG[:]; _QUIDS.clear(); OUTBUF[0] = None
    App.initialize(); App.get_configuration().width = 80
    loop = App.get_event_loop()
    handlers = {}; calls = {}; events = []
    out = io.StringIO(); err = io.StringIO(); old = sys.stdout, sys.stderr; sys.stdout, sys.stderr = out, err; OUTBUF[0] = out
    class Requester:
        def __init__(s, i): s.i = i
        def __str__(s): return "R%d" % s.i
    try:
        for op in case["ops"]:
            k = op[0]
            try:
                if k == "req":
                    _, i, skip, hidden = op[:4]; rearm = op[4] if len(op) > 4 else 0
                    h = (PasswordInputHandler if hidden else InputHandler)(source=Requester(i))
                    if hidden: h.set_pass_func(lambda prompt: (sys.stdout.write(prompt), fake_input())[1])
                    h.skip_concurrency_check = skip
                    calls[i] = []
                    def mk(i, h, left):
                        def cb(v):
                            calls[i].append(v)
                            if left[0] > 0:
                                # the answer callback asks a follow-up question with the same handler object
                                left[0] -= 1; h.set_callback(cb); h.get_input("p%d again" % i)
                        return cb
                    h.set_callback(mk(i, h, [rearm]))
                    handlers[i] = h
                    h.get_input("p%d" % i)
                    events.append(["req", i, "ok"])
                elif k == "deliver":
                    events.append(["deliver", deliver_hook()])
                elif k == "proc":
                    for _ in range(4): loop.process_signals()
                    events.append(["proc"])
                elif k == "wait":
                    handlers[op[1]].wait_on_input(); events.append(["wait", op[1], "returned"])
            except KeyError as e:
                events.append([k] + list(op[1:2]) + ["KeyError", str(e.args[0]) if e.args else ""])
            except Blocked:
                events.append([k] + list(op[1:2]) + ["blocked"])
            except Budget:
                events.append([k] + list(op[1:2]) + ["livelock"])
    finally:
        sys.stdout, sys.stderr = old; OUTBUF[0] = None
        for t in [t for t in threading.enumerate() if t.name == "SimplelineInputThread"]:
            SESS.dead = True; SESS.gate.release(); _join(t, 2)
    state = {str(i): {"value": h.value, "received": h.input_received(), "successful": h.input_successful(), "callbacks": calls[i]} for i, h in handlers.items()}
    return {"events": events, "handlers": state, "reads": [e[1] for e in LOG if e[0] == "read"], "out": out.getvalue()}
