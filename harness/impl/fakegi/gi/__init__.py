"""Design-time stand-in for PyGObject's `gi` (GLib only). Not framework code."""
def require_version(name, version):
    if name != "GLib": raise ValueError(name)
