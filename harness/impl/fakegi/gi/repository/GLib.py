"""Stand-in for gi.repository.GLib: the subset simpleline uses, semantics per the GLib main-loop docs.

 - idle sources are always ready; default idle priority 200
 - MainContext.iteration(may_block): collect, in attach order, all ready sources of the numerically lowest
   priority present (the batch); dispatch each one that is still attached and not being dispatched;
   a source whose callback returns a falsy value is destroyed; returns True if something was dispatched
 - a source being dispatched is not re-entered (no can_recurse); a nested iteration on the same context
   abandons the rest of the outer batch (those sources stay attached and are collected again)
 - MainLoop.run(): while running: context.iteration(True);  quit(): running = False
 - iteration(True) with nothing ready would block for ever -> raises Blocked
"""
PRIORITY_DEFAULT_IDLE = 200
class Blocked(BaseException): pass

class Source:
    _n = 0
    def __init__(self):
        self.priority = PRIORITY_DEFAULT_IDLE; self.cb = None; self.data = None
        self.context = None; self.destroyed = False; self.in_call = False
        Source._n += 1; self.seq = None
    def set_priority(self, p): self.priority = p
    def set_callback(self, func, data=None): self.cb = func; self.data = data
    def attach(self, context):
        self.context = context; context._attach(self)
    def destroy(self):
        self.destroyed = True
        if self.context is not None and self in self.context.sources: self.context.sources.remove(self)

class MainContext:
    def __init__(self):
        self.sources = []; self._seq = 0; self._epoch = 0
    def _attach(self, s):
        self._seq += 1; s.seq = self._seq; self.sources.append(s)
    def iteration(self, may_block):
        self._epoch += 1; my = self._epoch
        global budget
        budget -= 1
        if budget < 0: raise Blocked()
        ready = [s for s in self.sources if not s.destroyed and not s.in_call]
        if not ready and on_idle is not None and on_idle(may_block):
            ready = [s for s in self.sources if not s.destroyed and not s.in_call]
        if not ready:
            if may_block: raise Blocked()
            self._spins = getattr(self, "_spins", 0) + 1
            if self._spins > 200: raise Blocked()
            return False
        self._spins = 0
        p = min(s.priority for s in ready)
        batch = [s for s in ready if s.priority == p]       # attach order
        did = False
        for s in batch:
            if self._epoch != my: break                      # a nested iteration abandoned this batch
            if s.destroyed or s.in_call: continue
            s.in_call = True
            try: keep = s.cb(s.data)
            finally: s.in_call = False
            did = True
            if not keep: s.destroy()
        return did

_default = None
on_idle = None
budget = 20000
class MainLoop:
    def __init__(self, context=None):
        global _default
        if context is None:
            if _default is None: _default = MainContext()
            context = _default
        self.context = context; self.running = False
    def get_context(self): return self.context
    def run(self):
        self.running = True
        while self.running: self.context.iteration(True)
    def quit(self): self.running = False
    def is_running(self): return self.running

def idle_source_new(): return Source()
def reset():
    global _default, budget
    _default = None; budget = 20000
