from . import GLib
