"""Adapters that run pure-layer cases on the real simpleline code (imported from /repo's working tree)."""
import os, sys, textwrap
REPO = os.environ.get("VERIF_REPO", "/repo")
if REPO not in sys.path:
    sys.path.insert(0, REPO)
from simpleline.render import widgets as RW, containers as RC   # noqa: E402
from simpleline.render.prompt import Prompt                       # noqa: E402


def err_name(e):
    if isinstance(e, ZeroDivisionError): return "ZeroDivision"
    if isinstance(e, ValueError): return "ValueError"
    if isinstance(e, KeyError): return "KeyError"
    if isinstance(e, IndexError): return "IndexError"
    return "Other:" + type(e).__name__


def obs(w):
    return {"lines": w.get_lines(), "cur": list(w.cursor)}


def run_text(case):
    # (a text may be handed over as bytes: TextWidget decodes it with the default encoding, utf-8)
    w = RW.TextWidget(case["text"].encode("utf-8") if case.get("bytes") else case["text"])
    try:
        w.render(case["w"])
    except Exception as e:
        return {"err": err_name(e)}
    return obs(w)


def run_textseq(case):
    """one TextWidget object rendered at several widths in turn"""
    w = RW.TextWidget(case["text"]); out = []
    for width in case["widths"]:
        try:
            w.render(width); out.append(obs(w))
        except Exception as e:
            out.append({"err": err_name(e)})
    return out


def run_wrap(case):
    tw = textwrap.TextWrapper(width=case["w"])
    chunks = tw._split(tw._munge_whitespace(case["text"]))
    return {"lines": textwrap.wrap(case["text"], case["w"]), "chunks": chunks}


def run_int(case):
    try:
        return {"val": str(int(case["s"]))}
    except ValueError:
        return {"val": None}


def _mk_widget(spec, max_width=None):
    w = RW.Widget(max_width=max_width)
    w._buffer = [list(l) for l in spec["buf"]]       # Widget(default=…) cannot express an empty first row; set the documented content directly
    w.set_cursor_position(*spec.get("cur", [0, 0]))
    return w


def run_draw(case):
    t = _mk_widget(case["target"]); s = _mk_widget({"buf": case["src"]})
    t.draw(s, row=case.get("row"), col=case.get("col"), block=case["block"])
    return obs(t)


def run_write(case):
    t = _mk_widget(case["target"], case.get("maxw"))
    t.write(case["text"], row=case.get("row"), col=case.get("col"), width=case.get("width"), block=case["block"])
    return obs(t)


def run_gridseq(case):
    """draw / write calls in sequence on one widget object; the source widgets are kept (and may be drawn again): what they show afterwards is reported too"""
    t = _mk_widget(case["target"]); out = []; srcs = {}
    for i, st in enumerate(case["steps"]):
        if st["op"] == "draw":
            src = srcs[st["src_ref"]] if st.get("src_ref") is not None else _mk_widget({"buf": st["src"]})
            srcs[i] = src
            t.draw(src, row=st.get("row"), col=st.get("col"), block=st["block"])
        else:
            t.write(st["text"], row=st.get("row"), col=st.get("col"), width=st.get("width"), block=st["block"])
        out.append(obs(t))
    return {"steps": out, "srcs_after": {str(i): w.get_lines() for i, w in srcs.items()}}


def build(spec, shared=None):
    k = spec[0]
    if k == "text": return RW.TextWidget(spec[1])
    if k == "entry": return RW.EntryWidget(spec[1], spec[2])
    if k == "sep": return RW.SeparatorWidget(spec[1])
    if k == "center": return RW.CenterWidget(build(spec[1]))
    if k == "checkbox": return RW.CheckboxWidget(key=spec[1], title=spec[2], text=spec[3], completed=spec[4])
    if k == "window":
        c = RC.WindowContainer(spec[1]); built = []
        for x in spec[2]:
            # ["ref", j]: the very same widget object as sibling j (a leaf), added a second time
            built.append(built[x[1]] if x[0] == "ref" else build(x, shared=built)); c.add(built[-1])
        return c
    if k == "list":
        _, cm, cols, cw, sp, kp, items = spec
        c = (RC.ListColumnContainer if cm else RC.ListRowContainer)(cols, columns_width=cw, spacing=sp, numbering=kp is not None)
        if kp is not None:
            c.key_pattern = RC.KeyPattern(pattern=kp[0] + "{:d}" + kp[1], offset=kp[2])
        built = []
        for x in items:
            # ["upref", j]: the very same widget object as item j of the window this container is an item of (one object at two depths)
            built.append(built[x[1]] if x[0] == "ref" else shared[x[1]] if x[0] == "upref" else build(x)); c.add(built[-1])
        return c
    raise AssertionError(spec)


def kids_of(w):
    if isinstance(w, RC.Container): return [it.widget for it in w._items]
    if isinstance(w, RW.CenterWidget): return [w._w]
    if isinstance(w, RW.ColumnWidget): return [x for _cw, col in w._columns for x in col]
    return []


def build_column(case):
    return RW.ColumnWidget([(cw, [build(x) for x in items]) for cw, items in case["cols"]], case["spacing"])


def run_column(case):
    """one ColumnWidget object rendered at several widths in turn"""
    c = build_column(case); out = []
    for w in case["widths"]:
        try:
            c.render(w); o_ = obs(c); o_["nodes"] = nodes_of(c, shared_ids(c)); out.append(o_)
        except Exception as e:
            out.append({"err": err_name(e)})
    return out


def nodes_of(w, seen_twice):
    """lines of every descendant in preorder; None for an object that occurs more than once in the tree (it shows its last rendering only)"""
    kids = kids_of(w)
    out = []
    for k in kids:
        out.append(None if id(k) in seen_twice else k.get_lines()); out += nodes_of(k, seen_twice)
    return out


def shared_ids(w, seen=None, twice=None):
    seen = set() if seen is None else seen; twice = set() if twice is None else twice
    kids = kids_of(w)
    for k in kids:
        (twice if id(k) in seen else seen).add(id(k)); shared_ids(k, seen, twice)
    return twice


def child_at(w, path):
    """the widget reached by child indices (items of containers, the child of a CenterWidget is index 0); None if the path leaves the tree"""
    for i in path:
        if isinstance(w, RC.Container):
            if i >= len(w._items): return None
            w = w._items[i].widget
        elif isinstance(w, RW.CenterWidget) and i == 0: w = w._w
        else: return None
    return w


def run_tree(case):
    w = build(case["tree"]); out = []
    for o in case["ops"]:
        op, a = o[0], o[1]
        if op == "set_kp":
            if isinstance(w, RC.ListRowContainer):
                w.key_pattern = None if a is None else RC.KeyPattern(pattern=a[0] + "{:d}" + a[1], offset=a[2])
            continue
        if op == "add_at":
            t = child_at(w, a)
            if t is not None and hasattr(t, "add"): t.add(build(o[2]))
            continue
        if op == "render":
            try:
                w.render(a); o_ = obs(w); o_["nodes"] = nodes_of(w, shared_ids(w)); out.append(o_)
            except Exception as e:
                out.append({"err": err_name(e)})
        elif op == "add":
            if hasattr(w, "add"): w.add(build(a))
    return out


def callback_of_kind(kind, f):
    """the same callback in the shapes an application may hand it over: a function, a bound method of an object nothing else refers to, a partial, a callable object"""
    if kind == "method":
        class Action:
            def __init__(self): self.f = f
            def activate(self, data): return self.f(data)
        return Action().activate
    if kind == "partial":
        import functools
        return functools.partial(lambda _x, data: f(data), 0)
    if kind == "callable":
        class Call:
            def __call__(self, data): return f(data)
        return Call()
    return f


def run_key(case):
    kp = case["kp"]; fired = []
    c = RC.ListRowContainer(1, numbering=kp is not None)
    if kp is not None:
        c.key_pattern = RC.KeyPattern(pattern=kp[0] + "{:d}" + kp[1], offset=kp[2])
    for i, has_cb in enumerate(case["items"]):
        c.add(RW.TextWidget("w"), callback_of_kind(case.get("cbkind"), lambda d: fired.append(d)) if has_cb else None, i)
    import gc; gc.collect()
    key = case["key"]
    if "rawkey" in case:            # a non-str key (the model gets null)
        key = eval(case["rawkey"], {})
    r = c.process_user_input(key)
    labels = [c.key_pattern.get_widget_label(i) for i in range(len(case["items"]))] if kp is not None else []
    assert r is True or r is False
    assert len(fired) <= 1
    return {"handled": r, "fired": fired[0] if fired else None, "labels": labels}


def run_keytree(case):
    """a list container built with callbacks on its items (some raise at some of their invocations), rendered once, then keys typed at it one after the other"""
    spec = case["tree"]; _, cm, cols, cw, sp, kp, items = spec
    c = (RC.ListColumnContainer if cm else RC.ListRowContainer)(cols, columns_width=cw, spacing=sp, numbering=kp is not None)
    if kp is not None: c.key_pattern = RC.KeyPattern(pattern=kp[0] + "{:d}" + kp[1], offset=kp[2])
    fired = []; calls = {}
    def mk(i):
        def cb(data):
            calls[i] = calls.get(i, 0) + 1; fired.append(data)
            if calls[i] in (case.get("raise_on") or {}).get(str(i), []): raise RuntimeError("callback of item %d fails" % i)
        return cb
    for i, x in enumerate(items): c.add(build(x), callback_of_kind(case.get("cbkind"), mk(i)) if case["cbs"][i] else None, i)
    import gc; gc.collect()
    try:
        c.render(case["w"]); r = obs(c); r["nodes"] = nodes_of(c, shared_ids(c))
    except Exception as e:
        r = {"err": err_name(e)}
    out = []
    for key in case["keys"]:
        del fired[:]
        try:
            h = c.process_user_input(key); raised = False
        except RuntimeError:
            h = None; raised = True
        out.append({"handled": h, "fired": fired[0] if fired else None, "raised": raised, "n_fired": len(fired)})
    return {"render": r, "keys": out}


def run_render_race(case):
    """two threads render their own TextWidget again and again, each at its own width"""
    import threading
    alone = []
    for t, w in zip(case["texts"], case["widths"]):
        x = RW.TextWidget(t); x.render(w); alone.append(x.get_lines())
    bad = []; old = sys.getswitchinterval(); sys.setswitchinterval(1e-6)
    def work(k):
        x = RW.TextWidget(case["texts"][k])
        for _ in range(case["rounds"]):
            try: x.render(case["widths"][k]); got = x.get_lines()
            except Exception as e: got = ["<%s>" % type(e).__name__]
            if got != alone[k]: bad.append({"width": case["widths"][k], "got": got, "alone": alone[k]})
    try:
        ths = [threading.Thread(target=work, args=(k,)) for k in range(2)]
        for t in ths: t.start()
        for t in ths: t.join()
    finally:
        sys.setswitchinterval(old)
    return {"mismatches": len(bad), "first": bad[0] if bad else None}


def run_dialog(case):
    """the library's own dialog screens: each line of the case is given to input() of one kept dialog object"""
    from simpleline import App
    from simpleline.render import adv_widgets as AW
    from simpleline.render.screen import InputState
    if not App.is_initialized(): App.initialize()
    k = case["kind"]; asked = []
    if k == "yesno": d = AW.YesNoDialog("question?"); state = lambda: d.answer
    elif k == "password": d = AW.PasswordDialog(); state = lambda: d.answer
    elif k == "help": d = AW.HelpScreen(None); state = lambda: None
    elif k == "error": d = AW.ErrorDialog("boom"); state = lambda: None
    else:
        d = AW.GetInputScreen("value: "); state = lambda: d.value
        def mk(kind):
            def f(inp, args):
                asked.append(kind)
                return {"min_len": lambda: len(inp) >= args, "max_len": lambda: len(inp) <= args, "equals": lambda: inp == args, "differs": lambda: inp != args,
                        "starts_with": lambda: inp[:1] == args}[kind]()
            return f
        for kind, a in case["conds"]: d.add_acceptance_condition(mk(kind), a)
    names = {InputState.DISCARDED: "DISCARDED", InputState.PROCESSED_AND_CLOSE: "CLOSE", InputState.PROCESSED: "PROCESSED", InputState.PROCESSED_AND_REDRAW: "REDRAW"}
    out = []
    for key in case["keys"]:
        del asked[:]
        try:
            r = d.input(None, key); r = names.get(r, repr(r))
        except SystemExit as e:
            r = "exit%r" % e.code
        o = {"ret": r, "state": state()}
        if k == "getinput": o["asked"] = len(asked)
        out.append(o)
    return out


def run_prompt(case):
    from simpleline.input.input_handler import InputHandlerRequest
    p = Prompt(case["message"]); strs = [str(p)]
    for op in case["ops"]:
        strs.append(str(p))           # (the prompt is printed between the edits, as a screen that is redrawn does)
        if op[0] == "set":
            if op[3] if len(op) > 3 else False: p.update_option(op[1], op[2])
            else: p.add_option(op[1], op[2])
        elif op[0] == "remove": p.remove_option(op[1])
        elif op[0] == "message": p.set_message(op[1])
        elif op[0] == "std":
            # the four standard options through their own methods, with the default or a given description
            f = {"refresh": p.add_refresh_option, "continue": p.add_continue_option, "quit": p.add_quit_option, "help": p.add_help_option}[op[1]]
            f() if op[2] is None else f(op[2])
    s = str(p)
    class _H: source = None
    req = InputHandlerRequest(case["w"], p, _H())
    try:
        tp = req.text_prompt()
    except Exception as e:
        tp = {"err": err_name(e)}
    strs.append(s)
    return {"str": s, "text_prompt": tp, "strs": strs[1:]}


def run_rawread(case):
    """the console read itself (InputHandlerRequest.get_input: prompt, the read, end-of-file as the empty line) on a given content of the standard input"""
    import io, sys
    from simpleline.input.input_handler import InputHandlerRequest
    class _H: source = None
    old = sys.stdin, sys.stdout
    # (the session adapter replaces the read by its gate: put the library's own one back for the duration of this case)
    app = sys.modules.get("harness.impl.app"); seam = InputHandlerRequest.__dict__["_get_input"]
    if app is not None: InputHandlerRequest._get_input = app.REAL_GET_INPUT
    sys.stdin = io.StringIO(case["content"]); sys.stdout = io.StringIO()
    try:
        out = [InputHandlerRequest(80, Prompt("p"), _H()).get_input() for _ in range(case["n"])]
    finally:
        sys.stdin, sys.stdout = old
        if app is not None: InputHandlerRequest._get_input = seam
    return {"lines": out}


def run_paging(case):
    """UIScreen._print_widget on a fake widget; the blocking request is replaced by a recorder."""
    import io, contextlib
    from simpleline.render.screen import UIScreen
    from simpleline import App
    if not App.is_initialized(): App.initialize()
    n, h = case["n"], case["h"]
    if n > 0 and h < 3:
        return {"err": "OutOfDomain"}
    class _W:
        def get_lines(self): return [str(i) for i in range(n)]
    scr = UIScreen(screen_height=h)
    out = io.StringIO(); events = []
    def ask(prompt):
        events.extend(out.getvalue().split("\n")[:-1]); out.seek(0); out.truncate()
        events.append(-1)
    scr._ask_user_input_blocking = ask
    try:
        with contextlib.redirect_stdout(out):
            scr._print_widget(_W())
    except Exception as e:          # the pager itself failed on this content
        return {"err": err_name(e)}
    events.extend(out.getvalue().split("\n")[:-1])
    return events


RUN = {"textseq": run_textseq, "text": run_text, "wrap": run_wrap, "int": run_int, "draw": run_draw, "write": run_write,
       "tree": run_tree, "gridseq": run_gridseq, "keytree": run_keytree, "column": run_column, "dialog": run_dialog, "render_race": run_render_race, "key": run_key, "prompt": run_prompt, "paging": run_paging, "rawread": run_rawread}


def run_impl(case):
    return RUN[case["op"]](case)
