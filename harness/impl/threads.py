"""C19 adapter: real threads (submitters + the loop thread) run the real MainLoop / EventQueue under a controlled, baton-passing
scheduler that switches at source-line granularity (sys.settrace line events in simpleline/event_loop/*), with cooperative
replacements for threading.Lock (as imported by the two modules) and for a blocking queue get.  Shared accesses are recorded at
object level through harness-side subclasses (logging list for _event_queues, property-like hooks for _active_queue, logging
PriorityQueue) - see DESIGN.md section 3 for why this adapter, unlike the others, looks at internals."""
import sys, threading, random, queue, collections, os
REPO = os.environ.get("VERIF_REPO", "/repo")
if REPO not in sys.path: sys.path.insert(0, REPO)
import simpleline.event_loop.main_loop as ml
import simpleline.event_loop.event_queue as eq
from simpleline.event_loop import AbstractSignal


class Dead(BaseException): pass


class Sched:
    """baton passing: exactly one registered thread runs at a time; `choose` picks the next one"""
    def __init__(self, choose, names):
        self.choose = choose; self.sem = {n: threading.Semaphore(0) for n in names}
        self.state = {n: "ready" for n in names}; self.pred = {}; self.dead = False; self.steps = 0
    def _next(self, me):
        cand = [n for n, s in self.state.items() if s == "ready" or (s == "blocked" and self.pred[n]())]
        return self.choose(sorted(cand), me) if cand else None
    def switch(self, me):
        self.steps += 1
        if self.steps > 200000: self.dead = True
        nxt = None if self.dead else self._next(me)
        if nxt is None:
            self.dead = True
            for n, s in self.state.items():
                if n != me and s != "done": self.sem[n].release()
            if self.state[me] != "done": raise Dead()
            return
        if nxt != me:
            self.sem[nxt].release()
            if self.state[me] != "done":
                self.sem[me].acquire()
                if self.dead: raise Dead()
    def block(self, me, pred):
        if pred(): return
        self.state[me] = "blocked"; self.pred[me] = pred
        try: self.switch(me)
        finally: self.state[me] = "ready"
    def start_wait(self, me):
        self.sem[me].acquire()
        if self.dead: raise Dead()
    def finish(self, me):
        self.state[me] = "done"
        if not self.dead: self.switch(me)


SCHED = None; TL = threading.local(); EV = []
def me(): return getattr(TL, "name", None)
def tid(name): return 0 if name == "main" else int(name[3:]) + 1
def ev(*e):
    if me() is not None: EV.append([tid(me())] + list(e))


class CoopLock:
    def __init__(self): self.owner = None; self.name = None
    def __enter__(self):
        if me() is None: return
        SCHED.block(me(), lambda: self.owner is None)
        self.owner = me(); ev("acq", *self.name)
    def __exit__(self, *a):
        if me() is None: return
        ev("rel", *self.name); self.owner = None


def tracer(frame, event, arg):
    if REPO + "/simpleline/event_loop" not in frame.f_code.co_filename: return None
    if frame.f_code.co_name in ("__lt__", "__eq__", "priority"): return None      # run under the queue's mutex: no switch there
    def local(frame, event, arg):
        if event == "line": SCHED.switch(me())
        return local
    return local


_orig_get = queue.Queue.get
def coop_get(self, block=True, timeout=None):
    if me() is not None and block: SCHED.block(me(), lambda: not self.empty())
    return _orig_get(self, False) if me() is not None else _orig_get(self, block, timeout)


class LPQ(queue.PriorityQueue):
    """PriorityQueue that records put / get at the moment they happen (inside the caller's locks)"""
    qid = None; last = None
    def put(self, item, block=True, timeout=None):
        super().put(item, block, timeout)
        sig = getattr(item, "signal", item)
        if item is self.last: ev("putback", self.qid, sig.sid); self.last = None
        else: ev("put", self.qid, sig.sid, sig.priority, getattr(item, "order", -1))
    def get(self, block=True, timeout=None):
        item = super().get(block, timeout)
        sig = getattr(item, "signal", item)
        self.last = item; ev("get", self.qid, sig.sid); return item


QN = [0]
class TQueue(eq.EventQueue):
    def __init__(self):
        super().__init__(); self.qid = QN[0]; QN[0] += 1
        self._lock.name = ("q", self.qid)
        if hasattr(self, "_order_lock"): self._order_lock.name = ("o", self.qid)
        self._queue.qid = self.qid
    def add_source(self, s):
        # log inside the lock: the base method takes the lock itself, so wrap the set instead
        super().add_source(s)
    def contains_source(self, s):
        return super().contains_source(s)


class LSet(set):
    """the queue's source set: records membership tests and additions (made under the queue's lock)"""
    qid = None
    def add(self, s): set.add(self, s); ev("add_source", self.qid, s.n)
    def __contains__(self, s):
        r = set.__contains__(self, s); ev("contains", self.qid, getattr(s, "n", None), r); return r


class TList(list):
    def append(self, q): list.append(self, q); ev("lv_append", q.qid)
    def pop(self):
        q = list.pop(self); ev("lv_pop", q.qid); return q
    def __reversed__(self):
        ev("lv_iter", [q.qid for q in self]); return list.__reversed__(self)
    def __getitem__(self, i):
        q = list.__getitem__(self, i); ev("lv_top", q.qid); return q
    def clear(self): list.clear(self); ev("lv_clear")


class TLoop(ml.MainLoop):
    def __init__(self):
        super().__init__()
        self._lock.name = ("main",); self._event_queues = TList(self._event_queues)
    def __getattribute__(self, name):
        v = object.__getattribute__(self, name)
        if name == "_active_queue": ev("active_read", v.qid)
        return v
    def __setattr__(self, name, v):
        object.__setattr__(self, name, v)
        if name == "_active_queue" and me() is not None: ev("active_write", v.qid)


class S(AbstractSignal):
    def __init__(self, src, prio, sid): super().__init__(src, prio); self.sid = sid
class Src:
    def __init__(s, n): s.n = n


_installed = [False]
def install():
    if _installed[0]: return
    queue.Queue.get = coop_get
    ml.Lock = CoopLock; eq.Lock = CoopLock; eq.PriorityQueue = LPQ
    ml.EventQueue = TQueue
    _installed[0] = True


def trial(case):
    """case: {seed, nsub, per, policy: 'random'|'pct', main_ops: probabilities}. Returns the recorded shared accesses, the dispatch log and the
    submissions."""
    global SCHED
    install()
    rnd = random.Random(case["seed"]); del EV[:]; QN[0] = 0
    nsub, per = case.get("nsub", 2), case.get("per", 3)
    names = ["main"] + ["sub%d" % i for i in range(nsub)]
    if case.get("policy") == "pct":
        prio = {n: rnd.random() for n in names}; change = set(rnd.sample(range(1, 400), 3)); cnt = [0]
        def choose(cand, cur):
            cnt[0] += 1
            if cnt[0] in change and cur in prio: prio[cur] = -rnd.random()
            return max(cand, key=lambda n: prio[n])
    elif case.get("policy") == "pause":
        # one submitter is suspended at a chosen point of its run for a long window while everybody else runs (the shape of most check-then-act races)
        victim = "sub%d" % rnd.randrange(nsub); at = rnd.randrange(1, 60); window = [rnd.randrange(30, 400)]; seen = [0]
        def choose(cand, cur):
            if cur == victim: seen[0] += 1
            others = [n for n in cand if n != victim]
            if victim in cand and seen[0] >= at and window[0] > 0 and others:
                window[0] -= 1; return rnd.choice(others)
            if victim in cand and seen[0] < at and rnd.random() < 0.7: return victim
            return rnd.choice(cand)
    elif case.get("policy") == "pause_main":
        # the loop thread is suspended at a chosen source line of its run for a window while the submitters run (a check-then-act window of the loop thread itself)
        at = rnd.randrange(1, 500); window = [rnd.randrange(5, 120)]; seen = [0]
        def choose(cand, cur):
            if cur == "main": seen[0] += 1
            others = [n for n in cand if n != "main"]
            if "main" in cand and seen[0] >= at and window[0] > 0 and others:
                window[0] -= 1; return rnd.choice(others)
            if "main" in cand and seen[0] < at and rnd.random() < 0.6: return "main"
            return rnd.choice(cand)
    else:
        def choose(cand, cur): return rnd.choice(cand)
    SCHED = Sched(choose, names)
    loop = TLoop()
    srcs = [Src(0), Src(1)]; disp = []
    loop.register_signal_source(srcs[0])                   # before the threads start: not recorded (me() is None) - initial state of the model
    opened = [0]; seeds = [9000]
    def h(sig, data):
        disp.append([sig.sid, list.__len__(loop._event_queues)])
        r = rnd.random()
        if r < 0.25 and opened[0] < 3:
            opened[0] += 1; seeds[0] += 1
            ev("new_loop", seeds[0], 0)
            # execute_new_loop creates the queue itself: patch its source set right after creation through the class hook
            loop.execute_new_loop(S(None, 0, seeds[0]))
        elif r < 0.45 and list.__len__(loop._event_queues) > 1:
            loop.close_loop()
        elif r < 0.6:
            ev("reg_source", 1)
            loop.register_signal_source(srcs[1])
        elif r < 0.8 and case.get("partial"):
            # a partial processing call from the handler: the loop thread takes the top signal, looks at its priority and puts it back if it is another one
            loop.process_signals()
    loop.register_signal_handler(S, h)
    submitted = []
    def runner(name, fn):
        TL.name = name
        try:
            SCHED.start_wait(name); sys.settrace(tracer); fn()
        except Dead: pass
        except BaseException as e:
            EV.append([tid(name), "crash", repr(e)])
        finally:
            sys.settrace(None); SCHED.finish(name)
    def sub(i):
        def f():
            for k in range(per):
                sid = 100 * (i + 1) + k
                s = S(rnd.choice([None, srcs[0], srcs[1]]), rnd.choice([0, 0, 1, -1] if case.get("partial") else [0, 0, 1]), sid)
                submitted.append([sid, s.source.n if s.source else None, s.priority, i])
                ev("submit", sid, s.source.n if s.source else None, s.priority)
                loop.enqueue_signal(s)
                ev("submitted", sid)
        return f
    ths = [threading.Thread(target=runner, args=("main", loop.run))]
    for i in range(nsub): ths.append(threading.Thread(target=runner, args=("sub%d" % i, sub(i))))
    for t in ths: t.start()
    SCHED.sem[SCHED._next(None)].release()
    for t in ths: t.join(30)
    stuck = any(t.is_alive() for t in ths)
    return {"events": [list(e) for e in EV], "dispatch": disp, "submitted": submitted, "stuck": stuck}


# new queues created inside execute_new_loop need the logging source set: hook TQueue.__init__
_tq_init = TQueue.__init__
def _tq_init2(self):
    _tq_init(self)
    s = LSet(self._contained_screens); s.qid = self.qid; self._contained_screens = s
TQueue.__init__ = _tq_init2
