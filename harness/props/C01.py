"""C01 - Signals are dispatched by priority, first-in first-out within a priority."""
from harness.props.session import *
from harness.gen.sessions import gen_case, SidCounter
from harness.props import objects

THEOREM_NOTE = ("Props/C01.lean: the queue is sorted by (priority, arrival number); put places a signal behind everything at least as urgent; every queue of every "
                "reachable configuration is sorted; every take (main loop, waiting and non-waiting processing) removes the head of the active queue; no other "
                "transition removes or reorders entries; a put-back leaves the queue unchanged"
                " Props/C01b.lean: CPython's heapq (heappush / heappop with _siftdown / _siftup, modelled step for step on arrays, termination proved) keeps the heap property and the "
                "multiset for any strict weak order, pops the minimum; EventQueue over it (put / get / get_top_event_if_priority with the put-back of the same entry) refines the sorted-list "
                "queue of the machine for every operation sequence (C01b_sequence_refines); the pre-fix priority-only comparison is kernel-checked not FIFO (0,2,1,3)")
ASSUMPTIONS = ASSUME_SESSION
RULE = ("[object level: the real EventQueue under random put / get / partial-get sequences (priorities incl. huge ones, arrival counters started near powers of two up to 2^70, signal classes that compute their priority), outputs and the heap array compared with Model/Heapq.lean after every call] [thorough tier adds the small-scope exhaustive enumeration of harness/gen/exhaustive.py: every loop program with a <= 2-action and a <= 1-action handler over a 10-action alphabet, 3 663 programs] loop-mode programs with 4..40 pending signals of equal priority, mixed priorities (incl. -20 and below), enqueues from inside handlers, non-waiting and waiting "
        "processing calls from handlers with a more urgent signal arriving mid-batch, nested loops; plus generic random loop/app sessions; oracle: at every first handler "
        "invocation for a signal, no signal pending in the same level is more urgent or equally urgent and older; non-trivial = >= 4 user signals dispatched")


def gen_c01(rnd, sid):
    ncls = rnd.randint(1, 3)
    prios = rnd.choice([[0], [0], [0, 0, 0, 1], [0, -1, 5], [0, 0, -20, -25, 3], [7]])
    def enq(): return ["enq", "U%d" % rnd.randrange(ncls), rnd.choice(prios), None, sid.next()]
    handlers = []
    for c in range(ncls):
        for _ in range(rnd.randint(1, 2)):
            scripts = []
            for _ in range(rnd.randint(0, 6)):
                acts = []
                for _ in range(rnd.choice([0, 0, 1, 2, 4])):
                    r = rnd.random()
                    if r < 0.6: acts.append(enq())
                    elif r < 0.8: acts.append(["proc", None])
                    elif r < 0.88: acts.append(["proc", "U%d" % rnd.randrange(ncls)])
                    elif r < 0.94: acts.append(["new_loop", "U%d" % rnd.randrange(ncls), rnd.choice(prios), sid.next()])
                    else: acts.append(["close_loop"])
                scripts.append(acts)
            handlers.append(dict(cls="U%d" % c, hid=len(handlers), data=None, scripts=scripts))
    init = [enq() for _ in range(rnd.choice([4, 5, 8, 8, 12, 20, 40]))]
    if rnd.random() < 0.3:
        # a reusable signal object ("tick") enqueued again while earlier occurrences of it may still be pending: from outside and from handlers
        ticks = rnd.sample(init, min(len(init), rnd.randint(1, 2)))
        for t in ticks:
            for _ in range(rnd.randint(1, 3)): init.insert(rnd.randrange(init.index(t) + 1, len(init) + 1), list(t))
            for h in handlers:
                for sc in h["scripts"]:
                    if rnd.random() < 0.15: sc.insert(rnd.randrange(len(sc) + 1), list(t))
    return dict(op="machine", mode="c01", width=80, screens=[], handlers=handlers, init=init, stdin=[], quit_cb=None, quit_screen=None,
                exc_handler=False, run_empty=True, deliver_at=[])


def gen_c01_partial(rnd, sid):
    """a handler enqueues an urgent and a less urgent signal, makes a partial processing call (which dispatches the urgent one, looks at the other and puts it
    back), enqueues more signals of the less urgent priority and possibly processes again: the one put back keeps its place in front of the later ones"""
    lo = rnd.choice([1, 5]); acts = []
    for _ in range(rnd.randint(1, 3)):
        acts += [["enq", "U1", rnd.choice([0, -1]), None, sid.next()] for _ in range(rnd.randint(1, 2))]
        acts += [["enq", "U1", lo, None, sid.next()] for _ in range(rnd.randint(1, 2))]
        acts.append(["proc", None])
        acts += [["enq", "U1", lo, None, sid.next()] for _ in range(rnd.randint(1, 3))]
    if rnd.random() < 0.5: acts.append(["proc", None])
    handlers = [dict(cls="U0", hid=0, data=None, scripts=[acts]), dict(cls="U1", hid=1, data=None, scripts=[[]] * 40)]
    return dict(op="machine", mode="c01", width=80, screens=[], handlers=handlers, init=[["enq", "U0", 0, None, sid.next()]], stdin=[], quit_cb=None, quit_screen=None,
                exc_handler=False, run_empty=True, deliver_at=[])


def generate(rnd, tier):
    n = 500 if tier == "quick" else 6000
    sid = SidCounter()
    cases = [gen_c01_partial(rnd, sid) for _ in range(n // 10)] + [gen_c01(rnd, sid) for _ in range(n)]
    cases += [gen_case(rnd, "loop", sid) for _ in range(n // 2)] + [gen_case(rnd, "app", sid) for _ in range(n // 5)]
    if tier == "thorough":
        from harness.gen.exhaustive import loop_programs
        cases += list(loop_programs(sid))          # small-scope exhaustive: 3 663 programs
    for c in cases:
        # signal classes that compute their priority (they override the public `priority` property; the private field of the base class keeps its default)
        if rnd.random() < 0.25: c["prio_property"] = True
    # the real EventQueue on its own under arbitrary put / get / partial-get sequences, its heap array compared after every call with CPython's heapq as modelled
    # in Model/Heapq.lean (Props/C01b.lean: that heap refines the sorted-list queue of the machine)
    return [with_cc(c) for c in cases] + objects.gen_heapq(rnd, 1500 if tier == "quick" else 20000)


def corpus():
    # witness of the fixed finding F1: eight signals of one priority
    yield with_cc(dict(op="machine", mode="c01", width=80, screens=[], handlers=[dict(cls="U0", hid=0, data=None, scripts=[])],
                       init=[["enq", "U0", 0, None, i + 1] for i in range(8)], stdin=[], run_empty=True, deliver_at=[]))
    yield with_cc(dict(op="machine", mode="c01", width=80, screens=[], handlers=[dict(cls="U0", hid=0, data=None, scripts=[[["proc", None]], [["enq", "U0", -1, None, 20]]])],
                       init=[["enq", "U0", 0, None, i + 1] for i in range(5)], stdin=[], run_empty=True, deliver_at=[]))


def monitor(case, obs):
    x = X(case, obs)
    pending = {}          # level uid -> list of [sid, prio, arrival]
    where = {}            # sid -> level uid
    ignored = set(); seen = set(); arrival = 0; fq = False
    for i, ev, ctx in x.events():
        if ctx.get("reader"): continue
        live = ctx.get("levels")
        if live is not None:
            for l in list(pending):
                if l not in live: del pending[l]              # a closed level takes its leftovers with it
        if ev[0] == "api" and ev[1] == "force_quit": fq = True
        if fq: continue
        if ev[0] == "api" and ev[1] == "new_loop": ignored.add(ev[4])
        if ev[0] == "api" and ev[1] == "enq":
            _, _, cls, prio, src, sid = ev
            if src is not None or not x.cls_handlers.get(cls): ignored.add(sid); continue
            arrival += 1
            pending.setdefault(ctx["lvl"], []).append([sid, prio, arrival]); where[sid] = ctx["lvl"]
        if ev[0] == "H":
            sid = ev[2]
            if sid in ignored or sid not in where: continue
            # a dispatch begins with the first handler registered for the class (the same signal object may be enqueued, and so dispatched, several times)
            first = (x.cls_handlers.get(x.hcls.get(ev[1])) or [None])[0]
            if ev[1] != first: continue
            recs = sorted((p for l in pending for p in pending[l] if p[0] == sid), key=lambda p: p[2])
            if not recs: continue
            here = [p for p in recs if p in pending.get(ctx.get("lvl"), [])]          # an occurrence pending in the active level is the one being dispatched
            rec = (here or recs)[0]; lvl = next(l for l in pending if any(p is rec for p in pending[l]))
            if ctx.get("lvl") != lvl:
                return "signal %d was enqueued into level %r but dispatched while level %r was active" % (sid, lvl, ctx.get("lvl"))
            for p in pending[lvl]:
                if p is rec: continue
                if p[1] < rec[1]: return "signal %d (priority %d) dispatched while the more urgent signal %d (priority %d) was pending in the same loop" % (sid, rec[1], p[0], p[1])
                if p[1] == rec[1] and p[2] < rec[2]: return "signal %d dispatched before signal %d of the same priority %d that was enqueued earlier" % (sid, p[0], p[1])
            pending[lvl].remove(rec)
    return None


def nontrivial(case, obs):
    return len({e[2] for e in obs["log"] if e[0] == "H"}) >= 4


LEAN_MODULES = ["C01", "C01b"]
objects.install(globals(), ("heapq",))
