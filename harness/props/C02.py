"""C02 - Every dispatched signal reaches every handler of its class exactly once."""
from harness.props.session import *
from harness.gen.sessions import gen_case, SidCounter

THEOREM_NOTE = ("Props/C02.lean: every handler invocation is for a handler registered for exactly the signal's class with its registered data; a handler call only comes from "
                "the dispatch instruction, which visits the live registration list in index order; an ordinary exception unwinds exactly to the handler's own catcher, "
                "enqueues exactly one exception signal of priority -20 and the next handler runs; priority -20 overtakes everything less urgent; an exception signal "
                "without a handler ends the process with status 1 after printing a blank line and the screen stack")
ASSUMPTIONS = ASSUME_SESSION + ["the traceback goes to stderr through sys.excepthook; the oracle checks its presence, the model does not print it"]
RULE = ("[thorough tier adds the small-scope exhaustive enumeration of harness/gen/exhaustive.py: every loop program with a <= 2-action and a <= 1-action handler over a 10-action alphabet, 3 663 programs] loop-mode programs with 0..4 handlers per class, handlers shared between classes, raising subsets, with and without an application ExceptionSignal handler; "
        "generic loop/app sessions; oracle: per dispatched signal the handler sequence is a prefix of the registered list in registration order with the registered data "
        "(complete unless the run was stopped or the dispatch is still in progress), kill path = exit status 1 + blank line + stack dump + traceback; non-trivial = a "
        "signal with >= 2 handlers dispatched or a handler raised"
        " Later rounds: one callback registered twice; handlers that are bound methods of unkept objects; handlers registered while the loop runs (adapter-only action, oracle-judged); application handlers for InputReadySignal registered before and after the InputHandler's own (every answered line reaches each); exceptions attributed to ideal loop levels reconstructed from the API log.")


def gen_c02(rnd, sid):
    ncls = rnd.randint(1, 3)
    handlers = []
    for c in range(ncls):
        for _ in range(rnd.randint(0, 4)):
            scripts = []
            for _ in range(rnd.randint(0, 4)):
                acts = []
                for _ in range(rnd.choice([0, 1, 1, 2])):
                    r = rnd.random()
                    if r < 0.3: acts.append(["raise_err"])
                    elif r < 0.38: acts.append(["new_loop", "U%d" % rnd.randrange(ncls), 0, sid.next()])
                    elif r < 0.5: acts += [["close_loop"]] + ([["raise_err"]] if rnd.random() < 0.6 else [])
                    elif r < 0.75: acts.append(["enq", "U%d" % rnd.randrange(ncls), rnd.choice([0, 0, 1, -1]), None, sid.next()])
                    elif r < 0.9: acts.append(["proc", None])
                    else: acts.append(["raise_exit"])
                scripts.append(acts)
            handlers.append(dict(cls="U%d" % c, hid=len(handlers), data=rnd.choice([None, 7, 8]), scripts=scripts))
    if handlers and rnd.random() < 0.25:
        # the same callback registered a second time for the same class with the same data: the signal reaches it twice
        h = rnd.choice(handlers); handlers.insert(rnd.randrange(len(handlers) + 1), dict(h))
    init = [["enq", "U%d" % rnd.randrange(ncls), rnd.choice([0, 0, 1]), None, sid.next()] for _ in range(rnd.randint(1, 6))]
    return dict(op="machine", mode="c02", width=80, screens=[], handlers=handlers, init=init, stdin=[], quit_cb=None, quit_screen=None,
                exc_handler=rnd.random() < 0.6, run_empty=True, deliver_at=[],
                derive=({"U%d" % (ncls - 1): "U0"} if ncls >= 2 and rnd.random() < 0.4 else {}))


def gen_late(rnd, sid):
    """a handler of class U0 registers a further handler for class U1 (which has one already) while U1 signals are pending: they reach it too, after the others"""
    n1 = rnd.randint(1, 2)
    handlers = [dict(cls="U1", hid=i, data=rnd.choice([None, 7]), scripts=[[]] * 4) for i in range(n1)]
    late = dict(cls="U1", hid=n1, data=rnd.choice([None, 8]), scripts=[[]] * 6, late=True)
    reg = dict(cls="U0", hid=n1 + 1, data=None, scripts=[[["reg_handler", n1]], []])
    init = [["enq", "U1", rnd.choice([0, 1]), None, sid.next()] for _ in range(rnd.randint(0, 2))] + [["enq", "U0", 0, None, sid.next()]] + \
           [["enq", "U1", rnd.choice([0, 1]), None, sid.next()] for _ in range(rnd.randint(1, 3))]
    return dict(op="machine", mode="late", width=80, screens=[], handlers=handlers + [late, reg], init=init, stdin=[], quit_cb=None, quit_screen=None,
                exc_handler=False, run_empty=True, deliver_at=[])


def gen_late_ready(rnd, sid):
    """a screen is asking for input; the application registers handlers of its own for InputReadySignal - before run() and, from a handler, while the screen already
    waits (i.e. after the InputHandler registered its own): every answered line reaches each of them"""
    c = gen_case(rnd, "tame", sid)
    c["stdin"] = [rnd.choice(["x", "r", "1", "", "zz"]) for _ in range(rnd.randint(3, 9))]
    n = len(c["handlers"])
    c["handlers"] = list(c["handlers"]) + [dict(cls="InputReady", hid=n, data=None, scripts=[[]] * 40),
                                           dict(cls="InputReady", hid=n + 1, data=rnd.choice([None, 7]), scripts=[[]] * 40, late=True),
                                           dict(cls="U0", hid=n + 2, data=None, scripts=[[["reg_handler", n + 1]], []])]
    c["init"] = list(c["init"]) + [["enq", "U0", 1, None, sid.next()]]
    return c


def ready_rule(case, obs):
    """every successful answer (a line handed to input()) was dispatched to every application handler registered for InputReadySignal before that line was read"""
    x = X(case, obs)
    mine = [h for h in case.get("handlers") or [] if h["cls"] == "InputReady"]
    if not mine or obs["outcome"][0] == "fuel": return None
    # a dispatch that is still in progress at the end (its input() opened a modal screen / a processing call and never came back) has not reached the later
    # handlers yet: the rule is applied to runs without such nesting
    if any((ev[0] == "api" and ev[1] in ("push_modal", "proc", "new_loop", "get_user_input")) or (ctx.get("depth") or 0) >= 2 for i, ev, ctx in x.events()): return None
    for h in mine:
        reg = 0
        if h.get("late"):
            reg = next((i for i, ev, ctx in x.events() if ev[0] == "api<" and ev[1] == "reg_handler"), None)
            if reg is None: continue
        reads = [i for i, ev, ctx in x.events() if ev[0] == "read" and i > reg]
        if not reads: continue
        inputs = sum(1 for i, ev, ctx in x.events() if ev[0] == "cb" and ev[2] == "input" and i > reads[0])
        calls = sum(1 for i, ev, ctx in x.events() if ev[0] == "H" and ev[1] == h["hid"] and i > reg)
        if obs["outcome"][0] in ("returned", "killed", "raised") or x.force_quit_index() is not None:
            inputs -= 1           # the answer that ended the run: the exit request aborts the dispatch it was raised in (C09)
        if calls < inputs:
            return "%d lines read after handler %d was registered for InputReadySignal reached input(), but the handler was invoked only %d times" % (inputs, h["hid"], calls)
    return None


def generate(rnd, tier):
    n = 500 if tier == "quick" else 6000
    sid = SidCounter()
    cases = [gen_c02(rnd, sid) for _ in range(n)] + [gen_case(rnd, "loop", sid) for _ in range(n // 2)] + [gen_case(rnd, "app", sid) for _ in range(n // 4)]
    cases += [gen_late(rnd, sid) for _ in range(n // 20)] + [gen_late_ready(rnd, sid) for _ in range(n // 10)]
    for _ in range(n // 10):
        # the application's own ExceptionSignal handler fails at some invocation: that is an ordinary failing handler - one more exception signal, nobody is killed
        c = gen_c02(rnd, sid); c["exc_handler"] = True; c["exc_raises"] = [rnd.choice([1, 1, 2])]
        cases.append(c)
    if tier == "thorough":
        from harness.gen.exhaustive import loop_programs
        cases += list(loop_programs(sid))          # small-scope exhaustive: 3 663 programs
    return [with_cc(c) for c in cases]


def continuation_rule(case, obs, x, sid_cls):
    """to each handler registered for its class: when a handler of a signal has returned (or failed) and handlers are registered behind it, the next thing that runs
    is the next of them, for the same signal - whatever the handler did (opened or closed loops, processed signals, ...), unless it force-quit or the exit was requested
    (activations cut by an exception that passes through them are not judged)"""
    fq = False; stack = []
    evs = [(i, ev, ctx) for i, ev, ctx in x.events() if not ctx.get("reader")]
    for n, (i, ev, ctx) in enumerate(evs):
        if ev[0] == "api" and ev[1] == "force_quit": fq = True
        if ev[0] == "api" and ev[1] in ("raise_exit", "raise_err"): stack = []
        if ev[0] in ("EXC-handled",): stack = []           # a framework exception (KeyError, StackEmpty, ...) passed through whatever was running
        if ev[0] == "H": stack.append((ev[1], ev[2]))
        if ev[0] == "h<":
            if not stack or stack[-1][0] != ev[1]: stack = []; continue
            hid, sid = stack.pop(); cls = sid_cls.get(sid)
            if cls is None or fq: continue
            exp = x.handlers_at(cls, i) if x.late else x.cls_handlers.get(cls, [])
            if exp.count(hid) != 1 or exp.index(hid) + 1 >= len(exp): continue
            want = exp[exp.index(hid) + 1]
            nxt = next((e for _, e, _c in evs[n + 1:] if e[0] in ("H", "h<", "cb", "cb<", "EXC-handled", "quitcb")), None)
            if nxt is None:
                if obs["outcome"][0] == "blocked": return "handler %d returned from signal %d but handler %d, registered behind it for class %s, never ran (the run is quiescent)" % (hid, sid, want, cls)
                continue
            if not (nxt[0] == "H" and nxt[1] == want and nxt[2] == sid):
                return "handler %d returned from signal %d; handler %d is registered behind it for class %s but what ran next is %r" % (hid, sid, want, cls, nxt[:3])
    return None


def monitor(case, obs):
    v = ready_rule(case, obs)
    if v: return v
    x = X(case, obs)
    sid_cls = {}
    for i, ev, ctx in x.events():
        if ev[0] == "api" and ev[1] == "enq": sid_cls[ev[5]] = ev[2]
        if ev[0] == "api" and ev[1] == "new_loop": sid_cls[ev[4]] = ev[2]
    v = continuation_rule(case, obs, x, sid_cls)
    if v: return v
    # an ordinary exception raised by a handler is contained: once handlers run, no ordinary exception may leave run()
    if obs["outcome"][0] == "raised" and obs["outcome"][1] == "err" and any(ev[0] == "H" for i, ev, ctx in x.events()):
        return "an ordinary exception left run() although handlers were running (a handler's failure must surface as an exception signal, not end the loop)"
    seqs = {}; last = {}; first = {}
    for i, ev, ctx in x.events():
        if ev[0] == "H": first.setdefault(ev[2], i)
        if ev[0] == "H":
            hid, sid, data = ev[1], ev[2], ev[3]
            cls = sid_cls.get(sid)
            if cls is None: continue
            if x.hcls.get(hid) != cls: return "handler %d (registered for %s) was invoked for signal %d of class %s" % (hid, x.hcls.get(hid), sid, cls)
            if data != x.hdata.get(hid): return "handler %d invoked with data %r, registered with %r" % (hid, data, x.hdata.get(hid))
            seqs.setdefault(sid, []).append(hid); last[sid] = i
    counts = {}
    for sid, seq in seqs.items():
        exp = x.handlers_at(sid_cls[sid], first[sid]) if x.late else x.cls_handlers.get(sid_cls[sid], [])      # registered when its dispatch began
        counts[sid] = counts.get(sid, 0) + 1
        if seq[:len(exp)] != exp[:len(seq)] or len(seq) > len(exp):
            # the same signal id is never enqueued twice by the generators, so more invocations than handlers = duplicated delivery
            return "signal %d of class %s reached handlers %r; registered (in order): %r" % (sid, sid_cls[sid], seq, exp)
        if len(seq) < len(exp):
            # incomplete: allowed only if the run was stopped after the last delivery, or that delivery is still in progress at the end
            i = last[sid]
            if not x.stopped_after(i) and obs["outcome"][0] != "blocked":
                return "signal %d reached only handlers %r of %r and the run was not stopped" % (sid, seq, exp)
            if obs["outcome"][0] == "blocked" and not x.stopped_after(i):
                # blocked: every started dispatch must have completed unless its last handler never returned (it is the one blocking)
                returned = any(e[0][0] == "h<" and e[0][1] == seq[-1] for e in x.x[i:]) or any(e[0][0] == "api" and e[0][1] == "raise_err" for e in x.x[i:])
                if returned and not any(e[0][0] == "api" and e[0][1] in ("close_loop", "new_loop", "push_modal", "proc", "get_user_input") for e in x.x[:]):
                    return "signal %d reached only handlers %r of %r although handler %d returned and nothing stopped the run" % (sid, seq, exp, seq[-1])
    # an ordinary exception surfaces: after a handler raised, the application's exception handler runs or the process is killed - unless the run was stopped
    # (exit / force-quit) or cut; counted per raise: the n-th raise is followed by at least n handled exceptions in total by the end of a quiescent run
    raise_idx = [i for i, ev, ctx in x.events() if ev[0] == "api" and ev[1] == "raise_err" and any(e[0][0] == "H" for e in x.x[:i])]
    end_depth = next((ctx.get("depth") for ev, ctx in reversed(x.x) if "depth" in ctx), None)
    if end_depth != 1: raise_idx = []
    # a nested level that is closed takes its not-yet-drained signals with it (C03, leftover semantics): an exception raised in a level that is closed
    # afterwards is not counted
    def closed_after(i):
        lv = x.x[i][1].get("levels")
        return lv is not None and any(c.get("levels") is not None and not set(lv) <= set(c["levels"]) for e, c in x.x[i:])
    if not case.get("screens"):
        # programs without screens: the level structure is reconstructed from the API calls alone (execute_new_loop opens a level, a close_loop that returned
        # closed the innermost one), not read from the implementation: the exception signal of a raise belongs to the level that is the innermost one then
        stacks = []; cur = [0]; nxt = 1
        for i, ev, ctx in x.events():
            if ev[0] == "api" and ev[1] == "new_loop": cur = cur + [nxt]; nxt += 1
            if ev[0] == "api<" and ev[1] == "close_loop" and len(cur) > 1: cur = cur[:-1]
            stacks.append(cur)
        def closed_after(i):
            return any(stacks[i][-1] not in st for st in stacks[i:])
    raise_idx = [i for i in raise_idx if not closed_after(i)]        # blocked inside a nested loop: an exception signal may be held in an enclosing level (C03)
    if raise_idx and case.get("exc_handler") and obs["outcome"][0] == "blocked" and not any(ev[0] == "api" and ev[1] in ("force_quit", "raise_exit") for i, ev, ctx in x.events()):
        n_handled = sum(1 for i, ev, ctx in x.events() if ev[0] == "EXC-handled")
        if n_handled < len(raise_idx):
            return "%d handlers raised an ordinary exception but only %d exception signals reached the application's handler (the run is quiescent, nothing stopped it)" % (len(raise_idx), n_handled)
    if raise_idx and not case.get("exc_handler") and obs["outcome"][0] == "blocked" and not any(ev[0] == "api" and ev[1] in ("force_quit", "raise_exit") for i, ev, ctx in x.events()):
        return "a handler raised an ordinary exception, the application has no ExceptionSignal handler, and the process was not killed"
    # the kill path
    raises = sum(1 for i, ev, ctx in x.events() if ev[0] == "api" and ev[1] == "raise_err")
    handled = sum(1 for i, ev, ctx in x.events() if ev[0] == "EXC-handled")
    if handled > raises + sum(1 for e in obs["log"] if False):
        pass      # KeyError / StackEmpty raised by the framework also surface as exception signals: no upper bound from scripts alone
    if case.get("exc_raises") and case.get("exc_handler") and obs["outcome"][0] == "blocked" and end_depth == 1 and not any(ev[0] == "api" and ev[1] in ("force_quit", "raise_exit", "close_loop", "new_loop") for i, ev, ctx in x.events()):
        # every failure of the exception handler surfaces as one more exception signal, which reaches the handler again
        n_fail = sum(1 for k in case["exc_raises"] if k <= handled)
        user_raises = sum(1 for i, ev, ctx in x.events() if ev[0] == "api" and ev[1] == "raise_err" and any(e[0][0] == "H" for e in x.x[:i]))
        if handled < user_raises + n_fail:
            return "%d handlers raised and the exception handler itself failed %d times, but it was invoked only %d times (the run is quiescent, nothing stopped it)" % (user_raises, n_fail, handled)
    if obs["outcome"][0] == "killed":
        if obs["outcome"][1] != 1: return "killed with exit status %r" % (obs["outcome"][1],)
        if case.get("exc_handler"): return "the process was killed although the application registered an ExceptionSignal handler"
        tail = "\n======= Screen stack =======\n"
        if tail not in obs["out"] or not obs["out"].endswith("============================\n\n"):
            return "kill path did not print a blank line and the screen stack: %r" % obs["out"][-120:]
        if not obs["traceback"]: return "kill path printed no traceback"
        k = max(i for i, ev, ctx in x.events())      # nothing may run after the kill: it is the end of the log by construction
    return None


def nontrivial(case, obs):
    hs = {}
    for e in obs["log"]:
        if e[0] == "H": hs[e[2]] = hs.get(e[2], 0) + 1
    return any(v >= 2 for v in hs.values()) or any(e[0][0] == "api" and e[0][1] == "raise_err" for e in obs["xlog"])
