"""C03 - A nested (modal) loop is isolated: outer work is held, not lost, then resumed."""
from harness.props.session import *
from harness.props import objects
from harness.gen.sessions import gen_case, SidCounter

THEOREM_NOTE = ("Props/C03.lean + Props/C03b.lean: routing (innermost level owning the source, else the active one); the active queue is the top level; every take is from "
                "the top level; signals held in non-top levels are never removed or reordered and their source sets are fixed; the _mainloop activation of a level returns "
                "only after that level was closed (under the history hypothesis WFClose); closing restores the enclosing loop (under WFClose and WFDrain)")
LEAN_MODULES = ["C03", "C03b", "C03c"]
ASSUMPTIONS = ASSUME_SESSION + ["known finding K1 (second close_loop / execute_new_loop before the innermost _mainloop regained control) is excluded from the blocks/resumes clauses by the history hypotheses WFClose/WFDrain, evaluated by the model per case"]
RULE = ("[thorough tier adds the small-scope exhaustive enumeration of harness/gen/exhaustive.py: every loop program with a <= 2-action and a <= 1-action handler over a 10-action alphabet, 3 663 programs] loop-mode programs with nesting depth up to 5, sources registered at various levels / nowhere / several, enqueues for outer sources from inner handlers, closes at "
        "every position; generic loop/app sessions; oracle: every handler invocation's level against the routing rule recomputed from the public-API log; execute_new_loop / "
        "push_screen_modal return with the same levels open as at the call; non-trivial = a signal dispatched at depth >= 2 or routed to a non-active level"
        ' Later rounds: waiting calls (process_signals(return_after=X)) in nested loops while X signals owned by an enclosing loop are emitted before / during / after the wait (stale tickets); a nothing-enqueued-is-lost monitor over ideal levels.')


def gen_c03(rnd, sid):
    ncls = 3
    def act(depth):
        r = rnd.random()
        if r < 0.4: return ["enq", "U%d" % rnd.randrange(ncls), rnd.choice([0, 0, 1, -1]), rnd.choice([None, ["src", 0], ["src", 1], ["src", 2]]), sid.next()]
        if r < 0.55: return ["reg_source", ["src", rnd.randrange(3)]]
        if r < 0.75: return ["new_loop", "U%d" % rnd.randrange(ncls), 0, sid.next()]
        if r < 0.92: return ["close_loop"]
        if r < 0.97: return ["proc", None]
        return ["proc", "U%d" % rnd.randrange(ncls)]
    handlers = []
    for c in range(ncls):
        for _ in range(rnd.randint(1, 2)):
            handlers.append(dict(cls="U%d" % c, hid=len(handlers), data=None, scripts=[[act(0) for _ in range(rnd.choice([0, 1, 1, 2, 3]))] for _ in range(rnd.randint(1, 8))]))
    init = [act(0) for _ in range(rnd.randint(1, 5)) ]
    init = [a for a in init if a[0] in ("enq", "reg_source")] + [["enq", "U0", 0, None, sid.next()]]
    return dict(op="machine", mode="c03", width=80, screens=[], handlers=handlers, init=init, stdin=[], quit_cb=None, quit_screen=None,
                exc_handler=True, run_empty=True, deliver_at=[])


def gen_c03_chain(rnd, sid):
    """a chain of nested loops; the same sources are registered on several enclosing levels; signals for them are emitted from the innermost handlers"""
    depth = rnd.randint(2, 5)
    handlers = []
    # class Uk's handler runs at level k: registers sources, opens level k+1 (seed of class U(k+1)); the innermost one emits signals and closes
    for k in range(depth):
        acts = []
        for src in range(3):
            if rnd.random() < 0.5: acts.append(["reg_source", ["src", src]])
        if k < depth - 1:
            acts.append(["new_loop", "U%d" % (k + 1), 0, sid.next()])
            acts += [["enq", "U%d" % (depth), 0, rnd.choice([None, ["src", rnd.randrange(3)]]), sid.next()] for _ in range(rnd.randint(0, 2))]
        else:
            acts += [["enq", "U%d" % depth, rnd.choice([0, 0, 1]), rnd.choice([None, ["src", 0], ["src", 1], ["src", 2]]), sid.next()] for _ in range(rnd.randint(1, 4))]
            acts += [["proc", None]] if rnd.random() < 0.3 else []
            acts.append(["close_loop"])
        handlers.append(dict(cls="U%d" % k, hid=len(handlers), data=None, scripts=[acts]))
    # the emitted class: its handler sometimes closes the level it runs in
    handlers.append(dict(cls="U%d" % depth, hid=len(handlers), data=None, scripts=[([["close_loop"]] if rnd.random() < 0.25 else []) for _ in range(12)]))
    return dict(op="machine", mode="c03", width=80, screens=[], handlers=handlers, init=[["enq", "U0", 0, None, sid.next()]], stdin=[], quit_cb=None, quit_screen=None,
                exc_handler=True, run_empty=True, deliver_at=[])


def gen_c03_wait(rnd, sid):
    """a handler of a nested loop waits for a signal class (process_signals(return_after=X)) while signals of that class are emitted for a source that belongs to an
    enclosing loop - before the wait, during it (from another handler), and in a later nested loop after a wait that ended because its loop was closed"""
    hs = []
    hs.append(dict(cls="U0", hid=0, data=None, scripts=[[["reg_source", ["src", 0]], ["new_loop", "U1", 0, sid.next()]] + ([["new_loop", "U1", 0, sid.next()]] if rnd.random() < 0.5 else [])]))
    inner = []
    if rnd.random() < 0.6: inner.append(["enq", "U2", 0, ["src", 0], sid.next()])                 # held for level 0
    inner.append(["enq", "U3", 0, None, sid.next()])                                              # its handler emits an outer-owned U2 during the wait
    inner.append(["enq", "U2", rnd.choice([0, 1]), None, sid.next()])                             # the one the wait is released by
    inner.append(["proc", "U2"])
    if rnd.random() < 0.5: inner.append(["enq", "U2", 0, ["src", 0], sid.next()])
    inner.append(["close_loop"])
    second = [["enq", "U2", 0, ["src", 0], sid.next()], ["enq", "U2", 0, None, sid.next()], ["close_loop"]]
    hs.append(dict(cls="U1", hid=1, data=None, scripts=[inner, second]))
    hs.append(dict(cls="U2", hid=2, data=None, scripts=[[]] * 12))
    hs.append(dict(cls="U3", hid=3, data=None, scripts=[[["enq", "U2", 0, ["src", 0], sid.next()]], []]))
    return dict(op="machine", mode="c03", width=80, screens=[], handlers=hs, init=[["enq", "U0", 0, None, sid.next()]], stdin=[], quit_cb=None, quit_screen=None,
                exc_handler=True, run_empty=True, deliver_at=[])


def gen_c03_again(rnd, sid):
    """a three-step history: a nested loop registers a source and is closed; the source is then registered in the enclosing loop; a second, unrelated nested loop starts
    and a handler in it emits signals of that source: they are the enclosing loop's (the second nested loop never saw a registration of it) and are held until it closes"""
    src = ["src", rnd.randrange(3)]
    first = [["reg_source", src]] + ([["enq", "U2", 0, src, sid.next()]] if rnd.random() < 0.5 else []) + [["close_loop"]]
    second = [["enq", "U2", 0, src, sid.next()] for _ in range(rnd.randint(1, 3))] + ([["enq", "U2", 0, None, sid.next()]] if rnd.random() < 0.5 else []) + [["enq", "U3", 1, None, sid.next()]]
    hs = [dict(cls="U0", hid=0, data=None, scripts=[[["new_loop", "U1", 0, sid.next()], ["reg_source", src]] + ([["new_loop", "U1", 0, sid.next()]] if rnd.random() < 0.3 else []) +
                                                    [["new_loop", "U1", 0, sid.next()], ["enq", "U2", 0, None, sid.next()]]]),
          dict(cls="U1", hid=1, data=None, scripts=[first, second, second]),
          dict(cls="U2", hid=2, data=None, scripts=[[]] * 12),
          dict(cls="U3", hid=3, data=None, scripts=[[["close_loop"]]] * 3)]
    return dict(op="machine", mode="c03", width=80, screens=[], handlers=hs, init=[["enq", "U0", 0, None, sid.next()]], stdin=[], quit_cb=None, quit_screen=None,
                exc_handler=True, run_empty=True, deliver_at=[])


def gen_c03_seed(rnd, sid):
    """execute_new_loop is given a start signal whose source belongs to an enclosing loop: the signal waits for that loop (the nested loop starts empty)"""
    hs = [dict(cls="U0", hid=0, data=None, scripts=[[["reg_source", ["src", 0]]] + ([["enq", "U2", 0, None, sid.next()]] if rnd.random() < 0.5 else []) +
                                                    [["new_loop", "U1", 0, sid.next(), ["src", 0]]]]),
          dict(cls="U1", hid=1, data=None, scripts=[[["close_loop"]], []]), dict(cls="U2", hid=2, data=None, scripts=[[], []])]
    return dict(op="machine", mode="c03", width=80, screens=[], handlers=hs, init=[["enq", "U0", 0, None, sid.next()]], stdin=[], quit_cb=None, quit_screen=None,
                exc_handler=True, run_empty=True, deliver_at=[], _adapter_only=True)


def generate(rnd, tier):
    n = 500 if tier == "quick" else 6000
    sid = SidCounter()
    cases = [gen_c03_again(rnd, sid) for _ in range(n // 10)] + [gen_c03_seed(rnd, sid) for _ in range(n // 25)] + [gen_c03_wait(rnd, sid) for _ in range(n // 10)] + [gen_c03(rnd, sid) for _ in range(n)] + [gen_c03_chain(rnd, sid) for _ in range(n)] + [gen_case(rnd, "loop", sid) for _ in range(n // 2)] + [gen_case(rnd, "app", sid) for _ in range(n // 4)]
    if tier == "thorough":
        from harness.gen.exhaustive import loop_programs
        cases += list(loop_programs(sid))          # small-scope exhaustive: 3 663 programs
    # the EventQueue object with its source API under arbitrary call sequences (Model/EventQueueObj.lean, Props/C03c.lean)
    return [with_cc(c) for c in cases] + objects.gen_equeue(rnd, 800 if tier == "quick" else 8000)


def monitor(case, obs):
    v = lost_signals(case, obs, ideal=True) or lost_signals(case, obs)
    if v: return v
    x = X(case, obs)
    sources = {}          # level uid -> set of source keys
    expect = {}           # sid -> expected level uid
    calls = []            # open execute_new_loop / push_screen_modal calls: (kind, levels at the call)
    fq = False; seen = set()
    for i, ev, ctx in x.events():
        if ctx.get("reader") or "levels" not in ctx: continue
        if ev[0] == "api" and ev[1] == "force_quit": fq = True
        if fq: continue
        lv = ctx["levels"]
        if ev[0] == "api" and ev[1] == "reg_source": sources.setdefault(ctx["lvl"], set()).add(tuple(ev[2]))
        if ev[0] == "api" and ev[1] == "enq":
            _, _, cls, prio, src, sid = ev
            if not x.cls_handlers.get(cls): continue
            tgt = ctx["lvl"]
            if src is not None:
                for l in reversed(lv):
                    if tuple(src) in sources.get(l, ()): tgt = l; break
            expect[sid] = tgt
        if ev[0] == "api" and ev[1] == "new_loop" and len(ev) > 5 and ev[5] is not None and x.cls_handlers.get(ev[2]):
            # the start signal of a nested loop is routed like any other signal: one whose source belongs to an enclosing loop waits there
            for l in reversed(lv):
                if tuple(ev[5]) in sources.get(l, ()): expect[ev[4]] = l; break
        if ev[0] == "H" and ev[2] in expect and ev[2] not in seen:
            seen.add(ev[2])
            if expect[ev[2]] in lv and ctx["lvl"] != expect[ev[2]]:
                return "signal %d belongs to level %r but was dispatched while level %r was the active one (levels %r)" % (ev[2], expect[ev[2]], ctx["lvl"], lv)
            if expect[ev[2]] not in lv:
                return "signal %d was dispatched although the level %r it was routed to is closed (levels %r)" % (ev[2], expect[ev[2]], lv)
        if ev[0] == "api" and ev[1] in ("new_loop", "push_modal"): calls.append((ev[1], list(lv)))
        if ev[0] == "api<" and ev[1] in ("new_loop", "push_modal") and calls:
            kind, at_call = calls.pop()
            if lv != at_call:
                return "%s returned with levels %r open; at the call they were %r" % (kind, lv, at_call)
    return ideal_routing(case, obs)


def ideal_routing(case, obs):
    """the routing rule on *ideal* loop levels (programs without screens): the levels are reconstructed from the API calls alone - execute_new_loop opens a new one, a
    close_loop that returned closed the innermost - not read from the implementation's queue objects (a recycled queue object would look like the level it once was)"""
    if case.get("screens"): return None
    x = X(case, obs)
    levels = [0]; nxt = 1; sources = {}; expect = {}; seen = set()
    for i, ev, ctx in x.events():
        if ctx.get("reader"): continue
        if ev[0] == "api" and ev[1] in ("force_quit", "raise_exit", "raise_err"): return None        # (unwinding: the ideal levels would have to follow the exception)
        if ev[0] == "EXC-handled": return None
        if ev[0] == "api" and ev[1] == "new_loop":
            levels.append(nxt)
            if x.cls_handlers.get(ev[2]):
                expect[ev[4]] = nxt
                if len(ev) > 5 and ev[5] is not None:
                    for l in reversed(levels[:-1]):
                        if tuple(ev[5]) in sources.get(l, ()): expect[ev[4]] = l; break
            nxt += 1
        if ev[0] == "api<" and ev[1] == "close_loop":
            if len(levels) <= 1: return None
            levels.pop()
        if ev[0] == "api" and ev[1] == "reg_source": sources.setdefault(levels[-1], set()).add(tuple(ev[2]))
        if ev[0] == "api" and ev[1] == "enq":
            _, _, cls, prio, src, sid = ev
            if not x.cls_handlers.get(cls) or sid in expect: continue
            tgt = levels[-1]
            if src is not None:
                for l in reversed(levels):
                    if tuple(src) in sources.get(l, ()): tgt = l; break
            expect[sid] = tgt
        if ev[0] == "H" and ev[2] in expect and ev[2] not in seen:
            seen.add(ev[2])
            if expect[ev[2]] in levels and levels[-1] != expect[ev[2]]:
                return "signal %d belongs to loop level %r (counting the loops opened so far) but was dispatched while level %r was the innermost one (open: %r)" % (ev[2], expect[ev[2]], levels[-1], levels)
    return None


def classify(case, obs, verdict, model):
    if model and "K1" in model.get("flags", []) and "returned with levels" in verdict: return "K1"
    if model and "K1" in model.get("flags", []) and "dispatched" in verdict: return "K1"
    if model and "K1" in model.get("flags", []) and "(lost)" in verdict: return "K1"
    return None


def nontrivial(case, obs):
    return any(e[0] == "H" and e[4] >= 2 for e in obs["log"])


def run_witness(wit):
    """the recorded K1 witness still misbehaves: execute_new_loop returns with another set of levels open"""
    case = with_cc(dict(op="machine", mode="c03", width=80, screens=[], stdin=[], run_empty=True, deliver_at=[], exc_handler=True, **wit))
    return monitor(case, run_impl(case)) is not None


objects.install(globals(), ("equeue",))
