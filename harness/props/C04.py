"""C04 - The screen shown is always the top of an honest stack."""
from harness.props.session import *
from harness.gen.sessions import gen_case, SidCounter
from harness.props import objects

THEOREM_NOTE = ("Props/C04.lean: every transition either leaves the screen stack unchanged or is one of the stack operations and changes it exactly as the ideal stack operation "
                "does (replace keeps the modal flag, schedule inserts at the bottom); entries beneath the top keep their order; a screen is drawn only while it is the top of "
                "the stack; an empty stack ends the application"
                ' After F11 a close request is an ideal `close frm` that is refused unless it names the top screen (C04_refused_close_keeps_stack).')
ASSUMPTIONS = ASSUME_SESSION
RULE = ("app and tame sessions: random stack operations (schedule / push / push-modal / replace / close / redraw) issued from every callback kind over 1..4 screens with modal "
        "nesting, 0..30 typed lines; oracle: between two consecutive observations the stack changes by at most one ideal-stack operation, each API operation has its ideal "
        "effect, every drawn/prompted screen is the top of the stack, the closed callback is for the popped top; non-trivial = >= 3 stack changes"
        " Object level: the real ScreenStack class under arbitrary append / add_first / pop / size / empty / dump_stack sequences compared with Model/Objects.lean; oracle: an ideal list.")


def generate(rnd, tier):
    n = 500 if tier == "quick" else 6000
    sid = SidCounter()
    cases = [gen_case(rnd, "tame", sid) for _ in range(n)] + [gen_case(rnd, "app", sid) for _ in range(n)]
    for c in cases:
        # an application that starts by pushing a screen and schedules others afterwards (before run() or later): scheduling puts a screen at the bottom even then
        if rnd.random() < 0.15 and c["screens"]:
            c["init"] = [["push", rnd.randrange(len(c["screens"])), rnd.choice([None, 1])]] + [a for a in c["init"]]
    # the ScreenStack class on its own, driven by arbitrary call sequences (Model/Objects.lean, Props/C04b.lean)
    return [with_cc(c) for c in cases] + objects.gen_sstack(rnd, 500 if tier == "quick" else 6000)


def monitor(case, obs):
    x = X(case, obs)
    prev = None; pending_api = None; failed_setup = False; counts = {}; discard_ok = 0
    for i, ev, ctx in x.events():
        if ctx.get("reader") or "stack" not in ctx: continue
        st = ctx["stack"]
        # a setup that has just reported failure: the scheduler discards the top entry right after it (seen at the next observation)
        if ev[0] == "cb<" and ev[2] == "setup" and len(ev) > 3 and ev[3] is False: discard_ok = 2
        elif discard_ok: discard_ok -= 1
        if prev is not None and st != prev:
            def one_op(a, b): return b == a or (b[:-1] == a) or (b == a[:-1]) or (len(b) == len(a) and b[:-1] == a[:-1]) or (b[1:] == a)
            # a failed setup discards the top entry without any observable event of its own
            ok = one_op(prev, st) or (failed_setup and prev and one_op(prev[:-1], st))
            if not ok: return "between two observations the stack went from %r to %r: not one stack operation" % (prev, st)
            # closing removes the top - and nothing else does: a top entry that disappears is seen first at its own closed() callback (or was discarded by a
            # failed setup, which has no event of its own); a refused close request, in particular, leaves the stack as it is
            if st == prev[:-1] and not failed_setup and not discard_ok and not (ev[0] == "cb" and ev[2] == "closed" and x.specs[ev[1]]["name"] == prev[-1][0]):
                return "the top entry %r left the stack (now %r) without its closed() callback and without a failed setup; first seen at %r" % (prev[-1], st, ev[:3])
            if len(st) == len(prev) and st[:-1] == prev[:-1] and st[-1][2] != prev[-1][2]:
                return "replace changed the modality of the top entry: %r -> %r" % (prev[-1], st[-1])
        if ev[0] == "cb":
            if ev[2] == "setup":
                k = counts.get(ev[1], 0); counts[ev[1]] = k + 1
                sc = ((x.specs[ev[1]].get("scripts") or {}).get("setup") or [])
                failed_setup = k < len(sc) and sc[k].get("ret") in ("fail_before", "fail_after")
            else: failed_setup = False
        if ev[0] == "api" and ev[1] in ("schedule", "push", "replace"): pending_api = (ev, list(st))
        if ev[0] == "api<" and pending_api and pending_api[0][1] == ev[1]:
            a, before = pending_api; pending_api = None
            name = x.specs[a[2]]["name"]; args = str(a[3])
            if a[1] == "schedule": exp = [[name, args, "False"]] + before
            elif a[1] == "push": exp = before + [[name, args, "False"]]
            else: exp = before[:-1] + [[name, args, before[-1][2]]] if before else None
            if exp is not None and st != exp: return "%s(%s, %s) turned the stack %r into %r, an ideal stack gives %r" % (a[1], name, args, before, st, exp)
        if ev[0] == "api" and ev[1] == "push_modal":
            pending_modal = (ev, list(st))
            # the entry is appended before anything else is observed
            nxt = next((c for e, c in x.x[i + 1:] if not c.get("reader") and "stack" in c), None)
            if nxt is not None and nxt["stack"][:len(st)] == st and len(nxt["stack"]) == len(st) + 1:
                top = nxt["stack"][-1]
                if top != [x.specs[ev[2]]["name"], str(ev[3]), "True"]: return "push_screen_modal put %r on the stack" % (top,)
        if ev[0] == "cb" and ev[2] in ("show", "prompt", "input"):
            name = x.specs[ev[1]]["name"]
            if ev[2] == "show" and (not st or st[-1][0] != name):
                return "screen %s was drawn while the stack was %r (it is not the top)" % (name, st)
        if ev[0] == "cb" and ev[2] == "closed" and not failed_setup_before_closed(x, i):
            name = x.specs[ev[1]]["name"]
            if prev is not None and (not prev or prev[-1][0] != name or st != prev[:-1]):
                return "closed() of %s fired but the stack went from %r to %r" % (name, prev, st)
        prev = list(st)
    # when the stack becomes empty the application ends - and the scheduler ends it only then: a run that returned without any explicit stop request
    # (exit / force-quit / close of the outermost loop / the quit key) must have an empty stack
    if obs["outcome"] == ["returned"] and prev:
        explicit = any(ev[0] == "api" and ev[1] in ("raise_exit", "force_quit", "close_loop", "new_loop") for i, ev, ctx in x.events())
        quit_key = any(ev[0] == "cb" and ev[2] == "input" for i, ev, ctx in x.events()) and True
        keys = [ev[4] for i, ev, ctx in x.events() if ev[0] == "cb" and ev[2] == "input"]
        rets = [e.get("ret") for s_ in case["screens"] for e in ((s_.get("scripts") or {}).get("input") or [])]
        may_quit = "q" in keys or "q" in rets
        if not explicit and not may_quit:
            return "the application ended although the screen stack is not empty (%r) and nothing requested an exit" % (prev,)
    return None


def failed_setup_before_closed(x, i):
    """the observation before this closed() event is a setup callback that reported failure (its discard is not observable on its own)"""
    for j in range(i - 1, -1, -1):
        ev = x.x[j][0]
        if ev[0] == "cb": return ev[2] == "setup"
        if ev[0] in ("H", "h<"): return False
    return False


def nontrivial(case, obs):
    n = 0; prev = None
    for ev, ctx in obs["xlog"]:
        if "stack" in ctx:
            if prev is not None and ctx["stack"] != prev: n += 1
            prev = ctx["stack"]
    return n >= 3


LEAN_MODULES = ["C04", "C04b"]
objects.install(globals(), ("sstack",))
