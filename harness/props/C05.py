"""C05 - A modal screen blocks its caller and shields everything beneath it."""
from harness.props.session import *
from harness.gen.sessions import gen_case, SidCounter

THEOREM_NOTE = ("Props/C05.lean (+ Lemmas/Shape*): under the history hypotheses WFClose / WFDrain / WFQuiet the _mainloop markers in the pending code correspond to the open "
                "levels; push_screen_modal returns only after its level was closed, which only the close (or failed setup) of the modal entry or its replacement requests; "
                "while it is open nothing beneath the modal entry is refreshed or drawn and the entries beneath stay in place"
                ' After F11 NoErr is needed only for C05_levels_match_modals (C05_*_after_fix).')
HANG_IS_VIOLATION = "pushing a screen as modal returns to the caller once it was closed / the application continues: the implementation hangs on a session the model finishes"
ASSUMPTIONS = ASSUME_SESSION + ["known findings K1 (second close before the innermost _mainloop regained control) and K2 (close_loop drains pending signals of the closing level: the parent is processed inside the nested loop) are excluded by the history hypotheses, evaluated by the model per case and printed as KNOWN-FINDING"]
RULE = ("tame and app sessions with modal pushes from input, refresh, show_all, prompt, closed and from modal screens, 5..30 typed lines inside; oracle: between the call and the return "
        "of push_screen_modal every setup/refresh/show/prompt/input event happens with the stack higher than at the call, closed() never pops below it, and at the return the entries "
        "beneath are the ones that were there; non-trivial = a push_screen_modal that returned after >= 1 typed line"
        ' Later rounds: modal dialogs pushed from closed(), self-closing pumping modals, user handlers and an application exception handler; a notice that takes no input and stays while the user answers the old prompt; modal screens that close themselves and then emit a signal / ask for a redraw in the same callback; oracle additions: callbacks of a screen that is beneath a still-open modal screen (input(): judged by the loop level the screen asked in), signals enqueued while the active queue is a closed level, lost signals.')


def generate(rnd, tier):
    n = 600 if tier == "quick" else 7000
    sid = SidCounter()
    cases = [gen_case(rnd, "tame", sid) for _ in range(n)] + [gen_case(rnd, "app", sid) for _ in range(n // 2)] + [gen_parent_redraw(rnd) for _ in range(n // 3)] + [gen_notice_stays(rnd) for _ in range(n // 10)]
    return [with_cc(c) for c in cases]


def gen_parent_redraw(rnd):
    """a screen shows a modal dialog from input(); the dialog asks for a redraw of the screen beneath it, then closes; possibly nested twice; the quit key inside"""
    depth = rnd.randint(1, 2)
    screens = [dict(id=0, name="S0", title=None, text="root", height=30, input_required=True, no_separator=False, skip_check=False,
                    scripts={"input": [{"acts": [["push_modal", 1, None]], "ret": "PROCESSED"}] + [{"ret": rnd.choice(["DISCARDED", "PROCESSED", "q"])} for _ in range(3)]})]
    handlers = [dict(cls="U0", hid=0, data=None, scripts=[[] for _ in range(6)])]
    sidn = [900]
    def usig():
        sidn[0] += 1; return ["enq", "U0", 0, None, sidn[0]]
    if rnd.random() < 0.5:
        # the caller queues a signal for itself just before the modal push; the modal screen closes itself and pumps the loop
        screens[0]["scripts"]["input"][0]["acts"] = [usig(), ["push_modal", 1, None]] + ([usig()] if rnd.random() < 0.5 else [])
    for d in range(1, depth + 1):
        acts = [["redraw_sig", rnd.randrange(0, d)]] if rnd.random() < 0.7 else []
        nxt = [["push_modal", d + 1, None]] if d < depth else []
        scripts = {"input": [{"acts": acts + nxt, "ret": rnd.choice(["CLOSE", "CLOSE", "q", "DISCARDED"])} for _ in range(4)]}
        r = rnd.random()
        if r < 0.25: scripts["show"] = [{"acts": [["close_sig", d], ["proc", None]]}]          # a progress-like modal: closes itself, then pumps the loop
        elif r < 0.35:
            # the modal screen closes itself from input() and, in the same callback, emits a signal / asks for a redraw of what is beneath
            scripts["input"] = [{"acts": [["close_direct"], usig()] + ([["sched_redraw"]] if rnd.random() < 0.5 else []), "ret": "PROCESSED"} for _ in range(4)]
        elif r < 0.45 and d == depth: scripts["closed"] = [{"acts": [["push_modal", depth + 1, None]]}]   # a "save changes?" dialog shown from closed()
        screens.append(dict(id=d, name="S%d" % d, title=None, text="modal %d" % d, height=30, input_required=True, no_separator=False, skip_check=False, scripts=scripts))
    screens.append(dict(id=depth + 1, name="S%d" % (depth + 1), title=None, text="dialog", height=30, input_required=True, no_separator=False, skip_check=False,
                        scripts={"input": [{"ret": "CLOSE"}] * 4}))
    return with_cc(dict(op="machine", mode="tame", width=80, screens=screens, handlers=handlers, init=[["schedule", 0, None]],
                        stdin=[rnd.choice(["x", "c", "q", ""]) for _ in range(rnd.randint(2, 10))], quit_cb=None,
                        quit_screen=None, exc_handler=True, run_empty=False, deliver_at=[]))


def gen_notice_stays(rnd):
    """the screen beneath is waiting at its prompt when a background signal's handler shows a modal screen that takes no input and stays (a progress notice); the user
    answers the old prompt while the notice is up: the line waits for the screen beneath until the notice is gone; a second signal's handler closes the notice"""
    screens = [dict(id=0, name="S0", title=None, text="hub", height=30, input_required=True, no_separator=False, skip_check=False,
                    scripts={"input": [{"ret": rnd.choice(["PROCESSED", "REDRAW", "DISCARDED"])} for _ in range(5)]}),
               dict(id=1, name="S1", title=None, text="working...", height=30, input_required=False, no_separator=False, skip_check=False, scripts={})]
    if rnd.random() < 0.5: screens[0]["hidden"] = True           # the waiting prompt hides what is typed (password)
    handlers = [dict(cls="U0", hid=0, data=None, scripts=[[["push_modal", 1, rnd.choice([None, 1])]], []]),
                dict(cls="U1", hid=1, data=None, scripts=[[["close_sig", 1]], []])]
    init = [["schedule", 0, None], ["enq", "U0", 0, None, 901]]
    return with_cc(dict(op="machine", mode="tame", width=80, screens=screens, handlers=handlers, init=init, stdin=[rnd.choice(["x", "1", ""]) for _ in range(rnd.randint(1, 3))],
                        quit_cb=None, quit_screen=None, exc_handler=True, run_empty=False, deliver_at=sorted(rnd.sample(range(6, 14), rnd.randint(0, 2)))))


def corpus():
    # witness of the fixed finding F10: a modal screen whose setup fails
    def scr(i, **scripts): return dict(id=i, name="S%d" % i, title=None, text="t%d" % i, scripts=scripts)
    yield with_cc(dict(op="machine", mode="tame", width=80, handlers=[], init=[["schedule", 0, None]], stdin=["a", "b", "c"], deliver_at=[],
                       screens=[scr(0, input=[dict(acts=[["push_modal", 1, None]], ret="PROCESSED"), dict(ret="q")]), scr(1, setup=[dict(ret="fail_before")])]))
    # witness of the fixed finding F11: while the modal screen 1 is on top a CloseScreenSignal of another screen (2) is dispatched: the request is refused, nothing is popped
    yield with_cc(dict(op="machine", mode="tame", width=80, handlers=[], init=[["schedule", 0, None]], stdin=["c", "c"], deliver_at=[], exc_handler=True,
                       screens=[scr(0, show=[dict(acts=[["push_modal", 1, None]])]), scr(1, show=[dict(acts=[["close_sig", 2], ["sched_redraw"]])]), scr(2)]))


def monitor(case, obs):
    x = X(case, obs)
    # C05 quantifies over modal pushes and user actions; an application that calls the raw loop API (execute_new_loop / close_loop) itself is outside it
    # (hypothesis ScreenOnly of the theorems)
    if any(ev[0] == "api" and ev[1] in ("close_loop", "new_loop") for i, ev, ctx in x.events()): return None
    v = lost_signals(case, obs)          # "nothing that was queued for it has been lost"
    if v: return v
    calls = []      # open push_screen_modal calls: [stack at the call]
    for i, ev, ctx in x.events():
        if ctx.get("reader") or "stack" not in ctx: continue
        st = ctx["stack"]
        if ev[0] == "api" and ev[1] == "force_quit": return None          # after a force-quit nothing is processed; C09 covers it
        if ev[0] == "api" and ev[1] == "push_modal": calls.append({"st": list(st), "sched": 0, "redraw_for": set(), "i": i, "scr": ev[2]}); continue
        if ev[0] == "api" and ev[1] == "schedule":
            for c_ in calls: c_["sched"] += 1
        if ev[0] == "api" and ev[1] in ("replace", "close_direct", "close_sig"):
            # the application itself replaces / closes an entry that was beneath the modal one (after the modal entry is gone): its own doing
            for c_ in calls:
                if len(st) <= len(c_["st"]) + c_["sched"]: c_["touched"] = True
        if ev[0] == "api" and ev[1] == "redraw_sig" and calls:
            # a redraw queued for a screen beneath the modal one (it belongs to the blocked outer loop)
            name = x.specs[ev[2]]["name"]
            c_ = calls[-1]
            if any(e[0] == name for e in c_["st"]) and not any(e[0] == name for e in st[len(c_["st"]):]): c_["redraw_for"].add(ev[2])
        if ev[0] == "api<" and ev[1] == "push_modal" and calls:
            rec = calls.pop(); at = rec["st"]
            pos = len(at) + rec["sched"]       # where the modal entry (or what replaced it: the flag is inherited) sits; later non-modal pushes may follow its close
            if len(st) > pos and st[pos][2] == "True":
                return "push_screen_modal returned although the modal screen (or what replaced it) is still on the stack: %r (at the call: %r)" % (st, at)
            for scr in rec["redraw_for"]:
                # nothing that was queued for the caller's side has been lost: once the run is quiescent the screen was refreshed after the return
                name = x.specs[scr]["name"]
                later = [e for e, c in x.x[i:] if e[0] == "cb" and e[1] == scr and e[2] == "refresh"]
                end_stack = next((c["stack"] for e, c in reversed(x.x) if "stack" in c), [])
                stopped = any(e[0] == "api" and e[1] in ("force_quit", "raise_exit", "raise_err", "close_direct", "close_sig", "replace", "push", "push_modal") for e, c in x.x[i:])
                if not later and obs["outcome"][0] == "blocked" and end_stack and end_stack[-1][0] == name and not stopped and not calls:
                    return "a redraw was queued for %s while a modal screen covered it; after push_screen_modal returned it was never refreshed although it is the top screen and nothing else happened" % name
            # schedule() inserts at the bottom: compare as "the old entries are still there in the same order, beneath"
            sub = [e for e in st]
            j = 0
            for e in sub:
                if j < len(at) and e == at[j]: j += 1
            if j != len(at) and not rec.get("touched"): return "push_screen_modal returned with the stack %r; at the call it was %r" % (st, at)
            continue
        if calls and ev[0] == "cb":
            n = len(calls[-1]["st"])
            # entries scheduled (inserted at the bottom) during the modal session shift positions: count them
            name = x.specs[ev[1]]["name"]
            if ev[2] == "closed":
                # an application that itself closes the screen beneath (close_screen() called again after the modal one is gone) is its own doing
                open_close = 0
                for e2, c2 in x.x[:i]:
                    if e2[0] == "api" and e2[1] == "close_direct": open_close += 1
                    if e2[0] == "api<" and e2[1] == "close_direct": open_close -= 1
                # ... and so is a CloseScreenSignal the application itself emitted for that screen (dispatched by its own processing call or by the drain)
                asked = any(e2[0] == "api" and e2[1] == "close_sig" and e2[2] == ev[1] for e2, c2 in x.x[:i])
                if len(st) < n and open_close <= 0 and not asked: return "closed() of %s popped an entry beneath the modal screen (stack %r, %d entries at the call)" % (name, st, n)
            else:
                # the same screen object can be both beneath and the modal one (pushed over itself): its callbacks right after its modal entry was popped
                # (a screen that closes itself while being drawn is still asked for its prompt) are not callbacks of the screen beneath
                if len(st) == n and any(c_["scr"] == ev[1] for c_ in calls): continue
                held = True
                if ev[2] == "input":
                    # the line belongs to the loop level the screen asked in: it is "given to a screen beneath" only if that level is still open and covered
                    asked = next((c_ for e_, c_ in reversed(x.x[:i]) if e_[0] == "cb" and e_[1] == ev[1] and e_[2] == "prompt" and "lvl" in c_), None)
                    held = asked is not None and asked["lvl"] in (ctx.get("levels") or []) and asked["lvl"] != ctx.get("lvl")
                if len(st) > n and held and ev[2] in ("refresh", "show", "prompt", "input") and name not in [e_[0] for e_ in st[n:]] and name in [e_[0] for e_ in st[:n]]:
                    # the modal screen (or what was pushed over it) is still up and the callback belongs to a screen that is only beneath it
                    return "%s() of %s ran inside push_screen_modal while the stack was %r: %s is beneath the modal screen (%d entries at the call)" % (ev[2], name, st, name, n)
                if len(st) <= n: return "%s() of %s ran inside push_screen_modal while the stack was %r (%d entries at the call): a screen beneath the modal one" % (ev[2], name, st, n)
    return None


def classify(case, obs, verdict, model):
    fl = (model or {}).get("flags", [])
    if "K6" in fl: return "K6"
    if "K1" in fl: return "K1"
    if "K2" in fl: return "K2"
    return None


def run_witness(wit):
    if "handlers" not in wit: return None
    case = with_cc(dict(op="machine", mode="tame", width=80, **wit))
    return monitor(case, run_impl(case)) is not None


def nontrivial(case, obs):
    return any(ev[0] == "api<" and ev[1] == "push_modal" for ev, ctx in obs["xlog"]) and any(e[0] == "read" for e in obs["log"])
