"""C06 - Each typed line reaches exactly the screen that asked - once, in order, intact."""
from harness.props.session import *
from harness.gen.sessions import gen_case, SidCounter

THEOREM_NOTE = ("Props/C06.lean: the line read from the console is carried unmodified through InputReceived -> InputReady -> the one-shot callback -> input(); end of input is the "
                "empty line; the callback belongs to the asking screen and gets the arguments of that request; each delivery consumes one line, produces one InputReceived, one "
                "successful InputReady, at most one input() call; lines are consumed in order and at most one reader is pending"
                ' Props/C06b.lean: the lines received by input() are an in-order subsequence of the lines read (C06_order_within_level) under NoReadyCovered and NoReadyReentry, both shown necessary (K5, K5r).')
HANG_IS_VIOLATION = "every line typed is delivered: the implementation hangs on a session the model finishes"
ASSUMPTIONS = ASSUME_SESSION + ["liveness (the line is eventually delivered) is checked by the oracle on sessions, not proved: it fails by design when the application stops or a signal is routed to a blocked outer level"]
RULE = ("tame sessions (stack operations from input(), 5..30 typed lines incl. empty, blanks, unicode and the global keys, early and late delivery points, screens shown at several "
        "modal depths, end of input) and app sessions; oracle: the keys received by input() are, in order, lines read from the console; in tame sessions every line read is "
        "delivered exactly once to the screen whose prompt preceded the read, with the arguments of that prompt, before the next read - unless the application stopped; "
        "non-trivial = >= 2 lines delivered"
        ' Later rounds: hidden (password) prompts, modal notices shown by handlers while a prompt waits with lines typed while the handler is busy, application handlers on InputReadySignal (K5r); lines are owed first-in first-out; a hang on a session the model finishes is a failing input.')

LINES = ["r", "c", "q", "x", "", "1", " ", "  a b ", "é", "ünï", "c", "c", "12", "q", "\t"]


def gen_c06_dialog(rnd, sid):
    """a screen is waiting for input; a signal handler shows a modal dialog that bypasses the concurrency check; the user answers the dialog, then the screen"""
    nscr = rnd.randint(2, 3)
    screens = []
    for i in range(nscr):
        sc = {"input": [{"ret": rnd.choice(["PROCESSED", "REDRAW", "CLOSE", "CLOSE", "DISCARDED"])} for _ in range(6)]}
        screens.append(dict(id=i, name="S%d" % i, title=None, text="t%d" % i, height=30, input_required=True, no_separator=False,
                            skip_check=(i > 0 and rnd.random() < 0.8), scripts=sc, hidden=rnd.random() < 0.3))
    if rnd.random() < 0.4:
        # the dialog is a notice: it takes no input and closes itself while it is drawn
        screens[1]["input_required"] = False; screens[1]["scripts"] = {"show": [{"acts": [["close_sig", 1]]}] * 3}
    hs = [dict(cls="U0", hid=0, data=None, scripts=[[[rnd.choice(["push_modal", "push_modal", "push"]), rnd.randrange(1, nscr), rnd.choice([None, 1])]] for _ in range(3)])]
    init = [["schedule", 0, rnd.choice([None, 2])]] + [["enq", "U0", rnd.choice([0, 0, 1]), None, sid.next()] for _ in range(rnd.randint(1, 2))]
    deliver_at = sorted(rnd.sample(range(1, 30), rnd.choice([0, 0, 2, 5])))
    if screens[1]["input_required"] is False and rnd.random() < 0.7:
        # the user answers the waiting prompt while the handler is busy showing the notice (the line arrives in the notice's loop)
        deliver_at = sorted(set(deliver_at + [rnd.randint(5, 8)]))
    return dict(op="machine", mode="dialog", width=80, screens=screens, handlers=hs, init=init, stdin=[rnd.choice(LINES) for _ in range(rnd.randint(2, 8))],
                quit_cb=None, quit_screen=None, exc_handler=True, run_empty=False, deliver_at=deliver_at)


def gen_c06_ready_handler(rnd, sid):
    """the application registers a handler of its own for InputReadySignal (it runs before the InputHandler's one): it observes, redraws, or re-enters the loop"""
    c = gen_case(rnd, "tame", sid)
    c["stdin"] = [rnd.choice(LINES) for _ in range(rnd.randint(2, 10))]
    scripts = []
    for _ in range(rnd.randint(1, 4)):
        r = rnd.random()
        if r < 0.4: scripts.append([])
        elif r < 0.6: scripts.append([["sched_redraw"]])
        elif r < 0.8: scripts.append([["sched_redraw"], ["proc", "InputReady"]])
        else: scripts.append([["proc", None]])
    c["handlers"] = list(c["handlers"]) + [dict(cls="InputReady", hid=len(c["handlers"]), data=None, scripts=scripts)]
    return c


LEAN_MODULES = ["C06", "C06b"]


def gen_rawread(rnd):
    """the console read itself, below the seam the sessions use: a content of the standard input (lines with and without a final line end, empty lines, blanks, other
    control characters), read n times"""
    pieces = [rnd.choice(["x", "", "  spaced  ", "last", "c", "tab\there", "cr\r", "é"]) for _ in range(rnd.randint(0, 5))]
    content = "\n".join(pieces) + rnd.choice(["", "\n"])
    return {"op": "rawread", "content": content, "n": len(pieces) + rnd.randint(0, 2)}


def rawread_rule(case, obs):
    pieces = case["content"].split("\n")
    exp = [pieces[i] if i < len(pieces) else "" for i in range(case["n"])]          # a line is delivered intact; the end of the input is the empty line
    if obs["lines"] != exp: return "the standard input %r read %d times gave %r; typed lines intact and end-of-file as the empty line would be %r" % (case["content"], case["n"], obs["lines"], exp)
    return None


def generate(rnd, tier):
    n = 700 if tier == "quick" else 8000
    sid = SidCounter()
    raw = [gen_rawread(rnd) for _ in range(n // 4)]
    cases = [gen_c06_ready_handler(rnd, sid) for _ in range(n // 10)]
    for _ in range(n):
        c = gen_case(rnd, "tame", sid)
        c["stdin"] = [rnd.choice(LINES) for _ in range(rnd.randint(3, 30))]
        for s_ in c["screens"]: s_["hidden"] = rnd.random() < 0.2          # hidden (password) prompts, also at the end of the input
        cases.append(c)
    cases += [gen_case(rnd, "app", sid) for _ in range(n // 3)] + [gen_c06_dialog(rnd, sid) for _ in range(n // 3)]
    # the notice scenario on its own: a prompt is waiting, handlers show a modal notice (no input, closes itself) once or twice; the user types while a handler is busy
    for _ in range(n // 5):
        c = gen_c06_dialog(rnd, sid)
        c["screens"][1]["input_required"] = False; c["screens"][1]["scripts"] = {"show": [{"acts": [["close_sig", 1]]}] * 4}
        c["handlers"][0]["scripts"] = [[["push_modal", 1, rnd.choice([None, 1])]] for _ in range(3)]
        c["deliver_at"] = sorted(set(rnd.sample(range(5, 12), rnd.randint(1, 3)) + rnd.sample(range(12, 40), rnd.randint(0, 3))))
        cases.append(c)
    return [with_cc(c) for c in cases] + raw


def corpus():
    def scr(i, **scripts): return dict(id=i, name="S%d" % i, title=None, text="t%d" % i, scripts=scripts)
    # witness of the fixed finding F6: a screen shown at the outer level, closed, shown again as modal
    yield with_cc(dict(op="machine", mode="tame", width=80, handlers=[], init=[["schedule", 0, None]], stdin=["a", "b", "c", "d", "e"], deliver_at=[],
                       screens=[scr(0, input=[dict(acts=[["push", 1, None]], ret="PROCESSED"), dict(acts=[["push_modal", 1, None]], ret="PROCESSED"), dict(ret="q")]),
                                scr(1, input=[dict(ret="CLOSE"), dict(ret="CLOSE")])]))
    # witness of the fixed finding F9: a refused concurrent request (KeyError handled by the application), then a typed line
    yield with_cc(dict(op="machine", mode="app", width=80, handlers=[dict(cls="U0", hid=0, data=None, scripts=[[["get_user_input", 1, False]]])], exc_handler=True,
                       init=[["schedule", 0, None], ["enq", "U0", 0, None, 1]], stdin=["a", "b", "c"], deliver_at=[], screens=[scr(0, input=[dict(ret="PROCESSED")]), scr(1)]))


def monitor(case, obs):
    # one console reader at a time: with two alive, a typed line is taken by whichever gets it and the other one keeps the main loop waiting
    for ev, ctx in obs.get("xlog") or []:
        if isinstance(ctx, dict) and ctx.get("readers", 0) > 1 and not ctx.get("reader"):
            return "%d console reader threads are alive at once (at %r): a line typed now does not reach the asking screen until another line is typed" % (ctx["readers"], ev[:3])
    x = X(case, obs)
    reads = [ev[1] for i, ev, ctx in x.events() if ev[0] == "read"]
    inputs = [(ev[1], ev[3], ev[4]) for i, ev, ctx in x.events() if ev[0] == "cb" and ev[2] == "input"]
    # (1) order / no duplication / no alteration: the keys are a subsequence of the lines read
    j = 0
    for scr, args, key in inputs:
        while j < len(reads) and reads[j] != key: j += 1
        if j == len(reads): return "input() of screen %d received %r which is not (any more) a line read from the console: reads %r, keys %r" % (scr, key, reads, [k for _, _, k in inputs])
        j += 1
    # end of input is delivered as the empty line
    n_typed = len(case.get("stdin") or [])
    if any(l != "" for l in reads[n_typed:]): return "a read after the end of the input returned %r" % reads[n_typed:]
    if reads[:n_typed] != (case.get("stdin") or [])[:len(reads)][:n_typed]: return "lines read %r differ from the lines typed %r" % (reads, case.get("stdin"))
    # (2) each input() gets the arguments of an outstanding prompt of that screen;
    # (3)+(4) the line goes to the most recent accepted requester, exactly once, before the next read - unless the application stopped.
    # Applied where every request is visible to the oracle: no paging (heights >= 30), no raw loop API, no force-quit.
    last_prompt = {}
    plain = not any(ev[0] == "api" and ev[1] in ("force_quit", "proc", "new_loop", "close_loop") for i, ev, ctx in x.events()) \
        and all(s.get("height", 30) >= 30 for s in case["screens"])
    counts = {}
    stack = []            # outstanding accepted requests: ("scr", screen) | ("blocking", screen)
    pending_read = None   # (receiver, line) of the last read, until delivered
    alt = []              # bypassing requesters that asked between the read and its delivery
    owed = []             # earlier reads (same level) not yet delivered when a later reader was started: ((receiver, line), alternatives), oldest first
    ambiguous = False
    last_depth = None
    for i, ev, ctx in x.events():
        if "depth" in ctx: last_depth = ctx["depth"]
        if ev[0] == "cb" and ev[2] == "prompt":
            last_prompt.setdefault(ev[1], []).append(ev[3])
            k = counts.get(ev[1], 0); counts[ev[1]] = k + 1
            sc = ((x.specs[ev[1]].get("scripts") or {}).get("prompt") or [])
            ent = sc[k] if k < len(sc) else {}
            # the request is issued when prompt() returns: after the actions of its script (which the oracle sees as later events) - record it as a marker to be
            # activated at the next observation that is not part of this callback; scripts of prompt() are rare, so only script-free prompts are tracked exactly
            if ent.get("acts"): plain = False
            if ent.get("ret") != "none":
                if pending_read is not None:
                    # a bypassing request issued after the line was read but before it is handled becomes the most recent requester: it receives the line (C18)
                    # - if the line has not been handled yet; whether it has is not observable, so either receiver is accepted
                    alt.append(ev[1]); ambiguous = True
                elif not stack or x.specs[ev[1]].get("skip_check"): stack.append(("scr", ev[1], ctx.get("depth")))
        if ev[0] == "api" and ev[1] == "get_user_input":
            if pending_read is not None: plain = False        # a request between a read and its delivery: whether the line was handled already is not observable
            if not stack or x.specs[ev[2]].get("skip_check"): stack.append(("blocking", ev[2], ctx.get("depth")))
        if ev[0] == "read":
            if plain and pending_read is not None and pending_read[0][0] == "scr" and pending_read[0][2] == last_depth:
                if not alt:
                    return "the line %r was read for the prompt of screen %d and never delivered before the next read" % (pending_read[1], pending_read[0][1])
                # a request was issued after that read and a new reader was started for it: the earlier line had been taken from the reader (its requester is
                # settled) and is still owed to its receiver; the lines are delivered first-in first-out
                owed.append((pending_read, list(alt)))
                pending_read = (("scr", alt[-1], last_depth), ev[1]); stack = []; alt = []
            else:
                if not (pending_read is not None and pending_read[0][2] == last_depth): owed = []
                pending_read = ((stack[-1] if stack else ("?", None, None)), ev[1]); stack = []; alt = []
        if ev[0] == "cb" and ev[2] == "input":
            scr, args, key = ev[1], ev[3], ev[4]
            if args not in last_prompt.get(scr, []): return "input() of screen %d got args %r, its outstanding prompts were asked with %r" % (scr, args, last_prompt.get(scr))
            last_prompt[scr].remove(args)
            if plain and owed:
                (recv, line), alts = owed.pop(0)
                if line != key: return "input() received %r, the line read before it (%r, typed at the prompt of screen %r) was skipped" % (key, line, recv[1])
                if scr not in alts + [recv[1]]: return "the line %r typed at the prompt of screen %r was handed to screen %d" % (key, recv[1], scr)
                continue
            if plain and ambiguous and pending_read is not None and scr in alt + [pending_read[0][1]]:
                if pending_read[1] != key: return "input() received %r, the line read was %r" % (key, pending_read[1])
                plain = False       # from here on the oracle cannot tell which requests are still outstanding
            if plain:
                if pending_read is None: return "input() of screen %d received %r without a preceding read" % (scr, key)
                if pending_read[1] != key: return "input() received %r, the line read was %r" % (key, pending_read[1])
                if pending_read[0][0] == "scr" and pending_read[0][1] != scr and scr not in alt: return "the line %r typed at the prompt of screen %r was handed to screen %d" % (key, pending_read[0][1], scr)
                if pending_read[0][0] == "blocking": return "the line %r answered a blocking request but was handed to input() of screen %d" % (key, scr)
                pending_read = None
    # a line held for a screen beneath an open modal loop is held, not lost (C03/C05): the hang is reported only when the loop that blocks is the one the
    # asking screen was shown in
    if plain and pending_read is not None and pending_read[0][0] == "scr" and obs["outcome"][0] == "blocked" and pending_read[0][2] == last_depth:
        return "the line %r typed at the prompt of screen %r was read and never delivered: the application hangs" % (pending_read[1], pending_read[0][1])
    return None


def classify(case, obs, verdict, model):
    fl = (model or {}).get("flags", [])
    # the two hypotheses of C06_order_within_level (Props/C06b.lean), decided by the driver on the model's history of the same case
    if "K5" in fl and "which is not (any more) a line read from the console" in verdict: return "K5"
    if "K5r" in fl and "which is not (any more) a line read from the console" in verdict: return "K5r"
    return None


def run_witness(wit):
    case = with_cc(dict(op="machine", mode="app", width=80, exc_handler=False, run_empty=False, **wit))
    v = monitor(case, run_impl(case))
    return v is not None and "which is not (any more)" in v


def nontrivial(case, obs):
    return sum(1 for e in obs["log"] if e[0] == "cb" and e[2] == "input") >= 2


_c06_run_impl, _c06_model_case, _c06_monitor, _c06_nontrivial, _c06_compare = run_impl, model_case, monitor, nontrivial, compare
_c06_outcome, _c06_shrink, _c06_classify, _c06_truncate = outcome, shrink, classify, truncate


def run_impl(case):
    if case.get("op") == "rawread":
        from harness.impl.render import run_impl as pure_run
        return pure_run(case)
    return _c06_run_impl(case)
def model_case(case): return None if case.get("op") == "rawread" else _c06_model_case(case)          # (judged by the oracle only)
def monitor(case, obs): return rawread_rule(case, obs) if case.get("op") == "rawread" else _c06_monitor(case, obs)
def nontrivial(case, obs): return len(case["content"]) > 2 if case.get("op") == "rawread" else _c06_nontrivial(case, obs)
def compare(case, impl, model): return None if case.get("op") == "rawread" else _c06_compare(case, impl, model)
def outcome(case, obs): return "rawread" if case.get("op") == "rawread" else _c06_outcome(case, obs)
def shrink(case): return iter(()) if case.get("op") == "rawread" else _c06_shrink(case)
def classify(case, obs, verdict, model): return None if case.get("op") == "rawread" else _c06_classify(case, obs, verdict, model)
def truncate(case, obs, model): return obs if case.get("op") == "rawread" else _c06_truncate(case, obs, model)
