"""C07 - What input() returns decides exactly one follow-up action."""
from harness.props.session import *
from harness.gen.sessions import gen_case, SidCounter

THEOREM_NOTE = ("Props/C07.lean: the classification table from input()'s result to the action; the act step does exactly one thing per action (nothing / one render request / "
                "close the top screen / quit or the quit dialog branch / re-issue the prompt, or one render request on every fifth consecutive rejection); the rejection "
                "counter is per screen, +1 on rejection, reset by any accepted line and by a None prompt; an exception in input() is contained"
                " Props/C07b.lean: the return value and remembered state of the library's own dialogs, line by line and over sequences.")
ASSUMPTIONS = ASSUME_SESSION
RULE = ("sessions over stacks of 1..3 plain screens whose input() scripts only return values (the four states, the global keys r/c/q, other strings, None; no actions), with and "
        "without a quit dialog answering yes / no / garbage / None / having no answer attribute, sequences of 4, 5, 10 rejections, alternating screens; oracle: an independent "
        "reference interpreter of the property predicts the whole callback sequence; plus generic tame sessions compared with the model; non-trivial = >= 3 lines handled"
        " Later rounds: a modal question asked before run(); the library's own dialogs (YesNoDialog, PasswordDialog, HelpScreen, ErrorDialog, GetInputScreen with acceptance conditions) given line sequences, compared with Model/Dialogs.lean and judged line by line against their documentation.")

RETS = ["PROCESSED", "REDRAW", "CLOSE", "DISCARDED", "DISCARDED", "DISCARDED", "r", "c", "q", "zz", "NONE", None]


def gen_c07(rnd):
    nscr = rnd.randint(1, 3)
    screens = []
    for i in range(nscr):
        n = rnd.randint(3, 25)
        style = rnd.random()
        if style < 0.3: rets = ["DISCARDED"] * rnd.choice([4, 5, 6, 9, 10, 11]) + [rnd.choice(RETS) for _ in range(5)]
        else: rets = [rnd.choice(RETS) for _ in range(n)]
        ents = []
        for r in rets:
            if r == "PROCESSED" and rnd.random() < 0.7: ents.append({"ret": r, "acts": [["redraw_sig", i]]})      # processed; the screen asks for its own redraw
            elif r is not None: ents.append({"ret": r})
            else: ents.append({})
        sc = {"input": ents}
        screens.append(dict(id=i, name="S%d" % i, title=rnd.choice([None, "T%d" % i]), text=rnd.choice([None, "hello"]), height=30, input_required=True,
                            no_separator=False, skip_check=False, scripts=sc))
    quit_screen = None
    if rnd.random() < 0.5:
        ans = rnd.choice(["yes", "no", "garbage", "none", "noattr"])
        q = dict(id=nscr, name="Q", title="Question", text="quit?", height=30, input_required=True, no_separator=False, skip_check=False,
                 scripts={"input": [{"ret": "CLOSE"}] * 6})
        if ans == "yes": q["answer"] = True
        elif ans == "no": q["answer"] = False
        elif ans == "none": q["answer"] = None
        elif ans == "garbage": q["answer"] = False; q["scripts"] = {"input": [{"ret": "DISCARDED"}, {"ret": "zz"}, {"ret": "CLOSE"}] * 3}
        screens.append(q); quit_screen = nscr
    keys = ["x", "r", "c", "q", "", "1", "zz"]
    init = [["schedule", i, rnd.choice([None, 1])] for i in range(nscr)]
    if rnd.random() < 0.25:
        # a modal question asked before run() (the screens are scheduled, their first draw is still queued): the same rules hold inside its loop
        m = len(screens)
        rets = [rnd.choice(["DISCARDED", "DISCARDED", "DISCARDED", "REDRAW", "r", "zz", "PROCESSED"]) for _ in range(rnd.randint(0, 12))] + ["CLOSE"] * 40
        ents = [({"ret": "PROCESSED", "acts": [["redraw_sig", m]]} if r == "PROCESSED" else {"ret": r}) for r in rets]
        screens.append(dict(id=m, name="M", title="Modal", text="question", height=30, input_required=True, no_separator=False, skip_check=False, scripts={"input": ents}))
        init.append(["push_modal", m, rnd.choice([None, 2])])
    return dict(op="machine", mode="c07", width=80, screens=screens, handlers=[], init=init,
                stdin=[rnd.choice(keys) for _ in range(rnd.randint(3, 40))], quit_cb=None, quit_screen=quit_screen, exc_handler=False, run_empty=False, deliver_at=[])


LEAN_MODULES = ["C07", "C07b"]


def gen_dialog(rnd):
    """the library's own dialogs (adv_widgets): a kept dialog object is given lines in turn"""
    kind = rnd.choice(["yesno", "yesno", "password", "help", "error", "getinput", "getinput", "getinput"])
    words = ["yes", "no", "", "y", "YES", "No", "yes ", " no", "maybe", "abc", "ab", "abcd", "a", "0", "x" * 9]
    c = {"op": "dialog", "kind": kind, "keys": [rnd.choice(words) for _ in range(rnd.randint(1, 6))]}
    if kind == "getinput":
        c["conds"] = [rnd.choice([["min_len", rnd.randint(0, 4)], ["max_len", rnd.randint(0, 5)], ["equals", rnd.choice(words)], ["differs", rnd.choice(words)],
                                  ["starts_with", rnd.choice(["a", "y", "n"])]]) for _ in range(rnd.randint(0, 4))]
    return c


def dialog_rule(case, obs):
    """the statement of the dialogs' documentation, line by line"""
    st = None
    for key, o in zip(case["keys"], obs):
        k = case["kind"]
        if k == "yesno":
            exp = ("CLOSE", True) if key == "yes" else ("CLOSE", False) if key == "no" else ("DISCARDED", st)
        elif k == "password": exp = ("CLOSE", key) if key else ("DISCARDED", st)
        elif k == "help": exp = ("CLOSE", None)
        elif k == "error": exp = ("exit1", None)
        else:
            ok = True; n = 0
            for kind, a in case["conds"]:
                n += 1
                if not {"min_len": len(key) >= a if kind == "min_len" else None, "max_len": len(key) <= a if kind == "max_len" else None, "equals": key == a, "differs": key != a,
                        "starts_with": key[:1] == a}[kind]:
                    ok = False; break
            exp = ("CLOSE", key) if ok else ("DISCARDED", st)
            if o.get("asked") != n: return "%d acceptance conditions were asked about %r, expected %d (in order, up to the first that rejects)" % (o.get("asked"), key, n)
        if (o["ret"], o["state"]) != exp: return "%s dialog given %r: returned %r and remembers %r; expected %r / %r" % (k, key, o["ret"], o["state"], exp[0], exp[1])
        st = o["state"]
    return None


def gen_c07_none(rnd, sid):
    """k rejected lines, an accepted line after which the screen redraws itself and its prompt() answers None once (no input is asked for; a queued signal's handler
    asks for the next redraw), then rejected lines again: the rejection count starts from zero, the redraw comes on the fifth"""
    k = rnd.randint(1, 4); s_ = sid.next()
    inp = [{"ret": "DISCARDED"} for _ in range(k)] + [{"ret": "PROCESSED", "acts": [["redraw_sig", 0], ["enq", "U0", 1, None, s_]]}] + [{"ret": "DISCARDED"} for _ in range(rnd.randint(3, 11))] + [{"ret": "q"}]
    prompts = [{} for _ in range(k + 1)] + [{"ret": "none"}] + [{} for _ in range(20)]
    s0 = dict(id=0, name="S0", title=rnd.choice([None, "T0"]), text="hello", height=30, input_required=True, no_separator=False, skip_check=False, scripts={"input": inp, "prompt": prompts})
    return dict(op="machine", mode="c07", width=80, screens=[s0], handlers=[dict(cls="U0", hid=0, data=None, scripts=[[["redraw_sig", 0]]])], init=[["schedule", 0, rnd.choice([None, 1])]],
                stdin=["x"] * 30, quit_cb=None, quit_screen=None, exc_handler=False, run_empty=False, deliver_at=[])


def generate(rnd, tier):
    n = 700 if tier == "quick" else 8000
    sid = SidCounter()
    cases = [gen_c07_none(rnd, sid) for _ in range(n // 20)] + [gen_c07(rnd) for _ in range(n)] + [gen_case(rnd, "tame", sid) for _ in range(n // 3)]
    for c in cases:
        # the application had an earlier life (App.initialize(), the same screen objects shown and answered once, quit) and starts over with App.initialize()
        if rnd.random() < 0.15: c["prelife"] = True
    return [with_cc(c) for c in cases] + [gen_dialog(rnd) for _ in range(n // 2)]


def reference(case):
    """the property as an interpreter: predicted callback sequence for the restricted family generated by gen_c07"""
    specs = {s["id"]: s for s in case["screens"]}
    stack = []           # bottom ... top: [screen, args, modal]
    returns = []         # modal frames: what to do when the modal screen closes ("quit": the quit dialog, "plain": a modal screen pushed before run())
    for a in case["init"]:
        if a[0] == "schedule": stack.insert(0, [a[1], a[2], False])
        else: stack.append([a[1], a[2], True]); returns.append("plain")
    ready = set(); counts = {}; errs = {}
    lines = list(case["stdin"]); log = []
    def ret_of(scr):
        k = counts.get(scr, 0); counts[scr] = k + 1
        sc = (specs[scr].get("scripts") or {}).get("input") or []
        if k < len(sc) and sc[k].get("acts"):
            queued.extend(a for a in sc[k]["acts"] if a[0] == "enq")
            return "PROCESSED+redraw"
        return (sc[k].get("ret") if k < len(sc) else None)
    pcount = {}; asked = [True]; queued = []
    def prompt_cb():
        scr, args, _ = stack[-1]; log.append(["cb", scr, "prompt", args])
        j = pcount.get(scr, 0); pcount[scr] = j + 1
        ps = (specs[scr].get("scripts") or {}).get("prompt") or []
        asked[0] = not (j < len(ps) and ps[j].get("ret") == "none")
        if not asked[0]: errs[scr] = 0               # a None prompt: no input is asked for, the rejection count starts again
    def draw():
        scr, args, _ = stack[-1]
        if scr not in ready: log.append(["cb", scr, "setup", args]); ready.add(scr)
        log.append(["cb", scr, "refresh", args]); log.append(["cb", scr, "show"]); prompt_cb()
    def prompt_only():
        prompt_cb()
    draw()
    while True:
        if not asked[0]:
            # nothing is read; a queued user signal is dispatched (its handler asks for a redraw of screen 0), else the loop blocks
            if not queued: return log, "blocked"
            sg = queued.pop(0); h = next(h_ for h_ in case["handlers"] if h_["cls"] == sg[1])
            log.append(["H", h["hid"], sg[4], h.get("data"), len(returns) + 1]); log.append(["h<", h["hid"]]); draw(); continue
        line = lines.pop(0) if lines else ""
        if not lines and len(log) > 3000: return log, "cut"
        log.append(["read", line])
        scr, args, modal = stack[-1]
        log.append(["cb", scr, "input", args, line])
        r = ret_of(scr)
        if r is None: r = line            # the screen returns the key itself
        if r == "NONE": r = None
        if r == "PROCESSED+redraw":
            errs[scr] = 0; draw(); continue           # 'processed' - nothing further by the framework; the redraw the screen itself asked for is then served
        action = {"PROCESSED": "noop", "REDRAW": "redraw", "CLOSE": "close", "DISCARDED": "error", "r": "redraw", "c": "close", "q": "quit"}.get(r, "error")
        if action == "error":
            errs[scr] = errs.get(scr, 0) + 1
            if errs[scr] % 5 == 0: draw()
            else: prompt_only()
            continue
        errs[scr] = 0
        if action == "noop": return log, "blocked"
        if action == "redraw": draw(); continue
        if action == "quit":
            q = case.get("quit_screen")
            if q is None: return log, "returned"
            stack.append([q, None, True]); returns.append("quit"); draw(); continue
        if action == "close":
            top = stack.pop(); log.append(["cb", top[0], "closed"])
            if top[2]:
                log.append(["modal<"]) if False else None
                what = returns.pop()
                if what == "plain":
                    # push_screen_modal returns to the caller (before run()); run() then serves the draw that was queued when the screens were scheduled
                    log.append(["modal<"]); draw(); continue
                ans = specs[top[0]].get("answer", "noattr")
                if ans is True or ans == "noattr": return log, "returned"
                if not stack: return log, "returned"
                draw(); continue
            if not stack: return log, "returned"
            draw(); continue


def quit_rule(case, obs):
    """the quit key - the application quits (no dialog configured): after input() answered 'q' no further callback runs and run() returns"""
    if case.get("quit_screen") is not None: return None
    log = obs["log"]; counts = {}
    specs = {s["id"]: s for s in case["screens"]}
    for i, e in enumerate(log):
        if e[0] == "cb" and e[2] == "input":
            k = counts.get(e[1], 0); counts[e[1]] = k + 1
            sc = (specs[e[1]].get("scripts") or {}).get("input") or []
            ent = sc[k] if k < len(sc) else {}
            r = ent.get("ret")
            if ent.get("acts"): continue
            if r == "q" or (r is None and e[4] == "q"):
                rest = [x for x in log[i + 1:] if x[0] in ("cb", "H")]
                if rest: return "input() answered the quit key but %r ran afterwards" % (rest[0],)
                if obs["outcome"][0] not in ("returned", "fuel"): return "input() answered the quit key but the application did not quit normally: %r" % (obs["outcome"],)
    return None


def monitor(case, obs):
    if case.get("op") == "dialog": return dialog_rule(case, obs)
    v = quit_rule(case, obs)
    if v: return v
    if case.get("mode") != "c07": return None
    exp, how = reference(case)
    got = obs["log"]
    if how == "cut" or obs["outcome"] == ["fuel"]:
        n = min(len(exp), len(got)) - 5
        if n > 0 and got[:n] != exp[:n]:
            k = next(i for i in range(n) if got[i] != exp[i])
            return "event #%d is %r; the property predicts %r" % (k, got[k], exp[k])
        return None
    if got != exp:
        k = next((i for i in range(min(len(got), len(exp))) if got[i] != exp[i]), min(len(got), len(exp)))
        return "event #%d is %r; the property predicts %r (after %r)" % (k, got[k] if k < len(got) else None, exp[k] if k < len(exp) else None, got[max(0, k - 3):k])
    if obs["outcome"][0] != how: return "the session ended %r; the property predicts %r" % (obs["outcome"], how)
    return None


from harness.props import session as _s


def run_impl(case):
    if case.get("op") == "dialog":
        from harness.impl.render import run_impl as pure_run
        return pure_run(case)
    return _s.run_impl(case)


def model_case(case): return case if case.get("op") == "dialog" else _s.model_case(case)
def with_cc(case): return case if case.get("op") == "dialog" else _s.with_cc(case)
def strip_obs(obs): return _s.strip_obs(obs) if isinstance(obs, dict) else obs
def outcome(case, obs): return ("dialog/" + case["kind"]) if case.get("op") == "dialog" else _s.outcome(case, obs)


def compare(case, impl, model):
    if case.get("op") == "dialog":
        return None if impl == model else "implementation %r / model %r" % (impl, model)
    return _s.compare(case, impl, model)


def shrink(case):
    if case.get("op") == "dialog":
        for i in range(len(case["keys"])): yield dict(case, keys=case["keys"][:i] + case["keys"][i + 1:])
        return
    yield from _s.shrink(case)


def nontrivial(case, obs):
    if case.get("op") == "dialog": return len(case["keys"]) >= 2
    return sum(1 for e in obs["log"] if e[0] == "cb" and e[2] == "input") >= 3
