"""C08 - Screen lifecycle: set up once, refreshed before every draw, closed once."""
from harness.props.session import *
from harness.gen.sessions import gen_case, SidCounter

THEOREM_NOTE = ("Props/C08.lean: setup is invoked only for a screen that is not ready, and ready is set only by a setup that ran the base method and never reset; every draw of an "
                "entry is preceded by a refresh of that entry with its arguments; a failed setup discards the entry and pushes no refresh/draw/prompt for it; the closed "
                "callback is pushed exactly once per pop-by-close, for the popped entry, never by replace or discard")
ASSUMPTIONS = ASSUME_SESSION
RULE = ("tame and app sessions with failing setups (before / after the base method), screens shown several times and at several modal depths, closes from refresh / show_all, "
        "rejected lines; oracle: per screen - no setup after a successful one, setup before the first refresh, each show directly preceded (among that screen's events of the "
        "same activation) by a refresh with the entry's arguments, no refresh/show/prompt after a failed setup until the next setup, closed() fires exactly when a close pops "
        "the entry and never inside replace; non-trivial = a screen shown >= 2 times or a failed setup"
        ' Later rounds: one screen object on the stack twice with equal arguments whose upper entry closes / replaces itself from refresh(); oracle: the entry drawn is the entry that was refreshed, by identity.')


def gen_over_itself(rnd):
    """one screen object on the stack twice, one entry right above the other with equal arguments (a screen that pushes itself); from its refresh() the upper entry
    closes itself, or replaces itself by yet another entry of the same screen"""
    args = rnd.choice([None, 1])
    what = rnd.choice([["close_direct"], ["replace", 0, args], ["close_sig", 0]])
    k = rnd.choice([1, 2])
    refresh = [{} for _ in range(k)] + [{"acts": [what]}] + [{} for _ in range(6)]
    s0 = dict(id=0, name="S0", title=None, text="t", height=30, input_required=True, no_separator=False, skip_check=False,
              scripts={"refresh": refresh, "input": [{"acts": [[rnd.choice(["push", "push_modal"]), 0, args]], "ret": "PROCESSED"}] + [{"ret": rnd.choice(["REDRAW", "DISCARDED", "PROCESSED"])} for _ in range(5)]})
    return dict(op="machine", mode="tame", width=80, screens=[s0], handlers=[], init=[["schedule", 0, args]], stdin=[rnd.choice(["x", "r", ""]) for _ in range(rnd.randint(2, 6))],
                quit_cb=None, quit_screen=None, exc_handler=True, run_empty=False, deliver_at=[])


def gen_oneshot_dialogs(rnd):
    """'create a dialog, push it (modal or not), forget it', many times: every dialog object is created when it is first needed and dropped by the application when it
    was closed (lazy_screens: the adapter creates the objects on demand, forgets them at closed() and collects garbage) - a new dialog may live at the address of a dead one"""
    k = rnd.randint(8, 40); modal = rnd.random() < 0.9       # (a screen shown in the outermost loop stays registered there as a signal source: only dialogs of modal loops are ever freed)
    root = dict(id=0, name="S0", title=None, text="root", height=30, input_required=True, no_separator=False, skip_check=False,
                scripts={"input": [{"acts": [["push_modal" if modal else "push", j + 1, rnd.choice([None, j])]], "ret": "REDRAW" if modal else "PROCESSED"} for j in range(k)] + [{"ret": "q"}]})
    # (half of the dialogs take no input and close themselves once drawn: nothing of the input subsystem keeps a reference to them)
    quiet = rnd.random() < 0.5
    dialogs = [dict(id=j + 1, name="D%d" % (j + 1), title=None, text="dialog", height=30, input_required=not quiet, no_separator=False, skip_check=False,
                    scripts=({"show": [{"acts": [["close_sig", j + 1]]}]} if quiet else {"input": [{"ret": rnd.choice(["CLOSE", "c", "CLOSE"])}]})) for j in range(k)]
    return dict(op="machine", mode="tame", width=80, screens=[root] + dialogs, handlers=[], init=[["schedule", 0, None]], stdin=["x"] * (2 * k + 1),
                quit_cb=None, quit_screen=None, exc_handler=True, run_empty=False, deliver_at=[], lazy_screens=True)


def generate(rnd, tier):
    n = 500 if tier == "quick" else 6000
    sid = SidCounter()
    cases = [gen_oneshot_dialogs(rnd) for _ in range(n // 25)] + [gen_over_itself(rnd) for _ in range(n // 10)] + [gen_case(rnd, "tame", sid) for _ in range(n)] + [gen_case(rnd, "app", sid) for _ in range(n)]
    return [with_cc(c) for c in cases]


def monitor(case, obs):
    x = X(case, obs)
    ready = {}; counts = {}; failed = {}; last_refresh = {}; refreshed = set(); setup_top = {}
    in_replace = 0
    nesting = any(ev[0] == "api" and ev[1] in ("proc", "push_modal", "new_loop", "get_user_input", "close_loop", "close_direct", "replace", "push", "schedule") and i > len(case.get("init") or []) * 2
                  for i, ev, ctx in x.events()) or case.get("quit_screen") is not None
    prev_stack = None
    for i, ev, ctx in x.events():
        if ctx.get("reader"): continue
        if ev[0] == "api" and ev[1] in ("push", "push_modal", "replace", "schedule"):
            failed[ev[2]] = False           # a new occurrence of the screen on the stack: "discarded without ever being refreshed, drawn or prompted" is per occurrence
        if ev[0] == "api" and ev[1] == "replace": in_replace += 1
        if ev[0] == "api<" and ev[1] == "replace": in_replace = max(0, in_replace - 1)
        if ev[0] == "cb<" and ev[2] == "setup" and len(ev) > 3 and not ev[3]: setup_top.pop(ev[1], None)      # a failed setup: that entry is discarded, not refreshed
        if ev[0] == "cb<" and ev[2] == "refresh" and last_refresh.get(ev[1]):
            # the stack changed during this refresh() (the processed entry is not the top any more): the scheduler gives this activation up - no draw belongs to it
            lr_ = last_refresh[ev[1]][-1]
            if lr_[2] != "?" and ctx.get("top", "?") != "?" and lr_[2] != ctx["top"]: last_refresh[ev[1]].pop()
        if ev[0] == "cb":
            scr, cb = ev[1], ev[2]
            name = x.specs[scr]["name"]
            if cb == "setup":
                setup_top[scr] = ctx.get("top", "?")
                if ready.get(scr): return "setup() of %s ran again after it had succeeded" % name
                counts[scr] = counts.get(scr, 0) + 1
            else:
                if cb in ("refresh", "show", "prompt"):
                    if failed.get(scr) and not ready.get(scr): return "%s() of %s ran although its setup reported failure" % (cb, name)
                if cb == "refresh":
                    if scr not in refreshed and counts.get(scr, 0) == 0: return "refresh() of %s ran before its setup()" % name
                    # the entry being processed is the one that was on top when its processing began: at its setup() if that ran in this activation (a setup()
                    # that pushes leaves its own entry covered while it is refreshed - stated as it is in Props/C04, P8), else now
                    refreshed.add(scr); last_refresh.setdefault(scr, []).append((i, ev[3], setup_top.pop(scr, ctx.get("top", "?"))))
                if cb == "show":
                    # activations can nest (a refresh() that itself processes signals causes a complete nested refresh; show of the same screen before the
                    # outer activation draws): a show belongs to the latest refresh of that screen that has not been followed by its show yet
                    if not last_refresh.get(scr): return "show_all() of %s without a preceding refresh() of its own" % name
                    lr = last_refresh[scr].pop()
                    # what is drawn is the stack entry that was just refreshed - the entry itself, not another entry showing the same screen (one that replaced it
                    # or lies beneath it was not refreshed for this draw)
                    if lr[2] != "?" and ctx.get("top", "?") != "?" and lr[2] != ctx["top"]:
                        return "show_all() of %s draws a stack entry that is not the one its refresh() was run for (the stack changed during refresh())" % name
                    if not nesting:
                        between = [e for e, c in x.x[lr[0] + 1:i] if e[0] == "cb" and e[1] == scr]
                        if between: return "show_all() of %s is not directly preceded by its refresh(): %r in between" % (name, between[:3])
                    top = ctx.get("stack") or []
                    if top and top[-1][0] == name and str(lr[1]) != top[-1][1] and not nesting:
                        return "%s was refreshed with args %r but the entry being drawn was scheduled with %s" % (name, lr[1], top[-1][1])
                if cb == "closed":
                    if in_replace: 
                        if not any(e[0][0] == "api" and e[0][1] in ("close_direct", "close_sig") for e in x.x[:i]): return "closed() of %s fired during replace_screen" % name
                    st = ctx.get("stack")
                    if prev_stack is not None and st is not None and len(st) >= len(prev_stack) and not any(e[0][0] == "cb" and e[0][2] == "setup" for e in x.x[max(0, i - 3):i]):
                        return "closed() of %s fired but no entry was popped (stack %r -> %r)" % (name, prev_stack, st)
        if ev[0] == "cb<" and ev[2] == "setup" and not ev[3]:
            # a screen whose setup reports failure is the one that is discarded: the next observation shows the stack without its entry
            nxt = next((c for e, c in x.x[i + 1:] if not c.get("reader") and "stack" in c), None)
            st = ctx.get("stack")
            if nxt is not None and st and len(nxt["stack"]) == len(st) - 1 and nxt["stack"] == st[:-1] and st[-1][0] != x.specs[ev[1]]["name"]:
                return "setup() of %s reported failure but the entry discarded is %r (stack %r -> %r)" % (x.specs[ev[1]]["name"], st[-1], st, nxt["stack"])
        if ev[0] == "cb<" and ev[2] == "setup":
            # the setup callback returned: ev[3] is its result; the base method (which marks the screen ready) ran unless the script failed before it
            scr = ev[1]; k = counts.get(scr, 0)
            failed[scr] = not ev[3]
            sc = ((x.specs[scr].get("scripts") or {}).get("setup") or [])
            ready[scr] = True if ev[3] else ready.get(scr, False) or any((sc[j].get("ret") == "fail_after") for j in range(min(k, len(sc))))
        if "stack" in ctx: prev_stack = ctx["stack"]
    return None


def classify(case, obs, verdict, model):
    if "but the entry discarded is" in verdict: return "K3"
    return None


def run_witness(wit):
    case = with_cc(dict(op="machine", mode="app", width=80, handlers=[], stdin=[], deliver_at=[], **wit))
    v = monitor(case, run_impl(case))
    return v is not None and "but the entry discarded is" in v


def nontrivial(case, obs):
    shows = {}
    for e in obs["log"]:
        if e[0] == "cb" and e[2] == "show": shows[e[1]] = shows.get(e[1], 0) + 1
    return any(v >= 2 for v in shows.values())
