"""C09 - The application stops exactly when told to, completely, and says so once."""
from harness.props.session import *
from harness.gen.sessions import gen_case, SidCounter

THEOREM_NOTE = ("Props/C09.lean: after force-quit no handler call is ever added to the trace, enqueues are discarded, execute_new_loop is a no-op and every loop test exits; an "
                "exit request drops every pending instruction of every nesting depth up to run()'s own catcher, the quit callback is logged at most once with the registered "
                "argument; a run that returned contains an exit or force-quit event; run() refuses an empty stack unless configured otherwise")
HANG_IS_VIOLATION = "run() returns: the implementation hangs on a session the model finishes"
ASSUMPTIONS = ASSUME_SESSION
RULE = ("[thorough tier adds the small-scope exhaustive enumeration of harness/gen/exhaustive.py: every loop program with a <= 2-action and a <= 1-action handler over a 10-action alphabet, 3 663 programs] loop and app programs with the stop request (raise ExitMainLoop, force_quit, close of the outermost loop, last screen closed, quit key) at every depth <= 5 and position, "
        "arbitrary pending content, further enqueues after force-quit; oracle: no handler invocation after the stop request, quit callback count and argument, run() returned "
        "only with a stop cause, NothingScheduledError exactly when the stack is empty and not configured otherwise; non-trivial = a stop request with handlers pending"
        ' Programs in which a handler calls force_quit() while further handlers are registered for the class are run on the real GLibEventLoop (over the GLib stand-in) too: no handler after the force-quit there either (F12).'
        ' Later rounds: closing the outermost loop from handlers and nested processing calls; oracle: nothing runs while no loop level is open; a raising closed() of the last screen (K6).')


def gen_c09(rnd, sid):
    ncls = 3
    def act():
        r = rnd.random()
        if r < 0.35: return ["enq", "U%d" % rnd.randrange(ncls), rnd.choice([0, 0, 1, -1]), None, sid.next()]
        if r < 0.5: return ["new_loop", "U%d" % rnd.randrange(ncls), 0, sid.next()]
        if r < 0.6: return ["close_loop"]
        if r < 0.7: return ["proc", rnd.choice([None, "U0"])]
        if r < 0.8: return ["force_quit"]
        if r < 0.9: return ["raise_exit"]
        return ["raise_err"]
    handlers = []
    for c in range(ncls):
        for _ in range(rnd.randint(1, 3)):
            handlers.append(dict(cls="U%d" % c, hid=len(handlers), data=None, scripts=[[act() for _ in range(rnd.choice([0, 1, 1, 2, 3]))] for _ in range(rnd.randint(1, 6))]))
    init = [["enq", "U%d" % rnd.randrange(ncls), rnd.choice([0, 0, 1]), None, sid.next()] for _ in range(rnd.randint(1, 8))]
    return dict(op="machine", mode="c09", width=80, screens=[], handlers=handlers, init=init, stdin=[], quit_cb=rnd.choice([None, 9, 4]), quit_screen=None,
                exc_handler=rnd.random() < 0.7, run_empty=rnd.random() < 0.9, deliver_at=[])


def gen_c09_modal_last(rnd, sid):
    """the last screen on the stack is a modal one (shown by a signal handler on an empty or one-entry stack); it closes: the application must end"""
    scr = dict(id=0, name="S0", title=None, text="t", height=30, input_required=True, no_separator=False, skip_check=False,
               scripts={"input": [{"ret": rnd.choice(["CLOSE", "c", "DISCARDED", "CLOSE"])} for _ in range(4)],
                        "show": [{"acts": [["close_sig", 0]]}] if rnd.random() < 0.3 else []})
    base = dict(id=1, name="S1", title=None, text="b", height=30, input_required=True, no_separator=False, skip_check=False, scripts={"input": [{"ret": "CLOSE"}] * 3})
    with_base = rnd.random() < 0.4
    hs = [dict(cls="U0", hid=0, data=None, scripts=[[["push_modal", 0, None]] + [["enq", "U1", 0, None, sid.next()] for _ in range(rnd.randint(0, 2))]]),
          dict(cls="U1", hid=1, data=None, scripts=[[] for _ in range(4)])]
    init = ([["schedule", 1, None]] if with_base else []) + [["enq", "U0", 0, None, sid.next()]] + [["enq", "U1", 1, None, sid.next()] for _ in range(rnd.randint(0, 2))]
    return dict(op="machine", mode="c09", width=80, screens=[scr, base], handlers=hs, init=init, stdin=[rnd.choice(["c", "x", "c"]) for _ in range(rnd.randint(1, 6))],
                quit_cb=rnd.choice([None, 5]), quit_screen=None, exc_handler=True, run_empty=True, deliver_at=[])


def gen_c09_exit_in_closed(rnd, sid):
    """a modal screen (one or two levels down) whose closed() callback requests the exit, while signals are still pending in its loop: no handler runs any more"""
    depth = rnd.randint(1, 2)
    screens = [dict(id=0, name="S0", title=None, text="root", height=30, input_required=True, no_separator=False, skip_check=False,
                    scripts={"input": [{"acts": [["push_modal", 1, None]], "ret": "PROCESSED"}] + [{"ret": "DISCARDED"}] * 3})]
    for d in range(1, depth + 1):
        last = d == depth
        sc = {"input": [{"acts": ([["enq", "U0", rnd.choice([0, 1]), None, sid.next()] for _ in range(rnd.randint(1, 3))] if last else [["push_modal", d + 1, None]]),
                         "ret": "CLOSE" if last else "PROCESSED"}] + [{"ret": "CLOSE"}] * 3}
        if last: sc["closed"] = [{"acts": [["raise_exit"]]}]
        screens.append(dict(id=d, name="S%d" % d, title=None, text="modal %d" % d, height=30, input_required=True, no_separator=False, skip_check=False, scripts=sc))
    return dict(op="machine", mode="c09", width=80, screens=screens, handlers=[dict(cls="U0", hid=0, data=None, scripts=[[]] * 6)], init=[["schedule", 0, None]],
                stdin=["x"] * 6, quit_cb=rnd.choice([None, 5]), quit_screen=None, exc_handler=rnd.random() < 0.5, run_empty=False, deliver_at=[])


def gen_fq_handlers(rnd, sid):
    """force_quit() called from a handler while further handlers are registered for the same class (and for the classes of signals being dispatched at outer nesting
    levels: the force-quitting handler may run inside a processing call / nested loop opened by a handler that has successors too). Run on both event loops
    (glib_fq): the clause 'after a force-quit no handler is ever invoked again' is the GLib-based loop's as well."""
    ncls = rnd.randint(1, 2); handlers = []
    def enq(): return ["enq", "U%d" % rnd.randrange(ncls), rnd.choice([0, 0, 1, -1]), None, sid.next()]
    def script(k):
        if k == "fq": return [a for a in ([enq()] if rnd.random() < 0.3 else [])] + [["force_quit"]] + [rnd.choice([enq(), ["proc", None], ["new_loop", "U0", 0, sid.next()], ["close_loop"]]) for _ in range(rnd.choice([0, 0, 1, 2]))]
        if k == "nest": return [enq(), rnd.choice([["proc", None], ["proc", "U%d" % rnd.randrange(ncls)], ["new_loop", "U%d" % rnd.randrange(ncls), 0, sid.next()]])]
        return [enq() for _ in range(rnd.choice([0, 0, 1]))]
    for c in range(ncls):
        n = rnd.randint(2, 4); quitter = rnd.randrange(n - 1)          # never the last one: somebody is registered behind it
        for i in range(n):
            kinds = ["fq" if (i == quitter and rnd.random() < 0.8) else rnd.choice(["plain", "plain", "nest"]) for _ in range(rnd.randint(1, 4))]
            if i == quitter and c == 0 and "fq" not in kinds: kinds[rnd.randrange(len(kinds))] = "fq"
            handlers.append(dict(cls="U%d" % c, hid=len(handlers), data=rnd.choice([None, 7]), scripts=[script(k) for k in kinds]))
    init = [enq() for _ in range(rnd.randint(1, 5))]
    return dict(op="machine", mode="c09", width=80, screens=[], handlers=handlers, init=init, stdin=[], quit_cb=rnd.choice([None, 9]), quit_screen=None,
                exc_handler=rnd.random() < 0.3, run_empty=True, deliver_at=[], glib_fq=True)


_session_run_impl = run_impl


def run_impl(case):
    obs = _session_run_impl(case)
    if case.get("glib_fq"):
        # the same program on the real GLibEventLoop (over the GLib stand-in harness/impl/fakegi)
        from harness.impl.app import run_real
        try:
            o, log, out = run_real(case, "glib")
            obs["glib"] = {"outcome": norm_outcome(json.loads(json.dumps(o))), "log": json.loads(json.dumps(log)), "xlog": json.loads(json.dumps(run_real.xlog, default=str))}
        except BaseException as e:
            obs["glib"] = {"outcome": ["crash", repr(e)], "log": [], "xlog": []}
    return obs


def glib_force_quit_rule(case, g):
    """after a force-quit no handler is ever invoked again - on the GLib-based loop"""
    stop = None
    for i, (ev, ctx) in enumerate(g["xlog"]):
        if ev[0] == "api" and ev[1] == "force_quit" and stop is None and any(e[0][0] in ("H", "cb") for e in g["xlog"][:i]): stop = i
        if stop is not None and i > stop and ev[0] == "H":
            return "GLibEventLoop: handler %d was invoked (signal %r) after force_quit" % (ev[1], ev[2])
    return None


def gen_c09_closed_pushes(rnd, sid):
    """a wizard: the only screen on the stack closes, its closed() hook puts the next step on the stack (schedule / push): the application goes on with it"""
    k = rnd.randint(1, 3)
    screens = []
    for j in range(k + 1):
        sc = {"input": [{"ret": rnd.choice(["CLOSE", "c"])}] + [{"ret": "CLOSE"}] * 2}
        if j < k: sc["closed"] = [{"acts": [[rnd.choice(["push", "schedule"]), j + 1, rnd.choice([None, j])]]}]
        screens.append(dict(id=j, name="S%d" % j, title=None, text="step %d" % j, height=30, input_required=True, no_separator=False, skip_check=False, scripts=sc))
    return dict(op="machine", mode="c09", width=80, screens=screens, handlers=[], init=[["schedule", 0, None]], stdin=["x"] * (k + 2), quit_cb=rnd.choice([None, 3]),
                quit_screen=None, exc_handler=rnd.random() < 0.5, run_empty=False, deliver_at=[])


def generate(rnd, tier):
    n = 500 if tier == "quick" else 6000
    sid = SidCounter()
    cases = [gen_c09_closed_pushes(rnd, sid) for _ in range(n // 10)] + [gen_fq_handlers(rnd, sid) for _ in range(n // 5)] + [gen_c09_exit_in_closed(rnd, sid) for _ in range(n // 10)] + [gen_c09(rnd, sid) for _ in range(n)] + [gen_c09_modal_last(rnd, sid) for _ in range(n // 3)] + [gen_case(rnd, "loop", sid) for _ in range(n // 2)] + [gen_case(rnd, "app", sid) for _ in range(n // 3)] + \
            [gen_case(rnd, "tame", sid) for _ in range(n // 5)]
    if tier == "thorough":
        from harness.gen.exhaustive import loop_programs
        cases += list(loop_programs(sid))          # small-scope exhaustive: 3 663 programs
    for c in cases:
        # a quit callback that was registered before and then replaced (another argument): it is the last registration that is invoked, once
        if c.get("quit_cb") is not None and rnd.random() < 0.3: c["quit_cb_first"] = c["quit_cb"] + 100
    return [with_cc(c) for c in cases]


def corpus():
    # witness of the fixed finding F7: the first of two handlers of one class calls force_quit()
    yield with_cc(dict(op="machine", mode="c09", width=80, screens=[], handlers=[dict(cls="U0", hid=0, data=None, scripts=[[["force_quit"]]]), dict(cls="U0", hid=1, data=None, scripts=[])],
                       init=[["enq", "U0", 0, None, 1]], stdin=[], run_empty=True, deliver_at=[]))
    # witness of the fixed finding F12: the same program on the GLib-based loop
    yield with_cc(dict(op="machine", mode="c09", width=80, screens=[], handlers=[dict(cls="U0", hid=0, data=None, scripts=[[["force_quit"]]]), dict(cls="U0", hid=1, data=None, scripts=[])],
                       init=[["enq", "U0", 0, None, 1]], stdin=[], run_empty=True, deliver_at=[], glib_fq=True))


def started_run(x, i):
    """a handler or callback was observed before observation i: run() is under way (before run() the loop has one level too, but keep start-up actions out)"""
    return any(e[0][0] in ("H", "cb") for e in x.x[:i])


def monitor(case, obs):
    if isinstance(obs.get("glib"), dict):
        v = glib_force_quit_rule(case, obs["glib"])
        if v: return v
    x = X(case, obs)
    stop = None; started = False
    quitcbs = [ev for i, ev, ctx in x.events() if ev[0] == "quitcb"]
    for i, ev, ctx in x.events():
        if ev[0] == "api" and ev[1] in ("force_quit", "raise_exit") and stop is None:
            # a stop request issued before App.run() (start-up actions) does not count: run() resets the force-quit flag and an exit request there never reaches run()
            if any(e[0][0] in ("H", "cb") for e in x.x[:i]): stop = (i, ev[1])
        if ev[0] == "api<" and ev[1] == "close_loop" and ctx.get("depth") == 0 and stop is None:
            stop = (i, "close_loop of the outermost loop")         # the outermost loop is closed (its drain is over): nothing may run any more
        if ev[0] in ("H", "cb", "EXC-handled") and ctx.get("depth") == 0 and started_run(x, i) and x.force_quit_index() is None and not ctx.get("reader"):
            # the outermost loop has been closed (no loop level is left) and no force-quit emptied the levels: the exit that follows the pop lets nothing run any more
            return "%s ran although the outermost loop had been closed (no loop level is open)" % (("handler %d" % ev[1]) if ev[0] == "H" else ("%s() of screen %d" % (ev[2], ev[1])) if ev[0] == "cb" else "the exception handler")
        if stop is not None and i > stop[0] and ev[0] == "H":
            return "handler %d was invoked (signal %r) after %s" % (ev[1], ev[2], stop[1])
        if stop is not None and i > stop[0] and ev[0] == "EXC-handled":
            return "the exception handler was invoked after %s" % stop[1]
    # a stop request makes run() return: every nested loop unwinds (not claimed where a blocking wait_on_input is in progress: it spins once the loop is stopped)
    blocking_api = any(ev[0] == "api" and ev[1] == "get_user_input" for i, ev, ctx in x.events()) or any(s_.get("height", 30) < 30 for s_ in case["screens"])
    if stop is not None and not blocking_api and obs["outcome"][0] in ("fuel", "blocked"):
        return "%s was requested but run() did not return (%r)" % (stop[1], obs["outcome"])
    # the last screen closes -> the application ends: no further handler, run() returns
    prev_stack = None
    for i, ev, ctx in x.events():
        if ctx.get("reader") or "stack" not in ctx: continue
        raised_closed = False
        if ev[0] == "cb" and ev[2] == "closed" and ctx["stack"] == [] and stop is None:
            # closed() of the last screen raised an ordinary exception (no return observation): the screen is gone all the same; what runs after the
            # exception was handled runs after the last screen closed
            nxt = next((e for e, c in x.x[i + 1:] if e[0] in ("cb<", "EXC-handled") and not c.get("reader")), None)
            raised_closed = nxt is not None and nxt[0] == "EXC-handled"
        if ((ev[0] == "cb<" and ev[2] == "closed") or raised_closed) and ctx["stack"] == [] and stop is None:
            j = i if not raised_closed else next(k for k in range(i + 1, len(x.x)) if x.x[k][0][0] == "EXC-handled")
            later_h = [e for e, c in x.x[j + 1:] if e[0] == "H"]
            if later_h: return "the last screen was closed (the stack is empty) but handler %d ran afterwards" % later_h[0][1]
            if obs["outcome"][0] in ("blocked", "fuel") and not blocking_api: return "the last screen was closed (the stack is empty) but run() did not return (%r)" % (obs["outcome"],)
    if len(quitcbs) > 1: return "the quit callback was invoked %d times" % len(quitcbs)
    if quitcbs and quitcbs[0][1] != case.get("quit_cb"): return "the quit callback got %r, registered with %r" % (quitcbs[0][1], case.get("quit_cb"))
    out = obs["outcome"]
    if out[0] == "returned":
        if case.get("quit_cb") is not None and len(quitcbs) != 1: return "run() returned but the quit callback was invoked %d times" % len(quitcbs)
        # nothing else ends the loop: there must be a stop cause
        cause = any(ev[0] == "api" and ev[1] in ("force_quit", "raise_exit") for i, ev, ctx in x.events())
        cause = cause or any(ev[0] in ("api", "api<") and ev[1] == "close_loop" and ctx.get("depth", 9) <= 1 for i, ev, ctx in x.events())
        cause = cause or any(ctx.get("stack") == [] and ev[0] in ("cb", "quitcb", "h<", "H", "api<", "end") for i, ev, ctx in x.events())          # the stack ran empty
        cause = cause or any(ev[0] == "cb" and ev[2] == "input" for i, ev, ctx in x.events())              # quit key / close of the last screen from input handling
        cause = cause or any(ev[0] == "api" and ev[1] in ("close_direct", "close_sig", "replace", "push_modal", "get_user_input") for i, ev, ctx in x.events())
        if not cause: return "run() returned without any stop request (no exit, force-quit, close of the outermost loop or empty stack)"
        # "the last screen closes" ends the application - a screen that is not the last one does not: a run that returned although screens are on the stack, with no
        # exit / force-quit / loop operation / quit key anywhere, was ended by nothing the property allows
        end_stack = next((c["stack"] for e, c in reversed(x.x) if not c.get("reader") and "stack" in c), None)
        if end_stack:
            explicit = any(ev[0] == "api" and ev[1] in ("raise_exit", "force_quit", "close_loop", "new_loop") for i, ev, ctx in x.events())
            keys = [ev[4] for i, ev, ctx in x.events() if ev[0] == "cb" and ev[2] == "input"]
            rets = [e.get("ret") for s_ in case["screens"] for e in ((s_.get("scripts") or {}).get("input") or [])]
            if not explicit and "q" not in keys and "q" not in rets:
                return "run() returned although the screen stack is not empty (%r) and nothing requested an exit: closing a screen that is not the last one ended the application" % (end_stack,)
    elif quitcbs:
        return "the quit callback was invoked but run() did not return (%r)" % (out,)
    # run() refuses to start with nothing scheduled
    first = next((ctx for i, ev, ctx in x.events() if ev[0] in ("H", "cb")), None)
    init_n = len(case.get("init") or [])
    stack_at_run = None
    k = 0
    for i, ev, ctx in x.events():
        if ev[0] == "api<" and not ctx.get("reader"):
            k += 1
            if k == init_n: stack_at_run = ctx.get("stack")
        if ev[0] in ("H", "cb"): break
    if init_n == 0: stack_at_run = []
    if stack_at_run is not None and k >= init_n:
        refuse = stack_at_run == [] and not case.get("run_empty")
        if refuse and out != ["raised", "NothingScheduled"]: return "run() started with an empty screen stack (outcome %r)" % (out,)
        if not refuse and out == ["raised", "NothingScheduled"]: return "run() refused to start although a screen is scheduled or empty runs are allowed"
    return None


def nontrivial(case, obs):
    return any(ev[0] == "api" and ev[1] in ("force_quit", "raise_exit") for ev, ctx in obs["xlog"]) and sum(1 for e in obs["log"] if e[0] == "H") >= 2


def classify(case, obs, verdict, model):
    fl = (model or {}).get("flags", [])
    if "K6a" in fl and verdict.startswith("the last screen was closed (the stack is empty)"): return "K6"
    return None


def run_witness(wit):
    case = with_cc(dict(op="machine", **wit))
    v = monitor(case, run_impl(case))
    return v is not None and v.startswith("the last screen was closed (the stack is empty)")
