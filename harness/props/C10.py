"""C10 - Waiting for a signal wakes up for that signal, and only for it."""
from harness.props.session import *
from harness.gen.sessions import gen_case, SidCounter
from harness.props import objects

THEOREM_NOTE = ("Props/C10.lean: a waiting call ends released only after a signal of exactly the awaited class was taken since the call began (at any nesting), or unreleased only "
                "when its level was stopped; tickets are created unmarked; one dispatch marks every outstanding waiter of the class; a marked ticket returns at the next check "
                "without taking another signal; the non-waiting form takes only the first priority it met, never blocks, and leaves the queue unchanged when the head differs")
ASSUMPTIONS = ASSUME_SESSION
RULE = ("[thorough tier adds the small-scope exhaustive enumeration of harness/gen/exhaustive.py: every loop program with a <= 2-action and a <= 1-action handler over a 10-action alphabet, 3 663 programs] loop-mode programs with waits nested in handlers (wait inside wait, non-waiting inside waiting and vice versa), several simultaneous waiters on one class, the awaited "
        "signal dispatched by an inner call; generic loop/app sessions; oracle: between entry and normal return of process_signals(return_after=C) a handler of class C ran or "
        "the level was stopped; the non-waiting form dispatches one priority only and never blocks; non-trivial = a waiting call that returned"
        ' Later rounds: waits whose awaited signal is dispatched one or two nested loops further down; oracle: a wait that is still blocked although the awaited class was dispatched and the handler finished.'
        ' Object level: the real TicketMachine class under arbitrary take / check / mark sequences (random, and exhaustive up to length 3, thorough 4, over two lines) compared call by call and in its final dictionary with Model/Objects.lean; oracle: a ticket is ready exactly when its line was marked since it was taken, once.')


def gen_c10(rnd, sid):
    ncls = 3
    def act():
        r = rnd.random()
        if r < 0.08: return ["raise_err"]           # a failing handler of the awaited class still counts as its dispatch
        if r < 0.45: return ["enq", "U%d" % rnd.randrange(ncls), rnd.choice([0, 0, 0, 1, -1]), None, sid.next()]
        if r < 0.75: return ["proc", "U%d" % rnd.randrange(ncls)]
        if r < 0.9: return ["proc", None]
        if r < 0.95: return ["new_loop", "U%d" % rnd.randrange(ncls), 0, sid.next()]
        return ["close_loop"]
    handlers = []
    for c in range(ncls):
        for _ in range(rnd.randint(1, 2)):
            handlers.append(dict(cls="U%d" % c, hid=len(handlers), data=None, scripts=[[act() for _ in range(rnd.choice([0, 0, 1, 2, 3]))] for _ in range(rnd.randint(1, 8))]))
    init = [["enq", "U%d" % rnd.randrange(ncls), rnd.choice([0, 0, 1]), None, sid.next()] for _ in range(rnd.randint(2, 10))]
    return dict(op="machine", mode="c10", width=80, screens=[], handlers=handlers, init=init, stdin=[], quit_cb=None, quit_screen=None,
                exc_handler=True, run_empty=True, deliver_at=[], same_name=rnd.random() < 0.4,
                # signal classes deriving from one another (U1 from U0, U2 from U1): a wait for a class is over by a signal of exactly that class, not of a class derived from it
                derive=rnd.choice([{}, {}, {"U1": "U0"}, {"U1": "U0", "U2": "U1"}, {"U2": "U0"}]))


def gen_c10_modal(rnd, sid):
    """a waiting call whose awaited signal is dispatched inside a nested loop that a handler opened during the wait (one or two levels down): when that handler comes
    back the wait is over, whatever else is pending"""
    depth = rnd.randint(1, 2)
    hs = [dict(cls="U0", hid=0, data=None, scripts=[[["enq", "U1", 0, None, sid.next()], ["enq", "U4", rnd.choice([0, 1]), None, sid.next()], ["proc", "U2"]]])]
    # U1 (dispatched by the waiting call) opens a nested loop seeded with U3; at the innermost level U3 emits the awaited U2 and U2's handler closes the loop(s)
    hs.append(dict(cls="U1", hid=1, data=None, scripts=[[["new_loop", "U3", 0, sid.next()]]]))
    if depth == 2:
        hs.append(dict(cls="U3", hid=2, data=None, scripts=[[["new_loop", "U3", 0, sid.next()], ["close_loop"]], [["enq", "U2", 0, None, sid.next()]]]))
    else:
        hs.append(dict(cls="U3", hid=2, data=None, scripts=[[["enq", "U2", 0, None, sid.next()]]]))
    hs.append(dict(cls="U2", hid=3, data=None, scripts=[[["close_loop"]], [], []]))
    hs.append(dict(cls="U4", hid=4, data=None, scripts=[[], [], []]))
    return dict(op="machine", mode="c10", width=80, screens=[], handlers=hs, init=[["enq", "U0", 0, None, sid.next()]], stdin=[], quit_cb=None, quit_screen=None,
                exc_handler=True, run_empty=True, deliver_at=[])


def generate(rnd, tier):
    n = 500 if tier == "quick" else 6000
    sid = SidCounter()
    cases = [gen_c10_modal(rnd, sid) for _ in range(n // 10)] + [gen_c10(rnd, sid) for _ in range(n)]
    for c in cases[n // 10::4]: c["glib_nb"] = True          # every fourth of these programs also runs on the real GLib-based loop (over the stand-in)
    cases = cases + [gen_case(rnd, "loop", sid) for _ in range(n // 2)] + [gen_case(rnd, "app", sid) for _ in range(n // 4)]
    if tier == "thorough":
        from harness.gen.exhaustive import loop_programs
        cases += list(loop_programs(sid))          # small-scope exhaustive: 3 663 programs
    # the TicketMachine class on its own, driven by arbitrary call sequences (Model/Objects.lean, Props/C10b.lean)
    tm = objects.gen_tm(rnd, 600 if tier == "quick" else 8000) + list(objects.tm_exhaustive(3 if tier == "quick" else 4))
    return [with_cc(c) for c in cases] + tm


def corpus():
    # witness of the fixed finding F8: two distinct classes with the same __name__
    yield with_cc(dict(op="machine", mode="c10", width=80, screens=[], same_name=True, stdin=[], run_empty=True, deliver_at=[], exc_handler=True,
                       handlers=[dict(cls="U0", hid=0, data=None, scripts=[[["proc", "U1"]]]), dict(cls="U2", hid=1, data=None, scripts=[]), dict(cls="U1", hid=2, data=None, scripts=[])],
                       init=[["enq", "U0", 0, None, 1], ["enq", "U2", 0, None, 2], ["enq", "U1", 0, None, 3]]))


def monitor(case, obs):
    x = X(case, obs)
    sid_prio = {}
    for i, ev, ctx in x.events():
        if ev[0] == "api" and ev[1] == "enq": sid_prio[ev[5]] = ev[3]
        if ev[0] == "api" and ev[1] == "new_loop": sid_prio[ev[4]] = ev[3]
    open_calls = []      # [index, cls, levels at entry, saw awaited handler, force-quit seen]
    fq = False
    for i, ev, ctx in x.events():
        if ctx.get("reader"): continue
        if ev[0] == "api" and ev[1] == "force_quit": fq = True
        if ev[0] == "api" and ev[1] == "proc":
            open_calls.append({"i": i, "cls": ev[2], "levels": ctx.get("levels"), "hit": False, "prios": set(), "nested": False, "depth_h": 0, "nested_loop": False})
            for c in open_calls[:-1]: c["nested"] = True
        elif ev[0] == "api" and ev[1] in ("new_loop", "push_modal", "get_user_input", "close_loop"):
            for c in open_calls: c["nested"] = True; c["nested_loop"] = True
        elif ev[0] == "H":
            # it dispatches nothing more once the handler during which the awaited dispatch happened has finished: a new top-level dispatch of this call
            # (another signal, at handler depth 0 of the call) after the awaited class was dispatched is a violation
            if open_calls and case.get("mode") in ("c10", "loop"):
                c = open_calls[-1]
                if c["cls"] is not None and c["hit"] and c["depth_h"] == 0 and ev[2] != c.get("top_sid") and not c["nested_loop"]:
                    return "process_signals(return_after=%s) dispatched signal %r after the handler during which a %s signal was dispatched had finished" % (c["cls"], ev[2], c["cls"])
                if c["depth_h"] == 0: c["top_sid"] = ev[2]
            for c in open_calls:
                if c["cls"] is not None and x.hcls.get(ev[1]) == c["cls"]: c["hit"] = True
            if open_calls:
                c = open_calls[-1]
                # (a screen drawn by the batch may page its output: the framework's own blocking wait inside is not visible to the oracle - programs with screens are left out)
                if c["cls"] is None and not c["nested"] and c["depth_h"] == 0 and ev[2] in sid_prio and not case.get("screens"): c["prios"].add(sid_prio[ev[2]])
                c["depth_h"] += 1
        elif ev[0] == "h<":
            if open_calls: open_calls[-1]["depth_h"] = max(0, open_calls[-1]["depth_h"] - 1)
        elif ev[0] == "api" and ev[1] == "raise_err":
            if open_calls: open_calls[-1]["depth_h"] = max(0, open_calls[-1]["depth_h"] - 1)
        elif ev[0] == "api<" and ev[1] == "proc" and open_calls:
            c = open_calls.pop()
            if c["cls"] is not None:
                stopped = fq or ctx.get("levels") != c["levels"] or ctx.get("run_loop") is False       # the level was closed (a close is pending) or force-quit
                if not c["hit"] and not stopped and x.cls_handlers.get(c["cls"]):
                    return "process_signals(return_after=%s) returned although no signal of that class was dispatched since it began and its loop level was not stopped" % c["cls"]
            else:
                if len(c["prios"]) > 1:
                    return "the non-waiting process_signals() dispatched signals of several priorities: %r" % sorted(c["prios"])
    if obs["outcome"][0] == "blocked" and open_calls and open_calls[-1]["cls"] is not None and case.get("mode") in ("c10", "loop") and not case.get("screens") and not fq:
        c = open_calls[-1]
        end_levels = next((cx.get("levels") for e, cx in reversed(x.x) if cx.get("levels") is not None), None)
        if c["hit"] and c["depth_h"] == 0 and end_levels == c["levels"]:
            return ("process_signals(return_after=%s) is still waiting (blocked on an empty queue) although a %s signal was dispatched since it began and the handler during "
                    "which that happened has finished" % (c["cls"], c["cls"]))
    if obs["outcome"][0] == "blocked" and open_calls and open_calls[-1]["cls"] is None and not open_calls[-1]["nested"] and not case.get("screens"):
        return "the non-waiting process_signals() blocked on an empty queue"
    return None


def nontrivial(case, obs):
    return any(ev[0] == "api<" and ev[1] == "proc" for ev, ctx in obs["xlog"])


# ---- the non-waiting form on the GLib-based loop too (the clause "never blocks on an empty queue" is that loop's as well; the other clauses differ there: G4)
_c10_run_impl, _c10_monitor = run_impl, monitor


def run_impl(case):
    obs = _c10_run_impl(case)
    if case.get("glib_nb"):
        from harness.impl.app import run_real
        try:
            o, log, out = run_real(case, "glib")
            obs["glib"] = {"outcome": norm_outcome(json.loads(json.dumps(o))), "log": json.loads(json.dumps(log)), "xlog": json.loads(json.dumps(run_real.xlog, default=str))}
        except BaseException as e:
            if type(e).__name__ == "CaseTimeout": raise
            obs["glib"] = {"outcome": ["crash", repr(e)], "log": [], "xlog": []}
    return obs


def monitor(case, obs):
    v = _c10_monitor(case, obs)
    if v is None and isinstance(obs.get("glib"), dict) and obs["glib"]["outcome"][0] == "blocked":
        g = _c10_monitor(dict(case, mode="c10"), obs["glib"])
        if g and "non-waiting process_signals() blocked" in g: return "GLibEventLoop: " + g
    return v


LEAN_MODULES = ["C10", "C10b"]
objects.install(globals(), ("tm",))
