"""C11 - Text never exceeds its width and nothing but whitespace is lost in wrapping."""
import itertools
from harness.props.common import *

THEOREM_NOTE = ("Props/C11.lean: width, conservation of non-blank characters in order, line-break structure, no empty wrap line, "
                "blank source line, refusal of width <= 0, termination of the wrap loop - for every CharClass, text and width >= 1"
                ' Props/C11b.lean: textwrap.wrap as modelled equals an independently defined greedy packing of its chunks; no word lost or repeated; true maximality.')
ASSUMPTIONS = ASSUME_PY
RULE = ("exhaustive strings over {a,b,-,space,tab,newline} up to length 5 (quick) / 6 (thorough) x widths 1..5, plus seeded random "
        "texts (len<=40 quick, <=300 thorough; widths -1..120) over words, hyphens, em-dashes, tabs, \\r \\x0b \\x0c, non-ASCII blanks and "
        "letters, exact-width lines before newlines; a case is non-trivial if the rendering has >= 2 lines or raises"
        ' Later rounds: text widgets rendered by unnumbered lists / windows - what the widget itself shows afterwards (aliasing); structure check of the rendering modules with a two-thread render race as failing-input search.')

ALPH = "ab- \t\n\r1.é\xa0\x0b\x0c\x1c　\x85—'\"?!_e\u0301\u2126"          # incl. a combining mark (after "e": a decomposed letter) and OHM SIGN: the text is shown as given, not normalised
WORDS = ["a", "bb", "ccc", "dddd", "eeeee", "well-known", "x" * 9, "mother-in-law", "foo--bar", "a—b", "1-2", "e.g.", "é", "ß", "\xa0", "--", "-", "cafe\u0301", "a\u030a\u030a", "\u212b\u212a", "ree\u0301e\u0301e\u0301l"]
LEAN_MODULES = ['C11', 'C11b']


def generate(rnd, tier):
    cases = []
    L = 5 if tier == "quick" else 6
    for n in range(0, L + 1):
        for tup in itertools.product("ab- \t\n", repeat=n):
            t = "".join(tup)
            for w in range(1, 6):
                cases.append({"op": "text", "text": t, "w": w})
    N = 6000 if tier == "quick" else 60000
    maxlen = 40 if tier == "quick" else 300
    for _ in range(N):
        r = rnd.random()
        if r < 0.4:
            t = "".join(rnd.choice(ALPH) for _ in range(rnd.randint(1, maxlen)))
        else:
            parts = []
            for _ in range(rnd.randint(1, 12 if tier == "quick" else 60)):
                parts.append(rnd.choice(WORDS)); parts.append(rnd.choice([" ", " ", " ", "  ", "\n", "\t", "\n\n", " \n", ""]))
            t = "".join(parts)
        w = rnd.choice([rnd.randint(1, 12), rnd.randint(1, 12), rnd.randint(1, 120), rnd.randint(-1, 1)])
        if rnd.random() < 0.25 and w >= 1:
            # a line of exactly the width followed by a line break / end / blanks
            t = "x" * w + rnd.choice(["\n", "\n\n", "", " \n", "  "]) + t
        cases.append({"op": "text", "text": t, "w": w})
        if len(cases) % 7 == 0: cases[-1]["bytes"] = True
        if rnd.random() < 0.3:
            cases.append({"op": "wrap", "text": t.replace("\n", " "), "w": max(1, w)})
        if rnd.random() < 0.25:
            # the same widget object rendered at a sequence of widths (narrower, wider, again)
            cases.append({"op": "textseq", "text": t, "widths": [max(1, w), rnd.randint(1, 120), max(1, w), rnd.randint(1, 12)]})
    # a TextWidget rendered by a container (unnumbered list, window): afterwards the widget itself still shows its own wrapped text within the width it was given
    from harness.gen.trees import gen_text
    for _ in range(400 if tier == "quick" else 4000):
        k = rnd.randint(1, 4); sp = rnd.choice([0, 1, 3]); w = rnd.randint(4, 60)
        items = [["text", gen_text(rnd) or "x"] for _ in range(rnd.randint(1, 8))]
        tree = rnd.choice([["list", rnd.random() < 0.4, k, None, sp, None, items], ["window", rnd.choice([None, "Title"]), items]])
        cases.append({"op": "tree", "tree": tree, "ops": [["render", w]]})
    return [with_cc(c) for c in cases]


def corpus():
    # witnesses of the fixed finding F2 (exact-width line followed by a line break) and relatives
    for t, w in [("abcde\nfg", 5), ("abcde fghij\nx", 5), ("abcde\n", 5), ("a\n", 5), ("abcde", 5), ("abcde\n\nfg", 5), ("ab longword", 3)]:
        yield with_cc({"op": "text", "text": t, "w": w})


compare = plain_compare


def simple_greedy(line, w):
    """independent reference: the greedy wrap of a line of plain words (each no longer than w, no leading blanks) separated
    by runs of blanks: a word goes on the current line iff it fits there after the blanks that precede it"""
    import re
    lines = []; cur = ""; pending = ""
    for tok in re.findall(r" +|[^ ]+", line):
        if tok[0] == " ":
            pending = tok; continue
        if cur == "": cur = tok
        elif len(cur) + len(pending) + len(tok) <= w: cur += pending + tok
        else:
            lines.append(cur); cur = tok
        pending = ""
    if cur: lines.append(cur)
    return lines


def monitor(case, obs):
    if case["op"] == "tree":
        o = obs[-1]; t = case["tree"]; w = case["ops"][-1][1]
        if "err" in o: return None
        wi = w if t[0] == "window" else int((w - (t[2] - 1) * t[4]) / t[2])
        items = t[2] if t[0] == "window" else t[6]
        for it, lines in zip(items, o["nodes"]):
            v = monitor({"op": "text", "text": it[1], "w": wi, "cc": case.get("cc")}, {"lines": lines, "cur": None})
            if v: return "text widget %r rendered at width %d inside a %s, what the widget shows afterwards: %s" % (it[1][:30], wi, t[0], v)
        return None
    if case["op"] == "textseq":
        # every render of the same object must satisfy the property for its own width
        for w, o in zip(case["widths"], obs):
            v = monitor({"op": "text", "text": case["text"], "w": w}, o)
            if v: return "rendered at widths %r in turn, at width %d: %s" % (case["widths"], w, v)
        return None
    if case["op"] != "text":
        return None
    t, w = case["text"], case["w"]
    if w < 1:
        if t and obs != {"err": "ValueError"}: return "width %d < 1 with a non-empty text was not refused: %r" % (w, obs)
        return None
    if "err" in obs:
        return "rendering raised %s for width %d" % (obs["err"], w)
    L = obs["lines"]
    for l in L:
        if len(l) > w: return "line %r is longer than the width %d" % (l, w)
    src = [c for c in t if not c.isspace()]; out = [c for l in L for c in l if not c.isspace()]
    if src != out: return "non-blank characters not conserved in order: source %r rendered %r" % ("".join(src)[:80], "".join(out)[:80])
    # line-break structure (C11_breaks on the implementation): source line by source line its own wrap (A-TW: textwrap is the
    # reference for the wrap of ONE line), a source line that wraps to nothing giving exactly one empty line, no other empty line
    import textwrap
    segs = t.split("\n")
    exp = []
    for seg in segs:
        ws = textwrap.wrap(seg, w)
        if any(x == "" for x in ws): return "textwrap produced an empty line for %r" % seg[:40]
        exp += ws if ws else [""]
    if len(segs) == 1 and exp == [""]: exp = []
    if L != exp:
        k = next((i for i in range(min(len(L), len(exp))) if L[i] != exp[i]), min(len(L), len(exp)))
        return "line structure differs from the per-source-line wrap at line %d: got %r expected %r" % (k, L[k:k + 3], exp[k:k + 3])
    for seg in segs:
        if all(c in "\t\n\x0b\x0c\r " for c in seg) and textwrap.wrap(seg, w) != []:
            return "a blank source line %r wraps to %r" % (seg, textwrap.wrap(seg, w))
    # "exactly the greedy word-wrap": independent reference on the plain subset (ASCII words no longer than w, blanks)
    if t.isascii() and all(c.isalnum() or c == " " or c == "\n" for c in t):
        segs = t.split("\n")
        if all(not seg.startswith(" ") and all(len(x) <= w for x in seg.split()) for seg in segs):
            exp = []
            for seg in segs:
                g = simple_greedy(seg, w)
                exp += g if g else [""]
            if "\n" not in t and exp == [""]: exp = []
            if L != exp:
                return "not the greedy wrap: got %r expected %r" % (L[:6], exp[:6])
    return None


def nontrivial(case, obs):
    if case["op"] == "textseq": return True
    return "err" in obs or len(obs.get("lines", [])) >= 2


def outcome(case, obs):
    if case["op"] == "textseq": return "sequence"
    if "err" in obs: return "refused"
    n = len(obs["lines"])
    return "wrap-only" if case["op"] == "wrap" else ("0 lines" if n == 0 else "1 line" if n == 1 else "2-5 lines" if n <= 5 else ">5 lines")


def shrink(case):
    if case["op"] == "textseq":
        for s in shrink_string(case["text"]): yield with_cc({**{k: v for k, v in case.items() if k != "cc"}, "text": s})
        for i in range(len(case["widths"])):
            if len(case["widths"]) > 1: yield with_cc({**{k: v for k, v in case.items() if k != "cc"}, "widths": case["widths"][:i] + case["widths"][i + 1:]})
        return
    for s in shrink_string(case["text"]):
        yield with_cc({**{k: v for k, v in case.items() if k != "cc"}, "text": s})
    if case["w"] > 1:
        yield with_cc({**{k: v for k, v in case.items() if k != "cc"}, "w": case["w"] - 1})


def neighbours(case, rnd):
    t = case["text"]
    for _ in range(60):
        s = list(t)
        k = rnd.choice(["ins", "del", "w"])
        if k == "ins": s.insert(rnd.randint(0, len(s)), rnd.choice(ALPH))
        elif k == "del" and s: s.pop(rnd.randrange(len(s)))
        yield with_cc({"op": "text", "text": "".join(s), "w": max(1, case["w"] + rnd.choice([-1, 0, 0, 1]))})
