"""C12 - A screen prints exactly its content then its prompt; paging loses nothing."""
from harness.props.common import *
from harness.props import objects
from harness.gen.trees import gen_tree, gen_text
from harness.props import session as _s

THEOREM_NOTE = ("Props/C12.lean: paging - every line once in order, requests exactly after each full page of h-2 lines, none after the last page, "
                "count = ceil(n/(h-2))-1, short content without request; window = title part ++ lines of each item in order; separator = n empty "
                "lines; prompt options = finite map, listed key-sorted, str(prompt) format")
ASSUMPTIONS = ASSUME_PY + ["A-I18N: gettext falls back to identity (LANG=C)", "screen height >= 3 (the API asks for more than 4; h <= 2 loops forever in the code and is outside the model)",
                           "whole-screen draws (separator, window, paging, prompt through the real scheduler and input thread) are compared by the session checks C17/C06, which share the model"]
RULE = ("paging exhaustive heights 3..40 x line counts 0..200 (quick: 0..90); prompt edit sequences (0..7 add/update/remove/set_message operations over "
        "keys incl. the default r/c/q/h, multi-digit and non-ASCII keys) at widths 1..80; windows with 0..5 items (texts, separators, nested containers) and "
        "titles; non-trivial = paging with >= 1 request, prompts with >= 2 options, windows with >= 2 items"
        ' Later rounds: windows rendered one to three times; hidden screens with paged content (the continue request stays visible); one widget object shown by the window and again inside a container item of the same window.')


from harness.props.common import run_impl as common_run_impl, model_case as common_model_case


def generate(rnd, tier):
    cases = []
    for h in range(3, 41):
        for n in range(0, 91 if tier == "quick" else 201):
            cases.append({"op": "paging", "n": n, "h": h})
    for _ in range(3000 if tier == "quick" else 30000):
        ops = []
        for _ in range(rnd.randint(0, 7)):
            k = rnd.choice(["set", "set", "set", "remove", "message", "std"])
            if k == "std": ops.append(["std", rnd.choice(["refresh", "continue", "quit", "help"]), rnd.choice([None, None, "to go back", ""])])
            elif k == "set": ops.append(["set", rnd.choice(["a", "b", "c", "r", "q", "h", "10", "2", "B", "é", "", "ab"]), rnd.choice(["to go", "to quit", "x", ""]), rnd.random() < 0.5])
            elif k == "remove": ops.append(["remove", rnd.choice(["a", "b", "c", "r", "q", "zz"])])
            else: ops.append(["message", rnd.choice([None, "", "Pick one", "a long message that wraps around the width"])])
        cases.append(with_cc({"op": "prompt", "message": rnd.choice([None, "", "Please make a selection from the above"]), "ops": ops, "w": rnd.choice([80, 40, 20, 10, 5, 1])}))
    for _ in range(1500 if tier == "quick" else 15000):
        items = [rnd.choice([["text", gen_text(rnd)], ["sep", rnd.randint(1, 3)], gen_tree(rnd, 1)]) for _ in range(rnd.randint(0, 5))]
        if rnd.random() < 0.25:
            # a long text shown by the window itself and again inside a two-column list further down (the very same widget object, there at a narrower width)
            j = rnd.randrange(len(items) + 1); items.insert(j, ["text", "word " * rnd.randint(6, 14)])
            items.insert(rnd.randrange(j + 1, len(items) + 1), ["list", rnd.random() < 0.5, 2, None, rnd.choice([1, 3]), rnd.choice([None, ["", ") ", 1]]), [["text", "x"], ["upref", j]]])
        cases.append(with_cc({"op": "tree", "tree": ["window", rnd.choice([None, "", "Title", "a long title of the window that wraps"]), items],
                              "ops": [["render", rnd.choice([1, 3, 8, 20, 40, 80])]] * rnd.choice([1, 2, 3])}))
    # very long contents: thousands of pages (a pager must not depend on the size of the content, e.g. through recursion)
    cases += [{"op": "paging", "n": 2500, "h": 4}, {"op": "paging", "n": 1300, "h": 3}, {"op": "paging", "n": 30000, "h": 30}]
    # whole-screen draws through the real scheduler: long contents on low screens, drawn several times (refresh key, rejected lines, return from a pushed screen)
    for _ in range(300 if tier == "quick" else 3000):
        nscr = rnd.randint(1, 2)
        screens = []
        for i in range(nscr):
            screens.append(dict(id=i, name="S%d" % i, title=rnd.choice([None, "T%d" % i]), text="".join("LINE-%02d\n" % k for k in range(rnd.randint(1, 40))),
                                height=rnd.choice([4, 5, 6, 8, 12, 30]), input_required=True, no_separator=rnd.random() < 0.2, skip_check=False,
                                scripts={"input": [{"ret": rnd.choice(["REDRAW", "r", "DISCARDED", "PROCESSED", "CLOSE"])} for _ in range(8)]},
                                hidden=rnd.random() < 0.25))            # a screen that hides what the user types (password): its pages are still asked for visibly
        init = [["schedule", i, None] for i in range(nscr)]
        handlers = []
        if rnd.random() < 0.3:
            # the screen lets its requests bypass the concurrency check and a background signal asks for a redraw while its prompt is waiting: the pages of the second
            # draw are still separated by continue requests that each consume a line
            for s_ in screens: s_["skip_check"] = True
            handlers = [dict(cls="U0", hid=0, data=None, scripts=[[["redraw_sig", 0]], [["redraw_sig", 0]], []])]
            init = init + [["enq", "U0", 1, None, 700 + len(cases)]] + ([["enq", "U0", 2, None, 90700 + len(cases)]] if rnd.random() < 0.4 else [])
        cases.append(_s.with_cc(dict(op="machine", mode="paging", width=rnd.choice([80, 40, 12]), screens=screens, handlers=handlers, init=init,
                                    stdin=[rnd.choice(["", "", "", "r", "x", "c"]) for _ in range(rnd.randint(2, 30))], quit_cb=None, quit_screen=None,
                                    exc_handler=False, run_empty=False, deliver_at=[])))
    # the library's own dialogs as views (Model/DialogViews.lean, Props/C12b.lean): window lines after refresh() at every width, prompt
    return cases + objects.gen_dialogview(rnd, 1500 if tier == "quick" else 15000)


def run_impl(case):
    return _s.run_impl(case) if case["op"] == "machine" else common_run_impl(case)


def model_case(case):
    return _s.model_case(case) if case["op"] == "machine" else common_model_case(case)


def strip_obs(obs):
    return _s.strip_obs(obs) if isinstance(obs, dict) and "xlog" in obs else obs


def compare(case, impl, model):
    if case["op"] == "machine": return _s.compare(case, impl, model)
    if case["op"] == "tree":
        return tree_compare(case, impl, model)
    if case["op"] == "prompt": impl = {k: v for k, v in impl.items() if k != "strs"}        # (the intermediate printings are judged by the oracle)
    return plain_compare(case, impl, model)


def monitor_session(case, obs):
    """every draw prints the title part and every content line exactly once, in order, in pages of at most height-2 lines each followed by one continue request"""
    from harness.impl.app import Render
    x = _s.X(case, obs); out = obs["out"]; W = case["width"]
    cont = Render.prompt_text("cont", W)
    open_show = {}
    reads_at = sorted(c["out"] for e, c in obs["xlog"] if e[0] == "read" and c.get("out") is not None)
    for i, ev, ctx in x.events():
        if ev[0] == "cb" and ev[2] == "show" and "out" in ctx: open_show[ev[1]] = ctx["out"]
        if ev[0] == "cb<" and ev[2] == "show" and ev[1] in open_show and "out" in ctx:
            a, b = open_show.pop(ev[1]), ctx["out"]
            chunk = out[a:b]
            spec = x.specs[ev[1]]
            exp = Render.window_lines(spec, W)
            pages = chunk.split(cont)
            got = [l for p_ in pages for l in p_.split("\n")[:-1]] if chunk else []
            # the last page ends with a newline; earlier pages end right before the continue prompt
            got = []
            for p_ in pages:
                ls = p_.split("\n")
                if ls and ls[-1] == "": ls = ls[:-1]
                got += ls
            if got != exp: return "the draw of %s printed %d lines, its window has %d: first difference at line %d (%r / %r)" % (
                spec["name"], len(got), len(exp), next((k for k in range(min(len(got), len(exp))) if got[k] != exp[k]), min(len(got), len(exp))), got[:3], exp[:3])
            h = spec.get("height", 30)
            sizes = [len([l for l in p_.split("\n") if l != ""] if False else (p_.split("\n")[:-1] if p_.endswith("\n") else p_.split("\n"))) for p_ in pages]
            if len(pages) > 1 and any(sz > h - 2 for sz in sizes): return "a page of %d lines on a screen of height %d" % (max(sizes), h)
            # the request between two pages is an ordinary, visible one (the line the user types there is not a secret of the screen)
            for e2, c2 in obs["xlog"]:
                if e2[0] == "hidden-read" and c2.get("out") is not None and a < c2["out"] < b and out[:c2["out"]].endswith(cont):
                    return "the continue request between two pages of %s was asked through the hidden-input (password) path" % spec["name"]
            n_reads = sum(1 for r in reads_at if a < r < b)
            if n_reads != len(pages) - 1: return "%d lines were consumed while drawing %s, %d continue requests were shown" % (n_reads, spec["name"], len(pages) - 1)
    return None


def monitor(case, obs):
    if case["op"] == "machine": return monitor_session(case, obs)
    from harness.impl.render import build
    if case["op"] == "paging":
        n, h = case["n"], case["h"]
        if isinstance(obs, dict):
            if obs.get("err") not in (None, "OutOfDomain"): return "printing %d lines on a screen of height %d raised %s" % (n, h, obs["err"])
            return None
        lines = [e for e in obs if e != -1]
        if lines != [str(i) for i in range(n)]: return "lines printed %r, expected every line once in order" % lines[:10]
        real = h - 2
        pages = []; cur = 0
        for e in obs:
            if e == -1: pages.append(cur); cur = 0
            else: cur += 1
        if obs and obs[-1] == -1: return "a continue request follows the last page"
        if any(p != real for p in pages): return "a page followed by a continue request has %r lines, expected %d" % (pages, real)
        if cur > real: return "the last page has %d lines (> %d)" % (cur, real)
        if n > 0 and cur == 0: return "empty last page"
        exp = 0 if n == 0 else -(-n // real) - 1
        if len(pages) != exp: return "%d continue requests, expected %d" % (len(pages), exp)
        return None
    if case["op"] == "prompt":
        d = {}; msg = case["message"]
        STD = {"refresh": ("r", "to refresh"), "continue": ("c", "to continue"), "quit": ("q", "to quit"), "help": ("h", "to help")}
        def text():
            if not msg and not d: return ""
            parts = ([msg] if msg else []) + (["[" + ", ".join("'%s' %s" % (k, d[k]) for k in sorted(d)) + "]"] if d else [])
            return " ".join(parts) + ": "
        # the prompt is printed before every edit and at the end: each time it lists exactly the options defined at that moment
        for n_, op in enumerate(case["ops"]):
            if "strs" in obs and obs["strs"][n_] != text(): return "before edit #%d (%r) str(prompt) = %r, expected %r" % (n_, op, obs["strs"][n_], text())
            if op[0] == "set": d[op[1]] = op[2]
            elif op[0] == "std": d[STD[op[1]][0]] = STD[op[1]][1] if op[2] is None else op[2]
            elif op[0] == "remove": d.pop(op[1], None)
            else: msg = op[1]
        exp = text()
        if obs["str"] != exp: return "str(prompt) = %r, expected %r" % (obs["str"], exp)
        return None
    if case["op"] == "tree" and case["tree"][0] == "window":
        o = obs[-1]          # the last render of the same window object (rendered one to three times): exactly its content, nothing else
        if "err" in o: return None
        title, items = case["tree"][1], expand_refs(case["tree"])[2]
        w = case["ops"][0][1]
        exp = []
        if title:
            t = build(["text", title]); t.render(w); exp += t.get_lines() + [""]
        for it in items:
            x = build(it); x.render(w); exp += x.get_lines()
        if o["lines"] != exp: return "window lines %r, expected title part followed by each item's lines %r" % (o["lines"][:8], exp[:8])
    return None


def nontrivial(case, obs):
    if case["op"] == "machine": return sum(1 for e in obs["log"] if e[0] == "cb" and e[2] == "show") >= 2
    if case["op"] == "paging": return isinstance(obs, list) and -1 in obs
    if case["op"] == "prompt": return obs["str"].count("'") >= 4
    return len(case["tree"][2]) >= 2


def outcome(case, obs): return case["op"] if case["op"] != "machine" else "session/" + obs["outcome"][0]


LEAN_MODULES = ["C12", "C12b"]
objects.install(globals(), ("dialogview",))
