"""C13 - List containers show every item once, in order, without overlap, within width."""
import math
from harness.props.common import *
from harness.gen.trees import gen_tree, gen_text

THEOREM_NOTE = ("Props/C13.lean: cell of item i (row-/column-major), every item in exactly one cell; refusal when the columns width or the room left by a "
                "label is <= 0; zero columns; what render draws (drawColumns over rendered labels and items); placement of every item and label character "
                "at rowTop/colLeft of its cell; row heights dominate; bands and rows disjoint with the spacing; layout within the requested width"
                ' Props/C13b.lean: the layout hypothesis is discharged from the render itself (RespectsWidth per widget kind), giving placement theorems with hypotheses on the inputs only.')
ASSUMPTIONS = ASSUME_PY + ["placement theorems assume every drawn grid respects the width it was rendered for (LayoutOK): TextWidget by C11, labels by C11, nested unforced containers by C13_within_width; forced columns widths are outside the width clause",
                           "CenterWidget with a child wider than the width (negative draw column) is outside the model and not compared"]
RULE = ("seeded random list containers of text items: 1..6 columns, spacing 0..4, 0..14 items wrapping to 0..5 lines (incl. empty items), numbering on/off with "
        "offsets (label width changing 9->10, 99->100), requested widths 1..70, both kinds, checked against the closed-form placement; plus random nested trees "
        "(depth <= 3, forced widths, zero columns) compared with the model; non-trivial = >= 2 items placed or the layout refused"
        ' Later rounds: a render after a refused render of the same object; one widget object in several cells of an unnumbered list; per-node lines compared with the model.')

WORDS = ["a", "bb", "ccc", "dddd", "eeeee", "x" * 9, "hello world", "one two three four", ""]
LEAN_MODULES = ["C13", "C13b"]


def generate(rnd, tier):
    cases = []
    N = 4000 if tier == "quick" else 40000
    for _ in range(N):
        k = rnd.randint(1, 6); sp = rnd.randint(0, 4); n = rnd.choice([0, 1, 2, 3, 4, 5, 6, 9, 10, 11, 12, 14]); w = rnd.randint(1, 70)
        cm = rnd.random() < 0.5
        kp = rnd.choice([None, ["", ") ", 1], ["", ") ", 1], ["", ") ", rnd.choice([0, 5, 95, -2])], ["[", "] ", 1]])
        texts = [" ".join(rnd.choice(WORDS) for _ in range(rnd.randint(1, 4))).strip() if rnd.random() < 0.9 else "" for _ in range(n)]
        ops = [["render", w]]
        if rnd.random() < 0.3: ops = [["render", rnd.choice([1, 2, 3, w])]] + ops        # the same object first rendered at a width that may be refused
        cases.append({"op": "tree", "_tag": "flat", "tree": ["list", cm, k, None, sp, kp, [["text", t] for t in texts]], "ops": ops})
    for _ in range(N // 2):
        cases.append({"op": "tree", "_tag": "nested", "tree": gen_tree(rnd, rnd.choice([1, 2, 3]), lists_only=True), "ops": [["render", rnd.choice([1, 2, 3, 5, 8, 10, 13, 20, 21, 40, 80])]]})
    return [with_cc(c) for c in cases]


def corpus():
    # witness of the fixed finding F5 (items rendering to zero lines) and of F4 seen through C13
    yield with_cc({"op": "tree", "_tag": "flat", "tree": ["list", False, 1, None, 3, ["", ") ", 1], [["text", ""], ["text", ""], ["text", "x"]]], "ops": [["render", 20]]})
    yield with_cc({"op": "tree", "_tag": "flat", "tree": ["list", True, 2, None, 1, ["", ") ", 1], [["text", ""], ["text", "a"], ["text", ""]]], "ops": [["render", 12]]})


compare = tree_compare


def monitor(case, obs):
    """the statement of C13 as a closed form, for flat containers of text items (independent of the Lean model)"""
    from harness.impl.render import build
    if case.get("_tag") != "flat":
        # nested / forced-width containers: items never overlap => every non-blank character of every item's own rendering and of every label is shown:
        # the multiset of non-blank characters of the container equals the sum over its items (rendered at the width the container gives them) and labels
        t = expand_refs(case["tree"]); o = obs[-1]
        if t[0] != "list" or "err" in o or t[2] == 0: return None
        _, cm, k, cwf, sp, kp, items = t; w = case["ops"][-1][1]
        used = cwf if cwf is not None else int((w - (k - 1) * sp) / k)
        import collections
        exp = collections.Counter()
        for i, it in enumerate(items):
            lab = (kp[0] + str(i + kp[2]) + kp[1]) if kp else ""
            exp.update(c for c in lab if not c.isspace())
            x = build(it)
            try: x.render(used - len(lab))
            except Exception: return None
            exp.update(c for l in x.get_lines() for c in l if not c.isspace())
        got = collections.Counter(c for l in o["lines"] for c in l if not c.isspace())
        if got != exp:
            miss = exp - got
            return "items overlap or are lost: %d non-blank characters of the items/labels are not shown (e.g. %r); lines %r" % (sum(miss.values()), list(miss)[:5], o["lines"][:4])
        return None
    _, cm, k, _cw, sp, kp, items = case["tree"]; w = case["ops"][-1][1]; n = len(items)
    o = obs[-1]          # the last render (an earlier render of the same object, possibly refused, must not matter)
    texts = [it[1] for it in items]
    labels = [(kp[0] + str(i + kp[2]) + kp[1]) if kp else "" for i in range(n)]
    cw = int((w - (k - 1) * sp) / k)
    if n >= 1 and (cw <= 0 or any(cw - len(l) <= 0 for l in labels)):
        if "err" not in o: return "a layout that cannot fit (columns width %d, labels %r) was drawn: %r" % (cw, labels[:3], o["lines"][:4])
        return None
    if "err" in o: return "a layout that fits was refused with %s" % o["err"]
    def lines_of(t, width):
        x = build(["text", t]); x.render(width); return x.get_lines()
    per = math.ceil(n / k) if n else 0
    pos = [((i % per, i // per) if cm else (i // k, i % k)) for i in range(n)]
    M = [lines_of(texts[i], cw - len(labels[i])) for i in range(n)]
    LB = [lines_of(labels[i], len(labels[i])) if kp else [] for i in range(n)]
    rows = max([p[0] for p in pos], default=-1) + 1
    H = [max([max(len(M[i]), len(LB[i])) for i in range(n) if pos[i][0] == r] + [0]) for r in range(rows)]
    Y = [sum(H[:r]) for r in range(rows)]
    grid = {}
    for i in range(n):
        r, c = pos[i]; X = c * (cw + sp)
        for a, line in enumerate(LB[i]):
            for b, ch in enumerate(line):
                if (Y[r] + a, X + b) in grid: return "statement: overlap"
                grid[(Y[r] + a, X + b)] = ch
        for a, line in enumerate(M[i]):
            for b, ch in enumerate(line):
                key = (Y[r] + a, X + len(labels[i]) + b)
                if key in grid: return "items overlap at %r" % (key,)
                grid[key] = ch
    got = o["lines"]
    for (y, x), ch in grid.items():
        if y >= len(got) or x >= len(got[y]) or got[y][x] != ch:
            return "character %r of an item/label expected at row %d column %d; the row is %r" % (ch, y, x, got[y] if y < len(got) else None)
    for y, line in enumerate(got):
        for x, ch in enumerate(line):
            if (y, x) not in grid and ch != " ": return "unexpected character %r at row %d column %d" % (ch, y, x)
        if len(line.rstrip(" ")) > w: return "line %r exceeds the requested width %d" % (line, w)
    if len(got) != sum(H): return "height %d, expected %d" % (len(got), sum(H))
    return None


def nontrivial(case, obs): return "err" in obs[-1] or (case["tree"][0] == "list" and len(case["tree"][6]) >= 2)
def outcome(case, obs): return case.get("_tag", "?") + ("/refused" if "err" in obs[-1] else "/drawn") + ("/after-refusal" if len(obs) > 1 and "err" in obs[0] else "")


def shrink(case):
    t = case["tree"]
    if t[0] == "list":
        items = t[6]
        for i in range(len(items)):
            yield with_cc({**{k: v for k, v in case.items() if k != "cc"}, "tree": t[:6] + [items[:i] + items[i + 1:]]})
