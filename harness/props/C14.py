"""C14 - The number shown next to an item is the number that selects it."""
from harness.props.common import *

THEOREM_NOTE = ("Props/C14.lean: label = pattern around decimal(i+offset); int(decimal z) = z; handled <=> the key reads as the displayed number of an "
                "existing item; exactly that item's callback (if any); not-a-number / out of range / numbering off / non-string select nothing")
ASSUMPTIONS = ASSUME_PY + ["A-INT: int(str) as Model/KeyPattern.lean pyInt (strip, sign, digits with single underscores)",
                           "reading fixed in DESIGN.md C14: typed text denotes a number as int() reads it (' 2', '+2', '02' select the item displayed as 2)",
                           "key patterns of the form prefix{:d}suffix"]
RULE = ("exhaustive offsets -3..12 x item counts 0..12 x keys {all displayed numbers, neighbours, lenient spellings, non-ASCII digits, '1_0', '', text} "
        "plus non-str keys (None, int, bytes, float, bool) and int() on exhaustive strings over {' ',+,-,_,0,1,a} up to length 4 and random ones; "
        "non-trivial = a callback fired or a displayed number was typed"
        ' Callbacks are handed over as functions, bound methods of objects nothing else refers to, partials and callable objects.'
        ' Later rounds: kept containers with callbacks that fail at some invocation given key sequences; nested numbered containers with key patterns of their own (the line each item starts on shows its own number).')


def generate(rnd, tier):
    import itertools
    cases = []
    for off in range(-3, 13):
        for n in (range(0, 13) if tier == "thorough" else (0, 1, 2, 3, 9, 10, 12)):
            items = [(i * 7 + off) % 3 != 0 for i in range(n)]
            keys = {str(i + off) for i in range(-1, n + 2)} | {"0", "-1", str(n), str(n + 1), " %d" % (off + 1), "+%d" % (off + 1), "0%d" % (off + 1),
                                                              "", "x", "1_0", "١", "1.0", "1 ", "１", "--1", "1e0"}
            for pat in (["", ") "], ["[", "]"]):
                for k in sorted(keys):
                    cases.append({"op": "key", "kp": [pat[0], pat[1], off], "items": items, "key": k})
                    if (len(cases) + off) % 5 == 0: cases[-1]["cbkind"] = ("method", "partial", "callable")[(len(cases) // 5) % 3]
            for raw in ("None", "1", "b'1'", "1.0", "True"):
                cases.append({"op": "key", "kp": ["", ") ", off], "items": items, "key": None, "rawkey": raw})
            for k in ("1", str(off), ""):
                cases.append({"op": "key", "kp": None, "items": items, "key": k})
    for L in range(0, 5):
        for tup in itertools.product(" +-_01a", repeat=L):
            cases.append({"op": "int", "s": "".join(tup)})
    ialph = " +-_01a9\t\x1c\xa0٣\n"
    for _ in range(3000 if tier == "quick" else 50000):
        cases.append({"op": "int", "s": "".join(rnd.choice(ialph) for _ in range(rnd.randint(0, 8)))})
    # history: a kept container is rendered, its key pattern replaced, rendered again: the labels shown must be those of the pattern that selects
    for _ in range(400 if tier == "quick" else 4000):
        n = rnd.randint(1, 6)
        kp1 = ["", ") ", rnd.choice([1, 1, 0, 3])]; kp2 = rnd.choice([["", ") ", rnd.choice([5, 10, 2])], ["[", "] ", 1], None])
        cases.append({"op": "tree", "tree": ["list", rnd.random() < 0.5, rnd.randint(1, 3), None, 2, kp1, [["text", "w%d" % i] for i in range(n)]],
                      "ops": [["render", 40], ["set_kp", kp2], ["render", 40]]})
    # a kept container with callbacks (some fail at some invocation): rendered, then several keys in turn; its items may be numbered containers with patterns of their own
    for _ in range(600 if tier == "quick" else 6000):
        n = rnd.randint(1, 5); off = rnd.choice([1, 1, 0, 4])
        kp = [rnd.choice(["", "("]), rnd.choice([") ", "] "]), off]
        def inner(j):
            if rnd.random() < 0.15: return ["sep", rnd.randint(1, 2)]            # a separator is an item like any other: it has a number and can be selected
            if rnd.random() < 0.5: return ["text", "w%d" % j]
            return ["list", False, 1, None, 1, rnd.choice([["[", "] ", rnd.choice([7, 1, 20])], ["", ") ", 1], None]), [["text", "i%d_%d" % (j, q)] for q in range(rnd.randint(1, 4))]]
        items = [inner(j) for j in range(n)]
        cbs = [rnd.random() < 0.8 for _ in range(n)]
        raise_on = {str(i): [rnd.choice([1, 1, 2])] for i in range(n) if cbs[i] and rnd.random() < 0.3}
        keys = [str(rnd.randrange(n) + off) if rnd.random() < 0.8 else rnd.choice(["0", "9", "x", str(n + off)]) for _ in range(rnd.randint(2, 6))]
        cases.append({"op": "keytree", "tree": ["list", False, 1, None, 2, kp, items], "w": 60, "cbs": cbs, "raise_on": raise_on, "keys": keys,
                      "cbkind": rnd.choice([None, None, "method", "partial", "callable"])})
    return [with_cc(c) for c in cases]


def corpus():
    # witness of the fixed finding F3 (offset 5)
    for k in ("5", "6", "7", "1", "8", "4"):
        yield with_cc({"op": "key", "kp": ["", ") ", 5], "items": [True, True, True], "key": k})


def compare(case, impl, model):
    if case["op"] == "keytree":
        v = tree_compare(case, [impl["render"]], [model["render"]])
        if v: return v
        for k, (a, b) in enumerate(zip(impl["keys"], model["keys"])):
            if a["fired"] != b["fired"] or (not a["raised"] and a["handled"] != b["handled"]):
                return "key #%d %r: implementation %r / model %r" % (k, case["keys"][k], a, b)
        return None
    if case["op"] == "tree":
        from harness.props import C16
        return C16.compare(case, impl, model)
    return plain_compare(case, impl, model)


def monitor(case, obs):
    if case["op"] == "keytree":
        _, _, _, _, sp, kp, items = case["tree"]; r = obs["render"]
        labels = [kp[0] + str(i + kp[2]) + kp[1] for i in range(len(items))]
        if "err" not in r:
            # one column, short items: item i starts on the row below the items before it; its own number is what is shown in front of it
            row = 0
            for i, it in enumerate(items):
                line = r["lines"][row] if row < len(r["lines"]) else ""
                if not line.startswith(labels[i].rstrip()): return "item %d is selected by %r but the line it starts on shows %r" % (i, str(i + kp[2]), line[:20])
                row += 1 if it[0] == "text" else it[1] if it[0] == "sep" else max(1, len(it[6]))
        for k, (key, o) in enumerate(zip(case["keys"], obs["keys"])):
            if o["n_fired"] > 1: return "key #%d %r invoked %d callbacks" % (k, key, o["n_fired"])
            v = monitor({"op": "key", "kp": kp, "items": case["cbs"], "key": key}, {"handled": True if o["raised"] else o["handled"], "fired": o["fired"], "labels": labels})
            if v: return "key #%d of the sequence %r: %s" % (k, case["keys"], v)
        return None
    if case["op"] == "tree":
        # after the pattern was replaced and the container rendered again, every displayed label is the one the current pattern translates back
        kp = case["ops"][1][1]; o = obs[-1]
        if "err" in o: return None
        n = len(case["tree"][6])
        if kp is None:
            if any(")" in l or "]" in l for l in o["lines"]): return "numbering was switched off but labels are still displayed: %r" % o["lines"][:3]
            return None
        text = "\n".join(o["lines"])
        for i in range(n):
            lab = (kp[0] + str(i + kp[2]) + kp[1]).rstrip()
            if lab + " w%d" % i not in text and lab + "w%d" % i not in text:
                return "item %d is selected by %r (current key pattern) but that number is not displayed next to it: %r" % (i, str(i + kp[2]), o["lines"][:4])
        return None
    if case["op"] != "key": return None
    kp = case["kp"]; items = case["items"]; key = case["key"]
    handled, fired = obs["handled"], obs["fired"]
    if fired is not None and not handled: return "a callback fired (%r) but the key was reported as not handled" % fired
    if kp is None or "rawkey" in case or not isinstance(key, str):
        if handled or fired is not None: return "numbering off / non-string key selected item %r" % fired
        return None
    # the displayed number of item i is the label without the pattern's prefix/suffix
    shown = [l[len(kp[0]):len(l) - len(kp[1])] for l in obs["labels"]]
    for i, s in enumerate(shown):
        if s != str(i + kp[2]): return "label %d shows %r" % (i, s)
    try: z = int(key)
    except ValueError: z = None
    target = None
    if z is not None:
        for i, s in enumerate(shown):
            if int(s) == z: target = i
    if key in shown and target != shown.index(key): return "ambiguous labels"
    if target is None:
        if handled or fired is not None: return "key %r matches no displayed number but handled=%r fired=%r" % (key, handled, fired)
    else:
        if not handled: return "typing %r (the number shown for item %d) was not handled" % (key, target)
        exp = target if items[target] else None
        if fired != exp: return "typing %r fired %r, expected %r" % (key, fired, exp)
    return None


def nontrivial(case, obs): return case["op"] in ("tree", "keytree") or (case["op"] == "key" and (obs["fired"] is not None or obs["handled"]))
def outcome(case, obs):
    if case["op"] == "tree": return "pattern-change"
    if case["op"] == "keytree": return "key-sequence" + ("/callback-raised" if any(o["raised"] for o in obs["keys"]) else "")
    if case["op"] == "int": return "int/" + ("value" if obs["val"] is not None else "ValueError")
    return "key/" + ("fired" if obs["fired"] is not None else "handled" if obs["handled"] else "unhandled")
