"""C15 - Drawing and writing into a widget change exactly the intended cells."""
from harness.props.common import *

THEOREM_NOTE = ("Props/C15.lean: draw - height, other rows, row length, cells inside the rectangle = source, cells outside unchanged or blank "
                "padding, cursor; write - typewriter position = path, i-th character at i-th path position, path strictly increasing in "
                "reading order and within [col, col+width), frame, empty text - for every buffer, source, position, text, width"
                ' Props/C15b.lean: ColumnWidget composition - every character of every widget at its place, nothing else but blanks, disjoint rectangles, without assuming widgets respect their width.')
ASSUMPTIONS = ["A-STR: list slice assignment with non-negative indices as modelled",
               "domain: row, col >= 0 (the API documents them as positions); negative columns are outside C15"]
RULE = ("exhaustive tiny grids (targets and sources of <= 2 rows x <= 2 cells over {x,' '}, positions 0..3) plus seeded random targets "
        "<= 6x9, sources <= 5x7, positions 0..11 (inside, at the edge of, beyond the buffer), default/explicit position, both block "
        "modes; writes of texts over {a,b,' ',newline} with widths None/-1..6 and max_width; non-trivial = the operation changes the buffer"
        " Later rounds: sequences of 2..5 draws / writes on one object (a source may be drawn twice; sources unchanged afterwards); ColumnWidget composition recomputed from the widgets' own renderings.")
LEAN_MODULES = ['C15', 'C15b']


def _grids(maxr, maxc, alph="x "):
    import itertools
    out = [[]]
    rows = [""]
    for n in range(1, maxc + 1):
        rows += ["".join(t) for t in itertools.product(alph, repeat=n)]
    for r in range(1, maxr + 1):
        out += [list(t) for t in itertools.product(rows, repeat=r)]
    return out


def generate(rnd, tier):
    cases = []
    small = _grids(2, 2)
    for tgt in small:
        for src in small[:: (1 if tier == "thorough" else 3)]:
            for row in (0, 1, 3):
                for col in (0, 1, 3):
                    cases.append({"op": "draw", "target": {"buf": tgt, "cur": [0, 0]}, "src": src, "row": row, "col": col, "block": (row + col) % 2 == 0})
    def ggrid(maxr, maxc): return ["".join(rnd.choice("xyz ") for _ in range(rnd.randint(0, maxc))) for _ in range(rnd.randint(0, maxr))]
    N = 5000 if tier == "quick" else 60000
    for _ in range(N):
        tgt = {"buf": ggrid(6, 9), "cur": [rnd.randint(0, 7), rnd.randint(0, 10)]}
        cases.append({"op": "draw", "target": tgt, "src": ggrid(5, 7), "row": rnd.choice([None, rnd.randint(0, 8)]),
                      "col": rnd.choice([None, rnd.randint(0, 11)]), "block": rnd.random() < 0.5})
        # (now and then with the characters other line-splitting routines take for line ends: for write() only '\n' is one, everything else is a cell)
        text = "".join(rnd.choice("ab \n" if rnd.random() < 0.8 else "ab \n\r\x0b\x0c\x1c\x1d\x1e\x85\u2028\u2029") for _ in range(rnd.randint(0, 14)))
        cases.append({"op": "write", "target": tgt, "text": text, "row": rnd.choice([None, rnd.randint(0, 8)]), "col": rnd.choice([None, rnd.randint(0, 11)]),
                      "width": rnd.choice([None, None, 0, 1, 2, 3, 6, -1]), "maxw": rnd.choice([None, None, None, 0, 4, 12]), "block": rnd.random() < 0.5})
    # sequences of draws and writes on one widget object (what one operation leaves behind must not matter to the next); a source widget may be drawn twice
    for _ in range(1500 if tier == "quick" else 20000):
        steps = []
        for i in range(rnd.randint(2, 5)):
            if rnd.random() < 0.55:
                st = {"op": "draw", "src": ggrid(4, 6), "row": rnd.choice([None, rnd.randint(0, 8)]), "col": rnd.choice([None, 0, 0, rnd.randint(0, 9)]), "block": rnd.random() < 0.5}
                prev = [j for j, p_ in enumerate(steps) if p_["op"] == "draw" and p_.get("src_ref") is None]
                if prev and rnd.random() < 0.25: st["src_ref"] = rnd.choice(prev); st["src"] = steps[st["src_ref"]]["src"]
            else:
                st = {"op": "write", "text": "".join(rnd.choice("ab \n" if rnd.random() < 0.85 else "a\n\r\x0c\x85\u2028") for _ in range(rnd.randint(1, 8))), "row": rnd.choice([None, rnd.randint(0, 8)]),
                      "col": rnd.choice([None, rnd.randint(0, 9)]), "width": rnd.choice([None, None, 1, 2, 3, 6]), "block": rnd.random() < 0.5}
            steps.append(st)
        cases.append({"op": "gridseq", "target": {"buf": ggrid(3, 5), "cur": [rnd.randint(0, 4), rnd.randint(0, 6)]}, "steps": steps})
    # composition through draw: a ColumnWidget draws the renderings of its widgets column by column, one below the other
    from harness.gen.trees import gen_column
    from harness.props.common import with_cc as pure_cc
    for _ in range(800 if tier == "quick" else 10000):
        c = gen_column(rnd); c["widths"] = c["widths"][:1]
        cases.append(pure_cc(c))
    return cases


def with_cc(case): return case
compare = plain_compare


def column_oracle(case, o, w):
    """each widget's own rendering (a fresh equal widget rendered at the column's width) appears at its place - column start, below the widgets before it -
    and nothing else is drawn: columns start right of everything drawn so far, so nothing overlaps"""
    from harness.impl.render import build
    cells = {}; height = 0; col_pos = 0; widest = 0
    for cw, items in case["cols"]:
        row = 0; maxw = cw if cw is not None else w - col_pos
        for it in items:
            x = build(it)
            try: x.render(maxw)
            except Exception: return None           # a widget refuses its width: the ColumnWidget raises too (compared with the model)
            for a, line in enumerate(x.get_lines()):
                for b, ch in enumerate(line):
                    if (row + a, col_pos + b) in cells: return "two widgets are drawn over each other at (%d,%d)" % (row + a, col_pos + b)
                    cells[(row + a, col_pos + b)] = ch; widest = max(widest, col_pos + b + 1)
            row += len(x.get_lines()); height = max(height, row)
        col_pos = max(col_pos + (cw or 0), widest) + case["spacing"]
    if len(o["lines"]) != height: return "the ColumnWidget has %d rows, its tallest column has %d" % (len(o["lines"]), height)
    for r, line in enumerate(o["lines"]):
        for c, ch in enumerate(line):
            exp = cells.get((r, c), " ")
            if ch != exp: return "cell (%d,%d) shows %r, expected %r" % (r, c, ch, exp)
    for (r, c), ch in cells.items():
        if ch != " " and (c >= len(o["lines"][r]) or o["lines"][r][c] != ch): return "character %r of a widget is missing at (%d,%d)" % (ch, r, c)
    return None


def monitor(case, obs):
    if case["op"] == "column":
        o = obs[0]
        if "err" in o: return None
        return column_oracle(case, o, case["widths"][0])
    if case["op"] == "gridseq":
        # each operation is judged on what the widget showed just before it; the source widgets are left as they were
        tgt = case["target"]
        for i, (st, o) in enumerate(zip(case["steps"], obs["steps"])):
            v = monitor(dict(st, target=tgt), o)
            if v: return "operation #%d (%s) of the sequence: %s" % (i, st["op"], v)
            tgt = {"buf": o["lines"], "cur": o["cur"]}
        for i, lines in obs["srcs_after"].items():
            if lines != case["steps"][int(i)]["src"]: return "the source widget drawn by operation #%s shows %r afterwards; it showed %r" % (i, lines, case["steps"][int(i)]["src"])
        return None
    tgt = case["target"]; old = [list(l) for l in tgt["buf"]]
    row = case.get("row"); col = case.get("col")
    if row is None: row = tgt["cur"][0]
    if col is None: col = tgt["cur"][1]
    new = [list(l) for l in obs["lines"]]
    def cell(g, r, c): return g[r][c] if r < len(g) and c < len(g[r]) else None
    if case["op"] == "draw":
        src = [list(l) for l in case["src"]]; h = len(src)
        if len(new) != max(len(old), row + h): return "height %d, expected %d" % (len(new), max(len(old), row + h))
        for r in range(len(new)):
            o = old[r] if r < len(old) else []
            if not (row <= r < row + h):
                if new[r] != o: return "row %d outside the rectangle changed: %r -> %r" % (r, o, new[r])
                continue
            s = src[r - row]
            if len(new[r]) != max(len(o), col + len(s)): return "row %d has length %d, expected %d" % (r, len(new[r]), max(len(o), col + len(s)))
            for c in range(len(new[r])):
                if col <= c < col + len(s): exp = s[c - col]
                elif c < len(o): exp = o[c]
                else: exp = " "
                if new[r][c] != exp: return "cell (%d,%d) is %r, expected %r" % (r, c, new[r][c], exp)
        exp_cur = [row + h, col if case["block"] else 0]
        if obs["cur"] != exp_cur: return "cursor %r, expected %r" % (obs["cur"], exp_cur)
        return None
    # write: the path is determined by (row, col, width, block) and the text alone
    text = case["text"]
    if not text:
        if obs != {"lines": tgt["buf"], "cur": tgt["cur"]}: return "writing the empty text changed the widget"
        return None
    width = case.get("width")
    if width is None and case.get("maxw"): width = case["maxw"] - col
    x, y = row, col; path = {}
    order = []
    for ch in text:
        if ch == "\n":
            x += 1; y = col if case["block"] else 0; continue
        if (x, y) in path: return "the path visits (%d,%d) twice" % (x, y)
        path[(x, y)] = ch; order.append((x, y))
        y += 1
        if width is not None and y >= col + width:
            x += 1; y = col if case["block"] else 0
    if order != sorted(order): return "path positions are not in reading order"
    if obs["cur"] != [x, y]: return "cursor %r, expected %r" % (obs["cur"], [x, y])
    for (r, c), ch in path.items():
        if cell(new, r, c) != ch: return "character %r not at its path position (%d,%d): found %r" % (ch, r, c, cell(new, r, c))
    for r in range(max(len(new), len(old))):
        for c in range(max(len(new[r]) if r < len(new) else 0, len(old[r]) if r < len(old) else 0)):
            if (r, c) in path: continue
            o = cell(old, r, c); n = cell(new, r, c)
            if o is not None and n != o: return "cell (%d,%d) off the path changed from %r to %r" % (r, c, o, n)
            if o is None and n not in (None, " "): return "cell (%d,%d) off the path created as %r" % (r, c, n)
    return None


def nontrivial(case, obs):
    if case["op"] == "column": return "err" not in obs[0] and sum(len(i) for _c, i in case["cols"]) >= 2
    return _nt(case, obs)
def _nt(case, obs): return (obs["steps"][-1] if case["op"] == "gridseq" else obs).get("lines") != case["target"]["buf"]
def outcome(case, obs):
    if case["op"] == "column": return "column/" + ("refused" if "err" in obs[0] else "drawn")
    return _oc(case, obs)
def _oc(case, obs): return case["op"] + ("/changed" if nontrivial(case, obs) else "/unchanged")


def shrink(case):
    if case["op"] == "column": return
    if case["op"] == "gridseq":
        for i in range(len(case["steps"])):
            if any(st.get("src_ref") is not None for st in case["steps"]): break
            yield {**case, "steps": case["steps"][:i] + case["steps"][i + 1:]}
        return
    if case["op"] == "write":
        for s in shrink_string(case["text"]): yield {**case, "text": s}
    b = case["target"]["buf"]
    for i in range(len(b)): yield {**case, "target": {**case["target"], "buf": b[:i] + b[i + 1:]}}
    if case["op"] == "draw":
        s = case["src"]
        for i in range(len(s)): yield {**case, "src": s[:i] + s[i + 1:]}
