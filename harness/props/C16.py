"""C16 - Rendering depends only on current content and width, not on render history."""
import os
from harness.props.common import *
from harness.gen.trees import gen_tree, gen_ops, gen_column

THEOREM_NOTE = ("Props/C16.lean: render(t in any object state, w) = render(t with all state forgotten, w) for every widget tree and width; render keeps "
                "the contents; corollaries: render twice, other width in between, add after render = build from scratch"
                ' Props/C16b.lean: the same for ColumnWidget and EntryWidget.')
ASSUMPTIONS = ASSUME_PY + ["widgets.py / containers.py write no module-level state (AST scan in this check, reported in the evidence)",
                           "ColumnWidget (deprecated) is modelled only as used by CheckboxWidget; CenterWidget with a child wider than the width (negative draw column) is outside the model and not compared"]
RULE = ("seeded random widget trees (depth <= 3: text, separator, center, checkbox, window, row/column list containers with 0..11 items, 0..4 columns, "
        "forced/unforced width, numbering patterns and offsets) with sequences of 1..5 render(w) / add / add-to-a-nested-container operations at varying and repeated widths on the kept object; "
        "the oracle renders a freshly built equal tree for every render; non-trivial = >= 2 renders on one object with a container inside"
        ' Later rounds: kept ColumnWidget objects rendered at widths in turn against fresh ones; shared widget objects; structure check (no module-level / default-argument state).')
LEAN_MODULES = ['C16', 'C16b']


def generate(rnd, tier):
    N = 2500 if tier == "quick" else 30000
    cases = []
    for _ in range(N):
        t = gen_tree(rnd, rnd.choice([1, 2, 2, 3, 3]), lists_only=rnd.random() < 0.5)
        ops = gen_ops(rnd, 2, 5, tree=t)
        if t[0] == "list" and rnd.random() < 0.4:
            # the numbering pattern is replaced between two renders
            k = rnd.randrange(1, len(ops) + 1)
            ops.insert(k, ["set_kp", rnd.choice([None, ["", ") ", rnd.choice([1, 0, 5, 10])], ["[", "] ", 1], ["", ") ", 1]])])
            ops.append(["render", ops[-1][1] if ops[-1][0] == "render" else 20])
        cases.append(with_cc({"op": "tree", "tree": t, "ops": ops}))
    # kept ColumnWidget objects (columns of widgets, with and without a column width) rendered at widths in turn
    for _ in range(N // 5):
        c = gen_column(rnd)
        if len(c["widths"]) == 1: c["widths"] = c["widths"] * 2
        cases.append(with_cc(c))
    return cases


def corpus():
    # witnesses of the fixed finding F4
    yield with_cc({"op": "tree", "tree": ["list", False, 1, None, 3, ["", ") ", 1], [["text", "a"]]], "ops": [["render", 20], ["add", ["text", "b"]], ["render", 20]]})
    yield with_cc({"op": "tree", "tree": ["list", False, 2, None, 3, ["", ") ", 1], [["text", "aaa bbb ccc"], ["text", "x"]]], "ops": [["render", 40], ["render", 12]]})


compare = tree_compare


def monitor(case, obs):
    from harness.impl.render import build, obs as observe, err_name
    if case["op"] == "column":
        from harness.impl.render import build_column
        for k, w in enumerate(case["widths"]):
            c = build_column(case)
            try:
                c.render(w); fresh = observe(c)
            except Exception as e:
                fresh = {"err": err_name(e)}
            if obs[k].get("err") != fresh.get("err") or obs[k].get("lines") != fresh.get("lines"):
                return "render #%d at width %d on the kept ColumnWidget gives %r, a freshly built equal one gives %r" % (k, w, obs[k], fresh)
        return None
    # fresh tree = the same spec with the adds applied, rendered once at that width
    spec = case["tree"]; k = 0
    import copy
    cur = copy.deepcopy(spec)
    def node_at(t, path):
        for i in path:
            kids = t[2] if t[0] == "window" else t[6] if t[0] == "list" else [t[1]] if t[0] == "center" else []
            if i >= len(kids): return None
            t = kids[i]
        return t
    for o in case["ops"]:
        op, a = o[0], o[1]
        if op == "set_kp":
            if cur[0] == "list": cur[5] = a
        elif op == "add_at":
            t = node_at(cur, a)
            if t is not None and t[0] == "window": t[2].append(o[2])
            elif t is not None and t[0] == "list": t[6].append(o[2])
        elif op == "add":
            if cur[0] == "window": cur[2].append(a)
            elif cur[0] == "list": cur[6].append(a)
        else:
            w = build(cur)
            try:
                w.render(a); fresh = observe(w)
            except Exception as e:
                fresh = {"err": err_name(e)}
            if obs[k].get("err") != fresh.get("err") or obs[k].get("lines") != fresh.get("lines"):
                return "render #%d at width %d on the kept object gives %r, a freshly built equal tree gives %r" % (k, a, obs[k], fresh)
            # "rendering one widget never changes how another renders": after the container was rendered, a text item of it shows what the same text shows when
            # it is rendered on its own at the width the container gave it (unnumbered, unforced lists and windows: that width is known in closed form)
            if "nodes" in obs[k] and cur[0] in ("list", "window") and not (cur[0] == "list" and (cur[5] is not None or cur[3] is not None or cur[2] == 0)):
                kids = cur[2] if cur[0] == "window" else cur[6]
                wi = a if cur[0] == "window" else int((a - (cur[2] - 1) * cur[4]) / cur[2])
                j = 0
                def count(t):      # nodes of a subtree in preorder (itself included)
                    sub = t[2] if t[0] == "window" else t[6] if t[0] == "list" else [t[1]] if t[0] == "center" else []
                    return 1 + sum(count(x) for x in sub if x[0] not in ("ref", "upref")) + sum(1 for x in sub if x[0] in ("ref", "upref"))
                for kid in kids:
                    lines = obs[k]["nodes"][j] if j < len(obs[k]["nodes"]) else None
                    if kid[0] == "text" and lines is not None and wi >= 1:
                        alone = build(kid); alone.render(wi)
                        if alone.get_lines() != lines:
                            return "after render #%d at width %d the text item %r shows %r; rendered on its own at its width %d it shows %r" % (k, a, kid[1][:20], lines[:3], wi, alone.get_lines()[:3])
                    j += count(kid) if kid[0] not in ("ref", "upref") else 1
            k += 1
    return None


def nontrivial(case, obs):
    if case["op"] == "column": return len(case["widths"]) >= 2 and any(items for _cw, items in case["cols"])
    return sum(1 for o in case["ops"] if o[0] == "render") >= 2 and case["tree"][0] in ("list", "window")
def outcome(case, obs): return "err" if any("err" in o for o in obs) else "ok"


def shrink(case):
    ops = case["ops"]
    for i in range(len(ops)):
        if sum(1 for o in ops[:i] + ops[i + 1:] if o[0] == "render") >= 1 and (ops[i][0] != "render" or i != len(ops) - 1):
            yield with_cc({"op": "tree", "tree": case["tree"], "ops": ops[:i] + ops[i + 1:]})
    t = case["tree"]
    if t[0] in ("list", "window"):
        items = t[-1]
        for i in range(len(items)):
            yield with_cc({"op": "tree", "tree": t[:-1] + [items[:i] + items[i + 1:]], "ops": ops})
