"""C17 - Console output is append-only and stays within the configured width."""
from harness.props.session import *
from harness.gen.sessions import gen_case, SidCounter
from harness.props.session import run_impl as _s_run_impl, model_case as _s_model_case, compare as _s_compare, strip_obs as _s_strip

THEOREM_NOTE = ("Props/C17.lean: the output stream is only appended to; every character written is a newline, a blank, '=', a character of a framework literal or of an "
                "application string (so no carriage return, backspace or escape is introduced); every draw is preceded by two lines of exactly the configured width of '=' "
                "unless the screen disables it; separator, window text and prompt lines are no longer than the width (by C11)")
ASSUMPTIONS = ASSUME_SESSION + ["partial in the schedules dimension: the prompt is written by the reader thread; the harness pins its order relative to main-thread output (waits for the prompt)",
                                "the crash dump of C02 (screen stack + traceback) is excluded by name; screens' contents are titles and texts (list containers and forced widths are covered by C13's width clause)"]
RULE = ("tame/app sessions at configured widths 1..120 with long titles, texts with tabs and other control blanks, long prompts, paging (heights 4..30); oracle on the raw stdout: "
        "no control character that the application's own strings do not contain, every show_all preceded by the two-line separator of exactly the width unless disabled, "
        "every line (ignoring trailing blanks, outside the crash dump) within the width; the exact byte stream is compared with the model; non-trivial = >= 2 screens drawn"
        ' Later rounds: unnumbered lists showing one widget object in several cells; check boxes with tick marks of several characters in windows and lists; sessions in which '
        'the application changes the configured width while it runs (judged by the oracle only: separator and lines follow the width in force).')

TEXTS = [None, "hello", "line\n" * 5, "a\tb\tc " * 6, "word " * 40, "x" * 150, "tab\there\rcr\x0bvt\x0cff", "ünïcödé " * 12, "a-b " * 30, "  leading and trailing  ", "\n\nblank lines\n\n"]


def generate(rnd, tier):
    n = 600 if tier == "quick" else 7000
    sid = SidCounter()
    cases = []
    for _ in range(n):
        c = gen_case(rnd, rnd.choice(["tame", "tame", "app"]), sid)
        c["width"] = rnd.choice([rnd.randint(1, 12), rnd.randint(1, 120), 80, 20, 5, 3, 1])
        for s in c["screens"]:
            s["title"] = rnd.choice([None, "T", "a title " * rnd.randint(1, 20), "ti\ttle"])
            s["text"] = rnd.choice(TEXTS)
            s["height"] = rnd.choice([30, 30, 4, 5, 8, 12])
        cases.append(c)
    # the configured width changed while the application runs (a terminal resize handled by the application): what is drawn afterwards follows the new width,
    # separator included. The model's width is a constant: these sessions are judged by the oracle only.
    for _ in range(n // 6):
        c = gen_case(rnd, "tame", sid)
        c["width"] = rnd.choice([80, 40, 20, rnd.randint(5, 120)])
        for s in c["screens"]:
            s["title"] = rnd.choice([None, "T", "a title " * rnd.randint(1, 12)]); s["text"] = rnd.choice(TEXTS)
        ents = [e for s in c["screens"] for e in ((s.get("scripts") or {}).get("input") or [])]
        if not ents: continue
        for e in rnd.sample(ents, min(len(ents), rnd.randint(1, 3))):
            e["acts"] = [["set_width", rnd.choice([100, 60, 33, 12, rnd.randint(5, 120)])]] + list(e.get("acts") or [])
        c["_adapter_only"] = True
        cases.append(c)
    cases = [with_cc(c) for c in cases]
    # list layouts (the pure layer shared with C13): unforced numbered lists of 0..25 items that fill their columns, at every width
    from harness.props.common import with_cc as pure_cc
    for _ in range(600 if tier == "quick" else 6000):
        k = rnd.randint(1, 4); w = rnd.randint(8, 100); n = rnd.choice([3, 9, 10, 11, 12, 20, 25, 100, 101])
        cw = int((w - (k - 1) * 3) / k)
        items = [["text", rnd.choice(["x" * max(1, cw - rnd.choice([3, 4, 5])), "word " * rnd.randint(1, 12), "y" * rnd.randint(1, 2 * max(1, cw))])] for _ in range(n)]
        kp = ["", ") ", rnd.choice([1, 1, 0, 95])]
        if rnd.random() < 0.3:
            # no numbering; the application shows one and the same widget object in several cells (e.g. an "n/a" text)
            kp = None; j = rnd.randrange(len(items)); items[j] = ["text", rnd.choice(["n/a", "-", "none yet"])]
            for i in rnd.sample(range(len(items)), min(len(items), rnd.randint(1, 4))):
                if i > j: items[i] = ["ref", j]
        cases.append(pure_cc({"op": "tree", "tree": ["list", rnd.random() < 0.5, k, None, 3, kp, items], "ops": [["render", w]]}))
    # check boxes (tick marks of one or several characters, long titles and descriptions that wrap) on their own, in windows and in unforced lists
    for _ in range(500 if tier == "quick" else 5000):
        w = rnd.randint(8, 100)
        def box(): return ["checkbox", rnd.choice(["x", "*", "ok", "yes", "+"]), rnd.choice([None, "title", "a long title here " * rnd.randint(1, 6), "t" * rnd.randint(1, 2 * w)]),
                           rnd.choice([None, "desc text", "description " * rnd.randint(1, 10), "d" * rnd.randint(1, 2 * w)]), rnd.random() < 0.7]
        shape = rnd.random()
        if shape < 0.3: tree = ["window", rnd.choice([None, "T"]), [box() for _ in range(rnd.randint(1, 3))]]
        elif shape < 0.7: tree = ["list", rnd.random() < 0.5, rnd.randint(1, 2), None, rnd.randint(1, 3), rnd.choice([None, ["", ") ", 1]]), [box() for _ in range(rnd.randint(1, 5))]]
        else: tree = ["window", None, [["list", False, 1, None, 1, ["", ") ", 1], [box() for _ in range(rnd.randint(1, 3))]]]]
        cases.append(pure_cc({"op": "tree", "tree": tree, "ops": [["render", w]], "_boxes": True}))
    return cases


def run_impl(case):
    if case["op"] == "tree":
        from harness.impl.render import run_impl as r
        return r(case)
    return _s_run_impl(case)


def model_case(case):
    if case["op"] == "tree":
        from harness.props.common import model_case as pure_model_case
        return pure_model_case(case)
    return _s_model_case(case)


def compare(case, impl, model):
    if case["op"] == "tree":
        from harness.props.common import tree_compare
        return tree_compare(case, impl, model)
    return _s_compare(case, impl, model)


def strip_obs(obs):
    return _s_strip(obs) if isinstance(obs, dict) else obs


def monitor(case, obs):
    if case["op"] == "tree":
        o = obs[0]; w = case["ops"][0][1]
        if "err" in o: return None
        for l in o["lines"]:
            if len(l.rstrip(" ")) > w: return "a list layout line %r is longer than the requested width %d" % (l, w)
        return None
    out = obs["out"]; W = case.get("width", 80)
    if case.get("_adapter_only"): return monitor_resized(case, obs)
    own = "".join(strings_of({k: v for k, v in case.items() if k != "cc"}))
    for ch in out:
        o = ord(ch)
        if (o < 32 and ch != "\n") or o == 127 or o == 0x1b:
            # a control character may come out only if the application supplied it and it is not one TextWidget replaces by blanks
            if ch in "\t\r\x0b\x0c": return "control character %r written to the console" % ch
            if ch not in own: return "control character %r written to the console" % ch
    x = X(case, obs)
    sep = ("=" * W + "\n") * 2
    for i, ev, ctx in x.events():
        if ev[0] == "cb" and ev[2] == "show" and "out" in ctx:
            before = out[:ctx["out"]]
            if x.specs[ev[1]].get("no_separator"):
                continue
            if not before.endswith(sep): return "the draw of %s is not preceded by two separator lines of exactly %d '=': %r" % (x.specs[ev[1]]["name"], W, before[-(2 * W + 6):])
            if W > 0 and before[:-len(sep)].endswith("="): return "separator longer than the configured width %d" % W
    # the console transcript: a prompt leaves its last line open for the user's answer; whatever follows (the user's ENTER or further output)
    # starts after that line, so each written prompt text ends a line of the transcript (the typed text itself is not framework output)
    from harness.impl.app import Render
    body = out
    for ptxt in sorted({Render.prompt_text("default", W), Render.prompt_text("cont", W), Render.prompt_text("msg", W)}, key=len, reverse=True):
        if ptxt.strip(): body = body.replace(ptxt, ptxt + "\n")
    out_t = body
    if obs["outcome"][0] == "killed":
        k = out_t.rfind("\n======= Screen stack =======")
        if k >= 0: body = out_t[:k + 1]
    for line in body.split("\n"):
        if len(line.rstrip(" ")) > W: return "output line %r is longer than the configured width %d" % (line[:140], W)
    return None


def monitor_resized(case, obs):
    """sessions in which the application changes the configured width: every draw is preceded by the separator of exactly the width configured at that moment, and
    every line written after a change is within the new width"""
    from harness.impl.app import Render
    out = obs["out"]; x = X(case, obs)
    changes = [(0, case.get("width", 80))]
    for i, ev, ctx in x.events():
        if ev[0] == "api<" and ev[1] == "set_width" and ctx.get("out") is not None and not ctx.get("reader"):
            w = next(e[2] for e, c in reversed(x.x[:i]) if e[0] == "api" and e[1] == "set_width")
            changes.append((ctx["out"], w))
    def w_at(off): return [w for o, w in changes if o <= off][-1]
    for i, ev, ctx in x.events():
        if ev[0] == "cb" and ev[2] == "show" and "out" in ctx and not x.specs[ev[1]].get("no_separator"):
            W = w_at(ctx["out"]); sep = ("=" * W + "\n") * 2; before = out[:ctx["out"]]
            if not before.endswith(sep) or (W > 0 and before[:-len(sep)].endswith("=")):
                return "the configured width is %d when %s is drawn, but the draw is not preceded by two separator lines of exactly %d '=': %r" % (W, x.specs[ev[1]]["name"], W, before[-(2 * W + 6):][-200:])
    if obs["outcome"][0] == "killed": return None
    # lines: a prompt leaves its line open (see monitor); judged with the width in force where the line starts
    ptxts = sorted({Render.prompt_text(k, w) for k in ("default", "cont", "msg") for _, w in changes}, key=len, reverse=True)
    pos = 0
    while pos < len(out):
        W = w_at(pos)
        nl = out.find("\n", pos); end = len(out) if nl < 0 else nl
        line = out[pos:end]
        for p_ in ptxts:
            last = p_.rstrip("\n").split("\n")[-1]
            if last.strip() and line.startswith(last): line = last; break
        if len(line.rstrip(" ")) > W: return "output line %r, written while the configured width is %d, is longer than that" % (line[:140], W)
        pos = end + 1
    return None


def nontrivial(case, obs):
    if case["op"] == "tree": return case.get("_boxes") or len(case["tree"][6]) >= 10
    return sum(1 for e in obs["log"] if e[0] == "cb" and e[2] == "show") >= 2
