"""C18 - One outstanding input request unless bypassed; bypass hands off cleanly."""
from harness.props.session import *
from harness.props import session as _s
from harness.gen.sessions import gen_case, SidCounter

THEOREM_NOTE = ("Props/C18.lean: pipeline invariants (valid ids, at most one reader, processing flag); a request is refused (ordinary error, forgotten again, nothing written) iff "
                "another is outstanding and the check is not bypassed; a reader is started iff none is processing; when the line is handled the newest request gets it "
                "unmodified and successful, every earlier one exactly one failed signal, the subsystem is idle again; a handler's result fields and its one-shot callback; "
                "the blocking wait returns iff its own handler received")
HANG_IS_VIOLATION = "afterwards the input subsystem is idle again / a blocking wait returns: the implementation hangs on a scenario that must finish"
ASSUMPTIONS = ASSUME_SESSION + ["hidden (password) requests use the getpass function, replaced through the public set_pass_func"]
RULE = ("direct scenarios on InputHandler / PasswordInputHandler objects: 1..5 overlapping requests (plain, hidden, with and without bypass) in every issue order, the line delivered "
        "before / after each later request and before / after processing, blocking waits, a fresh request after completion; oracle: an interpreter of the property (refusal and "
        "its message naming every requester, winner, failure fan-out exactly once, idle afterwards, wait results); plus app sessions with bypassing screens and blocking "
        "get_user_input compared with the model; non-trivial = >= 2 overlapping requests")


def gen_inputs(rnd):
    ops = []; n = 0; live = []
    for _ in range(rnd.randint(2, 9)):
        r = rnd.random()
        if r < 0.5 and n < 5:
            ops.append(["req", n, rnd.random() < 0.6, rnd.random() < 0.3, 1 if rnd.random() < 0.2 else 0]); live.append(n); n += 1
        elif r < 0.7: ops.append(["deliver"])
        elif r < 0.9: ops.append(["proc"])
        elif live: ops.append(["wait", rnd.choice(live)])
    if rnd.random() < 0.7: ops += [["deliver"], ["proc"]]
    if rnd.random() < 0.5 and n < 6: ops += [["req", n, False, False], ["deliver"], ["proc"]]
    ops.append(["proc"])        # flush: everything enqueued is dispatched before the final observation
    return dict(op="inputs", mode="inputs", ops=ops, stdin=["l%d" % i for i in range(8)])


def generate(rnd, tier):
    n = 800 if tier == "quick" else 9000
    sid = SidCounter()
    cases = [gen_inputs(rnd) for _ in range(n)]
    for _ in range(n // 2):
        c = gen_case(rnd, "app", sid)
        for s in c["screens"]: s["skip_check"] = rnd.random() < 0.5
        cases.append(with_cc(c))
    return cases


def run_impl(case):
    if case["op"] == "inputs":
        from harness.impl.app import run_inputs
        return json.loads(json.dumps(run_inputs(case)))
    return _s.run_impl(case)


def model_case(case):
    return None if case["op"] == "inputs" else _s.model_case(case)


def compare(case, impl, model):
    return None if case["op"] == "inputs" else _s.compare(case, impl, model)


def monitor(case, obs):
    if case["op"] != "inputs": return None
    # interpreter of the property
    stack = []; state = {}; processing = False; reader = False; lines = list(case["stdin"]); queue = []     # queue: signals enqueued, not yet processed
    rearm = {}; skips = {}; reader_started = []
    evs = list(obs["events"]); k = 0
    def take():
        nonlocal k
        e = evs[k]; k += 1; return e
    pending_line = None
    for op in case["ops"]:
        if k >= len(evs): break
        e = take()
        if op[0] == "req":
            _, i, skip, hidden = op[:4]; rearm[i] = op[4] if len(op) > 4 else 0; skips[i] = skip
            state[i] = {"value": None, "received": False, "successful": False, "callbacks": []}
            if stack and not skip:
                if e[2] != "KeyError": return "request %d was issued while %r were outstanding without bypass and was not refused (%r)" % (i, stack, e)
                for j in stack + [i]:
                    if ("Input requester: R%d" % j) not in e[3]: return "the refusal does not name requester R%d: %r" % (j, e[3])
                if e[3].count("Input handler:") != len(stack) + 1: return "the refusal names %d requests, %d are involved" % (e[3].count("Input handler:"), len(stack) + 1)
            else:
                if e[2] != "ok": return "request %d was refused although %s: %r" % (i, "the check is bypassed" if skip else "nothing is outstanding", e)
                stack.append(i)
                if not processing: processing = True; reader = True
        elif op[0] == "deliver":
            if reader:
                if e[1] is not True: return "a reader should be waiting for a line but none was"
                line = lines.pop(0) if lines else ""; reader = False
                queue.append(("received", line))
            else:
                if e[1] is True: return "a reader thread exists although no request started one"
        elif op[0] in ("proc", "wait"):
            # processing: the received line is handed to the newest request, failures to the others; then those results reach the handlers
            def drain():
                nonlocal processing, stack
                while queue:
                    kind, line = queue.pop(0)
                    if kind == "received" and stack:
                        win = stack[-1]
                        state[win].update(value=line, received=True, successful=True); state[win]["callbacks"].append(line)
                        for j in stack[:-1]: state[j].update(received=True, successful=False)
                        stack = []; processing = False
                        if rearm.get(win, 0) > 0:
                            # the callback asks again with the same handler: a fresh outstanding request (the subsystem is idle, so it is accepted and starts a reader)
                            rearm[win] -= 1
                            state[win].update(value=None, received=False)
                            stack = [win]; processing = True; reader_started.append(True)
            if op[0] == "proc":
                drain()
                if reader_started: reader = True; del reader_started[:]
            else:
                i = op[1]
                if i not in state: continue
                while not state[i]["received"]:
                    drain()
                    if reader_started: reader = True; del reader_started[:]
                    if state[i]["received"]: break
                    if reader:       # the blocked main loop lets the reader hand in the next line
                        queue.append(("received", lines.pop(0) if lines else "")); reader = False; continue
                    break
                if state[i]["received"]:
                    if e[2] != "returned": return "wait on request %d did not return although it was answered or failed (%r)" % (i, e)
                else:
                    if e[2] == "returned": return "wait on request %d returned before its request was answered or failed" % i
                    # a wait that cannot be satisfied blocks (or spins): everything queued has been processed meanwhile
    got = obs["handlers"]
    for i, st in state.items():
        g = got.get(str(i))
        if g is None: continue
        # a request re-issued state (value cleared) only at get_input; compare the final fields
        if g != st: return "request %d ended with %r; the property predicts %r" % (i, g, st)
    return None


def nontrivial(case, obs):
    if case["op"] == "inputs": return sum(1 for o in case["ops"] if o[0] == "req") >= 2
    return _s.nontrivial(case, obs)


def outcome(case, obs):
    return "inputs" if case["op"] == "inputs" else _s.outcome(case, obs)


def strip_obs(obs):
    return _s.strip_obs(obs) if "xlog" in obs else obs


def shrink(case):
    if case["op"] != "inputs":
        yield from _s.shrink(case); return
    ops = case["ops"]
    for i in range(len(ops) - 1):
        yield {**case, "ops": ops[:i] + ops[i + 1:]}
