"""C19 - Signals may be submitted from any thread: none lost, duplicated or reordered."""
import json
from harness.props.session import ASSUME_SESSION

THEOREM_NOTE = ("Props/C19.lean over Model/Threads.lean (labelled transition system of shared accesses, every schedule = every accepted event sequence): no signal id occurs "
                "twice in queues + dispatched; a completed submission is pending in a queue or dispatched; a signal whose source is owned by a level that stays open is put "
                "into the innermost such level as of the moment the submitter held the lock; equal-priority signals of one thread in one level keep submission order; the "
                "level list changes only under the lock")
ASSUMPTIONS = ["A-ATOM: a context switch happens between source lines, never inside one and never inside queue.py (the property's own quantifier); the model's steps are single "
               "shared accesses, which is finer", "A-PQ: PriorityQueue.get returns a minimal entry",
               "trace validation: the shared accesses recorded from the real code (harness-side logging subclasses of the level list, the source sets, the priority queue, the "
               "two locks and _active_queue) are replayed through the model; a rejected access is a broken correspondence",
               "CPython bytecode-level and free-threaded interleavings are outside the property's quantifier and outside the claim"]
RULE = ("real threads (2..3 submitters x 3..4 submissions with sources owned by the outermost level / by a level registered later / by none, priorities 0/1; the loop thread "
        "dispatching, opening up to 3 nested levels, closing them, registering a source) under a controlled line-level scheduler: random schedules, PCT-style priority "
        "schedules with 3 change points, and pause schedules (one submitter suspended at a chosen line for a long window); oracle on the implementation's own record: no duplicate dispatch, every submission placed exactly once, per-thread FIFO within a level "
        "and priority, routing of signals whose owner level stays open; non-trivial = a schedule in which a nested level was opened while submissions were in flight")


def generate(rnd, tier):
    n = 6000 if tier == "quick" else 40000
    return [{"op": "threads", "seed": rnd.randrange(10 ** 9), "nsub": rnd.choice([2, 2, 3]), "per": rnd.choice([3, 4, 5]), "policy": rnd.choice(["random", "pause", "pause", "pct", "pause_main", "pause_main"]), "partial": rnd.random() < 0.5} for _ in range(n)]


def run_impl(case):
    from harness.impl.threads import trial
    return json.loads(json.dumps(trial(case)))


def model_case(case):
    return case          # the events are attached by core through `model_input`


def model_input(case, obs):
    evs = [e for e in obs["events"] if e[1] not in ("submitted",)]
    return {"op": "threads", "sources0": [0], "events": evs}


def compare(case, impl, model):
    if any(e[1] == "crash" for e in impl["events"]): return "a thread crashed: %r" % [e for e in impl["events"] if e[1] == "crash"][:2]
    if impl["stuck"]: return "the schedule did not terminate (a thread is stuck)"
    if not model["accepted"]:
        evs = [e for e in impl["events"] if e[1] != "submitted"]
        k = model["rejected_at"]
        return "the model rejects shared access #%d %r of the real run (preceding: %r)" % (k, evs[k], evs[max(0, k - 6):k])
    # the model's final bookkeeping agrees with the implementation's dispatch log
    if [d[1] for d in model["dispatched"]] != [d[0] for d in impl["dispatch"]]:
        return "dispatch order: implementation %r / model %r" % ([d[0] for d in impl["dispatch"]], [d[1] for d in model["dispatched"]])
    return None


def monitor(case, obs):
    evs = obs["events"]
    disp = [d[0] for d in obs["dispatch"]]
    if len(disp) != len(set(disp)): return "a signal was dispatched twice: %r" % disp
    subs = {s[0]: s for s in obs["submitted"]}
    placed = {}; levels = [0]; closed_at = {}; sources = {0: {0}}
    held = {}            # tid -> levels snapshot while the submitter holds the main lock
    lock_levels = {}
    open_during = {}     # sid -> set of levels open during the whole submission
    cur = {}; src_at_submit = {}; sources_at_put = {}
    for i, e in enumerate(evs):
        t, k = e[0], e[1]
        if k == "submit":
            cur[t] = e[2]; open_during[e[2]] = set(levels); src_at_submit[e[2]] = {l: set(v) for l, v in sources.items()}
        if k == "lv_append": levels.append(e[2]); sources.setdefault(e[2], set())
        if k == "lv_pop":
            levels.remove(e[2]); closed_at[e[2]] = i
            for sid in list(open_during):
                if sid in cur.values(): open_during[sid].discard(e[2])
        if k == "add_source": sources.setdefault(e[2], set()).add(e[3])
        if k == "lv_iter" and t in cur:
            if list(e[2]) != levels: return "the level list seen by submitter %d (%r) is not the list of open levels (%r)" % (t, e[2], levels)
            lock_levels[cur[t]] = list(e[2]); held[cur[t]] = []
        if k == "contains" and t in cur and cur[t] in held:
            # the answer of a level is checked against the sources registered with it so far (answers are given under that level's own lock)
            truth = e[3] in sources.get(e[2], set()) if e[3] is not None else False
            if bool(e[4]) != truth: return "level %d answered %r for source %r but its registered sources are %r" % (e[2], e[4], e[3], sorted(sources.get(e[2], ())))
            held[cur[t]].append((e[2], bool(e[4])))
        if k == "put":
            sid = e[3]
            if sid in placed: return "signal %d was put into a queue twice" % sid
            placed[sid] = (e[2], e[5], i); sources_at_put[sid] = {l: set(v) for l, v in sources.items()}
        if k == "submitted": cur.pop(t, None)
    for sid, s in subs.items():
        if any(e[1] == "submitted" and e[2] == sid for e in evs) and sid not in placed:
            return "the submission of signal %d completed but it was put into no queue" % sid
    # whatever path the code takes: a signal whose source was registered (before the submission began) with a level that stays open during the whole
    # submission must be put into a level that owns its source
    for sid, (q, order, i) in placed.items():
        if sid not in subs: continue
        src = subs[sid][1]
        if src is None: continue
        if any(src in src_at_submit.get(sid, {}).get(l, ()) for l in open_during.get(sid, ())):
            if src not in sources_at_put.get(sid, {}).get(q, ()):
                return "signal %d: its source %r belongs to a level that stays open, but it was put into level %d, which does not own it" % (sid, src, q)
    # routing: the levels are asked innermost first; the signal goes into the first one that owns its source (as of the moment it was asked, under the lock);
    # a level that stays open cannot be skipped
    for sid, (q, order, i) in placed.items():
        if sid not in subs or sid not in lock_levels: continue
        asked = held.get(sid, [])
        exp_order = list(reversed(lock_levels[sid]))
        if [l for l, _ in asked] != exp_order[:len(asked)]: return "signal %d: the levels were asked in the order %r, innermost first is %r" % (sid, [l for l, _ in asked], exp_order)
        owner = next((l for l, r in asked if r), None)
        if owner is not None and q != owner:
            return "signal %d (source %r) was put into level %d; the innermost level that owns its source is %d" % (sid, subs[sid][1], q, owner)
        if owner is None and len(asked) != len(exp_order): return "signal %d: not every open level was asked (%r of %r)" % (sid, asked, exp_order)
    # dispatched or pending or in a level closed later
    taken = set(disp)
    for sid, (q, order, i) in placed.items():
        if sid in taken: continue
        if q in closed_at: continue           # its level was closed (the single-threaded leftover semantics)
        # still pending at the end: fine
    # per-thread FIFO within a level and a priority
    order_of = {sid: k for k, sid in enumerate(disp)}
    for a in subs.values():
        for b in subs.values():
            if a[3] == b[3] and a[0] < b[0] and a[2] == b[2] and a[0] in placed and b[0] in placed and placed[a[0]][0] == placed[b[0]][0]:
                if a[0] in order_of and b[0] in order_of and order_of[a[0]] > order_of[b[0]]:
                    return "signals %d and %d of one thread, same priority and level, were dispatched in the reverse of their submission order" % (a[0], b[0])
                if b[0] in order_of and a[0] not in order_of and placed[a[0]][0] not in closed_at:
                    return "signal %d was dispatched while the earlier signal %d of the same thread, priority and level is still pending" % (b[0], a[0])
    return None


def nontrivial(case, obs):
    first = next((i for i, e in enumerate(obs["events"]) if e[1] == "lv_append"), None)
    return first is not None and any(e[1] == "submit" for e in obs["events"][first:])


def outcome(case, obs):
    return case["policy"] + ("/nested" if any(e[1] == "lv_append" for e in obs["events"]) else "/flat")


def strip_obs(obs):
    return {"dispatch": obs["dispatch"], "submitted": obs["submitted"], "events": obs["events"][:400], "stuck": obs["stuck"]}
