"""C20 - Both event loops drive an application identically."""
from harness.props.session import *
from harness.props import session as _s
from harness.gen.sessions import gen_case, SidCounter

LEAN_MODULES = ["C20", "C20b", "C20c", "C20d", "C20e", "C20f"]
THEOREM_NOTE = ("Props/C20b.lean (the GLib machine, Model/GMachine.lean = GLibEventLoop over GLib main contexts + the same scheduler / input pipeline): after force_quit no handler is "
                "called any more, enqueues are dropped, loops give up; every handler call is of a handler registered for the exact class with its data, from the list snapshotted at "
                "enqueue; a batch is exactly the attach-order sub-sequence of the ready sources of the most urgent priority present. "
                "Props/C20c.lean: the clauses of C02 / C03 / C09 / C10 on the GLib machine, each proved or refuted by a kernel-checked run replayed on the real code (G2: a failing handler skips the rest of its signal's handlers; G3: the batch continues after an exit request; G4: a waiting call dispatches whole batches, the mark comes after the handlers; close_loop does not drain). "
                "Props/C20e.lean (C20e_same_scheduler): for every scheduler / screen / input instruction and scheduler action the two machines share - all but waitInput, whose spinning test reads loop state - the two machines make the same step on equal views (same new app state, log, output, registrations, pushed instructions up to the translation), provided a loop is left on the GLib side. "
                "Props/C20f.lean: on the GLib machine the quit callback is logged at most once, with the registered datum, in every execution. "
                "Props/C20d.lean: for flat programs both machines refine the abstract runs (the MainLoop machine's macro step is mstep, the GLib machine's dispatch is gstep) and so produce the same handler invocations and the same final log on calm runs. "
                "Props/C20.lean: on calm runs the two loop disciplines (MainLoop: stable priority queue, one signal at a time; GLib: batches of the most urgent priority in attach "
                "order) dispatch the same signals in the same order; outside Calm the divergences are concrete, classified known findings G1-G4")
ASSUMPTIONS = ASSUME_SESSION + ["GLib is NOT installed: GLibEventLoop runs on harness/impl/fakegi, a stand-in for gi.repository.GLib written from the GLib main-loop documentation (idle sources always "
                                "ready; iteration dispatches, in attach order, all ready sources of the most urgent priority; a nested iteration abandons the outer batch; quit takes effect "
                                "after the current iteration); its fidelity to the real library cannot be checked in this sandbox",
                                "Calm (decidable on the MainLoop run, evaluated by the Lean machine per case): no urgent enqueue while others are pending, no close with pending signals, no handler "
                                "exception, no processing call with other pending signals; equivalence is claimed on calm runs only, up to the first quit request"]
RULE = ("[GLib machine: on every case that is not a flat program the real GLibEventLoop over the stand-in is compared event by event, with its stdout and outcome, with the Lean GLib machine] every loop / app / tame case is run on the real MainLoop and on the real GLibEventLoop over the stand-in; on runs the model classifies as calm the callback and handler sequences, the "
        "delivered lines and the console output must be identical up to the first quit request; divergences on non-calm runs are counted as known findings per violated clause; "
        "non-trivial = a calm run with >= 6 events"
        ' Later rounds: handlers registered while the loop runs; typed lines are handed in under the same reader schedule on both loops.')


HANG_IS_VIOLATION = "the same screens, lines and handlers on both loops: one of the two real loops hangs on a session the model finishes"


def gen_flat(rnd, sid):
    """a flat handler program on one level: handlers only enqueue (any priorities, incl. more urgent ones); both disciplines of Model/GLoop.lean apply"""
    ncls = rnd.randint(1, 3)
    calm = rnd.random() < 0.6
    def enq(cur_prio=None):
        prios = [0, 0, 0, 1, 2, 5] if calm else [0, 0, 1, -1, -5, 3]
        return ["enq", "U%d" % rnd.randrange(ncls), rnd.choice(prios), None, sid.next()]
    handlers = []
    for c in range(ncls):
        for _ in range(rnd.randint(1, 2)):
            handlers.append(dict(cls="U%d" % c, hid=len(handlers), data=None, scripts=[[enq() for _ in range(rnd.choice([0, 0, 1, 1, 2, 3]))] for _ in range(rnd.randint(0, 8))]))
    init = [enq() for _ in range(rnd.randint(1, 8))]
    if calm:
        for a in init: a[2] = rnd.choice([0, 0, 0, 1])
    return dict(op="machine", mode="flat", width=80, screens=[], handlers=handlers, init=init, stdin=[], quit_cb=None, quit_screen=None, exc_handler=False,
                run_empty=True, deliver_at=[])


def gen_late_same(rnd, sid):
    """a handler of class U1 registers another handler for U1 while a U1 signal is being delivered (both loops walk the live list: it gets that signal too)"""
    hs = [dict(cls="U1", hid=0, data=None, scripts=[[["reg_handler", 1]], [], [], []]), dict(cls="U1", hid=1, data=rnd.choice([None, 7]), scripts=[[]] * 6, late=True)]
    if rnd.random() < 0.5: hs.append(dict(cls="U1", hid=2, data=None, scripts=[[]] * 6))
    return dict(op="machine", mode="late", width=80, screens=[], handlers=hs, init=[["enq", "U1", 0, None, sid.next()] for _ in range(rnd.randint(1, 3))], stdin=[],
                quit_cb=None, quit_screen=None, exc_handler=False, run_empty=True, deliver_at=[])


def gen_wait_raise(rnd, sid):
    """a handler waits for a signal class (process_signals(return_after=X)); a handler of X raises an ordinary exception, which the application handles itself: the wait is
    over all the same and the program goes on"""
    hs = [dict(cls="U0", hid=0, data=None, scripts=[[["enq", "U1", 0, None, sid.next()], ["proc", "U1"], ["enq", "U2", 0, None, sid.next()]]]),
          dict(cls="U1", hid=1, data=None, scripts=[[["raise_err"]], []]),
          dict(cls="U2", hid=2, data=None, scripts=[[], []])]
    if rnd.random() < 0.5: hs.insert(1, dict(cls="U1", hid=3, data=None, scripts=[[], []]))
    # (_strict: in this family the failing handler is the last one of its signal and nothing else is pending, so none of the known divergences G1-G4 can occur: a
    # divergence here is judged as it is, not attributed to the non-calm history)
    return dict(op="machine", mode="loop", width=80, screens=[], handlers=hs, init=[["enq", "U0", 0, None, sid.next()]], stdin=[], quit_cb=None, quit_screen=None,
                exc_handler=True, run_empty=True, deliver_at=[], _strict=True)


def gen_wait_nohandler(rnd, sid):
    """a handler waits for a signal class nobody listens to (used only to be waited for); the signal was enqueued before the wait began, or is enqueued by another
    handler meanwhile: both loops dispatch it (to no handler), the wait is over, the program goes on"""
    before = rnd.random() < 0.6
    acts = ([["enq", "U9", 0, None, sid.next()]] if before else [["enq", "U1", 0, None, sid.next()]]) + [["proc", "U9"], ["enq", "U2", 0, None, sid.next()]]
    hs = [dict(cls="U0", hid=0, data=None, scripts=[acts]), dict(cls="U1", hid=1, data=None, scripts=[[["enq", "U9", 0, None, sid.next()]], []]), dict(cls="U2", hid=2, data=None, scripts=[[], []])]
    return dict(op="machine", mode="loop", width=80, screens=[], handlers=hs, init=[["enq", "U0", 0, None, sid.next()]], stdin=[], quit_cb=None, quit_screen=None,
                exc_handler=True, run_empty=True, deliver_at=[], _strict=True)


def flat_model_case(case):
    def sig(a): return [int(a[1][1:]), a[2], a[4]]
    return {"op": "gflat", "steps": 600, "init": [sig(a) for a in case["init"]],
            "handlers": [{"cls": int(h["cls"][1:]), "hid": h["hid"], "scripts": [[sig(a) for a in sc] for sc in h["scripts"]]} for h in case["handlers"]]}


def generate(rnd, tier):
    n = 400 if tier == "quick" else 5000
    sid = SidCounter()
    from harness.props.C01 import gen_c01
    cases = [with_cc(gen_flat(rnd, sid)) for _ in range(n)] + [with_cc(gen_c01(rnd, sid)) for _ in range(n // 2)]
    from harness.props.C02 import gen_late
    cases += [with_cc(gen_late(rnd, sid)) for _ in range(n // 10)]
    cases += [with_cc(gen_late_same(rnd, sid)) for _ in range(n // 20)] + [with_cc(gen_wait_raise(rnd, sid)) for _ in range(n // 10)] + [with_cc(gen_wait_nohandler(rnd, sid)) for _ in range(n // 10)]
    # waits nested in handlers, non-waiting calls inside waiting ones, force-quitting handlers with successors: the families of C10 / C09 (both real loops and both machines)
    from harness.props.C10 import gen_c10, gen_c10_modal
    from harness.props.C09 import gen_fq_handlers
    # (not gen_c10_modal: there the awaited signal is dispatched in a nested loop while the waiting call's own level has pending signals - GLib finishes that level's batch
    #  first, a shape of G4 that the Calm flags, which look at the level of the dispatch, do not mark)
    cases += [with_cc(gen_c10(rnd, sid)) for _ in range(n // 4)]
    for _ in range(n // 8):
        c = gen_fq_handlers(rnd, sid); c.pop("glib_fq", None); cases.append(with_cc(c))
    for _ in range(n):
        c = gen_case(rnd, rnd.choice(["tame", "tame", "app", "loop"]), sid)
        c["deliver_at"] = []          # delivery points are indices into a log that may differ between the loops: deliver only when blocked
        cases.append(with_cc(c))
    return cases


def run_impl(case):
    from harness.impl.app import run_real
    main = _s.run_impl(case)
    try:
        o, log, out = run_real(case, "glib")
        glib = {"outcome": norm_outcome(json.loads(json.dumps(o))), "log": json.loads(json.dumps(log)), "out": out}
    except BaseException as e:      # the stand-in or the loop crashed
        glib = {"outcome": ["crash", repr(e)], "log": [], "out": ""}
    main["glib"] = glib
    return main


def model_case(case):
    if case.get("mode") == "flat": return flat_model_case(case)
    m = _s.model_case(case)       # None for cases with registrations while the loop runs
    # both Lean machines on the case: the MainLoop machine (Model/Machine.lean) and, under "g", the GLib machine (Model/GMachine.lean)
    return None if m is None else dict(m, op="machine+g")


def compare_glib(case, impl, model):
    """the real GLibEventLoop over the stand-in against the Lean GLib machine: log / outcome / stdout (session.compare; the machine's `livelock` - a waiting call that
    spins for ever on non-blocking iterations - is the stand-in's Blocked)"""
    raw = list(model["outcome"]); mo = ["blocked"] if raw[0] == "livelock" else norm_outcome(raw); io = impl["outcome"]
    if mo == ["fuel"] or io == ["fuel"] or io[0] == "crash": return None
    a, b = impl["log"], model["log"]
    if a != b:
        b = [([e[0], e[1], None] + e[3:] if e[0] == "H" and k < len(a) and a[k][0] == "H" and a[k][2] is None else e) for k, e in enumerate(b)]
        k = next((i for i in range(min(len(a), len(b))) if a[i] != b[i]), min(len(a), len(b)))
        if k < max(len(a), len(b)): return "GLibEventLoop, event #%d: implementation %r / GLib machine %r" % (k, a[k] if k < len(a) else None, b[k] if k < len(b) else None)
    if io != mo: return "GLibEventLoop, outcome: implementation %r / GLib machine %r" % (io, raw)
    if impl["out"] != model["out"]:
        a, b = impl["out"], model["out"]
        k = next((i for i in range(min(len(a), len(b))) if a[i] != b[i]), min(len(a), len(b)))
        return "GLibEventLoop, stdout differs at %d: implementation %r / GLib machine %r" % (k, a[max(0, k - 40):k + 40], b[max(0, k - 40):k + 40])
    return None


def compare(case, impl, model):
    if case.get("mode") != "flat":
        return _s.compare(case, impl, model) or (compare_glib(case, impl["glib"], model["g"]) if isinstance(model.get("g"), dict) else None)
    # both loop disciplines of Model/GLoop.lean against the two real loops: the sequence of dispatched signals (first handler invocation of each)
    def order(log):
        out = []
        for e in log:
            if e[0] == "H" and (not out or out[-1] != e[2]) and e[2] not in out: out.append(e[2])
        return out
    hcls = {h["cls"] for h in case["handlers"]}
    def observable(ids, case=case):
        cls_of = {}
        for a in case["init"]: cls_of[a[4]] = a[1]
        for h in case["handlers"]:
            for sc in h["scripts"]:
                for a in sc: cls_of[a[4]] = a[1]
        return [i for i in ids if cls_of.get(i) in hcls]
    if impl["outcome"] == ["fuel"] or impl["glib"]["outcome"] == ["fuel"]: return None
    if order(impl["log"]) != observable(model["main"]): return "MainLoop dispatched %r, the model's MainLoop discipline %r" % (order(impl["log"])[:12], observable(model["main"])[:12])
    if order(impl["glib"]["log"]) != observable(model["glib"]): return "GLibEventLoop dispatched %r, the model's GLib discipline %r" % (order(impl["glib"]["log"])[:12], observable(model["glib"])[:12])
    return None


def cut(log, case):
    """up to the moment the application quits: the first event after which a quit was requested"""
    return log


def monitor(case, obs):
    a, b = obs, obs["glib"]
    if a["outcome"][0] == "fuel" or b["outcome"][0] in ("fuel", "crash") and False: return None
    if a["outcome"] == ["fuel"] or b["outcome"] == ["fuel"]: return None
    # the moment a typed line is *read* relative to other events depends on when the reader thread gets to run (the GLib loop polls with non-blocking iterations
    # where MainLoop blocks); what the property compares is which lines reach which screens: the input() events
    la = [e for e in a["log"] if e[0] != "read"]; lb = [e for e in b["log"] if e[0] != "read"]
    # "up to the moment the application quits": when the MainLoop run ends by a quit request (exit, force-quit, close of the outermost loop, empty stack,
    # quit key - the MainLoop aborts the running handler right there) only the events before it are compared
    quit_a = a["outcome"][0] in ("returned", "raised", "killed"); quit_b = b["outcome"][0] in ("returned", "raised", "killed")
    if quit_a: la = [e for e in la if e[0] != "quitcb"]
    n = min(len(la), len(lb))
    k = next((i for i in range(n) if la[i] != lb[i]), None)
    if k is not None:
        return "event #%d differs: MainLoop %r / GLibEventLoop %r" % (k, la[k], lb[k])
    if quit_a:
        if len(lb) < len(la): return "GLibEventLoop stopped after %d events, MainLoop produced %d before it quit" % (len(lb), len(la))
        return None
    if quit_b: return "GLibEventLoop quit (%r) but MainLoop did not (%r)" % (b["outcome"], a["outcome"])
    if len(la) != len(lb): return "MainLoop produced %d events, GLibEventLoop %d (outcomes %r / %r)" % (len(la), len(lb), a["outcome"], b["outcome"])
    if a["outcome"] != b["outcome"]: return "outcome: MainLoop %r / GLibEventLoop %r" % (a["outcome"], b["outcome"])
    if a["out"] != b["out"]: return "console output differs between the two loops"
    return None


def classify(case, obs, verdict, model):
    if not model or case.get("_strict"): return None
    if case.get("mode") == "flat": return None if model.get("calm") else "G1"
    nc = model.get("noncalm", [])
    for clause, gid in (("C1-urgent-enqueue", "G1"), ("C3-handler-exception", "G2"), ("C2-close-with-pending", "G3"), ("C4-processing-call-with-pending", "G4")):
        if clause in nc: return gid
    if "K1" in model.get("flags", []): return "K1g"
    return None


def nontrivial(case, obs): return len(obs["log"]) >= 6
def outcome(case, obs): return case.get("mode", "?") + "/" + obs["outcome"][0] + "|" + obs["glib"]["outcome"][0]
def strip_obs(obs):
    o = {k: v for k, v in obs.items() if k != "xlog"}
    return o
shrink = _s.shrink
