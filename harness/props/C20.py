"""C20 - Both event loops drive an application identically."""
from harness.props.session import *
from harness.props import session as _s
from harness.gen.sessions import gen_case, SidCounter

THEOREM_NOTE = ("Props/C20.lean: on calm runs the two loop disciplines (MainLoop: stable priority queue, one signal at a time; GLib: batches of the most urgent priority in attach "
                "order) dispatch the same signals in the same order; outside Calm the divergences are concrete, classified known findings G1-G4")
ASSUMPTIONS = ASSUME_SESSION + ["GLib is NOT installed: GLibEventLoop runs on harness/impl/fakegi, a stand-in for gi.repository.GLib written from the GLib main-loop documentation (idle sources always "
                                "ready; iteration dispatches, in attach order, all ready sources of the most urgent priority; a nested iteration abandons the outer batch; quit takes effect "
                                "after the current iteration); its fidelity to the real library cannot be checked in this sandbox",
                                "Calm (decidable on the MainLoop run, evaluated by the Lean machine per case): no urgent enqueue while others are pending, no close with pending signals, no handler "
                                "exception, no processing call with other pending signals; equivalence is claimed on calm runs only, up to the first quit request"]
RULE = ("every loop / app / tame case is run on the real MainLoop and on the real GLibEventLoop over the stand-in; on runs the model classifies as calm the callback and handler sequences, the "
        "delivered lines and the console output must be identical up to the first quit request; divergences on non-calm runs are counted as known findings per violated clause; "
        "non-trivial = a calm run with >= 6 events")


def generate(rnd, tier):
    n = 400 if tier == "quick" else 5000
    sid = SidCounter()
    cases = []
    for _ in range(n):
        c = gen_case(rnd, rnd.choice(["tame", "tame", "app", "loop"]), sid)
        c["deliver_at"] = []          # delivery points are indices into a log that may differ between the loops: deliver only when blocked
        cases.append(with_cc(c))
    return cases


def run_impl(case):
    from harness.impl.app import run_real
    main = _s.run_impl(case)
    try:
        o, log, out = run_real(case, "glib")
        glib = {"outcome": norm_outcome(json.loads(json.dumps(o))), "log": json.loads(json.dumps(log)), "out": out}
    except BaseException as e:      # the stand-in or the loop crashed
        glib = {"outcome": ["crash", repr(e)], "log": [], "out": ""}
    main["glib"] = glib
    return main


model_case = _s.model_case
compare = _s.compare


def cut(log, case):
    """up to the moment the application quits: the first event after which a quit was requested"""
    return log


def monitor(case, obs):
    a, b = obs, obs["glib"]
    if a["outcome"][0] == "fuel" or b["outcome"][0] in ("fuel", "crash") and False: return None
    if a["outcome"] == ["fuel"] or b["outcome"] == ["fuel"]: return None
    la, lb = a["log"], b["log"]
    # "up to the moment the application quits": when the MainLoop run ends by a quit request (exit, force-quit, close of the outermost loop, empty stack,
    # quit key - the MainLoop aborts the running handler right there) only the events before it are compared
    quit_a = a["outcome"][0] in ("returned", "raised", "killed"); quit_b = b["outcome"][0] in ("returned", "raised", "killed")
    if quit_a: la = [e for e in la if e[0] != "quitcb"]
    n = min(len(la), len(lb))
    k = next((i for i in range(n) if la[i] != lb[i]), None)
    if k is not None:
        return "event #%d differs: MainLoop %r / GLibEventLoop %r" % (k, la[k], lb[k])
    if quit_a:
        if len(lb) < len(la): return "GLibEventLoop stopped after %d events, MainLoop produced %d before it quit" % (len(lb), len(la))
        return None
    if quit_b: return "GLibEventLoop quit (%r) but MainLoop did not (%r)" % (b["outcome"], a["outcome"])
    if len(la) != len(lb): return "MainLoop produced %d events, GLibEventLoop %d (outcomes %r / %r)" % (len(la), len(lb), a["outcome"], b["outcome"])
    if a["outcome"] != b["outcome"]: return "outcome: MainLoop %r / GLibEventLoop %r" % (a["outcome"], b["outcome"])
    if a["out"] != b["out"]: return "console output differs between the two loops"
    return None


def classify(case, obs, verdict, model):
    if not model: return None
    nc = model.get("noncalm", [])
    for clause, gid in (("C1-urgent-enqueue", "G1"), ("C3-handler-exception", "G2"), ("C2-close-with-pending", "G3"), ("C4-processing-call-with-pending", "G4")):
        if clause in nc: return gid
    if "K1" in model.get("flags", []): return "K1g"
    return None


def nontrivial(case, obs): return len(obs["log"]) >= 6
def outcome(case, obs): return case.get("mode", "?") + "/" + obs["outcome"][0] + "|" + obs["glib"]["outcome"][0]
def strip_obs(obs):
    o = {k: v for k, v in obs.items() if k != "xlog"}
    return o
shrink = _s.shrink
