"""Helpers shared by the property modules of the pure layer."""
import itertools, json
from harness.charclass import char_class, strings_of
from harness.impl.render import run_impl as _run_impl

ASSUME_PY = [
    "A-TW: textwrap.wrap with default options behaves as Model/Text.lean (exercised by every text case of this run)",
    "A-STR: str.split, str.expandtabs, str.format({:d}), sorted(str), list slice assignment as modelled",
    "character classes (str.isspace, regex \\w and [^\\d\\W], int() whitespace, decimal values) are computed by Python per case and passed to the model as parameters",
]


def with_cc(case):
    case = dict(case)
    case["cc"] = char_class(*strings_of({k: v for k, v in case.items() if k != "cc"}))
    return case


def run_impl(case):
    return _run_impl(case)


def model_case(case):
    c = {k: v for k, v in case.items() if k not in ("rawkey", "_tag")}
    if c.get("op") == "prompt":
        c["ops"] = [o[:3] for o in c["ops"]]
    return c


def plain_compare(case, impl, model):
    if impl != model:
        return "implementation %s  /  model %s" % (json.dumps(impl, ensure_ascii=False)[:600], json.dumps(model, ensure_ascii=False)[:600])
    return None


def shrink_string(s):
    """smaller strings: delete one character / one half"""
    n = len(s)
    if n > 3:
        yield s[: n // 2]; yield s[n // 2:]
    for i in range(n):
        yield s[:i] + s[i + 1:]
