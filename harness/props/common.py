"""Helpers shared by the property modules of the pure layer."""
import itertools, json, os
_REPO = os.environ.get("VERIF_REPO", "/repo")
from harness.charclass import char_class, strings_of
from harness.impl.render import run_impl as _run_impl

ASSUME_PY = [
    "A-TW: textwrap.wrap with default options behaves as Model/Text.lean (exercised by every text case of this run)",
    "A-STR: str.split, str.expandtabs, str.format({:d}), sorted(str), list slice assignment as modelled",
    "character classes (str.isspace, regex \\w and [^\\d\\W], int() whitespace, decimal values) are computed by Python per case and passed to the model as parameters",
]


def module_state_scan():
    """names assigned at module level or through `global` in the rendering modules (beyond imports, classes, functions, __all__, log)"""
    import ast
    bad = []
    for f in (_REPO + "/simpleline/render/widgets.py", _REPO + "/simpleline/render/containers.py"):
        tree = ast.parse(open(f).read())
        for node in tree.body:
            if isinstance(node, (ast.Assign, ast.AugAssign, ast.AnnAssign)):
                names = [t.id for t in (node.targets if isinstance(node, ast.Assign) else [node.target]) if isinstance(t, ast.Name)]
                if any(n not in ("__all__", "log") for n in names): bad.append((f, names))
        for node in ast.walk(tree):
            if isinstance(node, (ast.Global, ast.Nonlocal)): bad.append((f, node.names))
            if isinstance(node, ast.FunctionDef):
                for d in node.args.defaults + node.args.kw_defaults:
                    if isinstance(d, (ast.List, ast.Dict, ast.Set, ast.Call)): bad.append((f, "mutable default in " + node.name))
    return bad


def structure():
    """structural part of the correspondence of the pure layer: the model renders with functions of (content, width); the rendering modules must keep no
    module-level or default-argument state that a render could read or write"""
    return ["module-level / default-argument state in the rendering modules: %s %r" % (f.split("/")[-1], n) for f, n in module_state_scan()]


def structure_search(problems, rnd):
    """search for a failing input when the structure check trips: two threads render unrelated text widgets at different widths at the same time (the library itself
    renders the prompt in the input thread while the main loop draws); every rendering must equal the one the same widget gives alone"""
    from harness.impl.render import run_impl
    for _ in range(3):
        case = {"op": "render_race", "texts": ["word " * 30, "another text of several words " * 8], "widths": [rnd.choice([12, 20]), rnd.choice([61, 78])], "rounds": 1500}
        o = run_impl(case)
        if o["mismatches"]:
            return case, o, race_verdict(case, o)
    return None


def race_verdict(case, o):
    if not o["mismatches"]: return None
    return "rendered at the same time as another widget in another thread, a text widget of width %d shows %r; alone it shows %r" % (o["first"]["width"], o["first"]["got"][:3], o["first"]["alone"][:3])


def with_cc(case):
    case = dict(case)
    case["cc"] = char_class(*strings_of({k: v for k, v in case.items() if k != "cc"}))
    return case


def run_impl(case):
    return _run_impl(case)


def expand_refs(spec, up=None):
    """["ref", j] (the same object as sibling j) and ["upref", j] (the same object as item j of the enclosing window) are, for the value-semantics model, further
    copies of that item"""
    if not isinstance(spec, list) or not spec: return spec
    if spec[0] in ("window", "list"):
        ki = 2 if spec[0] == "window" else 6
        kids = []
        for x in spec[ki]:
            kids.append(kids[x[1]] if x[0] == "ref" else up[x[1]] if x[0] == "upref" else expand_refs(x, kids if spec[0] == "window" else None))
        return spec[:ki] + [kids] + spec[ki + 1:]
    if spec[0] == "center": return ["center", expand_refs(spec[1])]
    return spec


def model_case(case):
    c = {k: v for k, v in case.items() if k not in ("rawkey", "_tag", "cbkind", "_boxes", "bytes")}
    if c.get("op") == "tree":
        c["tree"] = expand_refs(c["tree"])
        c["ops"] = [[o[0], o[1], expand_refs(o[2])] if o[0] == "add_at" else [o[0], expand_refs(o[1])] if o[0] == "add" else o for o in c["ops"]]
    if c.get("op") == "column":
        c["cols"] = [[cw, [expand_refs(x) for x in items]] for cw, items in c["cols"]]
    if c.get("op") == "keytree":
        c["tree"] = expand_refs(c["tree"]); c.pop("raise_on", None)
    if c.get("op") == "gridseq":
        # a source object drawn a second time shows what it showed the first time (drawing does not change the source)
        steps = []
        for st in c["steps"]:
            st = dict(st)
            if st.get("src_ref") is not None: st["src"] = steps[st["src_ref"]]["src"]
            st.pop("src_ref", None); steps.append(st)
        c["steps"] = steps
    if c.get("op") == "prompt":
        # (the standard options: key and default description as documented - 'r' to refresh, 'c' to continue, 'q' to quit, 'h' to help)
        STD = {"refresh": ("r", "to refresh"), "continue": ("c", "to continue"), "quit": ("q", "to quit"), "help": ("h", "to help")}
        c["ops"] = [["set", STD[o[1]][0], STD[o[1]][1] if o[2] is None else o[2]] if o[0] == "std" else o[:3] for o in c["ops"]]
    return c


def tree_compare(case, impl, model):
    """render by render; an object that occurs twice in the real tree reports None for its own lines (it shows its last rendering only); a model answer
    OutOfDomain (negative draw column) ends the comparison"""
    for k, (a, b) in enumerate(zip(impl, model)):
        if b.get("err") == "OutOfDomain": return None
        if "nodes" in a and "nodes" in b and len(a["nodes"]) == len(b["nodes"]):
            a = dict(a, nodes=[m if x is None else x for x, m in zip(a["nodes"], b["nodes"])])
        if a != b:
            if {k_: v for k_, v in a.items() if k_ != "nodes"} == {k_: v for k_, v in b.items() if k_ != "nodes"}:
                j = next(i for i, (x, y) in enumerate(zip(a["nodes"], b["nodes"])) if x != y) if len(a["nodes"]) == len(b["nodes"]) else -1
                return "render #%d: the widgets agree but descendant #%d (preorder) shows %r afterwards on the implementation, %r in the model" % (k, j, a["nodes"][j] if j >= 0 else a["nodes"], b["nodes"][j] if j >= 0 else b["nodes"])
            return "render #%d: implementation %r / model %r" % (k, {k_: v for k_, v in a.items() if k_ != "nodes"}, {k_: v for k_, v in b.items() if k_ != "nodes"})
    return None


def plain_compare(case, impl, model):
    if case.get("op") == "gridseq":
        if impl["steps"] != model: return "implementation %s  /  model %s" % (json.dumps(impl["steps"], ensure_ascii=False)[:600], json.dumps(model, ensure_ascii=False)[:600])
        return None
    if case.get("op") in ("tree", "column") and isinstance(impl, list) and isinstance(model, list) and len(impl) == len(model):
        return tree_compare(case, impl, model)
    if impl != model:
        return "implementation %s  /  model %s" % (json.dumps(impl, ensure_ascii=False)[:600], json.dumps(model, ensure_ascii=False)[:600])
    return None


def shrink_string(s):
    """smaller strings: delete one character / one half"""
    n = len(s)
    if n > 3:
        yield s[: n // 2]; yield s[n // 2:]
    for i in range(n):
        yield s[:i] + s[i + 1:]
