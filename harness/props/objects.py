"""Object-level cases: the small classes the loop and the scheduler are built on, driven through their public API by arbitrary operation sequences and compared
with the stand-alone Lean models (Model/Objects.lean: TicketMachine, ScreenStack; Model/Heapq.lean: EventQueue over CPython's heapq).

A property module takes part by `install(globals(), ("tm",))`: its run_impl / model_case / compare / monitor / nontrivial / outcome / shrink / truncate / strip_obs /
classify then treat cases whose op is one of the object ops here and everything else as before."""
import importlib, json, os, sys

_REPO = os.environ.get("VERIF_REPO", "/repo")
OBJECT_OPS = ("tm", "sstack", "heapq", "equeue", "dialogview")


def _repo():
    if _REPO not in sys.path: sys.path.insert(0, _REPO)


# ------------------------------------------------------------------------------------------------ TicketMachine
def gen_tm(rnd, n):
    cases = []
    for _ in range(n):
        nl = rnd.randint(1, 4); ops = []; taken = []
        for _ in range(rnd.randint(1, 40)):
            r = rnd.random()
            if r < 0.35 or not taken:
                l = rnd.randrange(nl); ops.append(["take", l]); taken.append((l, len(taken)))
            elif r < 0.75:
                l, t = rnd.choice(taken)
                if rnd.random() < 0.08: l = rnd.randrange(nl + 1)                # a ticket checked in another (maybe unknown) line: KeyError
                if rnd.random() < 0.05: t = t + rnd.randint(1, 50)                  # a ticket nobody took
                ops.append(["check", l, t])
            else:
                ops.append(["mark", rnd.randrange(nl + 1)])
            # another TicketMachine object of the same process (another event loop's) is used in between: the two have nothing to do with each other
            if rnd.random() < 0.15: ops.append([rnd.choice(["decoy_take", "decoy_mark"]), rnd.randrange(nl + 1)])
        cases.append({"op": "tm", "ops": ops})
    return cases


def tm_exhaustive(maxlen):
    """every sequence up to maxlen over take/check/mark on two lines, checks of the tickets 0..2"""
    import itertools
    alpha = [["take", 0], ["take", 1], ["mark", 0], ["mark", 1]] + [["check", l, t] for l in (0, 1) for t in (0, 1, 2)]
    for L in range(1, maxlen + 1):
        for tup in itertools.product(alpha, repeat=L):
            yield {"op": "tm", "ops": [list(o) for o in tup]}


def run_tm(case):
    _repo()
    from simpleline.event_loop.ticket_machine import TicketMachine
    lines = {}                                                     # line number -> the object used as line id (classes, as the loop uses them)
    def lid(n): return lines.setdefault(n, type("Line%d" % n, (), {}))
    m = TicketMachine(); out = []; decoy = TicketMachine()
    for o in case["ops"]:
        try:
            if o[0] == "decoy_take": decoy.take_ticket(lid(o[1])); out.append("decoy")
            elif o[0] == "decoy_mark": decoy.mark_line_to_go(lid(o[1])); out.append("decoy")
            elif o[0] == "take": out.append(m.take_ticket(lid(o[1])))
            elif o[0] == "check":
                r = m.check_ticket(lid(o[1]), o[2]); out.append(r if isinstance(r, bool) else repr(r))
            else: out.append(m.mark_line_to_go(lid(o[1])))
        except KeyError: out.append("KeyError")
    rev = {v: k for k, v in lines.items()}
    # (a line key this case never used can only come from state shared with another TicketMachine object: shown as -1)
    state = {"counter": m._counter, "lines": sorted([rev.get(k, -1), sorted([t, bool(b)] for t, b in d.items())] for k, d in m._lines.items())}
    return {"out": out, "state": state}


def monitor_tm(case, obs):
    """the property text (C10) at the level of the ticket machine: a ticket is ready exactly when its line was marked since it was taken; exactly once; never by another
    line's mark; tickets are never handed out twice"""
    taken = {}; seen = set()
    for o, r in zip(case["ops"], obs["out"]):
        if o[0].startswith("decoy"): continue
        if o[0] == "take":
            if r in seen: return "ticket %r was handed out twice" % (r,)
            seen.add(r); taken[r] = {"line": o[1], "marked": False, "done": False}
        elif o[0] == "mark":
            for t in taken.values():
                if t["line"] == o[1] and not t["done"]: t["marked"] = True
        else:
            t = taken.get(o[2])
            valid = t is not None and t["line"] == o[1] and not t["done"]
            if not valid:
                if r is True: return "check of a ticket that is not outstanding in that line (%r) reported ready" % (o,)
                continue
            if r is not t["marked"]:
                return "ticket %d of line %d: line %s since it was taken, but the check says %r" % (o[2], o[1], "marked" if t["marked"] else "not marked", r)
            if r is True: t["done"] = True
    return None


# ------------------------------------------------------------------------------------------------ ScreenStack
def gen_sstack(rnd, n):
    cases = []
    for _ in range(n):
        ops = []; k = 0
        for _ in range(rnd.randint(1, 30)):
            r = rnd.random()
            if r < 0.3: ops.append(["append", k]); k += 1
            elif r < 0.45: ops.append(["add_first", k]); k += 1
            elif r < 0.75: ops.append(["pop", rnd.random() < 0.7])
            elif r < 0.85: ops.append(["size"])
            elif r < 0.93: ops.append(["empty"])
            else: ops.append(["dump"])
        cases.append({"op": "sstack", "ops": ops})
    return cases


def run_sstack(case):
    _repo()
    from simpleline.render.screen_stack import ScreenStack, ScreenData, ScreenStackEmptyException
    s = ScreenStack(); objs = {}; out = []
    class Scr:
        def __init__(self, n): self.n = n
        def __str__(self): return "S%d" % self.n
    for o in case["ops"]:
        try:
            if o[0] in ("append", "add_first"):
                d = ScreenData(Scr(o[1]), None, False); objs[id(d)] = o[1]; d._keep = objs
                out.append(s.append(d) if o[0] == "append" else s.add_first(d))
            elif o[0] == "pop": out.append(objs[id(s.pop(o[1]))])
            elif o[0] == "size": out.append(s.size())
            elif o[0] == "empty": out.append(s.empty())
            else:
                txt = s.dump_stack().split("\n")
                if txt[0] != "======= Screen stack =======" or txt[1] != "----------- TOP ------------" or txt[-2] != "============================" or txt[-1] != "":
                    out.append("bad frame %r" % txt)
                else: out.append([int(l[len("ScreenData(S"):l.index(",")]) for l in txt[2:-2]])
        except ScreenStackEmptyException: out.append("StackEmpty")
    return {"out": out, "state": [objs[id(d)] for d in s._screens]}


def monitor_sstack(case, obs):
    ideal = []
    for o, r in zip(case["ops"], obs["out"]):
        if o[0] == "append": ideal.append(o[1])
        elif o[0] == "add_first": ideal.insert(0, o[1])
        elif o[0] == "pop":
            exp = ideal[-1] if ideal else "StackEmpty"
            if r != exp: return "pop returned %r, the top of an ideal stack is %r" % (r, exp)
            if o[1] and ideal: ideal.pop()
        elif o[0] == "size" and r != len(ideal): return "size %r, ideal %d" % (r, len(ideal))
        elif o[0] == "empty" and r is not (not ideal): return "empty() = %r with %d screens" % (r, len(ideal))
        elif o[0] == "dump" and r != ideal[::-1]: return "dump_stack shows %r, top first; ideal %r" % (r, ideal[::-1])
    return None


# ------------------------------------------------------------------------------------------------ EventQueue over heapq
def gen_heapq(rnd, n):
    cases = []
    for _ in range(n):
        ops = []; size = 0
        bias = rnd.choice([0.5, 0.65, 0.8]); prios = rnd.choice([[0], [0, 0, 0, 1], [-20, 0, 0, 5], list(range(-3, 4)), [-2 ** 40, 0, 2 ** 33, 7]])
        for _ in range(rnd.randint(1, 60)):
            r = rnd.random()
            if r < bias or size == 0: ops.append(["put", rnd.choice(prios)]); size += 1
            elif r < bias + (1 - bias) * 0.6: ops.append(["get"]); size -= 1
            else: ops.append(["get_top", rnd.choice(prios)]); size = max(0, size - 1)      # (may or may not pop: a later get on an empty queue is answered "empty" by both sides)
        c = {"op": "heapq", "ops": ops}
        # a queue that has already served many signals: the arrival counter is large (around powers of two, where a packed or truncated sort key would break)
        if rnd.random() < 0.4: c["start"] = 2 ** rnd.randint(7, 70) - rnd.randint(0, 6)
        # signal classes that compute their priority (override the public property; the base class's private field keeps its default)
        if rnd.random() < 0.3: c["prio_property"] = True
        cases.append(c)
    return cases


def run_heapq(case):
    """the real EventQueue; a get / get_top on an empty queue would block: reported as 'empty' and skipped on both sides"""
    _repo()
    from simpleline.event_loop.event_queue import EventQueue
    from simpleline.event_loop.signals import AbstractSignal
    class S(AbstractSignal): pass
    class P(AbstractSignal):
        def __init__(self, source, priority=0): AbstractSignal.__init__(self, source); self._vp = priority
        priority = property(lambda self: self._vp)
    q = EventQueue(); out = []; n = 0; ids = {}
    if case.get("start"):
        if not isinstance(getattr(q, "_order_counter", None), int): return {"out": None, "unsupported": "the queue has no integer _order_counter to start from"}
        q._order_counter = case["start"]
    def layout():
        # the heap array of the PriorityQueue, entry = (priority, arrival number); None when the implementation keeps its entries in another form
        try: return [[it.signal.priority, it.order] for it in q._queue.queue]
        except AttributeError: return None
    for o in case["ops"]:
        if o[0] == "put":
            s = (P if case.get("prio_property") and n % 2 == 0 else S)(None, o[1]); ids[id(s)] = n; s._keep = ids; n += 1
            q.enqueue(s); out.append({"r": None, "heap": layout()})
        elif q.empty(): out.append({"r": "empty", "heap": layout()})
        elif o[0] == "get":
            s = q.get(); out.append({"r": ids[id(s)], "heap": layout()})
        else:
            s = q.get_top_event_if_priority(o[1]); out.append({"r": None if s is None else ids[id(s)], "heap": layout()})
    return {"out": out}


def monitor_heapq(case, obs):
    """C01 at the level of the queue object: most urgent first, first-in first-out within a priority; a refused partial take leaves the order untouched"""
    pending = []; n = 0
    if obs["out"] is None: return None
    for o, r in zip(case["ops"], obs["out"]):
        if o[0] == "put": pending.append((o[1], n)); n += 1; continue
        if r["r"] == "empty":
            if pending: return "the queue says it is empty with %d signals pending" % len(pending)
            continue
        best = min(pending)
        if o[0] == "get":
            if r["r"] != best[1]: return "get() returned signal %r; pending (priority, arrival): %r" % (r["r"], sorted(pending)[:6])
            pending.remove(best)
        else:
            if best[0] == o[1]:
                if r["r"] != best[1]: return "get_top_event_if_priority(%d) returned %r, the head is %r" % (o[1], r["r"], best)
                pending.remove(best)
            elif r["r"] is not None: return "get_top_event_if_priority(%d) returned signal %r of another priority" % (o[1], r["r"])
    return None


# ------------------------------------------------------------------------------------------------ EventQueue with its source API; the library's dialogs as views
_VIEWS = []
def _views():
    """generators and real-side runners shared with the stand-alone validation tool tools/views_diff.py"""
    if not _VIEWS:
        import importlib.util
        _repo()
        spec = importlib.util.spec_from_file_location("views_diff", os.path.join(os.path.dirname(os.path.dirname(os.path.dirname(os.path.abspath(__file__)))), "tools", "views_diff.py"))
        m = importlib.util.module_from_spec(spec); spec.loader.exec_module(m); _VIEWS.append(m)
    return _VIEWS[0]


def gen_equeue(rnd, n): return [_views().gen_queue(rnd) for _ in range(n)]
def run_equeue(case): return _views().run_real_queue(case)


def monitor_equeue(case, obs):
    """the queue object: sources are a set (C03's routing test), a conditional put enqueues exactly when the source is registered, most urgent first / FIFO (C01)"""
    pending = []; n = 0; srcs = set()
    for o, r in zip(case["ops"], obs["out"]):
        r = r["r"]
        if o[0] == "put": pending.append((o[1], n)); n += 1
        elif o[0] == "put_if":
            if r is not (o[2] in srcs): return "enqueue_if_source_belongs answered %r; the source is %sregistered" % (r, "" if o[2] in srcs else "not ")
            if r: pending.append((o[1], n))
            n += 1
        elif o[0] == "add_source": srcs.add(o[1])
        elif o[0] == "remove_source":
            if (r == "EventQueueError") is (o[1] in srcs): return "remove_source of a %s source answered %r" % ("registered" if o[1] in srcs else "missing", r)
            srcs.discard(o[1])
        elif o[0] == "contains":
            if r is not (o[1] in srcs): return "contains_source answered %r; sources %r" % (r, sorted(srcs))
        else:
            if r == "empty":
                if pending: return "the queue says it is empty with %d signals pending" % len(pending)
                continue
            best = min(pending)
            if o[0] == "get" or best[0] == o[1]:
                if r != best[1]: return "%s returned signal %r; the head is %r" % (o[0], r, best)
                pending.remove(best)
            elif r is not None: return "get_top_event_if_priority(%d) returned signal %r of another priority" % (o[1], r)
    if obs["sources"] != sorted(srcs): return "sources at the end %r, a set gives %r" % (obs["sources"], sorted(srcs))
    return None


def gen_dialogview(rnd, n): return [dict(_views().gen_dialog(rnd), op="dialogview") for _ in range(n)]


_TMP = []
def run_dialogview(case):
    import tempfile
    _repo()
    from simpleline import App
    App.initialize()
    if not _TMP:
        base = os.path.join(os.path.dirname(os.path.dirname(os.path.dirname(os.path.abspath(__file__)))), "out", "help")
        os.makedirs(base, exist_ok=True)
        import atexit, shutil
        _TMP.append(tempfile.mkdtemp(prefix="h-", dir=base)); atexit.register(shutil.rmtree, _TMP[0], True)
    out, mcase = _views().run_real_dialog(case, _TMP[0])
    out["_model_case"] = mcase
    return out


PROMPTS = {"error": "Press ENTER to exit: ", "password": None, "yesno": "Please respond 'yes' or 'no': ", "help": "Press ENTER to return: "}
def monitor_dialogview(case, obs):
    """C12 / C17 on the library's own dialogs: title, a blank line, the message; every line within the width; the documented prompt"""
    w = case["w"]
    for l in obs.get("lines") or []:
        if len(l.rstrip(" ")) > w: return "%s dialog, width %d: line %r is longer" % (case["kind"], w, l)
    if "lines" in obs:
        # exactly its content: the title, then the message (the documented default where none is given), nothing else and nothing twice - however often it was refreshed
        title = {"error": "Error", "password": "Password", "yesno": "Question", "help": "Help"}.get(case["kind"])
        msg = case["msg"]
        if case["kind"] == "password" and not msg: msg = "Enter your passphrase"
        if case["kind"] == "help" and msg is None: msg = "The help is not available."
        want = "" if title is None else "".join((title + msg).split())
        got = "".join("".join(obs["lines"]).split())
        if case["kind"] in ("getinput", "getpassinput"):
            if obs["lines"]: return "the input screen shows %r in its window" % obs["lines"][:3]
        elif obs.get("title") != title: return "%s dialog has the title %r" % (case["kind"], obs.get("title"))
        elif got != want: return "%s dialog (refreshed %d times) shows %r; its title and message are %r / %r" % (case["kind"], case.get("refreshes", 1), obs["lines"][:6], title, msg)
    if case["kind"] in PROMPTS and obs["prompt"] != PROMPTS[case["kind"]]: return "%s dialog: prompt %r, documented %r" % (case["kind"], obs["prompt"], PROMPTS[case["kind"]])
    if case["kind"] in ("getinput", "getpassinput"):
        exp = (case["msg"] + ": ") if case["msg"] else ""
        if obs["prompt"] != exp: return "input screen: prompt %r for the message %r" % (obs["prompt"], case["msg"])
    if case["kind"] == "password" and obs.get("passprompt") != "Passphrase: ": return "password dialog asks with %r" % (obs.get("passprompt"),)
    return None


def compare_obj(case, impl, model):
    if case["op"] == "dialogview":
        a = {k: v for k, v in impl.items() if not k.startswith("_") and k != "hide"}
        if impl.get("hide") is False: return "GetPasswordInputScreen does not hide the input"
        if a != model: return "implementation %s / model %s" % (json.dumps(a, ensure_ascii=False)[:500], json.dumps(model, ensure_ascii=False)[:500])
        return None
    if case["op"] == "equeue":
        for k, (a, b) in enumerate(zip(impl["out"], model["out"])):
            if a != b: return "call #%d %r: implementation %r / model %r" % (k, case["ops"][k], a, b)
        if impl["sources"] != model["sources"]: return "sources: implementation %r / model %r" % (impl["sources"], model["sources"])
        return None
    if case["op"] == "heapq":
        if impl["out"] is None: return "the implementation's queue cannot be started at a given arrival number: %s" % impl.get("unsupported")
        for k, (a, b) in enumerate(zip(impl["out"], model["out"])):
            if a["r"] != b["r"]: return "op #%d %r: implementation returned %r / model %r" % (k, case["ops"][k], a["r"], b["r"])
            if a["heap"] is not None and a["heap"] != b["heap"]:
                return "op #%d %r: heap array of the implementation %r / of the model %r" % (k, case["ops"][k], a["heap"], b["heap"])
        return None
    if case["op"] == "tm":
        keep = [i for i, o in enumerate(case["ops"]) if not o[0].startswith("decoy")]
        impl = dict(impl, out=[impl["out"][i] for i in keep]); case = dict(case, ops=[case["ops"][i] for i in keep])
    if impl != model:
        k = next((i for i, (a, b) in enumerate(zip(impl["out"], model["out"])) if a != b), None)
        if k is not None: return "op #%d %r: implementation %r / model %r" % (k, case["ops"][k], impl["out"][k], model["out"][k])
        return "final state: implementation %r / model %r" % (impl["state"], model["state"])
    return None


RUN = {"tm": run_tm, "sstack": run_sstack, "heapq": run_heapq, "equeue": run_equeue, "dialogview": run_dialogview}
MON = {"tm": monitor_tm, "sstack": monitor_sstack, "heapq": monitor_heapq, "equeue": monitor_equeue, "dialogview": monitor_dialogview}


def shrink_obj(case):
    if "ops" not in case: return
    ops = case["ops"]
    if len(ops) > 3:
        yield dict(case, ops=ops[: len(ops) // 2]); yield dict(case, ops=ops[len(ops) // 2:])
    for i in range(len(ops)):
        yield dict(case, ops=ops[:i] + ops[i + 1:])


def install(g, ops):
    """wrap the functions of a property module (its globals g) so that object cases are handled here"""
    def is_obj(case): return isinstance(case, dict) and case.get("op") in ops
    def wrap(name, f_obj, default=None):
        old = g.get(name)
        def w(case, *a):
            if is_obj(case): return f_obj(case, *a)
            if old is None: return default(case, *a) if default else None
            return old(case, *a)
        g[name] = w
    wrap("run_impl", lambda c: json.loads(json.dumps(RUN[c["op"]](c))))
    def mcase(c):
        d = {k: v for k, v in c.items() if k not in ("cc", "prio_property")}
        if c.get("op") == "tm": d["ops"] = [o for o in c["ops"] if not o[0].startswith("decoy")]
        return d
    wrap("model_case", mcase)
    old_mi = g.get("model_input")
    def model_input(case, obs):
        # (the dialogs' model case is made by the real-side runner: the help text is what read() returned, the character classes cover the model's own literals)
        if is_obj(case) and case.get("op") == "dialogview" and isinstance(obs, dict) and "_model_case" in obs: return obs["_model_case"]
        return old_mi(case, obs) if old_mi else g["model_case"](case)
    g["model_input"] = model_input
    wrap("compare", compare_obj)
    wrap("monitor", lambda c, o: MON[c["op"]](c, o))
    wrap("nontrivial", lambda c, o: len(c.get("ops") or [0, 0, 0]) >= 3)
    wrap("outcome", lambda c, o: "object/" + c["op"])
    if "truncate" in g: wrap("truncate", lambda c, o, m: o)
    if "classify" in g: wrap("classify", lambda c, o, v, m=None: None)
    old_shrink = g.get("shrink")
    def shrink(case):
        if is_obj(case): return shrink_obj(case)
        return old_shrink(case) if old_shrink else iter(())
    g["shrink"] = shrink
