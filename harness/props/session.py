"""Shared machinery of the session-based properties (C01-C10, C17, C18): run a loop/app case on the real code through the
session adapter, run the same case on the Lean machine, compare the observable log / stdout / outcome."""
import json
from harness.charclass import char_class, strings_of

ASSUME_SESSION = [
    "A-PQ (no longer an assumption about the queue's contract): the machine's sorted-list queue is a proved abstraction (Props/C01b.lean, C01b_sequence_refines) of EventQueue over CPython's heapq as modelled step for step in Model/Heapq.lean; what remains trusted is that CPython's heapq (the C accelerator) is Lib/heapq.py - the C01 check compares the real EventQueue's heap array with the model's after every call",
    "A-EXC: ExitMainLoop / Exception / SystemExit propagate as Python defines; scripted callbacks do not catch ExitMainLoop",
    "A-I18N: gettext falls back to identity (LANG=C)",
    "programs are scripts: per handler / screen callback and invocation number a list of public-API calls and a return value (every adaptive callback behaves in a given run like such a table)",
    "the reader thread is pinned by the harness (InputHandlerRequest._get_input gate): a typed line is handed in at a delivery point of the case or when the main loop blocks on an empty queue; the real-time order of the reader's prompt relative to main-thread output is not exhibited",
    "the adapter reads nesting depth / level identity from MainLoop._event_queues and _active_queue for the oracles (a rename breaks the adapter and is reported as a broken correspondence)",
]


def with_cc(case):
    case = dict(case)
    case["cc"] = char_class(*strings_of({k: v for k, v in case.items() if k != "cc"}))
    return case


def norm_outcome(o):
    o = list(o)
    if o[0] == "raised":
        return ["raised", o[1] if o[1] in ("exit", "NothingScheduled") else "err"]
    if o[0] == "livelock":
        return ["fuel"]
    return o[:2] if o[0] == "killed" else o[:1]


def run_impl(case):
    from harness.impl.app import run_real
    outcome, log, out = run_real(case)
    return {"outcome": norm_outcome(json.loads(json.dumps(outcome))), "log": json.loads(json.dumps(log)), "out": out,
            "xlog": json.loads(json.dumps(run_real.xlog, default=str)), "traceback": "Traceback" in run_real.stderr}


def model_case(case):
    if any(h.get("late") for h in case.get("handlers") or []) or case.get("exc_raises") or case.get("_adapter_only"):
        return None        # registration while the loop runs is not an action of the machine model: such cases are judged by the oracle on the implementation only
    # fuel: the model's history must reach at least as far as the implementation's observation budget (the history flags that classify known findings
    # are computed on it)
    return dict({k: v for k, v in case.items() if not k.startswith("_")}, fuel=MODEL_FUEL)


MODEL_FUEL = 40000


def truncate(case, obs, model):
    """a run cut by the budgets on both sides (a non-terminating program): the oracle is applied to the prefix of the implementation's observation that the
    model's history covers too (the model's history flags, which classify the known findings, say nothing about what lies beyond its own cut)"""
    if not isinstance(model, dict) or not isinstance(obs, dict) or "xlog" not in obs or "outcome" not in model or "log" not in model: return obs
    if norm_outcome(model["outcome"]) != ["fuel"]: return obs
    n = max(0, len(model["log"]) - 2)
    if len(obs["log"]) <= n: return obs
    k = 0; cut = len(obs["xlog"])
    for i, (ev, ctx) in enumerate(obs["xlog"]):
        if ev[0] not in ("api", "api<", "cb<", "end", "hidden-read"):
            k += 1
            if k > n: cut = i; break
    out_at = next((c.get("out") for e, c in reversed(obs["xlog"][:cut]) if c.get("out") is not None), 0)
    return dict(obs, outcome=["fuel"], log=obs["log"][:n], xlog=obs["xlog"][:cut], out=obs["out"][:out_at] if isinstance(obs.get("out"), str) else obs.get("out"))


def compare(case, impl, model):
    if "FLAG-FOLD-MISMATCH" in model.get("flags", []): return "the driver's linear history folds disagree with the Spec's decision procedures on this case"
    mo = norm_outcome(model["outcome"]); io = impl["outcome"]
    if mo == ["fuel"] or io == ["fuel"]:
        return None                       # non-terminating program: cut by the budgets, not compared
    if impl["log"] != model["log"]:
        a, b = impl["log"], model["log"]
        # a framework signal (an application handler registered for InputReadySignal, ...) carries no harness id on the implementation
        b = [([e[0], e[1], None] + e[3:] if e[0] == "H" and k < len(a) and a[k][0] == "H" and a[k][2] is None else e) for k, e in enumerate(b)]
        k = next((i for i in range(min(len(a), len(b))) if a[i] != b[i]), min(len(a), len(b)))
        if k < max(len(a), len(b)):
            return "event #%d: implementation %r / model %r" % (k, a[k] if k < len(a) else None, b[k] if k < len(b) else None)
    if io != mo:
        return "outcome: implementation %r / model %r" % (io, mo)
    if impl["out"] != model["out"]:
        a, b = impl["out"], model["out"]
        k = next((i for i in range(min(len(a), len(b))) if a[i] != b[i]), min(len(a), len(b)))
        return "stdout differs at %d: implementation %r / model %r" % (k, a[max(0, k - 40):k + 40], b[max(0, k - 40):k + 40])
    return None


def outcome(case, obs):
    if not isinstance(obs, dict) or "outcome" not in obs: return case.get("op", "?")
    return case.get("mode", "?") + "/" + obs["outcome"][0]


def nontrivial(case, obs):
    return len(obs["log"]) >= 4


def strip_obs(obs):
    """what goes into replay files (the xlog is large)"""
    return {k: v for k, v in obs.items() if k != "xlog"}


def shrink(case):
    """ddmin-style candidates over the lists of a session case"""
    def without(lst, i): return lst[:i] + lst[i + 1:]
    for key in ("stdin", "init", "handlers", "deliver_at"):
        lst = case.get(key) or []
        if len(lst) > 3:
            yield with_cc({**strip(case), key: lst[: len(lst) // 2]})
        for i in range(len(lst)):
            if key == "handlers":
                continue          # handler ids are referenced by position
            yield with_cc({**strip(case), key: without(lst, i)})
    for hi, h in enumerate(case.get("handlers") or []):
        for si, sc in enumerate(h["scripts"]):
            for ai in range(len(sc)):
                hs = json.loads(json.dumps(case["handlers"])); hs[hi]["scripts"][si] = without(sc, ai)
                yield with_cc({**strip(case), "handlers": hs})
    for si, s in enumerate(case.get("screens") or []):
        for cb, lst in (s.get("scripts") or {}).items():
            for ei, ent in enumerate(lst):
                acts = ent.get("acts") or []
                for ai in range(len(acts)):
                    ss = json.loads(json.dumps(case["screens"])); ss[si]["scripts"][cb][ei]["acts"] = without(acts, ai)
                    yield with_cc({**strip(case), "screens": ss})
                if "ret" in ent:
                    ss = json.loads(json.dumps(case["screens"])); del ss[si]["scripts"][cb][ei]["ret"]
                    yield with_cc({**strip(case), "screens": ss})


def strip(case):
    return {k: v for k, v in case.items() if k != "cc"}


# ------------------------------------------------------------------------------------------------ xlog helpers
class X:
    """iterate over the implementation's observations"""
    def __init__(self, case, obs):
        self.case = case; self.obs = obs; self.x = obs["xlog"]
        self.hcls = {h["hid"]: h["cls"] for h in case.get("handlers") or []}
        self.hdata = {h["hid"]: h.get("data") for h in case.get("handlers") or []}
        self.cls_handlers = {}
        for h in case.get("handlers") or []:
            if h.get("late"): continue            # registered while the loop runs (reg_handler): see handlers_at
            self.cls_handlers.setdefault(h["cls"], []).append(h["hid"])
        self.late = {h["hid"]: h["cls"] for h in case.get("handlers") or [] if h.get("late")}
        self.names = {s["name"]: s["id"] for s in case.get("screens") or []}
        self.specs = {s["id"]: s for s in case.get("screens") or []}

    def events(self):
        for i, (ev, ctx) in enumerate(self.x):
            yield i, ev, ctx

    def handlers_at(self, cls, i):
        """the handlers registered for the class when observation i is made: those registered before run() and those whose registration returned before i"""
        out = list(self.cls_handlers.get(cls, []))
        for j, (ev, ctx) in enumerate(self.x[:i]):
            if ev[0] == "api<" and ev[1] == "reg_handler":
                hid = next(e[2] for e, c in reversed(self.x[:j]) if e[0] == "api" and e[1] == "reg_handler")
                if self.late.get(hid) == cls: out.append(hid)
        return out

    def force_quit_index(self):
        for i, ev, ctx in self.events():
            if ev[0] == "api" and ev[1] == "force_quit":
                return i
        return None

    def stopped_after(self, i):
        """a stop request (exit / force-quit / kill) is observed at or after observation i"""
        for j in range(i, len(self.x)):
            ev = self.x[j][0]
            if ev[0] == "api" and ev[1] in ("force_quit", "raise_exit"):
                return True
        return self.obs["outcome"][0] in ("killed", "returned", "raised", "fuel")


def lost_signals(case, obs, ideal=False):
    """held - never dropped: a user signal (source registered nowhere, class with handlers) enqueued into a level that is the innermost one when the run has become
    quiescent (blocked on an empty queue, nothing stopped it) must have been dispatched. With ideal=True (programs without screens) the level structure is
    reconstructed from the API calls alone (execute_new_loop opens a level, a returned close_loop closes the innermost one), not read from the implementation."""
    x = X(case, obs)
    if obs["outcome"][0] != "blocked": return None
    if any(ev[0] == "api" and ev[1] in ("force_quit", "raise_exit") for i, ev, ctx in x.events()): return None
    dispatched = {ev[2] for i, ev, ctx in x.events() if ev[0] == "H"}
    targets = {}
    if ideal:
        if case.get("screens"): return None
        levels = [0]; nxt = 1
        for i, ev, ctx in x.events():
            if ev[0] == "api" and ev[1] == "new_loop": levels.append(nxt); nxt += 1
            if ev[0] == "api<" and ev[1] == "close_loop" and len(levels) > 1: levels.pop()
            if ev[0] == "api" and ev[1] == "enq" and ev[4] is None and x.cls_handlers.get(ev[2]): targets[ev[5]] = levels[-1]
        final = levels[-1]
    else:
        for i, ev, ctx in x.events():
            if ev[0] == "api" and ev[1] == "enq" and ev[4] is None and x.cls_handlers.get(ev[2]) and "lvl" in ctx: targets[ev[5]] = ctx["lvl"]
            if ev[0] == "api<" and ev[1] == "enq" and "lvl" in ctx and ctx.get("levels") and ctx["lvl"] not in ctx["levels"]:
                # the loop's active queue is not one of its open levels (a level was popped and the active queue not switched): what is enqueued now is gone
                e0 = next(e for e, c in reversed(x.x[:i]) if e[0] == "api" and e[1] == "enq")
                if e0[4] is None and x.cls_handlers.get(e0[2]) and e0[5] not in dispatched:
                    return "signal %d was enqueued while the loop's active queue was a level that had already been closed: it was never dispatched (lost)" % e0[5]
        final = next((c["lvl"] for e, c in reversed(x.x) if "lvl" in c), None)
        end_levels = next((c["levels"] for e, c in reversed(x.x) if "levels" in c), [])
        if final is None or (end_levels and end_levels[-1] != final): return None
    for sid, lvl in targets.items():
        if lvl == final and sid not in dispatched:
            return "signal %d was enqueued into the loop level that is the innermost one now, the run is quiescent and nothing stopped it, but the signal was never dispatched (lost)" % sid
    return None
