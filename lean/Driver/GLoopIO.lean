/- Driver operation: run the two loop disciplines of Model/GLoop.lean on a flat handler program (C20). -/
import Driver.Json
import Simpleline.Model.GLoop

open Lean Simpleline.GLoop

namespace Driver

structure FlatHandler where
  cls : Nat
  hid : Nat
  scripts : List (List GSig)

/-- program state: invocation counters per handler id; dispatching `s` runs every handler of its class in registration order -/
def flatProg (hs : List FlatHandler) : Prog (List (Nat × Nat)) := fun st s =>
  (hs.filter (·.cls = s.cls)).foldl (fun (acc : List (Nat × Nat) × List GSig) h =>
    let n := ((acc.1.find? (·.1 = h.hid)).map (·.2)).getD 0
    let st' := if acc.1.any (·.1 = h.hid) then acc.1.map (fun p => if p.1 = h.hid then (p.1, p.2 + 1) else p) else acc.1 ++ [(h.hid, 1)]
    (st', acc.2 ++ (h.scripts[n]?.getD []))) (st, [])

def gsigOf (j : Json) : Except String GSig := do
  match ← arr j with
  | [c, p, i] => pure { cls := ← nat c, prio := ← int p, id := ← nat i }
  | _ => throw "gsig"

def opGFlat (j : Json) : Except String Json := do
  let hs ← (← arr (← field j "handlers")).mapM fun h => do
    let scripts ← (← arr (← field h "scripts")).mapM fun s => do (← arr s).mapM gsigOf
    pure ({ cls := ← nat (← field h "cls"), hid := ← nat (← field h "hid"), scripts := scripts } : FlatHandler)
  let init ← (← arr (← field j "init")).mapM gsigOf
  let n ← nat (fieldD j "steps" (Json.num 400))
  let P := flatProg hs
  let m := mrun P n (minit [] init)
  let g := grun P n (ginit [] init)
  pure (Json.mkObj [
    ("main", Json.arr (m.done.map fun s => Json.num s.id).toArray),
    ("glib", Json.arr (g.done.map fun s => Json.num s.id).toArray),
    ("main_pending", Json.num m.queue.length), ("glib_pending", Json.num g.attached.length),
    ("calm", Json.bool (calmRun P n (minit [] init)))])

end Driver
