/- Driver operation `gmachine`: run a loop / app case (same JSON as op `machine`) on the GLib machine (Model/GMachine.lean). -/
import Driver.MachineIO
import Simpleline.Model.GMachine

open Lean Simpleline

namespace Driver

/-- name of the instruction at the head (coverage report) -/
def gHeadName (c : G.Cfg) : String :=
  match c.code with
  | [] => "(end)"
  | ins :: _ =>
    let full := (repr ins).pretty 100000
    let tok := (full.splitOn " ").headD ""
    let tok := (tok.splitOn "\n").headD ""
    let base := (tok.replace "Simpleline.G.Instr." "").replace "(" ""
    match ins with
    | .act a =>
      let af := (repr a).pretty 100000
      "act." ++ ((((af.splitOn " ").headD "").splitOn "\n").headD "" |>.replace "Simpleline.Act." "" |>.replace "(" "")
    | _ => base

def gRunCollect (P : Prog) : Nat → G.Cfg → List String → G.Cfg × Outcome × List String
  | 0, c, seen => (c, .fuel, seen)
  | n + 1, c, seen =>
    let nm := gHeadName c
    let seen := if seen.contains nm then seen else nm :: seen
    match G.step P c with
    | .ok c' => gRunCollect P n c' seen
    | .error (o, c') => (c', o, seen)

/-- history flags of a GLib run -/
def gFlags (tr : List G.Tr) : List String :=
  let fq := tr.any fun t => match t with | .m .forceQuit => true | _ => false
  let abandoned := tr.any fun t => match t with | .skip .. => true | _ => false
  let quitAll := tr.any fun t => match t with | .quitAll => true | _ => false
  let exc := tr.any fun t => match t with | .m (.enq _ s) => s.cls == .exception | _ => false
  (if fq then ["forceQuit"] else []) ++ (if abandoned then ["batchSkip"] else []) ++ (if quitAll then ["quitAll"] else []) ++
    (if exc then ["exception"] else [])

def opGMachine (j : Json) : Except String Json := do
  let cc ← charClass (← field j "cc")
  let screens ← (← arr (← field j "screens")).mapM screenOf
  let handlersJ ← arr (fieldD j "handlers" (Json.arr #[]))
  let handlers ← handlersJ.mapM fun h => do
    let cls ← clsOf (← (← field h "cls").getStr?)
    let hid ← nat (← field h "hid")
    let data ← optNat (fieldD h "data" Json.null)
    let scripts ← (← arr (fieldD h "scripts" (Json.arr #[]))).mapM fun s => do (← arr s).mapM actOf
    pure (cls, hid, data, scripts)
  let excH ← bool (fieldD j "exc_handler" (Json.bool false))
  let init ← (← arr (← field j "init")).mapM actOf
  let stdin ← (← arr (fieldD j "stdin" (Json.arr #[]))).mapM str
  let deliverAt ← (← arr (fieldD j "deliver_at" (Json.arr #[]))).mapM nat
  let P : Prog := {
    cc := cc,
    width := ← int (fieldD j "width" (Json.num 80)),
    screens := screens.map (·.spec),
    screenScript := fun scr cb n =>
      match screens[scr]? with
      | some s => (((s.scripts.find? (·.1 = cb)).map (·.2)).getD [])[n]?.getD {}
      | none => {},
    handlerScript := fun hid n =>
      match handlers.find? (fun h => h.2.1 = hid) with
      | some h => h.2.2.2[n]?.getD []
      | none => [],
    quitScreen := ← optNat (fieldD j "quit_screen" Json.null),
    runEmpty := ← bool (fieldD j "run_empty" (Json.bool false)),
    deliverAt := deliverAt }
  let regs : List (Cls × HRef × Option Nat) :=
    handlers.map (fun h => (h.1, HRef.user h.2.1, h.2.2.1)) ++ (if excH then [(Cls.exception, HRef.exc, none)] else [])
  let c0 := G.initCfg init regs (← optNat (fieldD j "quit_cb" Json.null)) stdin
  let fuel ← nat (fieldD j "fuel" (Json.num 20000))
  let (c, o, seen) := gRunCollect P fuel c0 []
  pure (Json.mkObj [
    ("outcome", outcomeJson o),
    ("log", Json.arr (c.log.reverse.map evJson).toArray),
    ("out", Json.str (String.ofList c.A.out.flatten)),
    ("stack", Json.arr (c.A.stack.reverse.map (entryJson P)).toArray),
    ("depth", Json.num c.L.loops.length),
    ("flags", Json.arr ((gFlags c.tr).map Json.str).toArray),
    ("instrs", Json.arr (seen.map Json.str).toArray)])

end Driver
