/- JSON glue for the model driver (trusted: part of the correspondence check, not of the proofs). -/
import Lean.Data.Json
import Simpleline.Model.Paging
import Simpleline.Model.KeyPattern
import Simpleline.Model.Column
import Simpleline.Model.Dialogs

open Lean Simpleline

namespace Driver

def str (j : Json) : Except String (List Char) := do pure (← j.getStr?).toList
def optStr (j : Json) : Except String (Option (List Char)) :=
  if j.isNull then pure none else do pure (some (← str j))
def field (j : Json) (k : String) : Except String Json := j.getObjVal? k
def fieldD (j : Json) (k : String) (d : Json) : Json := (j.getObjVal? k).toOption.getD d
def nat (j : Json) : Except String Nat := j.getNat?
def int (j : Json) : Except String Int := j.getInt?
def optInt (j : Json) : Except String (Option Int) := if j.isNull then pure none else do pure (some (← j.getInt?))
def optNat (j : Json) : Except String (Option Nat) := if j.isNull then pure none else do pure (some (← j.getNat?))
def bool (j : Json) : Except String Bool := j.getBool?
def arr (j : Json) : Except String (List Json) := do pure (← j.getArr?).toList

def ofStr (s : List Char) : Json := Json.str (String.ofList s)
def ofGrid (g : Grid) : Json := Json.arr (g.map ofStr).toArray
def ofCur (c : Nat × Nat) : Json := Json.arr #[Json.num c.1, Json.num c.2]

def cps (j : Json) : Except String (List Nat) := do (← arr j).mapM nat

/-- character classes shipped with a case: lists of code points -/
def charClass (j : Json) : Except String CharClass := do
  let space ← cps (← field j "space")
  let word ← cps (← field j "word")
  let letter ← cps (← field j "letter")
  let ispace ← cps (← field j "intspace")
  let digs ← arr (← field j "digits")
  let digs ← digs.mapM fun d => do
    let p ← arr d
    match p with
    | [a, b] => pure ((← nat a), (← nat b))
    | _ => throw "digit pair"
  pure {
    isSpace := fun c => space.contains c.toNat
    isWord := fun c => word.contains c.toNat
    isLetter := fun c => letter.contains c.toNat
    isIntSpace := fun c => ispace.contains c.toNat
    digitVal := fun c => (digs.find? fun p => p.1 = c.toNat).map (·.2) }

def errName : RErr → String
  | .valueError => "ValueError"
  | .zeroDivision => "ZeroDivision"
  | .outOfDomain => "OutOfDomain"

def grid (j : Json) : Except String Grid := do (← arr j).mapM str

def wst (j : Json) : Except String WSt := do
  let buf ← grid (← field j "buf")
  let cur ← arr (fieldD j "cur" (Json.arr #[0, 0]))
  match cur with
  | [r, c] => pure { buf := buf, cur := (← nat r, ← nat c) }
  | _ => throw "cur"

def ofWSt (s : WSt) : Json := Json.mkObj [("lines", ofGrid s.buf), ("cur", ofCur s.cur)]

def keyPat (j : Json) : Except String (Option KeyPat) :=
  if j.isNull then pure none else do
    match ← arr j with
    | [a, b, c] => pure (some { pre := ← str a, post := ← str b, offset := ← int c })
    | _ => throw "keypat"

partial def tree (j : Json) : Except String Wd := do
  let a ← arr j
  match a with
  | k :: rest =>
    match (← k.getStr?), rest with
    | "text", [t] => pure (.text {} (← str t))
    | "entry", [t, v] => pure (.text {} (entryText (← str t) (← optStr v)))        -- EntryWidget is a TextWidget of `_create_text(title, value)`
    | "sep", [n] => do
      let n ← nat n
      if n = 0 then throw "sep 0" else pure (.sep {} n)
    | "center", [c] => pure (.center {} (← tree c))
    | "checkbox", [key, title, text, completed] =>
      pure (.checkbox {} (← str key) (← optStr title) (← optStr text) (← bool completed))
    | "window", [title, items] => do
      pure (.window {} (← optStr title) (← (← arr items).mapM tree))
    | "list", [cm, cols, cw, sp, kp, items] => do
      pure (.list {} (← bool cm) (← nat cols) (← optInt cw) (← nat sp) (← keyPat kp) none []
              (← (← arr items).mapM tree))
    | _, _ => throw "bad tree node"
  | [] => throw "empty tree node"

end Driver
