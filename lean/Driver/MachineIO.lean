/- Driver operations for the abstract machine (loop / app cases). -/
import Driver.Json
import Simpleline.Model.Machine
import Simpleline.Spec.InputOrderSpec

open Lean Simpleline

namespace Driver

def clsOf (s : String) : Except String Cls :=
  if s.startsWith "U" then
    match (s.drop 1).toNat? with
    | some n => pure (.user n)
    | none => throw s!"class {s}"
  else match s with
    | "Render" => pure .render
    | "Close" => pure .close
    | "InputReady" => pure .inputReady
    | "InputReceived" => pure .inputReceived
    | "Exception" => pure .exception
    | _ => throw s!"class {s}"

def srcOf (j : Json) : Except String Src :=
  if j.isNull then pure .none else do
    match ← arr j with
    | [k, n] =>
      match ← k.getStr? with
      | "src" => pure (.obj (← nat n))
      | "scr" => pure (.scr (← nat n))
      | _ => throw "src kind"
    | _ => throw "src"

def actOf (j : Json) : Except String Act := do
  let a ← arr j
  match a with
  | k :: rest =>
    match (← k.getStr?), rest with
    | "enq", [c, p, s, i] => pure (.enq (← clsOf (← c.getStr?)) (← int p) (← srcOf s) (← nat i))
    | "reg_source", [s] => pure (.regSource (← srcOf s))
    | "new_loop", [c, p, i] => pure (.newLoop (← clsOf (← c.getStr?)) (← int p) (← nat i))
    | "close_loop", [] => pure .closeLoop
    | "proc", [c] => if c.isNull then pure (.proc none) else pure (.proc (some (← clsOf (← c.getStr?))))
    | "force_quit", [] => pure .forceQuit
    | "raise_exit", [] => pure .raiseExit
    | "raise_err", [] => pure .raiseErr
    | "schedule", [s, a] => pure (.schedule (← nat s) (← optNat a))
    | "push", [s, a] => pure (.push (← nat s) (← optNat a))
    | "push_modal", [s, a] => pure (.pushModal (← nat s) (← optNat a))
    | "replace", [s, a] => pure (.replace (← nat s) (← optNat a))
    | "close_direct", [] => pure .closeDirect
    | "close_sig", [s] => pure (.closeSig (← nat s))
    | "redraw_sig", [s] => pure (.redrawSig (← nat s))
    | "sched_redraw", [] => pure .schedRedraw
    | "get_user_input", [s, h] => pure (.getUserInput (← nat s) (← bool h))
    | k, _ => throw s!"bad action {k}"
  | [] => throw "empty action"

def retOf (cb : Cb) (j : Json) : Except String Ret :=
  if j.isNull then pure .dflt else do
    let s ← j.getStr?
    match cb, s with
    | .setup, "fail_before" => pure .failBefore
    | .setup, "fail_after" => pure .failAfter
    | .prompt, "none" => pure .promptNone
    | .input, "NONE" => pure .none
    | .input, "PROCESSED" | .input, "REDRAW" | .input, "CLOSE" | .input, "DISCARDED" => pure (.state s)
    | .input, k => pure (.key k.toList)
    | _, _ => pure .dflt

def cbName : Cb → String
  | .setup => "setup" | .refresh => "refresh" | .show => "show" | .prompt => "prompt" | .input => "input" | .closed => "closed"

def allCbs : List Cb := [.setup, .refresh, .show, .prompt, .input, .closed]

structure ScreenIn where
  spec : ScreenSpec
  scripts : List (Cb × List ScriptEnt)

def screenOf (j : Json) : Except String ScreenIn := do
  let answer : Option (Option Bool) ←
    match j.getObjVal? "answer" with
    | .ok a => if a.isNull then pure (some none) else
        match a.getBool? with
        | .ok b => pure (some (some b))
        | .error _ => pure none          -- "noattr"
    | .error _ => pure none
  let spec : ScreenSpec := {
    name := ← str (← field j "name"),
    title := ← optStr (fieldD j "title" Json.null),
    text := ← optStr (fieldD j "text" Json.null),
    height := ← nat (fieldD j "height" (Json.num 30)),
    inputRequired := ← bool (fieldD j "input_required" (Json.bool true)),
    noSeparator := ← bool (fieldD j "no_separator" (Json.bool false)),
    skipCheck := ← bool (fieldD j "skip_check" (Json.bool false)),
    answer := answer }
  let sc := fieldD j "scripts" (Json.mkObj [])
  let scripts ← allCbs.mapM fun cb => do
    let lst ← arr (fieldD sc (cbName cb) (Json.arr #[]))
    let ents ← lst.mapM fun e => do
      let acts ← (← arr (fieldD e "acts" (Json.arr #[]))).mapM actOf
      let ret ← retOf cb (fieldD e "ret" Json.null)
      pure ({ acts := acts, ret := ret } : ScriptEnt)
    pure (cb, ents)
  pure { spec := spec, scripts := scripts }

def ofOptNat : Option Nat → Json
  | some n => Json.num n
  | none => Json.null

def evJson : Ev → Json
  | .cb scr cb arg key =>
    match cb with
    | .show | .closed => Json.arr #["cb", Json.num scr, cbName cb]
    | .input => Json.arr #["cb", Json.num scr, "input", ofOptNat arg, match key with | some k => ofStr k | none => Json.null]
    | _ => Json.arr #["cb", Json.num scr, cbName cb, ofOptNat arg]
  | .h hid sid d depth => Json.arr #["H", Json.num hid, Json.num sid, ofOptNat d, Json.num depth]
  | .hret hid => Json.arr #["h<", Json.num hid]
  | .read l => Json.arr #["read", ofStr l]
  | .note w => Json.arr #[Json.str w]
  | .quitcb d => Json.arr #["quitcb", Json.num d]

def outcomeJson : Outcome → Json
  | .returned => Json.arr #["returned"]
  | .blocked => Json.arr #["blocked"]
  | .killed n => Json.arr #["killed", Json.num n]
  | .raised w => Json.arr #["raised", Json.str w]
  | .livelock => Json.arr #["livelock"]
  | .fuel => Json.arr #["fuel"]

def entryJson (P : Prog) (e : Entry) : Json :=
  Json.arr #[ofStr (P.spec e.screen).name, ofOptNat e.args, Json.bool e.modal]

/-- decidable history hypotheses evaluated on the model's trace (oldest first) -/
def historyFlags (tr : List Tr) : List String :=
  let k1a := tr.any fun t => match t with | .closeReq false _ => true | .openLevel _ false => true | _ => false
  -- WFDrain: no level is closed while an earlier close has not yet been followed by the return of its activation
  let k1b := (tr.foldl (fun (st : Bool × Bool) t =>
      match t with
      | .closeLevel _ => if st.1 then (true, true) else (true, st.2)
      | .loopReturn _ => (false, st.2)
      | _ => st) (false, false)).2
  let k2 := tr.any fun t => match t with | .closeReq _ n => n > 0 | _ => false
  let fq := tr.any fun t => match t with | .forceQuit => true | _ => false
  -- K5: the hypotheses of `C06_order_within_level` (Props/C06b.lean), decided on the history itself (newest first): a successful InputReadySignal
  -- was pending in a covered level (`NoReadyCovered` fails), or one was taken while an earlier one was on its way to its handler (`NoReadyReentry` fails)
  -- (linear folds over the oldest-first history; for short histories they are cross-checked against the Spec's own decision procedures)
  let cov := tr.foldl (fun (st : List Nat × List (Nat × Nat) × Bool) t =>
      let (levels, counts, bad) := st
      let get (q : Nat) : Nat := ((counts.find? (·.1 = q)).map (·.2)).getD 0
      let set (q n : Nat) : List (Nat × Nat) := (q, n) :: counts.filter (·.1 ≠ q)
      let (levels, counts) := match t with
        | .openLevel q _ => (levels ++ [q], counts)
        | .closeLevel _ => (levels.dropLast, counts)
        | .forceQuit => ([], counts)
        | .enq q s => (levels, if s.okReady then set q (get q + 1) else counts)
        | .take q s => (levels, if s.okReady then set q (get q - 1) else counts)
        | _ => (levels, counts)
      let free := levels.dropLast.all fun q => ((counts.find? (·.1 = q)).map (·.2)).getD 0 == 0
      (levels, counts, bad || !free)) ([0], [], false)
  let heldFold := cov.2.2
  let re := tr.foldl (fun (st : Bool × Bool) t =>
      match t with
      | .take _ s => if s.okReady then (true, st.2 || st.1) else st
      | .call (.ih n) _ s => if s.okReady && s.ih == n then (false, st.2) else st
      | _ => st) (false, false)
  let reentryFold := re.2
  let short := tr.length ≤ 400
  let held := if short then !decide (NoReadyCovered tr.reverse) else heldFold
  let reentry := if short then !decide (NoReadyReentry tr.reverse) else reentryFold
  let flagBug := short && (held != heldFold || reentry != reentryFold)
  -- K6: a modal entry was popped by close_screen and an ordinary exception (RenderUnexpectedError, a failing closed()) prevented its close_loop
  let k6 := (tr.foldl (fun (st : List Entry × Bool × Bool) t =>
      match t with
      | .stackOp w stack =>
        let popped := if w = "close" then st.1.getLast? else none
        (stack, (match popped with | some e => e.modal | none => st.2.1), st.2.2)
      | .closeLevel _ => (st.1, false, st.2.2)
      | .enq _ s => if s.cls == .exception && st.2.1 then (st.1, st.2.1, true) else st
      | _ => st) ([], false, false)).2.2
  (if k6 then ["K6"] else []) ++ (if k1a || k1b then ["K1"] else []) ++ (if k2 then ["K2"] else []) ++ (if fq then ["forceQuit"] else []) ++ (if held then ["K5"] else []) ++ (if reentry then ["K5r"] else []) ++ (if flagBug then ["FLAG-FOLD-MISMATCH"] else [])

/-- C20: the `Calm` clauses evaluated on the MainLoop machine's trace (oldest first); the result lists the violated clauses -/
structure CalmSt where
  pending : List (Nat × Nat × Int) := []          -- (queue, signal id, priority)
  dispatching : List (Nat × Int) := []            -- innermost first: (queue, priority) of signals being dispatched
  waits : List (Cls × Nat) := []                  -- open waiting calls
  procs : List (Nat × Nat) := []                  -- open non-waiting calls, innermost first: (dispatch depth at the call, signals it has taken itself)
  closing : Nat := 0                              -- close_loop popped a level whose activation has not returned yet (`_run_loop` is False)
  bad : List String := []

def calmStep (st : CalmSt) (t : Tr) : CalmSt :=
  let flag (st : CalmSt) (b : Bool) (n : String) : CalmSt := if b && !st.bad.contains n then { st with bad := st.bad ++ [n] } else st
  match t with
  | .enq q s =>
    let urgent := match st.dispatching.find? (·.1 = q) with
      | some d => decide (s.prio < d.2) && st.pending.any (·.1 = q)
      | none => false
    let st := flag st urgent "C1-urgent-enqueue"
    let st := flag st (s.cls == .exception) "C3-handler-exception"
    { st with pending := st.pending ++ [(q, s.id, s.prio)] }
  | .take q s =>
    let pend := st.pending.eraseP fun p => p.1 = q ∧ p.2.1 = s.id
    let others := pend.any (·.1 = q)
    let st := flag st (others && (!st.procs.isEmpty || st.waits.any (·.1 = s.cls))) "C4-processing-call-with-pending"
    -- a non-waiting processing call that itself takes a second signal (one that arrived while it was running): MainLoop goes on while the most urgent
    -- priority is unchanged, a GLib iteration has ended
    let (second, procs) := match st.procs with
      | (d, n) :: rest => if d = st.dispatching.length then (decide (n ≥ 1), (d, n + 1) :: rest) else (false, st.procs)
      | [] => (false, [])
    let st := flag st second "C4-processing-call-with-pending"
    { st with pending := pend, dispatching := (q, s.prio) :: st.dispatching, procs := procs }
  | .dispatched _ _ => { st with dispatching := st.dispatching.tail }
  | .closeReq _ n => flag st (n > 0) "C2-close-with-pending"
  | .waitBegin c t =>
    let st := flag st (st.closing > 0 && !st.pending.isEmpty) "C4-processing-call-with-pending"
    { st with waits := (c, t) :: st.waits }
  | .waitEnd c t _ => { st with waits := st.waits.filter fun w => !(w.1 == c && w.2 == t) }
  | .closeLevel _ => { st with closing := st.closing + 1 }
  | .loopReturn _ => { st with closing := st.closing - 1 }
  | .procBegin =>
    -- a processing call between close_loop and the return of the closed loop's activation: MainLoop does nothing (`_run_loop` is False), GLib iterates
    let st := flag st (st.closing > 0 && !st.pending.isEmpty) "C4-processing-call-with-pending"
    { st with procs := (st.dispatching.length, 0) :: st.procs }
  | .procEnd => { st with procs := st.procs.tail }
  | _ => st

def calmFlags (tr : List Tr) : List String := (tr.foldl calmStep {}).bad

/-- name of the instruction at the head (for the coverage report: which instructions / actions of the model a run exercised) -/
def headName (c : Cfg) : String :=
  match c.code with
  | [] => "(end)"
  | ins :: _ =>
    let full := (repr ins).pretty 100000
    let tok := (full.splitOn " ").headD ""
    let tok := (tok.splitOn "\n").headD ""
    let base := (tok.replace "Simpleline.Instr." "").replace "(" ""
    match ins with
    | .act a =>
      let af := (repr a).pretty 100000
      "act." ++ ((((af.splitOn " ").headD "").splitOn "\n").headD "" |>.replace "Simpleline.Act." "" |>.replace "(" "")
    | _ => base

def closesOpen (c : Cfg) : Nat := (c.code.filter fun i => match i with | .closeScreen2 .. => true | _ => false).length

/-- K6 in general: a `close_screen` activation that has already popped its entry (it is between the pop and the rest: `closeScreen2` is on the code stack) is
abandoned by an ordinary exception - `RenderUnexpectedError` (the close came from another screen) or a failing `closed()` - which surfaces as an exception
signal: the entry is gone but the loop of a modal entry is not closed, the screen beneath is not redrawn and an empty stack does not end the application -/
def abortedClose (c c' : Cfg) : Bool :=
  let normal := match c.code with | .closeScreen2 e frm :: _ => !(frm ≠ none ∧ frm ≠ some (.scr e.screen)) | _ => false
  let newTr := c'.tr.take (c'.tr.length - c.tr.length)
  !normal && closesOpen c' < closesOpen c && newTr.any fun t => match t with | .enq _ s => s.cls == .exception | _ => false

def runCollect (P : Prog) : Nat → Cfg → List String → Cfg × Outcome × List String
  | 0, c, seen => (c, .fuel, seen)
  | n + 1, c, seen =>
    let nm := headName c
    let seen := if seen.contains nm then seen else nm :: seen
    match step P c with
    | .ok c' =>
      let seen := if abortedClose c c' && !seen.contains "!K6a" then "!K6a" :: seen else seen
      runCollect P n c' seen
    | .error (o, c') => (c', o, seen)

def opMachine (j : Json) : Except String Json := do
  let cc ← charClass (← field j "cc")
  let screens ← (← arr (← field j "screens")).mapM screenOf
  let handlersJ ← arr (fieldD j "handlers" (Json.arr #[]))
  let handlers ← handlersJ.mapM fun h => do
    let cls ← clsOf (← (← field h "cls").getStr?)
    let hid ← nat (← field h "hid")
    let data ← optNat (fieldD h "data" Json.null)
    let scripts ← (← arr (fieldD h "scripts" (Json.arr #[]))).mapM fun s => do (← arr s).mapM actOf
    pure (cls, hid, data, scripts)
  let excH ← bool (fieldD j "exc_handler" (Json.bool false))
  let init ← (← arr (← field j "init")).mapM actOf
  let stdin ← (← arr (fieldD j "stdin" (Json.arr #[]))).mapM str
  let deliverAt ← (← arr (fieldD j "deliver_at" (Json.arr #[]))).mapM nat
  let P : Prog := {
    cc := cc,
    width := ← int (fieldD j "width" (Json.num 80)),
    screens := screens.map (·.spec),
    screenScript := fun scr cb n =>
      match screens[scr]? with
      | some s => (((s.scripts.find? (·.1 = cb)).map (·.2)).getD [])[n]?.getD {}
      | none => {},
    handlerScript := fun hid n =>
      match handlers.find? (fun h => h.2.1 = hid) with
      | some h => h.2.2.2[n]?.getD []
      | none => [],
    quitScreen := ← optNat (fieldD j "quit_screen" Json.null),
    runEmpty := ← bool (fieldD j "run_empty" (Json.bool false)),
    deliverAt := deliverAt }
  let regs : List (Cls × HRef × Option Nat) :=
    handlers.map (fun h => (h.1, HRef.user h.2.1, h.2.2.1)) ++ (if excH then [(Cls.exception, HRef.exc, none)] else [])
  let c0 := initCfg init regs (← optNat (fieldD j "quit_cb" Json.null)) stdin
  let fuel ← nat (fieldD j "fuel" (Json.num 20000))
  let (c, o, seen) := runCollect P fuel c0 []
  pure (Json.mkObj [
    ("outcome", outcomeJson o),
    ("log", Json.arr (c.log.reverse.map evJson).toArray),
    ("out", Json.str (String.ofList c.A.out.flatten)),
    ("stack", Json.arr (c.A.stack.reverse.map (entryJson P)).toArray),
    ("depth", Json.num c.L.levels.length),
    ("flags", Json.arr ((historyFlags c.tr.reverse ++ (if seen.contains "!K6a" then ["K6a"] else [])).map Json.str).toArray),
    ("instrs", Json.arr ((seen.filter (· != "!K6a")).map Json.str).toArray),
    ("noncalm", Json.arr ((calmFlags c.tr.reverse).map Json.str).toArray)])

end Driver
