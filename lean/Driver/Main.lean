/- Line protocol: one JSON case per input line, one JSON result per output line. -/
import Driver.Pure
import Driver.MachineIO
import Driver.ThreadsIO
import Driver.GLoopIO
import Driver.ObjectsIO
import Driver.GMachineIO
import Driver.ViewsIO

open Lean Driver

def handle (line : String) : String :=
  match Json.parse line with
  | .error e => (Json.mkObj [("fatal", s!"parse: {e}")]).compress
  | .ok j =>
    match j.getObjVal? "op" >>= Json.getStr? with
    | .error e => (Json.mkObj [("fatal", s!"op: {e}")]).compress
    | .ok op =>
      let r := match pureOp op j with
        | some r => some r
        | none => if op = "machine" then some (opMachine j) else if op = "threads" then some (opThreads j) else if op = "gflat" then some (opGFlat j)
          else if op = "tm" then some (opTM j) else if op = "sstack" then some (opSStack j) else if op = "heapq" then some (opHeapq j)
          else if op = "gmachine" then some (opGMachine j)
          else if op = "dialogview" then some (opDialogView j) else if op = "equeue" then some (opEQueue j)
          else if op = "machine+g" then some (do
            -- both machines on one case: the MainLoop machine's result, with the GLib machine's result under "g"
            let m ← opMachine j
            let g ← opGMachine j
            pure (m.setObjVal! "g" g))
          else none
      match r with
      | some (.ok r) => r.compress
      | some (.error e) => (Json.mkObj [("fatal", e)]).compress
      | none => (Json.mkObj [("fatal", s!"unknown op {op}")]).compress

partial def loop (hin : IO.FS.Stream) (hout : IO.FS.Stream) : IO Unit := do
  let line ← hin.getLine
  if line.isEmpty then return ()
  hout.putStrLn (handle line)
  loop hin hout

def main : IO Unit := do
  let hin ← IO.getStdin
  let hout ← IO.getStdout
  loop hin hout
  hout.flush
