/- Driver operations: the stand-alone object models of Model/Objects.lean (TicketMachine, ScreenStack) on operation sequences. -/
import Driver.Json
import Simpleline.Model.Objects
import Simpleline.Model.Heapq

open Lean Simpleline.Objects

namespace Driver

def tmOp (j : Json) : Except String (TMOp Nat) := do
  match ← arr j with
  | [k, a] =>
    match ← k.getStr? with
    | "take" => pure (.take (← nat a))
    | "mark" => pure (.mark (← nat a))
    | _ => throw "bad tm op"
  | [k, a, b] =>
    match ← k.getStr? with
    | "check" => pure (.check (← nat a) (← nat b))
    | _ => throw "bad tm op"
  | _ => throw "bad tm op"

def tmOut : TMOut → Json
  | .ticket t => Json.num t
  | .checked .ready => Json.bool true
  | .checked .wait => Json.bool false
  | .checked .keyError => Json.str "KeyError"
  | .unit => Json.null

/-- final state in canonical form: per line (sorted by line id) the tickets (sorted) with their marks -/
def tmState (m : TM Nat) : Json :=
  let ls := m.lines.toArray.qsort (fun a b => a.1 < b.1)
  Json.mkObj [("counter", Json.num m.counter),
    ("lines", Json.arr (ls.map fun l =>
      Json.arr #[Json.num l.1, Json.arr ((l.2.toArray.qsort (fun a b => a.1 < b.1)).map fun t => Json.arr #[Json.num t.1, Json.bool t.2])]))]

def opTM (j : Json) : Except String Json := do
  let ops ← (← arr (← field j "ops")).mapM tmOp
  let r := ({} : TM Nat).run ops
  pure (Json.mkObj [("out", Json.arr (r.1.map tmOut).toArray), ("state", tmState r.2)])

def sOp (j : Json) : Except String SOp := do
  match ← arr j with
  | [k] =>
    match ← k.getStr? with
    | "size" => pure .size
    | "empty" => pure .empty
    | "dump" => pure .dump
    | _ => throw "bad stack op"
  | [k, a] =>
    match ← k.getStr? with
    | "append" => pure (.append (← nat a))
    | "add_first" => pure (.addFirst (← nat a))
    | "pop" => pure (.pop (← bool a))
    | _ => throw "bad stack op"
  | _ => throw "bad stack op"

def sOut : SOut → Json
  | .unit => Json.null
  | .entry e => Json.num e
  | .stackEmpty => Json.str "StackEmpty"
  | .num n => Json.num n
  | .bool b => Json.bool b
  | .order l => Json.arr (l.map fun (e : Nat) => Json.num e).toArray

def opSStack (j : Json) : Except String Json := do
  let ops ← (← arr (← field j "ops")).mapM sOp
  let r := ({} : SStack).run ops
  pure (Json.mkObj [("out", Json.arr (r.1.map sOut).toArray), ("state", Json.arr (r.2.screens.map fun (e : Nat) => Json.num e).toArray)])

/-! the real `EventQueue` over CPython's heapq (Model/Heapq.lean): output of every operation and the heap array after it -/
open Simpleline.Heapq in
def opHeapq (j : Json) : Except String Json := do
  let start ← nat (fieldD j "start" (Json.num 0))
  let mut q : HQueue := { seq := start }
  let mut n : Nat := 0
  let mut out : Array Json := #[]
  for o in ← arr (← field j "ops") do
    let op ← match ← arr o with
      | [k] => match ← k.getStr? with
        | "get" => pure Op.get
        | _ => throw "bad heapq op"
      | [k, a] => match ← k.getStr? with
        | "put" => pure (Op.put (mkSig (← int a) n))
        | "get_top" => pure (Op.getTop (← int a))
        | _ => throw "bad heapq op"
      | _ => throw "bad heapq op"
    if let .put _ := op then n := n + 1
    let r := q.step op
    q := r.2
    let res : Json := match r.1 with
      | .done => Json.null
      | .noSig => Json.null
      | .sig s => Json.num s.id
      | .blocked => Json.str "empty"
    out := out.push (Json.mkObj [("r", res), ("heap", Json.arr (q.heap.map fun e => Json.arr #[Json.num e.1, Json.num e.2.1]))])
  pure (Json.mkObj [("out", Json.arr out)])

end Driver
