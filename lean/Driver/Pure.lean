/- Pure-layer operations of the driver. -/
import Driver.Json

open Lean Simpleline

namespace Driver

def resWd (r : Except RErr Wd) : Json :=
  match r with
  | .ok w => ofWSt w.st
  | .error e => Json.mkObj [("err", errName e)]

def opText (j : Json) : Except String Json := do
  let cc ← charClass (← field j "cc")
  let t ← str (← field j "text")
  let w ← int (← field j "w")
  match renderTextSt cc {} t w with
  | .ok s => pure (ofWSt s)
  | .error e => pure (Json.mkObj [("err", errName e)])

/-- one `TextWidget` object rendered at several widths in turn (the object state is threaded through) -/
def opTextSeq (j : Json) : Except String Json := do
  let cc ← charClass (← field j "cc")
  let t ← str (← field j "text")
  let ws ← (← arr (← field j "widths")).mapM int
  let mut st : WSt := {}
  let mut out : Array Json := #[]
  for w in ws do
    match renderTextSt cc st t w with
    | .ok s => st := s; out := out.push (ofWSt s)
    | .error e => out := out.push (Json.mkObj [("err", errName e)])
  pure (Json.arr out)

def opWrap (j : Json) : Except String Json := do
  let cc ← charClass (← field j "cc")
  let t ← str (← field j "text")
  let w ← nat (← field j "w")
  pure (Json.mkObj [("lines", ofGrid (pyWrap cc t w)), ("chunks", ofGrid (splitChunks cc (munge t)))])

def opInt (j : Json) : Except String Json := do
  let cc ← charClass (← field j "cc")
  let s ← str (← field j "s")
  match pyInt cc s with
  | some z => pure (Json.mkObj [("val", Json.str (toString z))])
  | none => pure (Json.mkObj [("val", Json.null)])

def opDraw (j : Json) : Except String Json := do
  let s ← wst (← field j "target")
  let src ← grid (← field j "src")
  let row ← optNat (fieldD j "row" Json.null)
  let col ← optNat (fieldD j "col" Json.null)
  let block ← bool (← field j "block")
  pure (ofWSt (s.drawAt src (row.getD s.cur.1) (col.getD s.cur.2) block))

def opWrite (j : Json) : Except String Json := do
  let s ← wst (← field j "target")
  let t ← str (← field j "text")
  let row ← optNat (fieldD j "row" Json.null)
  let col ← optNat (fieldD j "col" Json.null)
  let width ← optInt (fieldD j "width" Json.null)
  let maxw ← optNat (fieldD j "maxw" Json.null)
  let block ← bool (← field j "block")
  pure (ofWSt (s.writeAt t (row.getD s.cur.1) (col.getD s.cur.2) width block maxw))

/-- a sequence of `draw` / `write` calls on one kept widget object -/
def opGridSeq (j : Json) : Except String Json := do
  let mut s ← wst (← field j "target")
  let mut out : Array Json := #[]
  for st in ← arr (← field j "steps") do
    let row ← optNat (fieldD st "row" Json.null)
    let col ← optNat (fieldD st "col" Json.null)
    let block ← bool (← field st "block")
    match ← (← field st "op").getStr? with
    | "draw" =>
      let src ← grid (← field st "src")
      s := s.drawAt src (row.getD s.cur.1) (col.getD s.cur.2) block
    | "write" =>
      let t ← str (← field st "text")
      let width ← optInt (fieldD st "width" Json.null)
      s := s.writeAt t (row.getD s.cur.1) (col.getD s.cur.2) width block none
    | _ => throw "bad grid step"
    out := out.push (ofWSt s)
  pure (Json.arr out)

/-- the rendered lines of every descendant of a widget, in preorder (the widget itself excluded) -/
partial def nodesOf (w : Wd) : List Json :=
  let kids : List Wd := match w with
    | .center _ c => [c]
    | .window _ _ items => items
    | .list _ _ _ _ _ _ _ _ items => items
    | _ => []
  kids.flatMap fun k => ofGrid k.lines :: nodesOf k

def resWdNodes (r : Except RErr Wd) : Json :=
  match r with
  | .ok w => Json.mkObj [("lines", ofGrid w.st.buf), ("cur", ofCur w.st.cur), ("nodes", Json.arr (nodesOf w).toArray)]
  | .error e => Json.mkObj [("err", errName e)]

/-- a sequence of `render w` / `add subtree` on one kept object -/
def opTree (j : Json) : Except String Json := do
  let cc ← charClass (← field j "cc")
  let mut w ← tree (← field j "tree")
  let ops ← arr (← field j "ops")
  let mut out : Array Json := #[]
  for op in ops do
    match ← arr op with
    | [k, a] =>
      match ← k.getStr? with
      | "render" =>
        let r := w.render cc (← int a)
        out := out.push (resWdNodes r)
        match r with
        | .ok w' => w := w'
        | .error _ => pure ()
      | "add" => w := w.add (← tree a)
      | "set_kp" => w := w.setKp (← keyPat a)
      | _ => throw "bad tree op"
    | [k, a, b] =>
      match ← k.getStr? with
      | "add_at" => w := w.addAt (← (← arr a).mapM nat) (← tree b)
      | _ => throw "bad tree op"
    | _ => throw "bad tree op"
  pure (Json.arr out)

/-- a list container (possibly of containers) rendered once, then a sequence of keys typed at it: `process_user_input` looks at the key pattern and the
items only, whatever the callbacks did before -/
def opKeyTree (j : Json) : Except String Json := do
  let cc ← charClass (← field j "cc")
  let w ← tree (← field j "tree")
  let width ← int (← field j "w")
  let cbs ← (← arr (← field j "cbs")).mapM bool
  let keys ← (← arr (← field j "keys")).mapM optStr
  let kp := match w with
    | .list _ _ _ _ _ kp _ _ _ => kp
    | _ => none
  let res := keys.map fun k =>
    let r := processKey cc kp cbs k
    Json.mkObj [("handled", r.handled), ("fired", match r.fired with | some i => Json.num i | none => Json.null)]
  pure (Json.mkObj [("render", resWdNodes (w.render cc width)), ("keys", Json.arr res.toArray)])

/-- one kept `ColumnWidget` object rendered at several widths in turn -/
def opColumn (j : Json) : Except String Json := do
  let cc ← charClass (← field j "cc")
  let cols ← (← arr (← field j "cols")).mapM fun c => do
    match ← arr c with
    | [cw, items] => pure ((← optNat cw), (← (← arr items).mapM tree))
    | _ => throw "bad column"
  let mut c : ColW := { spacing := ← nat (← field j "spacing"), cols := cols }
  let mut out : Array Json := #[]
  for w in ← (← arr (← field j "widths")).mapM int do
    match c.render cc w with
    | .ok c' =>
      c := c'
      let kids := c'.cols.flatMap (·.2)
      out := out.push (Json.mkObj [("lines", ofGrid c'.st.buf), ("cur", ofCur c'.st.cur),
        ("nodes", Json.arr (kids.flatMap fun k => ofGrid k.lines :: nodesOf k).toArray)])
    | .error e => out := out.push (Json.mkObj [("err", errName e)])
  pure (Json.arr out)

def condOf (j : Json) : Except String Cond := do
  match ← arr j with
  | [k, a] =>
    match ← k.getStr? with
    | "min_len" => pure (.minLen (← nat a))
    | "max_len" => pure (.maxLen (← nat a))
    | "equals" => pure (.equals (← str a))
    | "differs" => pure (.differs (← str a))
    | "starts_with" => match ← str a with
      | [c] => pure (.startsWith c)
      | _ => throw "starts_with"
    | _ => throw "bad condition"
  | _ => throw "bad condition"

def dretName : DRet → String
  | .discarded => "DISCARDED" | .close => "CLOSE" | .exit1 => "exit1"

/-- one dialog object of simpleline/render/adv_widgets.py given a sequence of lines: what each `input()` returns and what the dialog remembers afterwards -/
def opDialog (j : Json) : Except String Json := do
  let keys ← (← arr (← field j "keys")).mapM str
  let optS (o : Option (List Char)) : Json := match o with | some s => ofStr s | none => Json.null
  match ← (← field j "kind").getStr? with
  | "yesno" =>
    let mut d : YesNo := {}
    let mut out : Array Json := #[]
    for k in keys do
      let r := d.input k; d := r.1
      out := out.push (Json.mkObj [("ret", dretName r.2), ("state", match d.answer with | some b => Json.bool b | none => Json.null)])
    pure (Json.arr out)
  | "password" =>
    let mut d : PwDialog := {}
    let mut out : Array Json := #[]
    for k in keys do
      let r := d.input k; d := r.1
      out := out.push (Json.mkObj [("ret", dretName r.2), ("state", optS d.password)])
    pure (Json.arr out)
  | "help" => pure (Json.arr (keys.map fun k => Json.mkObj [("ret", dretName (helpInput k)), ("state", Json.null)]).toArray)
  | "error" => pure (Json.arr (keys.map fun k => Json.mkObj [("ret", dretName (errorInput k)), ("state", Json.null)]).toArray)
  | "getinput" =>
    let conds ← (← arr (← field j "conds")).mapM condOf
    let mut d : GetInput := { conds := conds }
    let mut out : Array Json := #[]
    for k in keys do
      let asked := (testInput d.conds k).2
      let r := d.input k; d := r.1
      out := out.push (Json.mkObj [("ret", dretName r.2), ("state", optS d.value), ("asked", Json.num asked)])
    pure (Json.arr out)
  | _ => throw "bad dialog kind"

def opKey (j : Json) : Except String Json := do
  let cc ← charClass (← field j "cc")
  let kp ← keyPat (← field j "kp")
  let items ← (← arr (← field j "items")).mapM bool
  let key ← optStr (← field j "key")
  let r := processKey cc kp items key
  let labels := match kp with
    | some k => (List.range items.length).map fun i => ofStr (k.label i)
    | none => []
  pure (Json.mkObj [("handled", r.handled), ("fired", match r.fired with | some i => Json.num i | none => Json.null),
                    ("labels", Json.arr labels.toArray)])

def opPrompt (j : Json) : Except String Json := do
  let cc ← charClass (← field j "cc")
  let mut p : Prompt := { message := ← optStr (← field j "message") }
  for op in ← arr (← field j "ops") do
    match ← arr op with
    | [k, a, b] =>
      match ← k.getStr? with
      | "set" => p := p.setOption (← str a) (← str b)
      | _ => throw "bad prompt op"
    | [k, a] =>
      match ← k.getStr? with
      | "remove" => p := p.removeOption (← str a)
      | "message" => p := p.setMessage (← optStr a)
      | _ => throw "bad prompt op"
    | _ => throw "bad prompt op"
  let w ← int (← field j "w")
  let tp := match textPrompt cc p.str w with
    | .ok s => ofStr s
    | .error e => Json.mkObj [("err", errName e)]
  pure (Json.mkObj [("str", ofStr p.str), ("text_prompt", tp)])

/-- paging on `n` distinct lines (identified by their index); `-1` marks a continue request -/
def opPaging (j : Json) : Except String Json := do
  let n ← nat (← field j "n")
  let h ← nat (← field j "h")
  let ls := (List.range n).map fun i => (toString i).toList
  match printWidget ls h with
  | some evs => pure (Json.arr (evs.map fun e => match e with
      | .line l => Json.str (String.ofList l)
      | .ask => Json.num (-1 : Int)).toArray)
  | none => pure (Json.mkObj [("err", "OutOfDomain")])

def pureOp (op : String) (j : Json) : Option (Except String Json) :=
  match op with
  | "text" => some (opText j)
  | "textseq" => some (opTextSeq j)
  | "wrap" => some (opWrap j)
  | "int" => some (opInt j)
  | "draw" => some (opDraw j)
  | "write" => some (opWrite j)
  | "tree" => some (opTree j)
  | "gridseq" => some (opGridSeq j)
  | "key" => some (opKey j)
  | "keytree" => some (opKeyTree j)
  | "column" => some (opColumn j)
  | "dialog" => some (opDialog j)
  | "prompt" => some (opPrompt j)
  | "paging" => some (opPaging j)
  | _ => none

end Driver
