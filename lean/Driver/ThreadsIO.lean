/- Driver operation: replay a recorded trace of shared accesses through the thread model (C19 trace validation). -/
import Driver.Json
import Simpleline.Model.Threads

open Lean Simpleline.Threads

namespace Driver

def optNatJ (j : Json) : Except String (Option Nat) := if j.isNull then pure none else do pure (some (← j.getNat?))

def tevOf (a : List Json) : Except String Ev := do
  match a with
  | k :: rest =>
    match (← k.getStr?), rest with
    | "submit", [sid, src, prio] => pure (.submit { sid := ← sid.getNat?, src := ← optNatJ src, prio := ← prio.getInt? })
    | "acq", [l] => match ← l.getStr? with
      | "main" => pure .acqMain
      | _ => throw "lock"
    | "rel", [l] => match ← l.getStr? with
      | "main" => pure .relMain
      | _ => throw "lock"
    | "acq", [l, q] => match ← l.getStr? with
      | "q" => pure (.acqQ (← q.getNat?))
      | "o" => pure (.acqO (← q.getNat?))
      | _ => throw "lock"
    | "rel", [l, q] => match ← l.getStr? with
      | "q" => pure (.relQ (← q.getNat?))
      | "o" => pure (.relO (← q.getNat?))
      | _ => throw "lock"
    | "lv_iter", [lv] => pure (.lvIter (← (← lv.getArr?).toList.mapM Json.getNat?))
    | "contains", [q, src, res] => pure (.contains (← q.getNat?) (← optNatJ src) (← res.getBool?))
    | "put", [q, sid, prio, order] => pure (.put (← q.getNat?) (← sid.getNat?) (← prio.getInt?) (← order.getNat?))
    | "active_read", [q] => pure (.activeRead (← q.getNat?))
    | "active_write", [q] => pure (.activeWrite (← q.getNat?))
    | "lv_append", [q] => pure (.lvAppend (← q.getNat?))
    | "lv_pop", [q] => pure (.lvPop (← q.getNat?))
    | "lv_top", [q] => pure (.lvTop (← q.getNat?))
    | "get", [q, sid] => pure (.get (← q.getNat?) (← sid.getNat?))
    | "putback", [q, sid] => pure (.putBack (← q.getNat?) (← sid.getNat?))
    | "add_source", [q, src] => pure (.addSource (← q.getNat?) (← src.getNat?))
    | "new_loop", [sid, prio] => pure (.newLoop { sid := ← sid.getNat?, src := none, prio := ← prio.getInt? })
    | "reg_source", [src] => pure (.regSource (← src.getNat?))
    | k, _ => throw s!"thread event {k}"
  | [] => throw "empty thread event"

def opThreads (j : Json) : Except String Json := do
  let src0 ← (← arr (fieldD j "sources0" (Json.arr #[]))).mapM nat
  let evs ← (← arr (← field j "events")).mapM fun e => do
    match ← arr e with
    | t :: rest => pure ((← nat t), (← tevOf rest))
    | [] => throw "event"
  let (s, bad) := replay (initState src0) evs 0
  pure (Json.mkObj [
    ("accepted", Json.bool bad.isNone),
    ("rejected_at", match bad with | some i => Json.num i | none => Json.null),
    ("levels", Json.arr (s.levels.map fun (q : Nat) => Json.num q).toArray),
    ("active", Json.num s.active),
    ("queues", Json.arr (s.queues.map fun q => Json.mkObj [
        ("entries", Json.arr (q.entries.map fun e => Json.arr #[Json.num e.1, Json.num e.2.1, Json.num e.2.2]).toArray),
        ("sources", Json.arr (q.sources.map fun (n : Nat) => Json.num n).toArray)]).toArray),
    ("dispatched", Json.arr (s.dispatched.reverse.map fun d => Json.arr #[Json.num d.1, Json.num d.2]).toArray),
    ("completed", Json.arr (s.completed.reverse.map fun (n : Nat) => Json.num n).toArray),
    ("pcs_idle", Json.bool (s.pcs.all fun p => p == PC.idle))])

end Driver
