/- Driver operations: what the dialog screens show (Model/DialogViews.lean) and the whole `EventQueue` object
(Model/EventQueueObj.lean). -/
import Driver.Json
import Simpleline.Model.DialogViews
import Simpleline.Model.EventQueueObj

open Lean Simpleline

namespace Driver

/-- `{"op":"dialogview","kind":"error"|"password"|"yesno"|"help"|"getinput","msg": string|null,"w": int,"cc": ...}`
→ `{"title": string|null, "lines": [...] | "err": name, "prompt": string|null, "passprompt": string|null}`.
`msg = null` is allowed for `password` (no message argument), `help` (no help file) and `getinput`
(`Prompt(message=None)`, which prints like the empty message). -/
def opDialogView (j : Json) : Except String Json := do
  let cc ← charClass (← field j "cc")
  let w ← int (← field j "w")
  let msg ← optStr (fieldD j "msg" Json.null)
  let need : Except String Str := match msg with
    | some m => pure m
    | none => throw "dialogview: this kind needs a message"
  let k : DKind ← match ← (← field j "kind").getStr? with
    | "error" => do pure (DKind.error (← need))
    | "password" => pure (DKind.password msg)
    | "yesno" => do pure (DKind.yesNo (← need))
    | "help" => pure (DKind.help msg)
    | "getinput" => pure (DKind.getInput (msg.getD []))
    | _ => throw "dialogview: bad kind"
  let optJ : Option Str → Json := fun o => match o with | some s => ofStr s | none => Json.null
  let body : List (String × Json) := match k.windowLines cc w with
    | .ok g => [("lines", ofGrid g)]
    | .error e => [("err", Json.str (errName e))]
  pure (Json.mkObj ([("title", optJ k.title)] ++ body ++
    [("prompt", optJ k.promptStr), ("passprompt", optJ k.passPrompt)]))

/-- `{"op":"equeue","start": nat,"ops":[["put",prio],["get"],["get_top",prio],["add_source",k],
["remove_source",k],["contains",k],["put_if",prio,k]]}` →
`{"out":[{"r": null | signal id | "empty" | true | false | "EventQueueError", "heap":[[prio,seq],...]}, ...],
"sources":[sorted k...]}`; the n-th put/put_if (counting both, from 0) carries the signal `mkSig prio n`. -/
def opEQueue (j : Json) : Except String Json := do
  let start ← nat (fieldD j "start" (Json.num 0))
  let mut q : Heapq.HQueue := { seq := start }
  let mut n : Nat := 0
  let mut out : Array Json := #[]
  for o in ← arr (← field j "ops") do
    let op : EQObj.Op ← match ← arr o with
      | [k] => match ← k.getStr? with
        | "get" => pure EQObj.Op.get
        | _ => throw "bad equeue op"
      | [k, a] => match ← k.getStr? with
        | "put" => do pure (EQObj.Op.put (Heapq.mkSig (← int a) n))
        | "get_top" => do pure (EQObj.Op.getTop (← int a))
        | "add_source" => do pure (EQObj.Op.addSource (Src.obj (← nat a)))
        | "remove_source" => do pure (EQObj.Op.removeSource (Src.obj (← nat a)))
        | "contains" => do pure (EQObj.Op.contains (Src.obj (← nat a)))
        | _ => throw "bad equeue op"
      | [k, a, b] => match ← k.getStr? with
        | "put_if" => do pure (EQObj.Op.putIf (Heapq.mkSig (← int a) n) (Src.obj (← nat b)))
        | _ => throw "bad equeue op"
      | _ => throw "bad equeue op"
    match op with
    | .put _ => n := n + 1
    | .putIf _ _ => n := n + 1
    | _ => pure ()
    let r := EQObj.step q op
    q := r.2
    let res : Json := match r.1 with
      | .done => Json.null
      | .noSig => Json.null
      | .sig s => Json.num s.id
      | .blocked => Json.str "empty"
      | .removeError => Json.str "EventQueueError"
      | .bool b => Json.bool b
    out := out.push (Json.mkObj [("r", res),
      ("heap", Json.arr (q.heap.map fun e => Json.arr #[Json.num e.1, Json.num e.2.1]))])
  let ks : List Nat := q.sources.filterMap fun s => match s with | .obj k => some k | _ => none
  let sorted := (ks.toArray.qsort (· < ·)).toList
  pure (Json.mkObj [("out", Json.arr out), ("sources", Json.arr (sorted.map fun (k : Nat) => Json.num k).toArray)])

end Driver
