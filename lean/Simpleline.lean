import Simpleline.Model.Chars
import Simpleline.Model.Text
import Simpleline.Model.Grid
import Simpleline.Model.Widgets
import Simpleline.Model.KeyPattern
import Simpleline.Model.Prompt
import Simpleline.Model.Paging
