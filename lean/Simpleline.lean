-- This module serves as the root of the `Simpleline` library.
-- Import modules here that should be built as part of the library.
import Simpleline.Basic
