-- Root of the `Simpleline` library: the executable model. The property files `Simpleline/Props/Cxx.lean` (each importing its
-- own lemma files) are built through the library's glob `Simpleline.+` (see lakefile.toml); they are checked one by one, not
-- imported together (lemma files of different properties were written independently and reuse helper names).
import Simpleline.Model.Chars
import Simpleline.Model.Text
import Simpleline.Model.Grid
import Simpleline.Model.Widgets
import Simpleline.Model.KeyPattern
import Simpleline.Model.Prompt
import Simpleline.Model.Paging
import Simpleline.Model.Machine
import Simpleline.Model.Threads
import Simpleline.Model.GLoop
