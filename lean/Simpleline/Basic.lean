def hello := "world"
