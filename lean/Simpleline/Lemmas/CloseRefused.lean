/-
  A refused `close_screen(closed_from)`: the request names something else than the screen on top.
  `close_screen` checks `closed_from` against the top of the stack *before* it pops, so the refusal
  (`RenderUnexpectedError`) leaves the scheduler's state as it is: the step is `Cfg.raise .err`, which
  only drops code and — at the nearest `except Exception` scope — enqueues one exception signal.
-/
import Simpleline.Lemmas.SchedExamples

namespace Simpleline
set_option linter.unusedSimpArgs false

/-- an exception signal (whatever its source) being enqueued, or dropped after a force-quit -/
def Tr.isExcEnq : Tr → Bool
  | .enq _ s | .dropped s => s.cls = .exception
  | _ => false

theorem enqEv_isExcEnq (L : LoopSt) (s : Sig) : (enqEv L s).isExcEnq = decide (s.cls = .exception) := by
  unfold enqEv; split <;> rfl

theorem isExcEnq_not_sched {t : Tr} (h : t.isExcEnq = true) : t.isSched = false := by
  cases t <;> first | rfl | (cases h; done)

theorem isExcEnq_iff_from {t : Tr} : t.isExcEnq = true ↔ ∃ src, t.isExcFrom src = true := by
  cases t <;> simp [Tr.isExcEnq, Tr.isExcFrom]

/-- what unwinding an ordinary exception adds to the trace: nothing (no `except` scope is left: the run
ends), or the one exception signal enqueued by the scope that catches it -/
theorem unwind_err_tr (code : List Instr) (c : Cfg) :
    ∃ evs, (sOutCfg (unwind .err code c)).tr = evs ++ c.tr ∧ evs.length ≤ 1 ∧ ∀ t ∈ evs, t.isExcEnq = true := by
  induction code with
  | nil => exact ⟨[], by simp [unwind], by simp, by simp⟩
  | cons ins rest ih =>
    unfold unwind
    split
    · exact ⟨[_], by simp [Cfg.newSig]; rfl, by simp, by simp [Cfg.newSig, enqEv_isExcEnq]⟩
    · exact ⟨[_], by simp [Cfg.newSig]; rfl, by simp, by simp [Cfg.newSig, enqEv_isExcEnq]⟩
    · exact ⟨[_], by simp [Cfg.newSig]; rfl, by simp, by simp [Cfg.newSig, enqEv_isExcEnq]⟩
    · exact ⟨[_], by simp [Cfg.newSig]; rfl, by simp, by simp [Cfg.newSig, enqEv_isExcEnq]⟩
    · rename_i h; cases h
    · exact ih

theorem raised_err_tr (c : Cfg) :
    ∃ evs, (raised .err c).tr = evs ++ c.tr ∧ evs.length ≤ 1 ∧ ∀ t ∈ evs, t.isExcEnq = true := by
  rw [raised_eq]
  simpa using unwind_err_tr c.code c

/-- the step of a refused close -/
theorem step_close_refused (P : Prog) (c : Cfg) (src : Src) (e : Entry) (rest : List Instr)
    (hc : c.code = .closeScreen (some src) :: rest) (he : c.A.stack.getLast? = some e) (hne : src ≠ .scr e.screen) :
    step P c = ({ c with code := rest } : Cfg).raise .err :=
  close_step_refused P c (some src) e rest hc he ⟨by simp, by simpa using hne⟩

/-- … and what it leaves behind -/
theorem close_refused_effect {P : Prog} {c c' : Cfg} {src : Src} {e : Entry} {rest : List Instr}
    (hc : c.code = .closeScreen (some src) :: rest) (he : c.A.stack.getLast? = some e) (hne : src ≠ .scr e.screen)
    (h : StepTo P c c') :
    c'.A = c.A ∧ c'.log = c.log ∧ c'.code <:+ rest ∧
    ∃ evs, c'.tr = evs ++ c.tr ∧ evs.length ≤ 1 ∧ ∀ t ∈ evs, t.isExcEnq = true := by
  have hs := step_close_refused P c src e rest hc he hne
  have hc' : c' = raised .err ({ c with code := rest } : Cfg) := by
    rw [h.eq, hs]; rfl
  subst hc'
  exact ⟨raised_A _ _, raised_log _ _, raised_code_suffix _ _, raised_err_tr _⟩

/-! ### a concrete refused close -/

namespace Ex

/-- Screen 0 is scheduled; its first draw pushes the modal screen 1; the first draw of screen 1 enqueues
a `CloseScreenSignal` whose source is screen 2 — a screen that is not on the stack at all — which is
dispatched while screen 1 is on top. -/
def P10 : Prog :=
  { cc := asciiClass, width := 10, screens := [quiet, quiet, quiet],
    screenScript := fun scr cb n =>
      if scr = 0 ∧ cb = .show ∧ n = 0 then { acts := [.pushModal 1 none] }
      else if scr = 1 ∧ cb = .show ∧ n = 0 then { acts := [.closeSig 2] }
      else {} }

/-- the application handles `ExceptionSignal` itself (so it survives the `RenderUnexpectedError`) -/
def c10 : Cfg := initCfg [.schedule 0 none] [(.exception, .exc, none)] none []

/-- is `close_screen(src)` the next instruction? (`Instr` has no decidable equality) -/
def headCloseFrom (c : Cfg) (src : Src) : Bool :=
  match c.code with
  | .closeScreen (some s) :: _ => s == src
  | _ => false

theorem headCloseFrom_spec {c : Cfg} {src : Src} (h : headCloseFrom c src = true) :
    ∃ rest, c.code = .closeScreen (some src) :: rest := by
  unfold headCloseFrom at h
  split at h
  · rename_i s rest hc
    exact ⟨rest, by rw [hc, beq_iff_eq.1 h]⟩
  · cases h

end Ex

end Simpleline
