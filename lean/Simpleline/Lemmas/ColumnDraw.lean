/-
  Helper lemmas for C15b: what `drawStack` (one column) and `drawCols` (all columns) put into the buffer.
-/
import Simpleline.Lemmas.ColumnGrid

namespace Simpleline

/-! ### `gridsTop`, `gridsHeight`, `gridsExtent` -/

@[simp] theorem gridsTop_zero (gs : List Grid) : gridsTop gs 0 = 0 := by
  simp [gridsTop]

@[simp] theorem gridsTop_nil (j : Nat) : gridsTop [] j = 0 := by
  simp [gridsTop]

@[simp] theorem gridsTop_cons_succ (g : Grid) (gs : List Grid) (j : Nat) :
    gridsTop (g :: gs) (j + 1) = g.length + gridsTop gs j := by
  simp [gridsTop]

@[simp] theorem gridsHeight_nil : gridsHeight [] = 0 := rfl

@[simp] theorem gridsHeight_cons (g : Grid) (gs : List Grid) :
    gridsHeight (g :: gs) = g.length + gridsHeight gs := by
  simp [gridsHeight]

/-- a widget ends where the widgets below it start -/
theorem gridsTop_sep (gs : List Grid) : ∀ (j j' : Nat), j < j' →
    gridsTop gs j + (gs.getD j []).length ≤ gridsTop gs j' := by
  induction gs with
  | nil => intro j j' _; simp
  | cons g gs ih =>
    intro j j' hj
    obtain ⟨j'', rfl⟩ : ∃ j'', j' = j'' + 1 := ⟨j' - 1, by omega⟩
    cases j with
    | zero => simp
    | succ j =>
      have := ih j j'' (by omega)
      simp only [gridsTop_cons_succ, List.getD_cons_succ]
      omega

/-- every widget of a column lies within the column's height -/
theorem gridsTop_le_height (gs : List Grid) : ∀ j, gridsTop gs j + (gs.getD j []).length ≤ gridsHeight gs := by
  induction gs with
  | nil => intro j; simp
  | cons g gs ih =>
    intro j
    cases j with
    | zero => simp
    | succ j =>
      have := ih j
      simp only [gridsTop_cons_succ, List.getD_cons_succ, gridsHeight_cons]
      omega

theorem gridsExtent_ge (pos : Nat) (gs : List Grid) : ∀ j, gs.getD j [] ≠ [] →
    pos + gridWidth (gs.getD j []) ≤ gridsExtent pos gs := by
  induction gs with
  | nil => intro j h; simp at h
  | cons g gs ih =>
    intro j h
    cases j with
    | zero =>
      simp only [List.getD_cons_zero] at h ⊢
      simp only [gridsExtent, if_neg h]
      omega
    | succ j =>
      simp only [List.getD_cons_succ] at h ⊢
      have := ih j h
      simp only [gridsExtent]
      omega

/-- a column whose widgets all respect the width `n` reaches at most `pos + n` -/
theorem gridsExtent_le (pos n : Nat) (gs : List Grid) (h : ∀ g ∈ gs, gridWidth g ≤ n) :
    gridsExtent pos gs ≤ pos + n := by
  induction gs with
  | nil => simp [gridsExtent]
  | cons g gs ih =>
    have h1 := h g (List.mem_cons_self ..)
    have h2 := ih (fun g' hg' => h g' (List.mem_cons_of_mem _ hg'))
    simp only [gridsExtent]
    split <;> omega

/-! ### one column: `drawStack` -/

/-- a cell above the column's first row or left of the column survives -/
theorem drawStack_keep (col x p : Nat) (ch : Char) (gs : List Grid) :
    ∀ (B : Grid) (row : Nat), cell B x p = some ch → (x < row ∨ p < col) →
      cell (drawStack B row col gs) x p = some ch := by
  induction gs with
  | nil => intro B row h _; exact h
  | cons g gs ih =>
    intro B row h hd
    simp only [drawStack]
    apply ih
    · exact col_draw_keep B g row col x p ch h (by omega)
    · omega

/-- every widget of the column is shown at its row -/
theorem drawStack_shown (col : Nat) (gs : List Grid) :
    ∀ (B : Grid) (row j : Nat),
      ColShown (drawStack B row col gs) (gs.getD j []) (row + gridsTop gs j) col := by
  induction gs with
  | nil => intro B row j; simpa using colShown_nil _ _ _
  | cons g gs ih =>
    intro B row j
    cases j with
    | zero =>
      intro a b ch h
      simp only [List.getD_cons_zero] at h
      simp only [drawStack, gridsTop_zero, Nat.add_zero]
      apply drawStack_keep
      · exact colShown_draw B g row col a b ch h
      · have := (col_cell_some_lt h).1; omega
    | succ j =>
      have := ih (drawInto B g row col) (row + g.length) j
      simpa only [drawStack, List.getD_cons_succ, gridsTop_cons_succ, Nat.add_assoc] using this

/-- where a cell comes from after a column has been drawn -/
theorem drawStack_origin (col x y : Nat) (ch : Char) (gs : List Grid) :
    ∀ (B : Grid) (row : Nat), cell (drawStack B row col gs) x y = some ch →
      cell B x y = some ch ∨ ch = ' ' ∨
        ∃ j a b, x = row + gridsTop gs j + a ∧ y = col + b ∧ cell (gs.getD j []) a b = some ch := by
  induction gs with
  | nil => intro B row h; exact Or.inl h
  | cons g gs ih =>
    intro B row h
    simp only [drawStack] at h
    rcases ih _ _ h with h1 | h1 | ⟨j, a, b, hx, hy, hc⟩
    · rcases col_draw_origin B g row col x y ch h1 with h2 | h2 | ⟨a, b, hx, hy, hc⟩
      · exact Or.inl h2
      · exact Or.inr (Or.inl h2)
      · exact Or.inr (Or.inr ⟨0, a, b, by simpa using hx, hy, by simpa using hc⟩)
    · exact Or.inr (Or.inl h1)
    · refine Or.inr (Or.inr ⟨j + 1, a, b, ?_, hy, by simpa using hc⟩)
      simp only [gridsTop_cons_succ]; omega

theorem drawStack_length (col : Nat) (gs : List Grid) :
    ∀ (B : Grid) (row : Nat), row ≤ B.length →
      (drawStack B row col gs).length = max B.length (row + gridsHeight gs) := by
  induction gs with
  | nil => intro B row h; simp only [drawStack, gridsHeight_nil]; omega
  | cons g gs ih =>
    intro B row h
    simp only [drawStack, gridsHeight_cons]
    rw [ih _ _ (by rw [drawInto_length]; omega), drawInto_length]
    omega

theorem gridWidth_drawStack (col : Nat) (gs : List Grid) :
    ∀ (B : Grid) (row : Nat),
      gridWidth (drawStack B row col gs) = max (gridWidth B) (gridsExtent col gs) := by
  induction gs with
  | nil => intro B row; simp [drawStack, gridsExtent]
  | cons g gs ih =>
    intro B row
    simp only [drawStack, gridsExtent]
    rw [ih, col_gridWidth_drawInto]
    omega

/-! ### the starts of the columns -/

theorem colStartsFrom_length (spacing : Nat) (cols : List (Option Nat × List Grid)) :
    ∀ wide pos, (colStartsFrom spacing wide pos cols).length = cols.length := by
  induction cols with
  | nil => intro _ _; rfl
  | cons c cols ih => intro wide pos; obtain ⟨cw, gs⟩ := c; simp [colStartsFrom, ih]

/-- columns start at or right of the first one -/
theorem colStartsFrom_ge (spacing : Nat) (cols : List (Option Nat × List Grid)) :
    ∀ wide pos k, k < cols.length → pos ≤ (colStartsFrom spacing wide pos cols).getD k 0 := by
  induction cols with
  | nil => intro _ _ k hk; simp at hk
  | cons c cols ih =>
    intro wide pos k hk
    obtain ⟨cw, gs⟩ := c
    cases k with
    | zero => simp [colStartsFrom]
    | succ k =>
      simp only [colStartsFrom, List.getD_cons_succ]
      have := ih (max wide (gridsExtent pos gs))
        (max (pos + cw.getD 0) (max wide (gridsExtent pos gs)) + spacing) k (by simpa using hk)
      omega

/-- a later column starts at or right of the right edge of every widget of an earlier column -/
theorem colStartsFrom_sep (spacing : Nat) (cols : List (Option Nat × List Grid)) :
    ∀ wide pos k k' j, k < k' → k' < cols.length →
      (colStartsFrom spacing wide pos cols).getD k 0 +
          gridWidth (((cols.getD k (none, [])).2).getD j []) ≤
        (colStartsFrom spacing wide pos cols).getD k' 0 := by
  induction cols with
  | nil => intro _ _ k k' j _ hk; simp at hk
  | cons c cols ih =>
    intro wide pos k k' j hkk hk'
    obtain ⟨cw, gs⟩ := c
    obtain ⟨k'', rfl⟩ : ∃ k'', k' = k'' + 1 := ⟨k' - 1, by omega⟩
    have hk'' : k'' < cols.length := by simpa using hk'
    cases k with
    | zero =>
      simp only [colStartsFrom, List.getD_cons_zero, List.getD_cons_succ]
      have hge := colStartsFrom_ge spacing cols (max wide (gridsExtent pos gs))
        (max (pos + cw.getD 0) (max wide (gridsExtent pos gs)) + spacing) k'' hk''
      by_cases hg : gs.getD j [] = []
      · rw [hg, col_gridWidth_nil]; omega
      · have := gridsExtent_ge pos gs j hg
        omega
    | succ k =>
      simp only [colStartsFrom, List.getD_cons_succ]
      exact ih _ _ k k'' j (by omega) hk''

/-- the starts when every column has a declared width that its widgets respect: the fixed grid -/
theorem colStartsFrom_fixed (spacing : Nat) (cols : List (Option Nat × List Grid)) :
    ∀ wide pos, wide ≤ pos →
      (∀ c ∈ cols, ∃ n, c.1 = some n ∧ ∀ g ∈ c.2, gridWidth g ≤ n) →
      ∀ k, k < cols.length →
        (colStartsFrom spacing wide pos cols).getD k 0 =
          pos + ((cols.take k).map fun c => c.1.getD 0 + spacing).sum := by
  induction cols with
  | nil => intro _ _ _ _ k hk; simp at hk
  | cons c cols ih =>
    intro wide pos hw hall k hk
    obtain ⟨cw, gs⟩ := c
    cases k with
    | zero => simp [colStartsFrom]
    | succ k =>
      obtain ⟨n, hn, hg⟩ := hall (cw, gs) (List.mem_cons_self ..)
      simp only at hn hg
      subst hn
      have hext := gridsExtent_le pos n gs hg
      simp only [colStartsFrom, List.getD_cons_succ, Option.getD_some]
      rw [ih _ _ (by omega) (fun c hc => hall c (List.mem_cons_of_mem _ hc)) k (by simpa using hk)]
      simp only [List.take_succ_cons, List.map_cons, List.sum_cons, Option.getD_some]
      have : max (pos + n) (max wide (gridsExtent pos gs)) = pos + n := by omega
      rw [this]
      omega

/-! ### all columns: `drawCols` -/

/-- a cell left of the first column to be drawn survives -/
theorem drawCols_keep (spacing x p : Nat) (ch : Char) (cols : List (Option Nat × List Grid)) :
    ∀ (B : Grid) (pos : Nat), cell B x p = some ch → p < pos →
      cell (drawCols spacing B pos cols) x p = some ch := by
  induction cols with
  | nil => intro B pos h _; exact h
  | cons c cols ih =>
    intro B pos h hp
    obtain ⟨cw, gs⟩ := c
    simp only [drawCols]
    apply ih
    · exact drawStack_keep pos x p ch gs B 0 h (Or.inr hp)
    · omega

/-- every widget of every column is shown at its place -/
theorem drawCols_shown (spacing : Nat) (cols : List (Option Nat × List Grid)) :
    ∀ (B : Grid) (pos k j : Nat),
      ColShown (drawCols spacing B pos cols) (((cols.getD k (none, [])).2).getD j [])
        (gridsTop (cols.getD k (none, [])).2 j)
        ((colStartsFrom spacing (gridWidth B) pos cols).getD k 0) := by
  induction cols with
  | nil => intro B pos k j; simpa using colShown_nil _ _ _
  | cons c cols ih =>
    intro B pos k j
    obtain ⟨cw, gs⟩ := c
    cases k with
    | zero =>
      intro a b ch h
      simp only [List.getD_cons_zero] at h
      simp only [drawCols, colStartsFrom, List.getD_cons_zero]
      have hs := drawStack_shown pos gs B 0 j a b ch h
      rw [Nat.zero_add] at hs
      apply drawCols_keep _ _ _ _ _ _ _ hs
      have := col_cell_some_lt_width hs
      omega
    | succ k =>
      have := ih (drawStack B 0 pos gs)
        (max (pos + cw.getD 0) (gridWidth (drawStack B 0 pos gs)) + spacing) k j
      rw [gridWidth_drawStack] at this
      simpa only [drawCols, colStartsFrom, List.getD_cons_succ, gridWidth_drawStack] using this

/-- where a cell of the final buffer comes from -/
theorem drawCols_origin (spacing x y : Nat) (ch : Char) (cols : List (Option Nat × List Grid)) :
    ∀ (B : Grid) (pos : Nat), cell (drawCols spacing B pos cols) x y = some ch →
      cell B x y = some ch ∨ ch = ' ' ∨
        ∃ k j a b, x = gridsTop (cols.getD k (none, [])).2 j + a ∧
          y = (colStartsFrom spacing (gridWidth B) pos cols).getD k 0 + b ∧
          cell (((cols.getD k (none, [])).2).getD j []) a b = some ch := by
  induction cols with
  | nil => intro B pos h; exact Or.inl h
  | cons c cols ih =>
    intro B pos h
    obtain ⟨cw, gs⟩ := c
    simp only [drawCols] at h
    rcases ih _ _ h with h1 | h1 | ⟨k, j, a, b, hx, hy, hc⟩
    · rcases drawStack_origin pos x y ch gs B 0 h1 with h2 | h2 | ⟨j, a, b, hx, hy, hc⟩
      · exact Or.inl h2
      · exact Or.inr (Or.inl h2)
      · refine Or.inr (Or.inr ⟨0, j, a, b, ?_, ?_, ?_⟩)
        · simpa using hx
        · simpa [colStartsFrom] using hy
        · simpa using hc
    · exact Or.inr (Or.inl h1)
    · refine Or.inr (Or.inr ⟨k + 1, j, a, b, ?_, ?_, ?_⟩)
      · simpa using hx
      · rw [gridWidth_drawStack] at hy
        simpa only [colStartsFrom, List.getD_cons_succ] using hy
      · simpa using hc

theorem drawCols_length (spacing : Nat) (cols : List (Option Nat × List Grid)) :
    ∀ (B : Grid) (pos : Nat), (drawCols spacing B pos cols).length = max B.length (colsHeight cols) := by
  induction cols with
  | nil => intro B pos; simp [drawCols, colsHeight]
  | cons c cols ih =>
    intro B pos
    obtain ⟨cw, gs⟩ := c
    simp only [drawCols, colsHeight]
    rw [ih, drawStack_length pos gs B 0 (Nat.zero_le _)]
    omega

end Simpleline
