/-
  Helper lemmas for C15b: widths and cells of a buffer under one `drawInto`.
-/
import Simpleline.Lemmas.Grid
import Simpleline.Spec.ColumnSpec

namespace Simpleline

/-! ### `gridWidth` is the least upper bound of the row lengths -/

theorem col_foldl_max_le_iff (B : Grid) (a W : Nat) :
    B.foldl (fun acc l => max acc l.length) a ≤ W ↔ a ≤ W ∧ ∀ r ∈ B, r.length ≤ W := by
  induction B generalizing a with
  | nil => simp
  | cons r B ih =>
    rw [List.foldl_cons, ih]
    simp only [List.mem_cons, forall_eq_or_imp]
    constructor
    · rintro ⟨h1, h2⟩; exact ⟨by omega, by omega, h2⟩
    · rintro ⟨h1, h2, h3⟩; exact ⟨by omega, h3⟩

theorem col_gridWidth_le_iff (B : Grid) (W : Nat) : gridWidth B ≤ W ↔ ∀ r ∈ B, r.length ≤ W := by
  unfold gridWidth
  rw [col_foldl_max_le_iff]
  simp

theorem col_getD_mem_or (B : Grid) (x : Nat) : B.getD x [] = [] ∨ B.getD x [] ∈ B := by
  rw [List.getD_eq_getElem?_getD]
  by_cases hx : x < B.length
  · right; rw [List.getElem?_eq_getElem hx, Option.getD_some]; exact List.getElem_mem hx
  · left; rw [List.getElem?_eq_none (by omega)]; rfl

theorem col_gridWidth_le_iff_getD (B : Grid) (W : Nat) :
    gridWidth B ≤ W ↔ ∀ x, (B.getD x []).length ≤ W := by
  rw [col_gridWidth_le_iff]
  constructor
  · intro h x
    rcases col_getD_mem_or B x with h0 | hm
    · rw [h0]; exact Nat.zero_le _
    · exact h _ hm
  · intro h r hr
    have ⟨x, hx, hxr⟩ := List.getElem_of_mem hr
    have := h x
    rw [List.getD_eq_getElem?_getD, List.getElem?_eq_getElem hx, Option.getD_some, hxr] at this
    exact this

theorem col_row_le_gridWidth (B : Grid) (x : Nat) : (B.getD x []).length ≤ gridWidth B :=
  (col_gridWidth_le_iff_getD B _).1 (Nat.le_refl _) x

theorem col_mem_le_gridWidth (B : Grid) (r : List Char) (h : r ∈ B) : r.length ≤ gridWidth B :=
  (col_gridWidth_le_iff B _).1 (Nat.le_refl _) r h

@[simp] theorem col_gridWidth_nil : gridWidth [] = 0 := rfl

/-- the width of the target after one draw -/
theorem col_gridWidth_drawInto_le_iff (B src : Grid) (row col W : Nat) :
    gridWidth (drawInto B src row col) ≤ W ↔ gridWidth B ≤ W ∧ (src ≠ [] → col + gridWidth src ≤ W) := by
  constructor
  · intro h
    rw [col_gridWidth_le_iff_getD] at h
    refine ⟨?_, ?_⟩
    · rw [col_gridWidth_le_iff_getD]
      intro x
      have hx := h x
      rw [drawInto_getD] at hx
      split at hx
      · rw [overlay_length] at hx; omega
      · exact hx
    · intro hne
      have hrows : ∀ a, a < src.length → col + (src.getD a []).length ≤ W := by
        intro a ha
        have hx := h (row + a)
        rw [drawInto_row_length B src row col a ha] at hx
        omega
      have hpos : 0 < src.length := List.length_pos_iff.2 hne
      have hcol : col ≤ W := by have := hrows 0 hpos; omega
      have hgw : gridWidth src ≤ W - col := by
        rw [col_gridWidth_le_iff_getD]
        intro a
        by_cases ha : a < src.length
        · have := hrows a ha; omega
        · rw [List.getD_eq_getElem?_getD, List.getElem?_eq_none (by omega)]; exact Nat.zero_le _
      omega
  · intro ⟨hB, hs⟩
    rw [col_gridWidth_le_iff_getD] at hB ⊢
    intro x
    rw [drawInto_getD]
    split
    · rename_i hx
      rw [overlay_length]
      have hne : src ≠ [] := by
        intro e; subst e; simp at hx; omega
      have h1 := hs hne
      have h2 := col_row_le_gridWidth src (x - row)
      have h3 := hB x
      omega
    · exact hB x

theorem col_gridWidth_drawInto (B src : Grid) (row col : Nat) :
    gridWidth (drawInto B src row col) = max (gridWidth B) (if src = [] then 0 else col + gridWidth src) := by
  apply Nat.le_antisymm
  · rw [col_gridWidth_drawInto_le_iff]
    refine ⟨Nat.le_max_left _ _, fun hne => ?_⟩
    rw [if_neg hne]; exact Nat.le_max_right _ _
  · have h := (col_gridWidth_drawInto_le_iff B src row col _).1 (Nat.le_refl _)
    split
    · omega
    · rename_i hne
      have := h.2 hne
      omega

/-! ### cells -/

theorem col_cell_some_lt {g : Grid} {a b : Nat} {ch : Char} (h : cell g a b = some ch) :
    a < g.length ∧ b < (g.getD a []).length := by
  simp only [cell] at h
  have hb : b < (g.getD a []).length := by
    apply Nat.lt_of_not_le
    intro hle
    rw [List.getElem?_eq_none hle] at h
    cases h
  refine ⟨?_, hb⟩
  apply Nat.lt_of_not_le
  intro hle
  rw [List.getD_eq_getElem?_getD, List.getElem?_eq_none hle] at hb
  simp at hb

theorem col_cell_some_lt_width {g : Grid} {a b : Nat} {ch : Char} (h : cell g a b = some ch) :
    b < gridWidth g :=
  Nat.lt_of_lt_of_le (col_cell_some_lt h).2 (col_row_le_gridWidth g a)

theorem col_cell_nil (a b : Nat) : cell [] a b = none := by
  simp [cell]

/-- a cell that exists survives a draw that is in other rows or starts right of it -/
theorem col_draw_keep (B src : Grid) (row col x p : Nat) (ch : Char)
    (h : cell B x p = some ch) (hd : x < row ∨ row + src.length ≤ x ∨ p < col) :
    cell (drawInto B src row col) x p = some ch := by
  have hlt := (col_cell_some_lt h).2
  simp only [cell] at h ⊢
  by_cases hx : row ≤ x ∧ x < row + src.length
  · have hp : p < col := by omega
    rw [drawInto_getD, if_pos hx, overlay_getElem?_outside _ _ _ _ (Or.inl hp), if_pos hlt, h]
  · rw [drawInto_other_rows _ _ _ _ _ (by omega), h]

/-- where a cell of the target after one draw comes from: it was there, or it is padding, or it is a
character of the source at its place -/
theorem col_draw_origin (B src : Grid) (row col x y : Nat) (ch : Char)
    (h : cell (drawInto B src row col) x y = some ch) :
    cell B x y = some ch ∨ ch = ' ' ∨
      ∃ a b, x = row + a ∧ y = col + b ∧ cell src a b = some ch := by
  by_cases hx : row ≤ x ∧ x < row + src.length
  · obtain ⟨a, rfl⟩ : ∃ a, x = row + a := ⟨x - row, by omega⟩
    have ha : a < src.length := by omega
    by_cases hy : y < col ∨ col + (src.getD a []).length ≤ y
    · rw [drawInto_outside B src row col a y ha hy] at h
      split at h
      · exact Or.inl h
      · split at h
        · right; left; cases h; rfl
        · cases h
    · obtain ⟨b, rfl⟩ : ∃ b, y = col + b := ⟨y - col, by omega⟩
      have hb : b < (src.getD a []).length := by omega
      rw [drawInto_inside B src row col a b ha hb] at h
      exact Or.inr (Or.inr ⟨a, b, rfl, rfl, h⟩)
  · left
    simp only [cell] at h ⊢
    rwa [drawInto_other_rows _ _ _ _ _ (by omega)] at h

/-- every character of `src` is in the buffer at offset `(R, C)` -/
def ColShown (B src : Grid) (R C : Nat) : Prop :=
  ∀ a b ch, cell src a b = some ch → cell B (R + a) (C + b) = some ch

theorem colShown_nil (B : Grid) (R C : Nat) : ColShown B [] R C := by
  intro a b ch h
  rw [col_cell_nil] at h
  cases h

theorem colShown_draw (B src : Grid) (R C : Nat) : ColShown (drawInto B src R C) src R C := by
  intro a b ch h
  have ⟨ha, hb⟩ := col_cell_some_lt h
  rw [drawInto_inside B src R C a b ha hb, h]

end Simpleline
