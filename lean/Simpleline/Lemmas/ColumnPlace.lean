/-
  Helper lemmas for C15b: the placement statements for a `ColumnWidget` object (`ColW`).
-/
import Simpleline.Lemmas.ColumnRender

namespace Simpleline

/-! ### the accessors -/

theorem colGrids_length (cols : List (Option Nat × List Wd)) : (colGrids cols).length = cols.length := by
  simp [colGrids]

theorem colGrids_getD (cols : List (Option Nat × List Wd)) (k : Nat) (hk : k < cols.length) :
    (colGrids cols).getD k (none, []) = (cols[k].1, cols[k].2.map Wd.lines) := by
  simp [colGrids, List.getD_eq_getElem?_getD, List.getElem?_eq_getElem hk]

theorem colGrids_getD_none (cols : List (Option Nat × List Wd)) (k : Nat) (hk : cols.length ≤ k) :
    (colGrids cols).getD k (none, []) = (none, []) := by
  simp [colGrids, List.getD_eq_getElem?_getD, List.getElem?_eq_none hk]

theorem ColW.widgetGrid_eq (r : ColW) (k : Nat) (hk : k < r.cols.length) (j : Nat) (hj : j < r.cols[k].2.length) :
    r.widgetGrid k j = r.cols[k].2[j].lines := by
  unfold ColW.widgetGrid ColW.grids
  rw [colGrids_getD _ _ hk]
  simp [List.getD_eq_getElem?_getD, List.getElem?_eq_getElem hj]

theorem ColW.widgetGrid_none (r : ColW) (k j : Nat)
    (h : ¬ ∃ hk : k < r.cols.length, j < r.cols[k].2.length) : r.widgetGrid k j = [] := by
  by_cases hk : k < r.cols.length
  · have hj : r.cols[k].2.length ≤ j := by
      apply Nat.le_of_not_lt
      intro hj; exact h ⟨hk, hj⟩
    unfold ColW.widgetGrid ColW.grids
    rw [colGrids_getD _ _ hk]
    simp [List.getD_eq_getElem?_getD, hj]
  · unfold ColW.widgetGrid ColW.grids
    rw [colGrids_getD_none _ _ (Nat.le_of_not_lt hk)]
    rfl

/-! ### the result of a render -/

theorem ColW.render_shape (cc : CharClass) (c r : ColW) (w : Int) (h : c.render cc w = .ok r) :
    r.spacing = c.spacing ∧ r.cols.length = c.cols.length ∧
    (∀ k, (hk : k < c.cols.length) → (hk' : k < r.cols.length) →
      r.cols[k].1 = c.cols[k].1 ∧ r.cols[k].2.length = c.cols[k].2.length ∧
      ∀ j, (hj : j < c.cols[k].2.length) → (hj' : j < r.cols[k].2.length) →
        c.cols[k].2[j].render cc (colMaxW c.cols[k].1 w (r.colStart k)) = .ok r.cols[k].2[j]) ∧
    r.lines = drawCols r.spacing [] 0 r.grids := by
  obtain ⟨st, cols', h1, rfl⟩ := ColW.render_ok h
  obtain ⟨hl, hb, hr⟩ := renderColumnsFrom_shape cc _ _ _ _ _ _ _ h1
  refine ⟨rfl, hl, ?_, hb⟩
  intro k hk hk'
  obtain ⟨h1, h2, h3⟩ := hr k hk hk'
  exact ⟨h1, h2, h3⟩

theorem ColW.render_lines (cc : CharClass) (c r : ColW) (w : Int) (h : c.render cc w = .ok r) :
    r.lines = drawCols r.spacing [] 0 r.grids :=
  (ColW.render_shape cc c r w h).2.2.2

/-! ### placement -/

theorem ColW.places (r : ColW) (hl : r.lines = drawCols r.spacing [] 0 r.grids) (k j a b : Nat) (ch : Char)
    (hc : cell (r.widgetGrid k j) a b = some ch) :
    cell r.lines (r.widgetTop k j + a) (r.colStart k + b) = some ch := by
  rw [hl]
  exact drawCols_shown r.spacing r.grids [] 0 k j a b ch hc

theorem ColW.origin (r : ColW) (hl : r.lines = drawCols r.spacing [] 0 r.grids) (x y : Nat) (ch : Char)
    (hc : cell r.lines x y = some ch) :
    ch = ' ' ∨ ∃ k j a b, x = r.widgetTop k j + a ∧ y = r.colStart k + b ∧
      cell (r.widgetGrid k j) a b = some ch := by
  rw [hl] at hc
  rcases drawCols_origin r.spacing x y ch r.grids [] 0 hc with h1 | h1 | h1
  · rw [col_cell_nil] at h1; cases h1
  · exact Or.inl h1
  · exact Or.inr h1

theorem gridsHeight_le_colsHeight (cols : List (Option Nat × List Grid)) :
    ∀ k, gridsHeight (cols.getD k (none, [])).2 ≤ colsHeight cols := by
  induction cols with
  | nil => intro k; simp [colsHeight]
  | cons c cols ih =>
    intro k
    obtain ⟨cw, gs⟩ := c
    cases k with
    | zero => simp only [List.getD_cons_zero, colsHeight]; omega
    | succ k => have := ih k; simp only [List.getD_cons_succ, colsHeight]; omega

theorem ColW.height (r : ColW) (hl : r.lines = drawCols r.spacing [] 0 r.grids) :
    r.lines.length = colsHeight r.grids ∧
      ∀ k j, r.widgetTop k j + (r.widgetGrid k j).length ≤ r.lines.length := by
  have h1 : r.lines.length = colsHeight r.grids := by
    rw [hl, drawCols_length]; simp
  refine ⟨h1, fun k j => ?_⟩
  rw [h1]
  exact Nat.le_trans (gridsTop_le_height _ j) (gridsHeight_le_colsHeight _ k)

theorem ColW.sep (r : ColW) (k k' j j' : Nat) :
    (k < k' → k' < r.cols.length → r.colStart k + gridWidth (r.widgetGrid k j) ≤ r.colStart k') ∧
    (j < j' → r.widgetTop k j + (r.widgetGrid k j).length ≤ r.widgetTop k j') := by
  refine ⟨fun hk hk' => ?_, fun hj => ?_⟩
  · exact colStartsFrom_sep r.spacing r.grids 0 0 k k' j hk (by simpa [ColW.grids, colGrids_length] using hk')
  · exact gridsTop_sep _ j j' hj

/-- two widget cells at the same place of the buffer belong to the same widget -/
theorem ColW.unique (r : ColW) (k j a b k' j' a' b' : Nat) (ch ch' : Char)
    (hc : cell (r.widgetGrid k j) a b = some ch) (hc' : cell (r.widgetGrid k' j') a' b' = some ch')
    (hx : r.widgetTop k j + a = r.widgetTop k' j' + a') (hy : r.colStart k + b = r.colStart k' + b') :
    k = k' ∧ j = j' := by
  have hk : k < r.cols.length := by
    apply Nat.lt_of_not_le; intro hle
    rw [ColW.widgetGrid_none r k j (fun ⟨h, _⟩ => by omega), col_cell_nil] at hc; cases hc
  have hk' : k' < r.cols.length := by
    apply Nat.lt_of_not_le; intro hle
    rw [ColW.widgetGrid_none r k' j' (fun ⟨h, _⟩ => by omega), col_cell_nil] at hc'; cases hc'
  have ha := (col_cell_some_lt hc).1
  have ha' := (col_cell_some_lt hc').1
  have hb := col_cell_some_lt_width hc
  have hb' := col_cell_some_lt_width hc'
  have hkk : k = k' := by
    apply Nat.le_antisymm
    · apply Nat.le_of_not_lt; intro hlt
      have := (ColW.sep r k' k j' j).1 hlt hk
      omega
    · apply Nat.le_of_not_lt; intro hlt
      have := (ColW.sep r k k' j j').1 hlt hk'
      omega
  subst hkk
  refine ⟨rfl, ?_⟩
  apply Nat.le_antisymm
  · apply Nat.le_of_not_lt; intro hlt
    have := (ColW.sep r k k j' j).2 hlt
    omega
  · apply Nat.le_of_not_lt; intro hlt
    have := (ColW.sep r k k j j').2 hlt
    omega

/-! ### the `col_pos` recurrence -/

theorem colStartsFrom_rec (spacing : Nat) (cols : List (Option Nat × List Grid)) :
    ∀ (B : Grid) (pos k : Nat), k + 1 < cols.length →
      (colStartsFrom spacing (gridWidth B) pos cols).getD (k + 1) 0 =
        max ((colStartsFrom spacing (gridWidth B) pos cols).getD k 0 + (cols.getD k (none, [])).1.getD 0)
          (gridWidth (drawCols spacing B pos (cols.take (k + 1)))) + spacing := by
  induction cols with
  | nil => intro _ _ k hk; simp at hk
  | cons c cols ih =>
    intro B pos k hk
    obtain ⟨cw, gs⟩ := c
    cases k with
    | zero =>
      cases cols with
      | nil => simp at hk
      | cons c' cols' =>
        obtain ⟨cw', gs'⟩ := c'
        simp [colStartsFrom, drawCols, gridWidth_drawStack]
    | succ k =>
      have := ih (drawStack B 0 pos gs)
        (max (pos + cw.getD 0) (gridWidth (drawStack B 0 pos gs)) + spacing) k (by simpa using hk)
      rw [gridWidth_drawStack] at this
      simpa only [colStartsFrom, List.getD_cons_succ, List.take_succ_cons, drawCols, gridWidth_drawStack]
        using this

theorem ColW.colStart_zero (r : ColW) : r.colStart 0 = 0 := by
  unfold ColW.colStart
  cases h : r.grids with
  | nil => rfl
  | cons c cols => obtain ⟨cw, gs⟩ := c; rfl

theorem ColW.colStart_succ (r : ColW) (k : Nat) (hk : k + 1 < r.cols.length) :
    r.colStart (k + 1) =
      max (r.colStart k + (r.cols[k]'(by omega)).1.getD 0)
        (gridWidth (drawCols r.spacing [] 0 (r.grids.take (k + 1)))) + r.spacing := by
  have := colStartsFrom_rec r.spacing r.grids [] 0 k (by simpa [ColW.grids, colGrids_length] using hk)
  rw [ColW.grids, colGrids_getD _ _ (by omega : k < r.cols.length)] at this
  exact this

/-! ### the fixed grid -/

theorem ColW.fixed_grid (r : ColW)
    (hw : ∀ p ∈ r.cols, ∃ n, p.1 = some n ∧ ∀ it ∈ p.2, ∀ row ∈ it.lines, row.length ≤ n)
    (k : Nat) (hk : k < r.cols.length) :
    r.colStart k = ((r.cols.take k).map fun p => p.1.getD 0 + r.spacing).sum := by
  have := colStartsFrom_fixed r.spacing r.grids 0 0 (Nat.le_refl _) (by
    intro c hc
    simp only [ColW.grids, colGrids, List.mem_map] at hc
    obtain ⟨p, hp, rfl⟩ := hc
    obtain ⟨n, hn, hrows⟩ := hw p hp
    refine ⟨n, hn, ?_⟩
    intro g hg
    simp only [List.mem_map] at hg
    obtain ⟨it, hit, rfl⟩ := hg
    rw [col_gridWidth_le_iff]
    exact hrows it hit) k (by simpa [ColW.grids, colGrids_length] using hk)
  unfold ColW.colStart
  rw [this]
  simp only [ColW.grids, colGrids, ← List.map_take, List.map_map, Nat.zero_add]
  rfl

end Simpleline
