/-
  Helper lemmas for C15b / C16b: `ColumnWidget.render` does not read the objects' state, keeps the
  contents, and is the drawing (`drawCols`) of the rendered widgets.
-/
import Simpleline.Lemmas.Widgets
import Simpleline.Lemmas.ColumnDraw

namespace Simpleline

/-! ### `Except` plumbing (private: generic names) -/

private theorem bind_eq_ok {ε α β} (x : Except ε α) (f : α → Except ε β) (b : β) :
    (x >>= f) = .ok b ↔ ∃ a, x = .ok a ∧ f a = .ok b := by
  cases x <;> simp [bind, Except.bind]

private theorem pure_eq_ok {ε α} (a b : α) : (pure a : Except ε α) = .ok b ↔ a = b := by
  simp [pure, Except.pure]

/-! ### rendering does not read the object state -/

theorem renderColItems_reset (cc : CharClass) (mw : Int) : ∀ (items : List Wd) (st : WSt),
    renderColItems cc mw st items = renderColItems cc mw st (resetList items)
  | [], _ => by simp only [resetList]
  | it :: its, st => by
    have ih1 := render_reset cc it mw
    have ih2 := renderColItems_reset cc mw its
    simp only [renderColItems, resetList, ← ih1, ← ih2]

/-- the contents of the columns: widths and the widgets' contents -/
def resetCols (cols : List (Option Nat × List Wd)) : List (Option Nat × List Wd) :=
  cols.map fun p => (p.1, resetList p.2)

theorem renderColumnsFrom_reset (cc : CharClass) (spacing : Nat) (width : Int) :
    ∀ (cols : List (Option Nat × List Wd)) (st : WSt) (pos : Nat),
      renderColumnsFrom cc spacing width st pos cols =
        renderColumnsFrom cc spacing width st pos (resetCols cols)
  | [], _, _ => by simp only [resetCols, List.map_nil]
  | (cw, items) :: rest, st, pos => by
    have ih1 := renderColItems_reset cc
    have ih2 := renderColumnsFrom_reset cc spacing width rest
    simp only [resetCols] at ih2 ⊢
    simp only [renderColumnsFrom, List.map_cons, ← ih1, ← ih2]

theorem ColW.reset_cols (c : ColW) : c.reset.cols = resetCols c.cols := rfl

theorem ColW.render_reset (cc : CharClass) (c : ColW) (w : Int) : c.render cc w = c.reset.render cc w := by
  simp only [ColW.render, ColW.reset_cols, ← renderColumnsFrom_reset]
  rfl

/-! ### inversion of successful renders -/

theorem renderColItems_cons_ok {cc : CharClass} {mw : Int} {st st' : WSt} {it : Wd} {its items' : List Wd}
    (h : renderColItems cc mw st (it :: its) = .ok (st', items')) :
    ∃ it' its', it.render cc mw = .ok it' ∧
      renderColItems cc mw (st.draw it'.lines true) its = .ok (st', its') ∧ items' = it' :: its' := by
  simp only [renderColItems, bind_eq_ok, pure_eq_ok, Prod.mk.injEq] at h
  obtain ⟨it', h1, ⟨st'', its'⟩, h2, rfl, rfl⟩ := h
  exact ⟨it', its', h1, h2, rfl⟩

theorem renderColumnsFrom_cons_ok {cc : CharClass} {spacing : Nat} {width : Int} {st st' : WSt} {pos : Nat}
    {cw : Option Nat} {items : List Wd} {rest cols' : List (Option Nat × List Wd)}
    (h : renderColumnsFrom cc spacing width st pos ((cw, items) :: rest) = .ok (st', cols')) :
    ∃ st1 items' rest',
      renderColItems cc (colMaxW cw width pos) { st with cur := (0, pos) } items = .ok (st1, items') ∧
      renderColumnsFrom cc spacing width st1 (max (pos + cw.getD 0) (gridWidth st1.buf) + spacing) rest =
        .ok (st', rest') ∧
      cols' = (cw, items') :: rest' := by
  simp only [renderColumnsFrom, bind_eq_ok, pure_eq_ok, Prod.mk.injEq] at h
  obtain ⟨⟨st1, items'⟩, h1, ⟨st2, rest'⟩, h2, rfl, rfl⟩ := h
  exact ⟨st1, items', rest', h1, h2, rfl⟩

theorem ColW.render_ok {cc : CharClass} {c r : ColW} {w : Int} (h : c.render cc w = .ok r) :
    ∃ st cols', renderColumnsFrom cc c.spacing w {} 0 c.cols = .ok (st, cols') ∧
      r = { st := st, spacing := c.spacing, cols := cols' } := by
  simp only [ColW.render, bind_eq_ok, pure_eq_ok] at h
  obtain ⟨⟨st, cols'⟩, h1, rfl⟩ := h
  exact ⟨st, cols', h1, rfl⟩

/-! ### rendering keeps the contents -/

theorem renderColItems_keeps (cc : CharClass) (mw : Int) : ∀ (items items' : List Wd) (st st' : WSt),
    renderColItems cc mw st items = .ok (st', items') → resetList items' = resetList items
  | [], _, _, _, h => by
    simp only [renderColItems, pure_eq_ok, Prod.mk.injEq] at h
    rw [h.2]
  | it :: its, items', st, st', h => by
    obtain ⟨it', its', h1, h2, rfl⟩ := renderColItems_cons_ok h
    have ih1 := render_keeps cc it it' mw h1
    have ih2 := renderColItems_keeps cc mw its its' _ _ h2
    simp only [resetList, ih1, ih2]

theorem renderColumnsFrom_keeps (cc : CharClass) (spacing : Nat) (width : Int) :
    ∀ (cols cols' : List (Option Nat × List Wd)) (st st' : WSt) (pos : Nat),
      renderColumnsFrom cc spacing width st pos cols = .ok (st', cols') → resetCols cols' = resetCols cols
  | [], _, _, _, _, h => by
    simp only [renderColumnsFrom, pure_eq_ok, Prod.mk.injEq] at h
    rw [h.2]
  | (cw, items) :: rest, cols', st, st', pos, h => by
    obtain ⟨st1, items', rest', h1, h2, rfl⟩ := renderColumnsFrom_cons_ok h
    have ih1 := renderColItems_keeps cc _ items items' _ _ h1
    have ih2 := renderColumnsFrom_keeps cc spacing width rest rest' _ _ _ h2
    simp only [resetCols] at ih2 ⊢
    simp only [List.map_cons, ih1, ih2]

theorem ColW.render_keeps (cc : CharClass) (c r : ColW) (w : Int) (h : c.render cc w = .ok r) :
    r.reset = c.reset := by
  obtain ⟨st, cols', h1, rfl⟩ := ColW.render_ok h
  have := renderColumnsFrom_keeps cc _ _ _ _ _ _ _ h1
  simp only [resetCols] at this
  simp only [ColW.reset, this]

theorem ColW.render_congr_reset (cc : CharClass) {c d : ColW} (w : Int) (h : c.reset = d.reset) :
    c.render cc w = d.render cc w := by
  rw [ColW.render_reset cc c, ColW.render_reset cc d, h]

/-! ### a successful render is the drawing of the rendered widgets -/

/-- the widgets `its'` are the widgets `its` rendered at width `mw` -/
def ItemsRendered (cc : CharClass) (mw : Int) (its its' : List Wd) : Prop :=
  its'.length = its.length ∧
    ∀ j, (hj : j < its.length) → (hj' : j < its'.length) → its[j].render cc mw = .ok its'[j]

theorem renderColItems_shape (cc : CharClass) (mw : Int) : ∀ (items items' : List Wd) (st st' : WSt),
    renderColItems cc mw st items = .ok (st', items') →
      ItemsRendered cc mw items items' ∧
      st'.buf = drawStack st.buf st.cur.1 st.cur.2 (items'.map Wd.lines)
  | [], _, _, _, h => by
    simp only [renderColItems, pure_eq_ok, Prod.mk.injEq] at h
    obtain ⟨rfl, rfl⟩ := h
    exact ⟨⟨rfl, fun j hj => by simp at hj⟩, rfl⟩
  | it :: its, items', st, st', h => by
    obtain ⟨it', its', h1, h2, rfl⟩ := renderColItems_cons_ok h
    obtain ⟨⟨hl, hr⟩, hb⟩ := renderColItems_shape cc mw its its' _ _ h2
    refine ⟨⟨by simp [hl], ?_⟩, ?_⟩
    · intro j hj hj'
      cases j with
      | zero => simpa using h1
      | succ j => simpa using hr j (by simpa using hj) (by simpa using hj')
    · rw [hb]
      rfl

theorem renderColumnsFrom_shape (cc : CharClass) (spacing : Nat) (width : Int) :
    ∀ (cols cols' : List (Option Nat × List Wd)) (st st' : WSt) (pos : Nat),
      renderColumnsFrom cc spacing width st pos cols = .ok (st', cols') →
        cols'.length = cols.length ∧
        st'.buf = drawCols spacing st.buf pos (colGrids cols') ∧
        ∀ k, (hk : k < cols.length) → (hk' : k < cols'.length) →
          cols'[k].1 = cols[k].1 ∧
          ItemsRendered cc
            (colMaxW cols[k].1 width ((colStartsFrom spacing (gridWidth st.buf) pos (colGrids cols')).getD k 0))
            cols[k].2 cols'[k].2
  | [], _, _, _, _, h => by
    simp only [renderColumnsFrom, pure_eq_ok, Prod.mk.injEq] at h
    obtain ⟨rfl, rfl⟩ := h
    exact ⟨rfl, rfl, fun k hk => by simp at hk⟩
  | (cw, items) :: rest, cols', st, st', pos, h => by
    obtain ⟨st1, items', rest', h1, h2, rfl⟩ := renderColumnsFrom_cons_ok h
    obtain ⟨hir, hb1⟩ := renderColItems_shape cc _ items items' _ _ h1
    obtain ⟨hl, hb2, hr⟩ := renderColumnsFrom_shape cc spacing width rest rest' _ _ _ h2
    simp only at hb1
    refine ⟨by simp [hl], ?_, ?_⟩
    · rw [hb2, hb1]
      rfl
    · intro k hk hk'
      cases k with
      | zero => exact ⟨rfl, by simpa [colGrids, colStartsFrom] using hir⟩
      | succ k =>
        have := hr k (by simpa using hk) (by simpa using hk')
        rw [hb1, gridWidth_drawStack] at this
        simpa only [colGrids, List.map_cons, colStartsFrom, List.getD_cons_succ, List.getElem_cons_succ]
          using this

end Simpleline
