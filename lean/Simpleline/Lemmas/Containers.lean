/- Helper lemmas for C13 (layout of list containers). -/
import Simpleline.Spec.WidgetSpec
import Simpleline.Lemmas.ContainersOrder
import Simpleline.Lemmas.ContainersRender

namespace Simpleline

end Simpleline
