/- Helper lemmas for C13 (layout of list containers). -/
import Simpleline.Spec.WidgetSpec

namespace Simpleline

end Simpleline
