/-
  Helper lemmas for C13 (layout of list containers):
  `ContainersOrder` — cells, the ordered map, row heights, bands;
  `ContainersRender` — what `render` of a list container computes;
  `ContainersDraw` — where `drawColumns` puts the items and their labels.
-/
import Simpleline.Spec.WidgetSpec
import Simpleline.Lemmas.ContainersOrder
import Simpleline.Lemmas.ContainersRender
import Simpleline.Lemmas.ContainersDraw
