/-
  Helper lemmas for C13: where `drawColumns` puts the items and their number labels.
-/
import Simpleline.Lemmas.Grid
import Simpleline.Lemmas.ContainersOrder

namespace Simpleline

/-! ### cells and rows under `drawInto` -/

theorem cell_some_lt {g : Grid} {a b : Nat} {ch : Char} (h : cell g a b = some ch) :
    a < g.length ∧ b < (g.getD a []).length := by
  simp only [cell] at h
  have hb : b < (g.getD a []).length := by
    apply Nat.lt_of_not_le
    intro hle
    rw [List.getElem?_eq_none hle] at h
    cases h
  refine ⟨?_, hb⟩
  apply Nat.lt_of_not_le
  intro hle
  rw [List.getD_eq_getElem?_getD, List.getElem?_eq_none hle] at hb
  simp at hb

/-- a cell that exists survives a draw that is in other rows or starts right of it -/
theorem cdraw_cell_keep (B src : Grid) (row col x p : Nat) (ch : Char)
    (h : cell B x p = some ch) (hd : x < row ∨ row + src.length ≤ x ∨ p < col) :
    cell (drawInto B src row col) x p = some ch := by
  have hlt := (cell_some_lt h).2
  simp only [cell] at h ⊢
  by_cases hx : row ≤ x ∧ x < row + src.length
  · have hp : p < col := by omega
    rw [drawInto_getD, if_pos hx, overlay_getElem?_outside _ _ _ _ (Or.inl hp), if_pos hlt, h]
  · rw [drawInto_other_rows _ _ _ _ _ (by omega), h]

/-- every row of the grid is at most `W` long -/
def rowsWithin (W : Nat) (B : Grid) : Prop := ∀ x, (B.getD x []).length ≤ W

theorem rowsWithin_nil (W : Nat) : rowsWithin W [] := by
  intro x; simp

theorem cdraw_rowsWithin (W : Nat) (B src : Grid) (row col : Nat) (hB : rowsWithin W B)
    (hs : ∀ r ∈ src, col + r.length ≤ W) : rowsWithin W (drawInto B src row col) := by
  intro x
  rw [drawInto_getD]
  split
  · rename_i hx
    rw [overlay_length]
    have hlt : x - row < src.length := by omega
    have : col + (src.getD (x - row) []).length ≤ W := by
      rw [List.getD_eq_getElem?_getD, List.getElem?_eq_getElem hlt, Option.getD_some]
      exact hs _ (List.getElem_mem hlt)
    have := hB x
    omega
  · exact hB x

theorem foldl_max_length_le (W : Nat) (B : Grid) (a : Nat) (ha : a ≤ W) (h : ∀ r ∈ B, r.length ≤ W) :
    B.foldl (fun acc l => max acc l.length) a ≤ W := by
  induction B generalizing a with
  | nil => exact ha
  | cons r B ih =>
    rw [List.foldl_cons]
    apply ih
    · have := h r (List.mem_cons_self ..); omega
    · intro r' hr'; exact h r' (List.mem_cons_of_mem _ hr')

theorem gridWidth_le_of_rowsWithin (W : Nat) (B : Grid) (h : rowsWithin W B) : gridWidth B ≤ W := by
  apply foldl_max_length_le W B 0 (Nat.zero_le _)
  intro r hr
  have ⟨x, hx, hxr⟩ := List.getElem_of_mem hr
  have := h x
  rw [List.getD_eq_getElem?_getD, List.getElem?_eq_getElem hx, Option.getD_some, hxr] at this
  exact this

/-! ### a source shown in a buffer -/

/-- every character of `src` is in the buffer at offset `(R, C)` -/
def Shown (B src : Grid) (R C : Nat) : Prop :=
  ∀ a b ch, cell src a b = some ch → cell B (R + a) (C + b) = some ch

theorem shown_nil (B : Grid) (R C : Nat) : Shown B [] R C := by
  intro a b ch h
  simp [cell] at h

theorem shown_draw (B src : Grid) (R C : Nat) : Shown (drawInto B src R C) src R C := by
  intro a b ch h
  have ⟨ha, hb⟩ := cell_some_lt h
  rw [drawInto_inside B src R C a b ha hb, h]

theorem shown_keep {B B' src : Grid} {R C : Nat} (h : Shown B src R C)
    (hk : ∀ a b ch, a < src.length → b < (src.getD a []).length →
      cell B (R + a) (C + b) = some ch → cell B' (R + a) (C + b) = some ch) :
    Shown B' src R C := by
  intro a b ch hc
  have ⟨ha, hb⟩ := cell_some_lt hc
  exact hk a b ch ha hb (h a b ch hc)

/-! ### one item: its label, then the item itself -/

/-- the rendering of item `i` -/
def gridOf (grids : List Grid) (i : Nat) : Grid := grids.getD i []

theorem gridOf_eq (grids : List Grid) (i : Nat) (hi : i < grids.length) : gridOf grids i = grids[i] := by
  simp only [gridOf, List.getD_eq_getElem?_getD, List.getElem?_eq_getElem hi, Option.getD_some]

/-- the body of the loop in `drawColumn` -/
def stepSt (s : WSt) (colPos rowPos : Nat) (labels : List (Option NumW)) (grids : List Grid) (i : Nat) : WSt :=
  let s1 : WSt := { s with cur := (rowPos, colPos) }
  let s2 : WSt := match labels.getD i none with
    | some nw => { (s1.draw nw.st.buf false) with cur := (rowPos, colPos + nw.text.length) }
    | none => s1
  s2.draw (grids.getD i []) true

theorem drawColumn_cons (s : WSt) (colPos : Nat) (labels : List (Option NumW)) (grids : List Grid)
    (rowH : Nat → Nat) (i : Nat) (ids : List Nat) (rowId rowPos : Nat) :
    drawColumn s colPos labels grids rowH (i :: ids) rowId rowPos =
      drawColumn (stepSt s colPos rowPos labels grids i) colPos labels grids rowH ids (rowId + 1)
        (rowPos + rowH rowId) := rfl

/-- the buffer after the label of item `i` has been drawn -/
def stepMid (B : Grid) (colPos rowPos : Nat) (labels : List (Option NumW)) (i : Nat) : Grid :=
  match labels.getD i none with
  | some nw => drawInto B nw.st.buf rowPos colPos
  | none => B

theorem stepSt_buf (s : WSt) (colPos rowPos : Nat) (labels : List (Option NumW)) (grids : List Grid) (i : Nat) :
    (stepSt s colPos rowPos labels grids i).buf =
      drawInto (stepMid s.buf colPos rowPos labels i) (gridOf grids i) rowPos (colPos + labelLen labels i) := by
  unfold stepSt stepMid labelLen gridOf
  cases labels.getD i none <;> rfl

theorem stepMid_keep (B : Grid) (colPos rowPos : Nat) (labels : List (Option NumW)) (i x p : Nat) (ch : Char)
    (h : cell B x p = some ch) (hd : x < rowPos ∨ p < colPos) :
    cell (stepMid B colPos rowPos labels i) x p = some ch := by
  unfold stepMid
  split
  · exact cdraw_cell_keep _ _ _ _ _ _ _ h (by omega)
  · exact h

theorem stepMid_rowsWithin (W : Nat) (B : Grid) (colPos rowPos : Nat) (labels : List (Option NumW)) (i : Nat)
    (hB : rowsWithin W B) (hs : ∀ r ∈ labelBuf labels i, colPos + r.length ≤ W) :
    rowsWithin W (stepMid B colPos rowPos labels i) := by
  unfold stepMid
  unfold labelBuf at hs
  split
  · rename_i nw heq
    rw [heq] at hs
    exact cdraw_rowsWithin W B _ _ _ hB hs
  · exact hB

theorem stepMid_shown (B : Grid) (colPos rowPos : Nat) (labels : List (Option NumW)) (i : Nat) :
    Shown (stepMid B colPos rowPos labels i) (labelBuf labels i) rowPos colPos := by
  unfold stepMid labelBuf
  cases labels.getD i none with
  | some nw => exact shown_draw _ _ _ _
  | none => exact shown_nil _ _ _

theorem stepSt_keep (s : WSt) (colPos rowPos : Nat) (labels : List (Option NumW)) (grids : List Grid)
    (i x p : Nat) (ch : Char) (h : cell s.buf x p = some ch) (hd : x < rowPos ∨ p < colPos) :
    cell (stepSt s colPos rowPos labels grids i).buf x p = some ch := by
  rw [stepSt_buf]
  exact cdraw_cell_keep _ _ _ _ _ _ _ (stepMid_keep _ _ _ _ _ _ _ _ h hd) (by omega)

theorem stepSt_rowsWithin (W : Nat) (s : WSt) (colPos rowPos : Nat) (labels : List (Option NumW))
    (grids : List Grid) (i : Nat) (hB : rowsWithin W s.buf)
    (hl : ∀ r ∈ labelBuf labels i, colPos + r.length ≤ W)
    (hg : ∀ r ∈ gridOf grids i, colPos + labelLen labels i + r.length ≤ W) :
    rowsWithin W (stepSt s colPos rowPos labels grids i).buf := by
  rw [stepSt_buf]
  exact cdraw_rowsWithin W _ _ _ _ (stepMid_rowsWithin W _ _ _ _ _ hB hl) hg

/-- item `i` and its label are shown at `(R, C)` -/
def Placed (B : Grid) (labels : List (Option NumW)) (grids : List Grid) (i R C : Nat) : Prop :=
  Shown B (gridOf grids i) R (C + labelLen labels i) ∧ Shown B (labelBuf labels i) R C

theorem stepSt_placed (s : WSt) (colPos rowPos : Nat) (labels : List (Option NumW)) (grids : List Grid) (i : Nat)
    (hfit : ∀ row ∈ labelBuf labels i, row.length ≤ labelLen labels i) :
    Placed (stepSt s colPos rowPos labels grids i).buf labels grids i rowPos colPos := by
  rw [stepSt_buf]
  refine ⟨shown_draw _ _ _ _, shown_keep (stepMid_shown s.buf _ _ _ _) ?_⟩
  intro a b ch ha hb hcell
  apply cdraw_cell_keep _ _ _ _ _ _ _ hcell
  right; right
  have hmem : (labelBuf labels i).getD a [] ∈ labelBuf labels i := by
    rw [List.getD_eq_getElem?_getD, List.getElem?_eq_getElem ha, Option.getD_some]
    exact List.getElem_mem ha
  have := hfit _ hmem
  omega

theorem placed_keep {B B' : Grid} {labels : List (Option NumW)} {grids : List Grid} {i R C : Nat} (H : Nat)
    (h : Placed B labels grids i R C)
    (hH : max (gridOf grids i).length (labelBuf labels i).length ≤ H)
    (hk : ∀ x p ch, x < R + H → cell B x p = some ch → cell B' x p = some ch) :
    Placed B' labels grids i R C := by
  refine ⟨shown_keep h.1 ?_, shown_keep h.2 ?_⟩
  · intro a b ch ha _ hc
    exact hk _ _ _ (by omega) hc
  · intro a b ch ha _ hc
    exact hk _ _ _ (by omega) hc

/-! ### one column -/

theorem drawColumn_keep (colPos : Nat) (labels : List (Option NumW)) (grids : List Grid) (rowH : Nat → Nat)
    (x p : Nat) (ch : Char) :
    ∀ (ids : List Nat) (s : WSt) (rowId rowPos : Nat), cell s.buf x p = some ch →
      (x < rowPos ∨ p < colPos) →
      cell (drawColumn s colPos labels grids rowH ids rowId rowPos).buf x p = some ch := by
  intro ids
  induction ids with
  | nil => intro s rowId rowPos h _; exact h
  | cons i ids ih =>
    intro s rowId rowPos h hd
    rw [drawColumn_cons]
    exact ih _ _ _ (stepSt_keep _ _ _ _ _ _ _ _ _ h hd) (by omega)

theorem drawColumn_rowsWithin (W colPos : Nat) (labels : List (Option NumW)) (grids : List Grid)
    (rowH : Nat → Nat) :
    ∀ (ids : List Nat) (s : WSt) (rowId rowPos : Nat), rowsWithin W s.buf →
      (∀ i ∈ ids, (∀ r ∈ labelBuf labels i, colPos + r.length ≤ W) ∧
        (∀ r ∈ gridOf grids i, colPos + labelLen labels i + r.length ≤ W)) →
      rowsWithin W (drawColumn s colPos labels grids rowH ids rowId rowPos).buf := by
  intro ids
  induction ids with
  | nil => intro s rowId rowPos h _; exact h
  | cons i ids ih =>
    intro s rowId rowPos h hall
    rw [drawColumn_cons]
    have ⟨hl, hg⟩ := hall i (List.mem_cons_self ..)
    exact ih _ _ _ (stepSt_rowsWithin W _ _ _ _ _ _ h hl hg)
      (fun j hj => hall j (List.mem_cons_of_mem _ hj))

theorem drawColumn_placed (colPos : Nat) (labels : List (Option NumW)) (grids : List Grid) (rowH : Nat → Nat) :
    ∀ (ids : List Nat) (s : WSt) (rowId : Nat),
      (∀ i ∈ ids, ∀ row ∈ labelBuf labels i, row.length ≤ labelLen labels i) →
      (∀ t, (ht : t < ids.length) →
        max (gridOf grids ids[t]).length (labelBuf labels ids[t]).length ≤ rowH (rowId + t)) →
      ∀ t, (ht : t < ids.length) →
        Placed (drawColumn s colPos labels grids rowH ids rowId (rowTop rowH rowId)).buf labels grids
          ids[t] (rowTop rowH (rowId + t)) colPos := by
  intro ids
  induction ids with
  | nil => intro s rowId _ _ t ht; simp at ht
  | cons i ids ih =>
    intro s rowId hfit hH t ht
    rw [drawColumn_cons, ← rowTop_succ]
    cases t with
    | zero =>
      have h0 := stepSt_placed s colPos (rowTop rowH rowId) labels grids i
        (hfit i (List.mem_cons_self ..))
      have hH0 := hH 0 (by simp)
      simp only [List.getElem_cons_zero, Nat.add_zero] at hH0 ⊢
      refine placed_keep (rowH rowId) h0 hH0 ?_
      intro x p ch hx hcell
      exact drawColumn_keep _ _ _ _ _ _ _ _ _ _ _ hcell (Or.inl (by rw [rowTop_succ]; exact hx))
    | succ t =>
      have ht' : t < ids.length := by simpa using ht
      have := ih (stepSt s colPos (rowTop rowH rowId) labels grids i) (rowId + 1)
        (fun j hj => hfit j (List.mem_cons_of_mem _ hj))
        (fun u hu => by
          have := hH (u + 1) (by simpa using hu)
          simp only [List.getElem_cons_succ] at this
          rw [show rowId + 1 + u = rowId + (u + 1) by omega]
          exact this)
        t ht'
      simp only [List.getElem_cons_succ]
      rw [show rowId + (t + 1) = rowId + 1 + t by omega]
      exact this

/-! ### all the columns -/

theorem drawColumns_keep (used : Int) (hu : 0 ≤ used) (spacing : Nat) (labels : List (Option NumW))
    (grids : List Grid) (rowH : Nat → Nat) (x p : Nat) (ch : Char) :
    ∀ (cols : List (List Nat)) (s : WSt) (colPos : Nat), cell s.buf x p = some ch → p < colPos →
      cell (drawColumns used spacing labels grids rowH cols s colPos).buf x p = some ch := by
  intro cols
  induction cols with
  | nil => intro s colPos h _; exact h
  | cons ids cols ih =>
    intro s colPos h hp
    simp only [drawColumns]
    exact ih _ _ (drawColumn_keep _ _ _ _ _ _ _ _ _ _ _ h (Or.inr hp)) (by omega)

/-- what `LayoutOK` says about the widths of item `i` drawn at band position `colPos` -/
theorem layoutOK_widths {used : Int} {labels : List (Option NumW)} {grids : List Grid}
    (ok : LayoutOK used labels grids) (colPos i : Nat) (hi : i < grids.length) :
    (∀ r ∈ labelBuf labels i, colPos + r.length ≤ colPos + used.toNat) ∧
    (∀ r ∈ gridOf grids i, colPos + labelLen labels i + r.length ≤ colPos + used.toNat) := by
  constructor
  · intro r hr
    have h1 := ok.label_fits i hi r hr
    rcases ok.label_room i hi with h2 | h2
    · omega
    · rw [h2] at hr; cases hr
  · intro r hr
    rw [gridOf_eq grids i hi] at hr
    have := ok.item_fits i hi r hr
    omega

theorem drawColumns_placed (cm : Bool) (columns : Nat) (hc : 1 ≤ columns) (used : Int) (spacing : Nat)
    (labels : List (Option NumW)) (grids : List Grid) (rowH : Nat → Nat)
    (ok : LayoutOK used labels grids)
    (hH : ∀ i, (hi : i < grids.length) →
      max grids[i].length (labelBuf labels i).length ≤ rowH (cellOf cm columns grids.length i).1) :
    ∀ (cols : List (List Nat)) (k : Nat) (s : WSt) (colPos : Nat),
      cols = (orderedMap cm columns grids.length).drop k → colPos = colLeft used spacing k →
      rowsWithin (colPos + used.toNat) s.buf →
      ∀ c r, k ≤ c → (hcl : c < (orderedMap cm columns grids.length).length) →
        (hr : r < ((orderedMap cm columns grids.length)[c]).length) →
        Placed (drawColumns used spacing labels grids rowH cols s colPos).buf labels grids
          (((orderedMap cm columns grids.length)[c])[r]) (rowTop rowH r) (colLeft used spacing c) := by
  intro cols
  induction cols with
  | nil =>
    intro k s colPos hcols _ _ c r hkc hcl _
    have := congrArg List.length hcols
    simp only [List.length_nil, List.length_drop] at this
    omega
  | cons ids cols ih =>
    intro k s colPos hcols hcp hw c r hkc hcl hr
    have hupos := ok.used_pos
    have hk : k < (orderedMap cm columns grids.length).length := by
      have := congrArg List.length hcols
      simp only [List.length_cons, List.length_drop] at this
      omega
    rw [List.drop_eq_getElem_cons hk] at hcols
    injection hcols with hids hcols'
    subst hids
    -- the items of this column
    have hlt : ∀ i ∈ (orderedMap cm columns grids.length)[k], i < grids.length :=
      fun i hi => orderedMap_mem_lt cm columns _ k hk i hi
    -- the column just drawn keeps every row within the band's right edge
    have hw' : rowsWithin (colPos + used.toNat)
        (drawColumn s colPos labels grids rowH (orderedMap cm columns grids.length)[k] 0 0).buf :=
      drawColumn_rowsWithin _ _ _ _ _ _ _ _ _ hw (fun i hi => layoutOK_widths ok colPos i (hlt i hi))
    have hgw := gridWidth_le_of_rowsWithin _ _ hw'
    have hnext : (max ((colPos : Int) + used)
        (gridWidth (drawColumn s colPos labels grids rowH (orderedMap cm columns grids.length)[k] 0 0).buf : Int)).toNat
        + spacing = colLeft used spacing (k + 1) := by
      rw [colLeft_succ, ← hcp]; omega
    simp only [drawColumns]
    rw [hnext]
    by_cases hck : k = c
    · subst hck
      -- this column: placed by `drawColumn`, kept by the later columns
      have hi := hlt _ (List.getElem_mem hr)
      have hP : Placed (drawColumn s colPos labels grids rowH (orderedMap cm columns grids.length)[k] 0 0).buf
          labels grids (((orderedMap cm columns grids.length)[k])[r]) (rowTop rowH r) colPos := by
        have := drawColumn_placed colPos labels grids rowH (orderedMap cm columns grids.length)[k] s 0
          (fun i hi => ok.label_fits i (hlt i hi))
          (fun t ht => by
            have hi := hlt _ (List.getElem_mem ht)
            have := hH _ hi
            rw [orderedMap_cell cm columns grids.length hc k hk t ht] at this
            rw [gridOf_eq grids _ hi, Nat.zero_add]
            exact this)
          r hr
        rw [Nat.zero_add] at this
        exact this
      have hHi := hH _ hi
      rw [orderedMap_cell cm columns grids.length hc k hk r hr, ← gridOf_eq grids _ hi] at hHi
      rw [← hcp]
      refine placed_keep (rowH r) hP hHi ?_
      intro x p ch _ hcell
      have hp : p < colPos + used.toNat := by
        have := (cell_some_lt hcell).2
        have := hw' x
        omega
      exact drawColumns_keep used (by omega) spacing labels grids rowH x p ch _ _ _ hcell
        (by rw [colLeft_succ, ← hcp]; omega)
    · exact ih (k + 1) _ _ hcols' rfl
        (fun x => by
          have := hw' x
          rw [colLeft_succ, ← hcp]
          omega)
        c r (by omega) hcl hr

/-! ### the whole container -/

theorem cell_getElem (g : Grid) (a b : Nat) (ha : a < g.length) (hb : b < (g[a]).length) :
    cell g a b = some (g[a])[b] := by
  simp only [cell, List.getD_eq_getElem?_getD, List.getElem?_eq_getElem ha, Option.getD_some,
    List.getElem?_eq_getElem hb]

theorem container_placed (cm : Bool) (columns : Nat) (hc : 1 ≤ columns) (used : Int) (spacing : Nat)
    (labels : List (Option NumW)) (grids : List Grid) (rowH : Nat → Nat)
    (ok : LayoutOK used labels grids)
    (hH : ∀ i, (hi : i < grids.length) →
      max grids[i].length (labelBuf labels i).length ≤ rowH (cellOf cm columns grids.length i).1)
    (i : Nat) (hi : i < grids.length) :
    Placed (drawColumns used spacing labels grids rowH (orderedMap cm columns grids.length) {} 0).buf
      labels grids i (rowTop rowH (cellOf cm columns grids.length i).1)
      (colLeft used spacing (cellOf cm columns grids.length i).2) := by
  have ⟨hcl, hr, hfind⟩ := orderedMap_find cm columns grids.length hc i hi
  have P := drawColumns_placed cm columns hc used spacing labels grids rowH ok hH
    (orderedMap cm columns grids.length) 0 {} 0 List.drop_zero.symm (colLeft_zero used spacing).symm
    (rowsWithin_nil _) _ _ (Nat.zero_le _) hcl hr
  rw [hfind] at P
  exact P

theorem place_items (cm : Bool) (columns : Nat) (hc : 1 ≤ columns) (used : Int) (spacing : Nat)
    (labels : List (Option NumW)) (grids : List Grid) (rowH : Nat → Nat)
    (ok : LayoutOK used labels grids)
    (hH : ∀ i, (hi : i < grids.length) →
      max grids[i].length (labelBuf labels i).length ≤ rowH (cellOf cm columns grids.length i).1)
    (i : Nat) (hi : i < grids.length) (a b : Nat) (ha : a < grids[i].length) (hb : b < (grids[i][a]).length) :
    cell (drawColumns used spacing labels grids rowH (orderedMap cm columns grids.length) {} 0).buf
      (rowTop rowH (cellOf cm columns grids.length i).1 + a)
      (colLeft used spacing (cellOf cm columns grids.length i).2 + labelLen labels i + b) = some (grids[i][a])[b] := by
  have P := (container_placed cm columns hc used spacing labels grids rowH ok hH i hi).1
  apply P a b
  rw [gridOf_eq grids i hi]
  exact cell_getElem _ a b ha hb

theorem place_labels (cm : Bool) (columns : Nat) (hc : 1 ≤ columns) (used : Int) (spacing : Nat)
    (labels : List (Option NumW)) (grids : List Grid) (rowH : Nat → Nat)
    (ok : LayoutOK used labels grids)
    (hH : ∀ i, (hi : i < grids.length) →
      max grids[i].length (labelBuf labels i).length ≤ rowH (cellOf cm columns grids.length i).1)
    (i : Nat) (hi : i < grids.length) (row : List Char) (hrow : labelBuf labels i = [row]) (b : Nat) (hb : b < row.length) :
    cell (drawColumns used spacing labels grids rowH (orderedMap cm columns grids.length) {} 0).buf
      (rowTop rowH (cellOf cm columns grids.length i).1)
      (colLeft used spacing (cellOf cm columns grids.length i).2 + b) = some row[b] := by
  have P := (container_placed cm columns hc used spacing labels grids rowH ok hH i hi).2
  have := P 0 b row[b] (by
    rw [hrow]
    exact cell_getElem [row] 0 b (by simp) (by simpa using hb))
  rw [Nat.add_zero] at this
  exact this

end Simpleline
