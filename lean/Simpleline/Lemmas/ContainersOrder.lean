/-
  Helper lemmas for C13: the arithmetic of cells, the ordered map, row heights, bands.
-/
import Simpleline.Spec.WidgetSpec

namespace Simpleline

/-! ### `cellOf` -/

theorem cellOf_false (columns n i : Nat) : cellOf false columns n i = (i / columns, i % columns) := rfl

theorem cellOf_true (columns n i : Nat) :
    cellOf true columns n i = (i % ((n + columns - 1) / columns), i / ((n + columns - 1) / columns)) := rfl

/-- items per column in column-major order: positive and enough for all the items -/
theorem perCol_spec (columns n : Nat) (hc : 1 ≤ columns) (hn : 0 < n) :
    0 < (n + columns - 1) / columns ∧ n ≤ (n + columns - 1) / columns * columns := by
  have h1 := Nat.div_add_mod (n + columns - 1) columns
  have h2 := Nat.mod_lt (n + columns - 1) (show columns > 0 by omega)
  have h3 : columns * ((n + columns - 1) / columns) = (n + columns - 1) / columns * columns :=
    Nat.mul_comm _ _
  constructor
  · apply Nat.pos_of_ne_zero
    intro h0
    rw [h0] at h1
    omega
  · omega

theorem divmod_inj (k i j : Nat) (h1 : i / k = j / k) (h2 : i % k = j % k) : i = j := by
  have hi := Nat.div_add_mod i k
  have hj := Nat.div_add_mod j k
  rw [h1, h2] at hi
  omega

theorem cellOf_col_lt (cm : Bool) (columns n : Nat) (hc : 1 ≤ columns) (i : Nat) (hi : i < n) :
    (cellOf cm columns n i).2 < columns := by
  cases cm with
  | false => exact Nat.mod_lt _ (by omega)
  | true =>
    have ⟨hp, hle⟩ := perCol_spec columns n hc (by omega)
    rw [cellOf_true]
    simp only
    rw [Nat.div_lt_iff_lt_mul hp, Nat.mul_comm]
    omega

theorem cellOf_inj (cm : Bool) (columns n : Nat) (i j : Nat)
    (h : cellOf cm columns n i = cellOf cm columns n j) : i = j := by
  cases cm with
  | false =>
    rw [cellOf_false, cellOf_false] at h
    injection h with h1 h2
    exact divmod_inj _ _ _ h1 h2
  | true =>
    rw [cellOf_true, cellOf_true] at h
    injection h with h1 h2
    exact divmod_inj _ _ _ h2 h1

/-- the item one layout row above, in the same column, is an earlier item -/
theorem cellOf_pred (cm : Bool) (columns n : Nat) (hc : 1 ≤ columns) (i : Nat) (hin : i < n)
    (hr : 0 < (cellOf cm columns n i).1) :
    ∃ j, j < i ∧ cellOf cm columns n j = ((cellOf cm columns n i).1 - 1, (cellOf cm columns n i).2) := by
  cases cm with
  | false =>
    rw [cellOf_false] at hr ⊢
    simp only at hr ⊢
    have hk : 0 < columns := by
      apply Nat.pos_of_ne_zero
      intro h0
      rw [h0, Nat.div_zero] at hr
      omega
    have hi := Nat.div_add_mod i columns
    have hm := Nat.mod_lt i hk
    refine ⟨columns * (i / columns - 1) + i % columns, ?_, ?_⟩
    · have : columns * (i / columns) = columns * (i / columns - 1) + columns := by
        rw [← Nat.mul_succ]
        congr 1
        omega
      omega
    · rw [cellOf_false, Nat.mul_add_div hk, Nat.mul_add_mod, Nat.div_eq_of_lt hm, Nat.mod_mod]
      simp
  | true =>
    have ⟨hk, _⟩ := perCol_spec columns n hc (by omega)
    rw [cellOf_true] at hr ⊢
    rw [cellOf_true]
    simp only at hr ⊢
    generalize (n + columns - 1) / columns = per at hr hk ⊢
    have hi := Nat.div_add_mod i per
    have hm := Nat.mod_lt i hk
    refine ⟨per * (i / per) + (i % per - 1), by omega, ?_⟩
    have hlt : i % per - 1 < per := by omega
    rw [Nat.mul_add_div hk, Nat.mul_add_mod, Nat.div_eq_of_lt hlt, Nat.mod_eq_of_lt hlt]
    simp

end Simpleline
