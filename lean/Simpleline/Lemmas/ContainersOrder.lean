/-
  Helper lemmas for C13: the arithmetic of cells, the ordered map, row heights, bands.
-/
import Simpleline.Spec.WidgetSpec

namespace Simpleline

/-! ### `cellOf` -/

theorem cellOf_false (columns n i : Nat) : cellOf false columns n i = (i / columns, i % columns) := rfl

theorem cellOf_true (columns n i : Nat) :
    cellOf true columns n i = (i % ((n + columns - 1) / columns), i / ((n + columns - 1) / columns)) := rfl

/-- items per column in column-major order: positive and enough for all the items -/
theorem perCol_spec (columns n : Nat) (hc : 1 ≤ columns) (hn : 0 < n) :
    0 < (n + columns - 1) / columns ∧ n ≤ (n + columns - 1) / columns * columns := by
  have h1 := Nat.div_add_mod (n + columns - 1) columns
  have h2 := Nat.mod_lt (n + columns - 1) (show columns > 0 by omega)
  have h3 : columns * ((n + columns - 1) / columns) = (n + columns - 1) / columns * columns :=
    Nat.mul_comm _ _
  constructor
  · apply Nat.pos_of_ne_zero
    intro h0
    rw [h0] at h1
    omega
  · omega

theorem divmod_inj (k i j : Nat) (h1 : i / k = j / k) (h2 : i % k = j % k) : i = j := by
  have hi := Nat.div_add_mod i k
  have hj := Nat.div_add_mod j k
  rw [h1, h2] at hi
  omega

theorem cellOf_col_lt (cm : Bool) (columns n : Nat) (hc : 1 ≤ columns) (i : Nat) (hi : i < n) :
    (cellOf cm columns n i).2 < columns := by
  cases cm with
  | false => exact Nat.mod_lt _ (by omega)
  | true =>
    have ⟨hp, hle⟩ := perCol_spec columns n hc (by omega)
    rw [cellOf_true]
    simp only
    rw [Nat.div_lt_iff_lt_mul hp, Nat.mul_comm]
    omega

theorem cellOf_inj (cm : Bool) (columns n : Nat) (i j : Nat)
    (h : cellOf cm columns n i = cellOf cm columns n j) : i = j := by
  cases cm with
  | false =>
    rw [cellOf_false, cellOf_false] at h
    injection h with h1 h2
    exact divmod_inj _ _ _ h1 h2
  | true =>
    rw [cellOf_true, cellOf_true] at h
    injection h with h1 h2
    exact divmod_inj _ _ _ h2 h1

/-- the item one layout row above, in the same column, is an earlier item -/
theorem cellOf_pred (cm : Bool) (columns n : Nat) (hc : 1 ≤ columns) (i : Nat) (hin : i < n)
    (hr : 0 < (cellOf cm columns n i).1) :
    ∃ j, j < i ∧ cellOf cm columns n j = ((cellOf cm columns n i).1 - 1, (cellOf cm columns n i).2) := by
  cases cm with
  | false =>
    rw [cellOf_false] at hr ⊢
    simp only at hr ⊢
    have hk : 0 < columns := by
      apply Nat.pos_of_ne_zero
      intro h0
      rw [h0, Nat.div_zero] at hr
      omega
    have hi := Nat.div_add_mod i columns
    have hm := Nat.mod_lt i hk
    refine ⟨columns * (i / columns - 1) + i % columns, ?_, ?_⟩
    · have : columns * (i / columns) = columns * (i / columns - 1) + columns := by
        rw [← Nat.mul_succ]
        congr 1
        omega
      omega
    · rw [cellOf_false, Nat.mul_add_div hk, Nat.mul_add_mod, Nat.div_eq_of_lt hm, Nat.mod_mod]
      simp
  | true =>
    have ⟨hk, _⟩ := perCol_spec columns n hc (by omega)
    simp only [cellOf_true] at hr ⊢
    generalize (n + columns - 1) / columns = per at hr hk ⊢
    have hi := Nat.div_add_mod i per
    have hm := Nat.mod_lt i hk
    refine ⟨per * (i / per) + (i % per - 1), by omega, ?_⟩
    have hlt : i % per - 1 < per := by omega
    rw [Nat.mul_add_div hk, Nat.mul_add_mod, Nat.div_eq_of_lt hlt, Nat.mod_eq_of_lt hlt]
    simp

/-! ### grouping a list by a bounded key -/

theorem filter_lt_succ_perm (f : Nat → Nat) (k : Nat) (l : List Nat) :
    ((l.filter fun i => f i < k) ++ (l.filter fun i => f i = k)).Perm (l.filter fun i => f i < k + 1) := by
  induction l with
  | nil => exact List.Perm.refl _
  | cons a l ih =>
    by_cases h1 : f a < k
    · have e1 : decide (f a < k) = true := decide_eq_true h1
      have e2 : decide (f a = k) = false := decide_eq_false (by omega)
      have e3 : decide (f a < k + 1) = true := decide_eq_true (by omega)
      simp only [List.filter_cons, e1, e2, e3, if_true, Bool.false_eq_true, if_false, List.cons_append]
      exact ih.cons a
    · by_cases h2 : f a = k
      · have e1 : decide (f a < k) = false := decide_eq_false h1
        have e2 : decide (f a = k) = true := decide_eq_true h2
        have e3 : decide (f a < k + 1) = true := decide_eq_true (by omega)
        simp only [List.filter_cons, e1, e2, e3, if_true, Bool.false_eq_true, if_false]
        exact List.perm_middle.trans (ih.cons a)
      · have e1 : decide (f a < k) = false := decide_eq_false h1
        have e2 : decide (f a = k) = false := decide_eq_false h2
        have e3 : decide (f a < k + 1) = false := decide_eq_false (by omega)
        simp only [List.filter_cons, e1, e2, e3, Bool.false_eq_true, if_false]
        exact ih

theorem flatten_filter_perm (f : Nat → Nat) (l : List Nat) (k : Nat) :
    (((List.range k).map fun c => l.filter fun i => f i = c).flatten).Perm (l.filter fun i => f i < k) := by
  induction k with
  | zero => simp
  | succ k ih =>
    rw [List.range_succ, List.map_append, List.flatten_append]
    simp only [List.map_cons, List.map_nil, List.flatten_cons, List.flatten_nil, List.append_nil]
    exact (ih.append_right _).trans (filter_lt_succ_perm f k l)

/-- In a list `range n` filtered by column, the `r`-th entry is the item of layout row `r`, as soon
as cells are distinct and every cell below the first row has an earlier item right above it. -/
theorem filter_rank (f : Nat → Nat × Nat) (N : Nat)
    (hinj : ∀ i j, i < N → j < N → f i = f j → i = j)
    (hpred : ∀ i, i < N → 0 < (f i).1 → ∃ j, j < i ∧ f j = ((f i).1 - 1, (f i).2)) (c : Nat) :
    ∀ n, n ≤ N →
      (∀ r, (hr : r < ((List.range n).filter fun i => (f i).2 = c).length) →
        f (((List.range n).filter fun i => (f i).2 = c)[r]) = (r, c)) ∧
      (∀ i, i < n → (f i).2 = c → (f i).1 < ((List.range n).filter fun i => (f i).2 = c).length) := by
  intro n
  induction n with
  | zero =>
    intro _
    constructor
    · intro r hr; simp at hr
    · intro i hi; omega
  | succ n ih =>
    intro hn
    have ⟨ih1, ih2⟩ := ih (by omega)
    by_cases hcn : (f n).2 = c
    · -- the new item goes to the end of the column, and its row id is the column's length
      have hrow : (f n).1 = ((List.range n).filter fun i => (f i).2 = c).length := by
        apply Nat.le_antisymm
        · by_cases h0 : 0 < (f n).1
          · have ⟨j, hj, hfj⟩ := hpred n (by omega) h0
            have := ih2 j hj (by rw [hfj]; exact hcn)
            rw [hfj] at this
            simp only at this
            omega
          · omega
        · apply Nat.le_of_not_lt
          intro hlt
          have h1 := ih1 (f n).1 hlt
          have hmem := List.getElem_mem hlt
          rw [List.mem_filter, List.mem_range] at hmem
          have := hinj (((List.range n).filter fun i => (f i).2 = c)[(f n).1]) n
            (by omega) (by omega) (by rw [h1, ← hcn])
          omega
      have hfil : ((List.range (n + 1)).filter fun i => (f i).2 = c) =
          ((List.range n).filter fun i => (f i).2 = c) ++ [n] := by
        rw [List.range_succ, List.filter_append]
        simp [hcn]
      constructor
      · intro r hr
        simp only [hfil] at hr ⊢
        by_cases hlt : r < ((List.range n).filter fun i => (f i).2 = c).length
        · rw [List.getElem_append_left hlt]
          exact ih1 r hlt
        · have hr' : r = ((List.range n).filter fun i => (f i).2 = c).length := by
            simp at hr; omega
          rw [List.getElem_append_right (by omega)]
          simp only [List.getElem_singleton]
          rw [hr', ← hrow, ← hcn]
      · intro i hi hci
        rw [hfil, List.length_append, List.length_singleton]
        by_cases hin : i = n
        · subst hin; omega
        · have := ih2 i (by omega) hci
          omega
    · have hfil : ((List.range (n + 1)).filter fun i => (f i).2 = c) =
          ((List.range n).filter fun i => (f i).2 = c) := by
        rw [List.range_succ, List.filter_append]
        simp [hcn]
      rw [hfil]
      refine ⟨ih1, ?_⟩
      intro i hi hci
      have hin : i ≠ n := by intro e; subst e; exact hcn hci
      exact ih2 i (by omega) hci

/-! ### the ordered map -/

theorem orderedMap_length (cm : Bool) (columns n : Nat) : (orderedMap cm columns n).length = columns := by
  simp [orderedMap]

theorem orderedMap_getElem (cm : Bool) (columns n c : Nat) (hc : c < (orderedMap cm columns n).length) :
    (orderedMap cm columns n)[c] = (List.range n).filter fun i => (cellOf cm columns n i).2 = c := by
  simp [orderedMap]

theorem orderedMap_mem_lt (cm : Bool) (columns n c : Nat) (hc : c < (orderedMap cm columns n).length)
    (i : Nat) (hi : i ∈ (orderedMap cm columns n)[c]) : i < n := by
  rw [orderedMap_getElem, List.mem_filter, List.mem_range] at hi
  exact hi.1

theorem orderedMap_flatten_perm (cm : Bool) (columns n : Nat) (hc : 1 ≤ columns) :
    (orderedMap cm columns n).flatten.Perm (List.range n) := by
  have h := flatten_filter_perm (fun i => (cellOf cm columns n i).2) (List.range n) columns
  have hall : ((List.range n).filter fun i => (cellOf cm columns n i).2 < columns) = List.range n := by
    rw [List.filter_eq_self]
    intro i hi
    rw [List.mem_range] at hi
    exact decide_eq_true (cellOf_col_lt cm columns n hc i hi)
  rw [hall] at h
  exact h

theorem orderedMap_cell (cm : Bool) (columns n : Nat) (hc : 1 ≤ columns) (c : Nat)
    (hcl : c < (orderedMap cm columns n).length) (r : Nat) (hr : r < ((orderedMap cm columns n)[c]).length) :
    cellOf cm columns n (((orderedMap cm columns n)[c])[r]) = (r, c) := by
  have h := (filter_rank (cellOf cm columns n) n
    (fun i j _ _ h => cellOf_inj cm columns n i j h)
    (fun i hi h0 => cellOf_pred cm columns n hc i hi h0) c n (Nat.le_refl _)).1
  have e := orderedMap_getElem cm columns n c hcl
  simp only [e] at hr ⊢
  exact h r hr

/-- every item is somewhere in the ordered map: at entry `r` of column `c` for its cell `(r, c)` -/
theorem orderedMap_find (cm : Bool) (columns n : Nat) (hc : 1 ≤ columns) (i : Nat) (hi : i < n) :
    ∃ (hcl : (cellOf cm columns n i).2 < (orderedMap cm columns n).length)
      (hr : (cellOf cm columns n i).1 < ((orderedMap cm columns n)[(cellOf cm columns n i).2]).length),
      ((orderedMap cm columns n)[(cellOf cm columns n i).2])[(cellOf cm columns n i).1] = i := by
  have hcl : (cellOf cm columns n i).2 < (orderedMap cm columns n).length := by
    rw [orderedMap_length]; exact cellOf_col_lt cm columns n hc i hi
  have hmem : i ∈ (orderedMap cm columns n)[(cellOf cm columns n i).2] := by
    rw [orderedMap_getElem, List.mem_filter, List.mem_range]
    exact ⟨hi, decide_eq_true rfl⟩
  have ⟨r, hr, hri⟩ := List.getElem_of_mem hmem
  have hcell := orderedMap_cell cm columns n hc _ hcl r hr
  rw [hri] at hcell
  have hr1 : (cellOf cm columns n i).1 = r := by rw [hcell]
  refine ⟨hcl, by omega, ?_⟩
  simp only [hr1, hri]

/-! ### row heights -/

theorem foldl_max_ge_init (g : Nat → Nat) (l : List Nat) (a : Nat) :
    a ≤ l.foldl (fun acc i => max acc (g i)) a := by
  induction l generalizing a with
  | nil => exact Nat.le_refl _
  | cons x l ih => exact Nat.le_trans (Nat.le_max_left _ _) (ih _)

theorem foldl_max_ge_mem (g : Nat → Nat) (l : List Nat) (a i : Nat) (hi : i ∈ l) :
    g i ≤ l.foldl (fun acc i => max acc (g i)) a := by
  induction l generalizing a with
  | nil => cases hi
  | cons x l ih =>
    rw [List.foldl_cons]
    rcases List.mem_cons.mp hi with h | h
    · subst h
      exact Nat.le_trans (Nat.le_max_right _ _) (foldl_max_ge_init g l _)
    · exact ih _ h

theorem rowHeight_ge (cm : Bool) (columns : Nat) (heights : List Nat) (i : Nat) (hi : i < heights.length) :
    heights[i] ≤ rowHeight cm columns heights (cellOf cm columns heights.length i).1 := by
  have h := foldl_max_ge_mem (fun i => heights.getD i 0)
    ((List.range heights.length).filter fun j =>
      (cellOf cm columns heights.length j).1 = (cellOf cm columns heights.length i).1) 0 i
    (by rw [List.mem_filter, List.mem_range]; exact ⟨hi, decide_eq_true rfl⟩)
  simp only [List.getD_eq_getElem?_getD, List.getElem?_eq_getElem hi, Option.getD_some] at h
  exact h

/-! ### rows and bands -/

theorem rowTop_succ (rowH : Nat → Nat) (r : Nat) : rowTop rowH (r + 1) = rowTop rowH r + rowH r := rfl

theorem rowTop_mono (rowH : Nat → Nat) (r r' : Nat) (h : r < r') :
    rowTop rowH r + rowH r ≤ rowTop rowH r' := by
  induction r' with
  | zero => omega
  | succ r' ih =>
    rw [rowTop_succ]
    by_cases e : r = r'
    · subst e; exact Nat.le_refl _
    · have := ih (by omega); omega

theorem colLeft_zero (used : Int) (spacing : Nat) : colLeft used spacing 0 = 0 := by
  simp [colLeft]

theorem colLeft_succ (used : Int) (spacing c : Nat) :
    colLeft used spacing (c + 1) = colLeft used spacing c + used.toNat + spacing := by
  simp only [colLeft, Nat.succ_mul]; omega

theorem colLeft_mono (used : Int) (spacing c c' : Nat) (h : c < c') :
    colLeft used spacing c + used.toNat + spacing ≤ colLeft used spacing c' := by
  rw [← colLeft_succ]
  exact Nat.mul_le_mul_right _ (by omega)

theorem usedWidth_fits (columns spacing : Nat) (hc : 1 ≤ columns) (w : Int) (c : Nat) (hcc : c < columns)
    (hu : 0 < usedWidth none columns spacing w) :
    ((colLeft (usedWidth none columns spacing w) spacing c : Nat) : Int) + usedWidth none columns spacing w ≤ w := by
  simp only [usedWidth] at hu ⊢
  generalize hX : w - ((columns : Int) - 1) * spacing = X at hu ⊢
  have hcpos : (0 : Int) < columns := by omega
  have hXnn : 0 ≤ X := by
    apply Int.le_of_not_gt
    intro hneg
    have h1 : (0 : Int) ≤ (-X).tdiv columns := Int.tdiv_nonneg (by omega) (by omega)
    have h2 := Int.neg_tdiv (-X) columns
    rw [Int.neg_neg] at h2
    omega
  rw [Int.tdiv_eq_ediv_of_nonneg hXnn] at hu ⊢
  have hmul : X / columns * columns ≤ X := Int.ediv_mul_le X (by omega)
  generalize hU : X / (columns : Int) = U at hu hmul ⊢
  have hle : colLeft U spacing c ≤ colLeft U spacing (columns - 1) := by
    unfold colLeft
    exact Nat.mul_le_mul_right _ (by omega)
  have hcl : ((colLeft U spacing (columns - 1) : Nat) : Int) = ((columns : Int) - 1) * (U + spacing) := by
    unfold colLeft
    rw [Int.natCast_mul, Int.natCast_add, Int.toNat_of_nonneg (by omega), Int.natCast_sub hc]
    rfl
  have hle' : ((colLeft U spacing c : Nat) : Int) ≤ ((columns : Int) - 1) * (U + spacing) := by
    rw [← hcl]; exact Int.ofNat_le.mpr hle
  have e1 : ((columns : Int) - 1) * (U + spacing) = U * columns - U + ((columns : Int) - 1) * spacing := by
    rw [Int.mul_add, Int.sub_mul, Int.one_mul, Int.mul_comm]
  omega

end Simpleline
