/-
  Helper lemmas for C13: what `render` of a list container computes (`renderListItems`).
-/
import Simpleline.Spec.WidgetSpec

namespace Simpleline

/-! ### unfolding `render` -/

theorem render_list_eq (cc : CharClass) (st : WSt) (cm : Bool) (columns : Nat) (cw : Option Int) (spacing : Nat)
    (kp : Option KeyPat) (u : Option Int) (nw : List NumW) (items : List Wd) (w : Int) :
    (Wd.list st cm columns cw spacing kp u nw items).render cc w =
      if columns = 0 ∧ (cw = none ∨ cm = true ∨ items ≠ []) then .error .zeroDivision
      else
        match renderListItems cc (usedWidth cw columns spacing w) kp 0 items with
        | .error e => .error e
        | .ok (numw, items') =>
          let labels : List (Option NumW) := match kp with
            | some _ => numw.map some
            | none => items'.map fun _ => none
          .ok (.list (drawColumns (usedWidth cw columns spacing w) spacing labels (items'.map Wd.lines)
              (rowHeight cm columns ((items'.zip labels).map fun (it, l) =>
                max it.lines.length (match l with | some nw => nw.st.buf.length | none => 0)))
              (orderedMap cm columns items'.length) {} 0)
            cm columns cw spacing kp (some (usedWidth cw columns spacing w)) numw items') := by
  rw [Wd.render.eq_def]
  simp only []
  split
  · rfl
  · show (renderListItems cc (usedWidth cw columns spacing w) kp 0 items >>= _) = _
    cases renderListItems cc (usedWidth cw columns spacing w) kp 0 items with
    | error e => rfl
    | ok p => rfl

theorem renderListItems_cons (cc : CharClass) (used : Int) (kp : Option KeyPat) (i : Nat) (it : Wd) (its : List Wd) :
    renderListItems cc used kp i (it :: its) =
      if used ≤ 0 then .error .valueError
      else match kp with
        | some k =>
          match renderTextSt cc {} (k.label i) (k.label i).length with
          | .error e => .error e
          | .ok st =>
            if used - (k.label i).length ≤ 0 then .error .valueError
            else match it.render cc (used - (k.label i).length) with
              | .error e => .error e
              | .ok it' =>
                match renderListItems cc used kp (i + 1) its with
                | .error e => .error e
                | .ok (nws, its') => .ok (NumW.mk st (k.label i) :: nws, it' :: its')
        | none =>
          match it.render cc used with
          | .error e => .error e
          | .ok it' =>
            match renderListItems cc used kp (i + 1) its with
            | .error e => .error e
            | .ok (nws, its') => .ok (nws, it' :: its') := by
  rw [renderListItems.eq_2]
  split
  · rfl
  · cases kp with
    | none =>
      simp only []
      show (it.render cc used >>= _) = _
      cases it.render cc used with
      | error e => rfl
      | ok it' =>
        show (renderListItems cc used none (i+1) its >>= _) = _
        cases renderListItems cc used none (i+1) its with
        | error e => rfl
        | ok p => rfl
    | some k =>
      simp only []
      show (renderTextSt cc {} (k.label i) (k.label i).length >>= _) = _
      cases renderTextSt cc {} (k.label i) (k.label i).length with
      | error e => rfl
      | ok st =>
        simp only [bind, Except.bind]
        split
        · rfl
        · show (it.render cc _ >>= _) = _
          cases it.render cc (used - (k.label i).length) with
          | error e => rfl
          | ok it' =>
            show (renderListItems cc used (some k) (i+1) its >>= _) = _
            cases renderListItems cc used (some k) (i+1) its with
            | error e => rfl
            | ok p => rfl
/-! ### a successful `_render_all_items` -/

/-- the length of the label of item `j` under a key pattern -/
def kpLabelLen (kp : Option KeyPat) (j : Nat) : Nat :=
  match kp with
  | some k => (k.label j).length
  | none => 0

theorem renderListItems_ok (cc : CharClass) (used : Int) (kp : Option KeyPat) :
    ∀ (items : List Wd) (i : Nat) (numw : List NumW) (items' : List Wd),
      renderListItems cc used kp i items = .ok (numw, items') →
      items'.length = items.length ∧
      (match kp with
        | some k => numw.length = items.length ∧
            ∀ j, (hj : j < numw.length) → ∃ s,
              renderTextSt cc {} (k.label (i + j)) (k.label (i + j)).length = .ok s ∧
              numw[j] = ⟨s, k.label (i + j)⟩
        | none => numw = []) ∧
      (∀ j, (hj : j < items.length) → (hj' : j < items'.length) →
        items[j].render cc (used - kpLabelLen kp (i + j)) = .ok items'[j]) := by
  intro items
  induction items with
  | nil =>
    intro i numw items' h
    rw [renderListItems.eq_1] at h
    cases h
    refine ⟨rfl, ?_, ?_⟩
    · cases kp with
      | none => rfl
      | some k => exact ⟨rfl, fun j hj => by simp at hj⟩
    · intro j hj; simp at hj
  | cons it its ih =>
    intro i numw items' h
    rw [renderListItems_cons] at h
    split at h
    · cases h
    · cases kp with
      | none =>
        simp only [] at h
        split at h
        · cases h
        · rename_i it' hit
          split at h
          · cases h
          · rename_i nws its' hrest
            cases h
            have ⟨l1, l2, l3⟩ := ih (i + 1) _ _ hrest
            simp only [] at l2
            refine ⟨by simp [l1], l2, ?_⟩
            intro j hj hj'
            cases j with
            | zero => simpa [kpLabelLen] using hit
            | succ j =>
              have := l3 j (by simpa using hj) (by simpa using hj')
              simpa [kpLabelLen] using this
      | some k =>
        simp only [] at h
        split at h
        · cases h
        · rename_i st hst
          split at h
          · cases h
          · split at h
            · cases h
            · rename_i it' hit
              split at h
              · cases h
              · rename_i nws its' hrest
                cases h
                have ⟨l1, l2, l3⟩ := ih (i + 1) _ _ hrest
                simp only [] at l2
                refine ⟨by simp [l1], ⟨by simp [l2.1], ?_⟩, ?_⟩
                · intro j hj
                  cases j with
                  | zero => exact ⟨st, hst, rfl⟩
                  | succ j =>
                    have ⟨s, hs1, hs2⟩ := l2.2 j (by simpa using hj)
                    refine ⟨s, ?_, ?_⟩
                    · rw [show i + (j + 1) = i + 1 + j by omega]; exact hs1
                    · rw [show i + (j + 1) = i + 1 + j by omega]; simpa using hs2
                · intro j hj hj'
                  cases j with
                  | zero => simpa [kpLabelLen] using hit
                  | succ j =>
                    have := l3 j (by simpa using hj) (by simpa using hj')
                    rw [show i + (j + 1) = i + 1 + j by omega]
                    simpa [kpLabelLen] using this

/-! ### a refused `_render_all_items` -/

theorem renderListItems_error (cc : CharClass) (used : Int) (kp : Option KeyPat) :
    ∀ (items : List Wd) (i : Nat), items ≠ [] →
      (used ≤ 0 ∨ ∃ k, kp = some k ∧ ∃ j, j < items.length ∧ used - (k.label (i + j)).length ≤ 0) →
      ∃ e, renderListItems cc used kp i items = .error e := by
  intro items
  induction items with
  | nil => intro i h; exact absurd rfl h
  | cons it its ih =>
    intro i _ hbad
    rw [renderListItems_cons]
    split
    · exact ⟨_, rfl⟩
    · rename_i hpos
      rcases hbad with hbad | ⟨k, hk, j, hj, hbad⟩
      · exact absurd hbad hpos
      · subst hk
        simp only []
        split
        · exact ⟨_, rfl⟩
        · split
          · exact ⟨_, rfl⟩
          · rename_i hroom
            cases j with
            | zero => exact absurd hbad hroom
            | succ j =>
              have hj' : j < its.length := by simpa using hj
              have hne : its ≠ [] := by intro e; rw [e] at hj'; simp at hj'
              have ⟨e, he⟩ := ih (i + 1) hne (Or.inr ⟨k, rfl, j, hj', by
                rw [show i + 1 + j = i + (j + 1) by omega]; exact hbad⟩)
              split
              · exact ⟨_, rfl⟩
              · rw [he]; exact ⟨_, rfl⟩

/-! ### columns without items -/

theorem drawColumns_all_nil (used : Int) (spacing : Nat) (labels : List (Option NumW)) (grids : List Grid)
    (rowH : Nat → Nat) :
    ∀ (cols : List (List Nat)) (s : WSt) (colPos : Nat), (∀ ids ∈ cols, ids = []) →
      drawColumns used spacing labels grids rowH cols s colPos = s := by
  intro cols
  induction cols with
  | nil => intro s colPos _; rfl
  | cons ids cols ih =>
    intro s colPos h
    have h0 : ids = [] := h ids (List.mem_cons_self ..)
    subst h0
    simp only [drawColumns, drawColumn]
    exact ih _ _ (fun ids hi => h ids (List.mem_cons_of_mem _ hi))

theorem orderedMap_zero_all_nil (cm : Bool) (columns : Nat) : ∀ ids ∈ orderedMap cm columns 0, ids = [] := by
  intro ids h
  simp only [orderedMap, List.range_zero, List.filter_nil, List.mem_map] at h
  obtain ⟨_, _, h⟩ := h
  exact h.symm

/-! ### the shape of a successful render -/

theorem labelLen_map_none (items' : List Wd) (i : Nat) :
    labelLen (items'.map fun _ => (none : Option NumW)) i = 0 := by
  unfold labelLen
  have : (items'.map fun _ => (none : Option NumW)).getD i none = none := by
    simp only [List.getD_eq_getElem?_getD, List.getElem?_map]
    cases items'[i]? <;> rfl
  rw [this]

theorem getD_map_none (items' : List Wd) (i : Nat) :
    (items'.map fun _ => (none : Option NumW)).getD i none = none := by
  simp only [List.getD_eq_getElem?_getD, List.getElem?_map]
  cases items'[i]? <;> rfl

theorem getD_map_some (numw : List NumW) (i : Nat) (hi : i < numw.length) :
    (numw.map some).getD i none = some numw[i] := by
  simp only [List.getD_eq_getElem?_getD, List.getElem?_map, List.getElem?_eq_getElem hi,
    Option.map_some, Option.getD_some]

theorem heights_eq (items' : List Wd) (labels : List (Option NumW)) :
    (((items'.map Wd.lines).zip labels).map fun (g, l) =>
        max g.length (match l with | some nw => nw.st.buf.length | none => 0)) =
      ((items'.zip labels).map fun (it, l) =>
        max it.lines.length (match l with | some nw => nw.st.buf.length | none => 0)) := by
  rw [List.zip_map_left, List.map_map]
  rfl

theorem render_list_shape (cc : CharClass) (st : WSt) (cm : Bool) (columns : Nat) (cw : Option Int)
    (spacing : Nat) (kp : Option KeyPat) (u : Option Int) (nw : List NumW) (items : List Wd) (w : Int) (r : Wd)
    (h : (Wd.list st cm columns cw spacing kp u nw items).render cc w = .ok r) :
    ∃ (items' : List Wd) (labels : List (Option NumW)),
      items'.length = items.length ∧ labels.length = items.length ∧
      (∀ i, (hi : i < items.length) → (hi' : i < items'.length) →
        items[i].render cc (usedWidth cw columns spacing w - labelLen labels i) = .ok items'[i]) ∧
      (∀ i, i < items.length →
        match kp with
        | some k => ∃ s, renderTextSt cc {} (k.label i) (k.label i).length = .ok s ∧
                      labels.getD i none = some ⟨s, k.label i⟩
        | none => labels.getD i none = none) ∧
      r.lines = (drawColumns (usedWidth cw columns spacing w) spacing labels (items'.map Wd.lines)
        (rowHeight cm columns (((items'.map Wd.lines).zip labels).map fun (g, l) =>
          max g.length (match l with | some nw => nw.st.buf.length | none => 0)))
        (orderedMap cm columns items'.length) {} 0).buf := by
  rw [render_list_eq] at h
  split at h
  · cases h
  · split at h
    · cases h
    · rename_i numw items' heq
      cases h
      have ⟨l1, l2, l3⟩ := renderListItems_ok cc _ kp items 0 numw items' heq
      cases kp with
      | none =>
        simp only [] at l2 ⊢
        refine ⟨items', items'.map fun _ => none, l1, by simp [l1], ?_, ?_, ?_⟩
        · intro i hi hi'
          have := l3 i hi hi'
          rw [labelLen_map_none]
          simpa [kpLabelLen] using this
        · intro i _
          exact getD_map_none items' i
        · rw [heights_eq]; rfl
      | some k =>
        simp only [] at l2 ⊢
        refine ⟨items', numw.map some, l1, by simp [l2.1], ?_, ?_, ?_⟩
        · intro i hi hi'
          have := l3 i hi hi'
          have ⟨s, _, hs⟩ := l2.2 i (by omega)
          have hl : labelLen (numw.map some) i = (k.label i).length := by
            unfold labelLen
            rw [getD_map_some numw i (by omega), hs]
            simp
          rw [hl]
          simpa [kpLabelLen] using this
        · intro i hi
          have ⟨s, hs1, hs2⟩ := l2.2 i (by omega)
          simp only [Nat.zero_add] at hs1 hs2
          exact ⟨s, hs1, by rw [getD_map_some numw i (by omega), hs2]⟩
        · rw [heights_eq]; rfl

end Simpleline
