import Simpleline.Lemmas.DispatchCoreN

namespace Simpleline.Dispatch
open Simpleline

/-! ### where the instructions of the code after a soft step come from -/

theorem OtherFin.suffix {m c' : Cfg} (h : OtherFin m c') : c'.code <:+ m.code := by
  cases h
  · exact List.suffix_refl _
  · rename_i pre rest' hcode hpre
    rw [hcode]; exact List.suffix_append_of_suffix (List.suffix_cons _ _)
  · rename_i pre ins rest' src hcode hpre hins
    rw [hcode]; exact (afterCatch_suffix _ _).trans (List.suffix_append_of_suffix (List.suffix_cons _ _))

theorem other_code_mem {rest : List Instr} {c m c' : Cfg} (hm : Soft rest c m) (hf : OtherFin m c') :
    ∀ i ∈ c'.code, softI i = true ∨ i ∈ rest := by
  intro i hi
  obtain ⟨pushed, suf, hcode, hsuf, hp, -⟩ := hm.code.suffix_rest
  have : i ∈ m.code := hf.suffix.subset hi
  rw [hcode] at this
  rcases List.mem_append.mp this with h | h
  · exact .inl (hp i h)
  · exact .inr (hsuf.subset h)

theorem other_closed {rest : List Instr} {c m c' : Cfg} (hm : Soft rest c m) (hf : OtherFin m c')
    (hc : closedB rest = true) : closedB c'.code = true := by
  obtain ⟨pushed, suf, hcode, hsuf, -, hp⟩ := hm.code.suffix_rest
  apply closedB_suffix hf.suffix
  rw [hcode]
  exact closedB_append hp (closedB_suffix hsuf hc)

def isCallH : Instr → Bool
  | .callH _ _ _ => true
  | _ => false

def isPS : Instr → Bool
  | .processSignal _ => true
  | _ => false

/-- local facts about the pending code of a reachable configuration -/
structure CodeInv (c : Cfg) : Prop where
  noCall : ∀ i ∈ c.code.tail, isCallH i = false
  noPS : ∀ i ∈ c.code.tail, isPS i = false
  headCall : ∀ h d s, c.code.head? = some (.callH h d s) →
    ∃ j K, c.code = .callH h d s :: .catchHandler :: .dispatch s (j + 1) :: K ∧
      (handlersOf c.L s.cls)[j]? = some (h, d) ∧ c.L.forceQuit = false
  closed : closedB c.code = true

theorem softI_not_callH {i : Instr} (h : softI i = true) : isCallH i = false ∧ isPS i = false := by
  cases i <;> first | exact ⟨rfl, rfl⟩ | cases h

theorem CodeInv.other {rest : List Instr} {ins : Instr} {c m c' : Cfg} (hI : CodeInv c) (hc : c.code = ins :: rest)
    (hm : Soft rest c m) (hf : OtherFin m c') : CodeInv c' := by
  have hmem := other_code_mem hm hf
  have hall : ∀ i ∈ c'.code, isCallH i = false ∧ isPS i = false := by
    intro i hi
    rcases hmem i hi with h | h
    · exact softI_not_callH h
    · exact ⟨hI.noCall i (by simp [hc, h]), hI.noPS i (by simp [hc, h])⟩
  refine ⟨fun i hi => (hall i (List.mem_of_mem_tail hi)).1, fun i hi => (hall i (List.mem_of_mem_tail hi)).2, ?_, ?_⟩
  · intro h d s hh
    have := (hall _ (List.mem_of_mem_head? hh)).1
    simp [isCallH] at this
  · exact other_closed hm hf (closedB_tail (hc ▸ hI.closed))


theorem all_tail {α} {f : α → Bool} {l : List α} (h : l.all f = true) : l.tail.all f = true := by
  cases l <;> simp_all

theorem all_of_suffix {α} {f : α → Bool} {l l' : List α} (hs : l' <:+ l) (h : l.all f = true) : l'.all f = true := by
  simp only [List.all_eq_true] at *
  exact fun x hx => h x (hs.subset hx)

theorem CodeInv.of_clean {c : Cfg} (h1 : c.code.all (fun i => !isCallH i) = true) (h2 : c.code.all (fun i => !isPS i) = true)
    (h3 : closedB c.code = true) : CodeInv c := by
  refine ⟨?_, ?_, ?_, h3⟩
  · have := all_tail h1; simpa using this
  · have := all_tail h2; simpa using this
  · intro h d s hh
    have := List.all_eq_true.mp h1 _ (List.mem_of_mem_head? hh)
    simp [isCallH] at this

theorem CodeInv.of_cons {c : Cfg} {i : Instr} {l : List Instr} (hc : c.code = i :: l) (hi : isCallH i = false)
    (h1 : l.all (fun i => !isCallH i) = true) (h2 : l.all (fun i => !isPS i) = true)
    (h3 : closedB c.code = true) : CodeInv c := by
  refine ⟨?_, ?_, ?_, h3⟩
  · simpa [hc] using h1
  · simpa [hc] using h2
  · intro h d s hh
    simp [hc] at hh
    subst hh
    simp [isCallH] at hi

theorem closedB_acts (acts : List Act) (l : List Instr) : closedB (acts.map .act ++ l) = closedB l :=
  closedB_append_plain (by simp [blockI]) l

theorem CodeInv.core {P : Prog} {rest : List Instr} {ins : Instr} {c c' : Cfg} (hI : CodeInv c) (hc : c.code = ins :: rest)
    (h : CoreN P { c with code := rest } ins c') : CodeInv c' := by
  have h1 : rest.all (fun i => !isCallH i) = true := by
    simp only [List.all_eq_true]; intro i hi; simp [hI.noCall i (by simp [hc, hi])]
  have h2 : rest.all (fun i => !isPS i) = true := by
    simp only [List.all_eq_true]; intro i hi; simp [hI.noPS i (by simp [hc, hi])]
  have h3 : closedB rest = true := closedB_tail (hc ▸ hI.closed)
  cases h
  case dispCall s i h d hh hf =>
    refine ⟨?_, ?_, ?_, ?_⟩
    · simpa [push, isCallH] using h1
    · simpa [push, isPS] using h2
    · intro h' d' s' hh'
      simp [push] at hh'
      obtain ⟨rfl, rfl, rfl⟩ := hh'
      exact ⟨i, rest, rfl, hh, hf⟩
    · simpa [push, closedB] using h3
  case popErr pre ins' rest' src h hcode hpre hins =>
    simp only at hcode
    have hs : afterCatch ins' rest' <:+ rest := by
      rw [hcode]; exact (afterCatch_suffix _ _).trans (List.suffix_append_of_suffix (List.suffix_cons _ _))
    exact .of_clean (all_of_suffix hs h1) (all_of_suffix hs h2) (closedB_suffix hs h3)
  case popExit q pre rest' h h2' hcode hpre =>
    simp only at hcode
    have hs : rest' <:+ rest := by
      rw [hcode]; exact List.suffix_append_of_suffix (List.suffix_cons _ _)
    exact .of_clean (all_of_suffix hs h1) (all_of_suffix hs h2) (closedB_suffix hs h3)
  case getDispatch => exact .of_cons (i := .processSignal _) rfl rfl h1 h2 (by simpa [closedB] using h3)
  case waitTake =>
    exact .of_cons (i := .processSignal _) rfl rfl (by simpa [isCallH] using h1) (by simpa [isPS] using h2)
      (by simpa [closedB] using h3)
  case iterFirst =>
    exact .of_cons (i := .processSignal _) rfl rfl (by simpa [isCallH] using h1) (by simpa [isPS] using h2)
      (by simpa [closedB, push] using h3)
  case iterSame =>
    exact .of_cons (i := .processSignal _) rfl rfl (by simpa [isCallH] using h1) (by simpa [isPS] using h2)
      (by simpa [closedB, push] using h3)
  case callUser =>
    apply CodeInv.of_clean
    · simpa [push, bodyOf, emit_eq, isCallH, Cfg.trace] using h1
    · simpa [push, bodyOf, emit_eq, isPS, Cfg.trace] using h2
    · simp only [push, bodyOf, emit_eq, List.append_assoc, closedB_acts, Cfg.trace]; simpa [closedB] using h3
  case callSys h d s hu he =>
    cases h
    case user => exact absurd rfl (hu _)
    case exc => exact absurd rfl he
    all_goals
      apply CodeInv.of_clean <;> (try simp only [push, Cfg.trace, bodyOf]) <;>
        simp_all [isCallH, isPS, closedB]
  all_goals
    apply CodeInv.of_clean <;> (try simp only [push, Cfg.trace, enqueue_eq, emit_eq]) <;>
      simp_all [isCallH, isPS, closedB]


theorem CodeInv.nil {c : Cfg} (h : c.code = []) : CodeInv c := by
  apply CodeInv.of_clean <;> simp [h, closedB]

theorem CodeInv.congr {c c' : Cfg} (hI : CodeInv c) (h1 : c'.code = c.code) (h2 : c'.L.handlers = c.L.handlers)
    (h3 : c'.L.forceQuit = c.L.forceQuit) : CodeInv c' := by
  refine ⟨h1 ▸ hI.noCall, h1 ▸ hI.noPS, ?_, h1 ▸ hI.closed⟩
  intro h d s hh
  rw [h1] at hh ⊢
  obtain ⟨j, K, e1, e2, e3⟩ := hI.headCall h d s hh
  refine ⟨j, K, e1, ?_, h3 ▸ e3⟩
  unfold handlersOf at e2 ⊢
  rw [h2]; exact e2

theorem CodeInv.rest {c c' : Cfg} {ins : Instr} {rest : List Instr} (hI : CodeInv c) (hc : c.code = ins :: rest)
    (h1 : c'.code = rest) : CodeInv c' := by
  have h1' : rest.all (fun i => !isCallH i) = true := by
    simp only [List.all_eq_true]; intro i hi; simp [hI.noCall i (by simp [hc, hi])]
  have h2' : rest.all (fun i => !isPS i) = true := by
    simp only [List.all_eq_true]; intro i hi; simp [hI.noPS i (by simp [hc, hi])]
  exact .of_clean (h1 ▸ h1') (h1 ▸ h2') (h1 ▸ closedB_tail (hc ▸ hI.closed))

theorem CodeInv.init (init : List Act) (handlers : List (Cls × HRef × Option Nat)) (quitCb : Option Nat) (stdin : List Str) :
    CodeInv (initCfg init handlers quitCb stdin) := by
  apply CodeInv.of_clean
  · simp [initCfg, isCallH]
  · simp [initCfg, isPS]
  · simp only [initCfg, closedB_acts]; rfl

theorem take_error_code {c c' : Cfg} {o : Outcome} (h : c.take = .error (o, c')) : c'.code = c.code := by
  obtain ⟨-, h | h, -, -⟩ := take_error h
  · rw [h]
  · exact (deliver_frame h).2

/-- the code invariant holds in every reachable configuration -/
theorem codeInv_reach {P : Prog} {c0 c : Cfg} (h0 : Started c0) (hr : Reach P c0 c) : CodeInv c := by
  induction hr with
  | init => obtain ⟨i, h, q, s, rfl⟩ := h0; exact .init i h q s
  | step hr hs ih =>
    obtain ⟨ins, rest, hc, ⟨-, m, hm, hf⟩ | ⟨-, hcore⟩⟩ := step_ok_casesN hs
    · exact ih.other hc hm hf
    · exact ih.core hc hcore
  | deliver hr hd ih =>
    obtain ⟨hf, hcode⟩ := deliver_frame hd
    obtain ⟨more, hm⟩ := hf.handlers
    obtain ⟨r, rs, hrr, rfl⟩ := deliver_eq hd
    exact ih.congr rfl rfl rfl
  | halt hr hs ih =>
    rcases step_error_cases hs with ⟨-, -, rfl⟩ | ⟨ins, rest, hc, ⟨-, m, hm, ⟨-, rfl⟩ | ⟨k, -, hk⟩⟩ | ⟨-, hcore⟩⟩
    · exact ih
    · exact ih.other hc hm .same
    · exact .nil (by rw [(raise_error hk).1])
    · cases hcore
      case refuse => exact ih.rest hc rfl
      case getBlocked h => exact ih.rest hc (take_error_code h)
      case waitBlocked h => exact ih.rest hc (take_error_code h)
      case kill => exact .nil rfl
      case popErr h hr => exact .nil (by rw [(raise_error hr).1])
      case popExit h h2 hr => exact .nil (by rw [(raise_error hr).1])

end Simpleline.Dispatch
