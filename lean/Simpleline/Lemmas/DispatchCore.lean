import Simpleline.Lemmas.DispatchOther

namespace Simpleline.Dispatch
open Simpleline

/-- the number of earlier invocations of user handler `hid` recorded in a trace whose newest event is the current call -/
def invNo (tr : List Tr) (hid : Nat) : Nat :=
  (tr.filter fun t => match t with | .call (.user h') _ _ => h' = hid | _ => false).length - 1

/-- the body a handler reference expands to -/
def bodyOf (P : Prog) (c : Cfg) (h : HRef) (s : Sig) : List Instr :=
  match h with
  | .render => [.processScreen]
  | .close => [.closeScreen (some s.src)]
  | .itm => [.inputReceived s]
  | .ih n => [.inputReady n s]
  | .exc => []
  | .user hid => (P.handlerScript hid (invNo c.tr hid)).map .act ++ [.hret hid]

/-- The successful steps of the loop-core instructions, one constructor per branch of `step`.
`b` is the configuration with the head instruction removed. -/
inductive Core (P : Prog) (b : Cfg) : Instr → Cfg → Prop
  | forceQuit : Core P b (.act .forceQuit)
      { b with L := { b.L with forceQuit := true, levels := [], runLoop := false }, tr := .forceQuit :: b.tr }
  | apprun (h : ¬ (¬ P.runEmpty ∧ b.A.stack = [])) : Core P b .apprun
      (push { b with L := { b.L with forceQuit := false, runLoop := true } } [.mainCheck 0, .catchExit, .quitCb])
  | catchExit : Core P b .catchExit b
  | quitCbSome {d} (h : b.L.quitCb = some d) : Core P b .quitCb (b.emit P (.quitcb d))
  | quitCbNone (h : b.L.quitCb = none) : Core P b .quitCb b
  | mainGo {q} (h : b.L.runLoop = true) : Core P b (.mainCheck q) (push b [.loopCheck, .mainCheck q])
  | mainExit {q} (h : b.L.runLoop = false) : Core P b (.mainCheck q) (push (b.trace (.loopReturn q)) [.restoreRun])
  | restoreFQ (h : b.L.forceQuit = true) : Core P b .restoreRun b
  | restore (h : b.L.forceQuit = false) : Core P b .restoreRun { b with L := { b.L with runLoop := true } }
  | loopGo (h : b.L.runLoop = true) : Core P b .loopCheck (push b [.getDispatch, .loopCheck])
  | loopExit (h : b.L.runLoop = false) : Core P b .loopCheck b
  | getDispatch {s c1} (h : b.take = .ok (s, c1)) : Core P b .getDispatch (push c1 [.processSignal s])
  | psDispatch {s} (h : handlersOf b.L s.cls ≠ []) : Core P b (.processSignal s)
      (push { b with L := { b.L with tickets := mark b.L.tickets s.cls } } [.dispatch s 0])
  | psKill {s} (h : handlersOf b.L s.cls = []) (he : s.cls = .exception) : Core P b (.processSignal s)
      (push { b with L := { b.L with tickets := mark b.L.tickets s.cls } } [.kill s])
  | psNone {s} (h : handlersOf b.L s.cls = []) (he : s.cls ≠ .exception) : Core P b (.processSignal s)
      (({ b with L := { b.L with tickets := mark b.L.tickets s.cls } } : Cfg).trace (.dispatched s 0))
  | dispCall {s i h d} (hh : (handlersOf b.L s.cls)[i]? = some (h, d)) (hf : b.L.forceQuit = false) :
      Core P b (.dispatch s i) (push b [.callH h d s, .catchHandler, .dispatch s (i + 1)])
  | dispFQ {s i h d} (hh : (handlersOf b.L s.cls)[i]? = some (h, d)) (hf : b.L.forceQuit = true) :
      Core P b (.dispatch s i) (b.trace (.dispatched s i))
  | dispEnd {s i} (hh : (handlersOf b.L s.cls)[i]? = none) : Core P b (.dispatch s i) (b.trace (.dispatched s i))
  | catchHandler : Core P b .catchHandler b
  | callExc {d s} : Core P b (.callH .exc d s) ((b.trace (.call .exc d s)).emit P (.note "EXC-handled"))
  | callUser {hid d s} : Core P b (.callH (.user hid) d s)
      (push ((b.trace (.call (.user hid) d s)).emit P (.h hid s.id d b.L.levels.length))
        (bodyOf P (b.trace (.call (.user hid) d s)) (.user hid) s))
  | callSys {h d s} (hu : ∀ hid, h ≠ .user hid) (he : h ≠ .exc) : Core P b (.callH h d s)
      (push (b.trace (.call h d s)) (bodyOf P b h s))
  | hret {hid} : Core P b (.hret hid) (b.emit P (.hret hid))
  | procWait {cls} : Core P b (.procWait cls)
      (push (({ b with L := { b.L with tcounter := b.L.tcounter + 1,
                                       tickets := b.L.tickets ++ [({ line := cls, id := b.L.tcounter, marked := false } : Ticket)] } } : Cfg).trace
              (.waitBegin cls b.L.tcounter)) [.waitStep cls b.L.tcounter])
  | waitTake {cls t s c1} (hr : b.L.runLoop = true) (h : b.take = .ok (s, c1)) : Core P b (.waitStep cls t)
      (push c1 [.processSignal s, .waitCheck cls t])
  | waitStop {cls t} (hr : b.L.runLoop = false) : Core P b (.waitStep cls t) (b.trace (.waitEnd cls t false))
  | waitDone {cls t} (h : b.L.tickets.any (fun k => k.line = cls ∧ k.id = t ∧ k.marked) = true) : Core P b (.waitCheck cls t)
      (({ b with L := { b.L with tickets := b.L.tickets.filter fun k => ¬ (k.line = cls ∧ k.id = t) } } : Cfg).trace (.waitEnd cls t true))
  | waitAgain {cls t} (h : b.L.tickets.any (fun k => k.line = cls ∧ k.id = t ∧ k.marked) = false) : Core P b (.waitCheck cls t)
      (push b [.waitStep cls t])
  | iterEmpty {p} (h : b.L.activeQ.entries = []) : Core P b (.procIter p) (b.trace .procEnd)
  | iterStopped {p e es} (h : b.L.activeQ.entries = e :: es) (hr : b.L.runLoop = false) : Core P b (.procIter p) (b.trace .procEnd)
  | iterFirst {e es} (h : b.L.activeQ.entries = e :: es) (hr : b.L.runLoop = true) : Core P b (.procIter none)
      (push { b with L := { b.L with queues := listSet b.L.queues b.L.active fun q => { q with entries := es } },
                     tr := .take b.L.active e.2.2 :: b.tr } [.processSignal e.2.2, .procIter (some e.2.2.prio)])
  | iterSame {pr e es} (h : b.L.activeQ.entries = e :: es) (hr : b.L.runLoop = true) (hp : e.2.2.prio = pr) : Core P b (.procIter (some pr))
      (push { b with L := { b.L with queues := listSet b.L.queues b.L.active fun q => { q with entries := es } },
                     tr := .take b.L.active e.2.2 :: b.tr } [.processSignal e.2.2, .procIter (some pr)])
  | iterOther {pr e es} (h : b.L.activeQ.entries = e :: es) (hr : b.L.runLoop = true) (hp : e.2.2.prio ≠ pr) : Core P b (.procIter (some pr))
      ((b.trace (.putBack b.L.active e.2.2)).trace .procEnd)
  | newLoopFQ {s} (h : b.L.forceQuit = true) : Core P b (.newLoop s) b
  | newLoop {s} (h : b.L.forceQuit = false) : Core P b (.newLoop s)
      (push (((({ b with L := { b.L with queues := b.L.queues ++ [({} : EQueue)], active := b.L.queues.length,
                                         levels := b.L.levels ++ [b.L.queues.length] } } : Cfg).trace
                (.openLevel b.L.queues.length b.L.runLoop))).enqueue s) [.mainCheck b.L.queues.length])
  | closeLoop : Core P b .closeLoop
      (push ((b.trace (.closeReq b.L.runLoop b.L.activeQ.entries.length)).trace .procBegin) [.procIter none, .popLevel])
  | popErr {c'} (h : b.L.levels.getLast? = none) (hr : b.raise .err = .ok c') : Core P b .popLevel c'
  | popExit {q c'} (h : b.L.levels.getLast? = some q) (h2 : b.L.levels.dropLast.getLast? = none)
      (hr : (({ b.trace (.closeLevel q) with L := { b.L with levels := [] } } : Cfg)).raise .exit = .ok c') : Core P b .popLevel c'
  | pop {q a} (h : b.L.levels.getLast? = some q) (h2 : b.L.levels.dropLast.getLast? = some a) : Core P b .popLevel
      { b.trace (.closeLevel q) with L := { b.L with levels := b.L.levels.dropLast, active := a, runLoop := false } }

theorem bind_ok {ε α β} {x : Except ε α} {f : α → Except ε β} {b : β} (h : (x >>= f) = .ok b) :
    ∃ a, x = .ok a ∧ f a = .ok b := by
  cases x with
  | error e => cases h
  | ok a => exact ⟨a, rfl, h⟩

theorem core_ok {P : Prog} {c c' : Cfg} {ins : Instr} {rest : List Instr} (hc : c.code = ins :: rest)
    (ho : otherI ins = false) (hs : step P c = .ok c') : Core P { c with code := rest } ins c' := by
  cases ins
  case procIter p =>
    simp only [step, hc] at hs
    split at hs
    · cases hs; exact .iterEmpty (by assumption)
    · rename_i e es he
      split at hs
      · cases hs; exact .iterStopped he ((Bool.not_eq_true _).mp ‹¬ _ = true›)
      · rename_i hr
        have hr' : c.L.runLoop = true := by simpa using hr
        cases p with
        | none => simp only at hs; cases hs; exact .iterFirst he hr'
        | some pr =>
          simp only at hs
          split at hs
          · cases hs; exact .iterSame he hr' (by assumption)
          · cases hs; exact .iterOther he hr' (by assumption)
  case act a =>
    cases a
    case forceQuit => simp only [step, hc, doAct] at hs; cases hs; exact .forceQuit
    case proc cls => cases cls <;> cases ho
    all_goals cases ho
  case apprun =>
    simp only [step, hc] at hs
    split at hs
    · cases hs
    · cases hs; exact .apprun (by assumption)
  case catchExit => simp only [step, hc] at hs; cases hs; exact .catchExit
  case quitCb =>
    simp only [step, hc] at hs
    split at hs
    · cases hs; exact .quitCbSome (by assumption)
    · cases hs; exact .quitCbNone (by assumption)
  case mainCheck q =>
    simp only [step, hc] at hs
    split at hs
    · cases hs; exact .mainGo (by assumption)
    · cases hs; exact .mainExit ((Bool.not_eq_true _).mp ‹¬ _ = true›)
  case restoreRun =>
    simp only [step, hc] at hs
    split at hs
    · cases hs; exact .restoreFQ (by assumption)
    · cases hs; exact .restore ((Bool.not_eq_true _).mp ‹¬ _ = true›)
  case loopCheck =>
    simp only [step, hc] at hs
    split at hs
    · cases hs; exact .loopGo (by assumption)
    · cases hs; exact .loopExit ((Bool.not_eq_true _).mp ‹¬ _ = true›)
  case getDispatch =>
    simp only [step, hc] at hs
    obtain ⟨⟨s, c1⟩, h1, h2⟩ := bind_ok hs
    cases h2
    exact .getDispatch h1
  case processSignal s =>
    simp only [step, hc] at hs
    split at hs
    · cases hs; exact .psDispatch (by assumption)
    · split at hs
      · rename_i h1 h2
        have h1' : ¬ (handlersOf c.L s.cls ≠ []) := h1
        cases hs; exact .psKill (by simpa using h1') h2
      · rename_i h1 h2
        have h1' : ¬ (handlersOf c.L s.cls ≠ []) := h1
        cases hs; exact .psNone (by simpa using h1') h2
  case dispatch s i =>
    simp only [step, hc] at hs
    split at hs
    · split at hs
      · cases hs; exact .dispFQ (by assumption) (by assumption)
      · cases hs; exact .dispCall (by assumption) ((Bool.not_eq_true _).mp ‹¬ _ = true›)
    · cases hs; exact .dispEnd (by assumption)
  case catchHandler => simp only [step, hc] at hs; cases hs; exact .catchHandler
  case kill s =>
    simp only [step, hc, raise_eq, unwind_sysexit] at hs
    cases hs
  case callH h d s =>
    simp only [step, hc] at hs
    cases h
    case exc => cases hs; exact .callExc
    case user hid => cases hs; exact .callUser
    all_goals (cases hs; exact .callSys (by simp) (by simp))
  case hret hid => simp only [step, hc] at hs; cases hs; exact .hret
  case procWait cls => simp only [step, hc] at hs; cases hs; exact .procWait
  case waitStep cls t =>
    simp only [step, hc] at hs
    split at hs
    · obtain ⟨⟨s, c1⟩, h1, h2⟩ := bind_ok hs
      cases h2
      exact .waitTake (by assumption) h1
    · cases hs; exact .waitStop ((Bool.not_eq_true _).mp ‹¬ _ = true›)
  case waitCheck cls t =>
    simp only [step, hc] at hs
    split at hs
    · cases hs; exact .waitDone (by assumption)
    · cases hs; exact .waitAgain ((Bool.not_eq_true _).mp ‹¬ _ = true›)
  case newLoop s =>
    simp only [step, hc] at hs
    split at hs
    · cases hs; exact .newLoopFQ (by assumption)
    · cases hs; exact .newLoop ((Bool.not_eq_true _).mp ‹¬ _ = true›)
  case closeLoop => simp only [step, hc] at hs; cases hs; exact .closeLoop
  case popLevel =>
    simp only [step, hc] at hs
    split at hs
    · exact .popErr (by assumption) hs
    · split at hs
      · exact .popExit (by assumption) (by assumption) hs
      · cases hs; exact .pop (by assumption) (by assumption)
  all_goals cases ho


/-- the halting steps of the loop-core instructions -/
inductive CoreErr (P : Prog) (b : Cfg) : Instr → Outcome → Cfg → Prop
  | refuse (h : ¬ P.runEmpty ∧ b.A.stack = []) : CoreErr P b .apprun (.raised "NothingScheduled") b
  | getBlocked {o c1} (h : b.take = .error (o, c1)) : CoreErr P b .getDispatch o c1
  | waitBlocked {cls t o c1} (hr : b.L.runLoop = true) (h : b.take = .error (o, c1)) : CoreErr P b (.waitStep cls t) o c1
  | kill {s} : CoreErr P b (.kill s) (.killed 1)
      { ((b.write ['\n']).write (dumpStack P b.A.stack ++ ['\n'])).trace .kill with code := [] }
  | popErr {o c'} (h : b.L.levels.getLast? = none) (hr : b.raise .err = .error (o, c')) : CoreErr P b .popLevel o c'
  | popExit {q o c'} (h : b.L.levels.getLast? = some q) (h2 : b.L.levels.dropLast.getLast? = none)
      (hr : (({ b.trace (.closeLevel q) with L := { b.L with levels := [] } } : Cfg)).raise .exit = .error (o, c')) :
      CoreErr P b .popLevel o c'

theorem bind_error {ε α β} {x : Except ε α} {f : α → Except ε β} {e : ε} (h : (x >>= f) = .error e) :
    x = .error e ∨ ∃ a, x = .ok a ∧ f a = .error e := by
  cases x with
  | error e' => left; cases h; rfl
  | ok a => right; exact ⟨a, rfl, h⟩

theorem core_error {P : Prog} {c c' : Cfg} {o : Outcome} {ins : Instr} {rest : List Instr} (hc : c.code = ins :: rest)
    (ho : otherI ins = false) (hs : step P c = .error (o, c')) : CoreErr P { c with code := rest } ins o c' := by
  cases ins
  case procIter p =>
    simp only [step, hc] at hs
    split at hs
    · cases hs
    · split at hs
      · cases hs
      · cases p with
        | none => cases hs
        | some pr => simp only at hs; split at hs <;> cases hs
  case act a =>
    cases a
    case forceQuit => simp only [step, hc, doAct] at hs; cases hs
    case proc cls => cases cls <;> cases ho
    all_goals cases ho
  case apprun =>
    simp only [step, hc] at hs
    split at hs
    · cases hs; exact .refuse (by assumption)
    · cases hs
  case getDispatch =>
    simp only [step, hc] at hs
    rcases bind_error hs with h | ⟨⟨s, c1⟩, h1, h2⟩
    · exact .getBlocked h
    · cases h2
  case kill s =>
    simp only [step, hc, raise_eq, unwind_sysexit] at hs
    cases hs
    exact .kill
  case waitStep cls t =>
    simp only [step, hc] at hs
    split at hs
    · rcases bind_error hs with h | ⟨⟨s, c1⟩, h1, h2⟩
      · exact .waitBlocked (by assumption) h
      · cases h2
    · cases hs
  case popLevel =>
    simp only [step, hc] at hs
    split at hs
    · exact .popErr (by assumption) hs
    · split at hs
      · exact .popExit (by assumption) (by assumption) hs
      · cases hs
  case callH h d s => simp only [step, hc] at hs; cases h <;> cases hs
  all_goals first | (cases ho; done) | (simp only [step, hc] at hs; repeat' split at hs) <;> cases hs

end Simpleline.Dispatch
