import Simpleline.Lemmas.DispatchTrans

namespace Simpleline.Dispatch
open Simpleline

/-- `Core` with the results of `take` and of caught exceptions written out -/
inductive CoreN (P : Prog) (b : Cfg) : Instr → Cfg → Prop
  | forceQuit : CoreN P b (.act .forceQuit)
      { b with L := { b.L with forceQuit := true, levels := [], runLoop := false }, tr := .forceQuit :: b.tr }
  | apprun (h : ¬ (¬ P.runEmpty ∧ b.A.stack = [])) : CoreN P b .apprun
      (push { b with L := { b.L with forceQuit := false, runLoop := true } } [.mainCheck 0, .catchExit, .quitCb])
  | catchExit : CoreN P b .catchExit b
  | quitCbSome {d} (h : b.L.quitCb = some d) : CoreN P b .quitCb (b.emit P (.quitcb d))
  | quitCbNone (h : b.L.quitCb = none) : CoreN P b .quitCb b
  | mainGo {q} (h : b.L.runLoop = true) : CoreN P b (.mainCheck q) (push b [.loopCheck, .mainCheck q])
  | mainExit {q} (h : b.L.runLoop = false) : CoreN P b (.mainCheck q) (push (b.trace (.loopReturn q)) [.restoreRun])
  | restoreFQ (h : b.L.forceQuit = true) : CoreN P b .restoreRun b
  | restore (h : b.L.forceQuit = false) : CoreN P b .restoreRun { b with L := { b.L with runLoop := true } }
  | loopGo (h : b.L.runLoop = true) : CoreN P b .loopCheck (push b [.getDispatch, .loopCheck])
  | loopExit (h : b.L.runLoop = false) : CoreN P b .loopCheck b
  | getDispatch {s Q A' lg tr' n} (h1 : ∀ t ∈ tr', softT t = true) (h2 : ∀ e ∈ lg, softE e = true) : CoreN P b .getDispatch
      { b with code := .processSignal s :: b.code, L := { b.L with queues := Q }, A := A', log := lg ++ b.log, tr := .take b.L.active s :: (tr' ++ b.tr), nextSid := n }
  | psDispatch {s} (h : handlersOf b.L s.cls ≠ []) : CoreN P b (.processSignal s)
      (push { b with L := { b.L with tickets := mark b.L.tickets s.cls } } [.dispatch s 0])
  | psKill {s} (h : handlersOf b.L s.cls = []) (he : s.cls = .exception) : CoreN P b (.processSignal s)
      (push { b with L := { b.L with tickets := mark b.L.tickets s.cls } } [.kill s])
  | psNone {s} (h : handlersOf b.L s.cls = []) (he : s.cls ≠ .exception) : CoreN P b (.processSignal s)
      (({ b with L := { b.L with tickets := mark b.L.tickets s.cls } } : Cfg).trace (.dispatched s 0))
  | dispCall {s i h d} (hh : (handlersOf b.L s.cls)[i]? = some (h, d)) (hf : b.L.forceQuit = false) :
      CoreN P b (.dispatch s i) (push b [.callH h d s, .catchHandler, .dispatch s (i + 1)])
  | dispFQ {s i h d} (hh : (handlersOf b.L s.cls)[i]? = some (h, d)) (hf : b.L.forceQuit = true) :
      CoreN P b (.dispatch s i) (b.trace (.dispatched s i))
  | dispEnd {s i} (hh : (handlersOf b.L s.cls)[i]? = none) : CoreN P b (.dispatch s i) (b.trace (.dispatched s i))
  | catchHandler : CoreN P b .catchHandler b
  | callExc {d s} : CoreN P b (.callH .exc d s) ((b.trace (.call .exc d s)).emit P (.note "EXC-handled"))
  | callUser {hid d s} : CoreN P b (.callH (.user hid) d s)
      (push ((b.trace (.call (.user hid) d s)).emit P (.h hid s.id d b.L.levels.length))
        (bodyOf P (b.trace (.call (.user hid) d s)) (.user hid) s))
  | callSys {h d s} (hu : ∀ hid, h ≠ .user hid) (he : h ≠ .exc) : CoreN P b (.callH h d s)
      (push (b.trace (.call h d s)) (bodyOf P b h s))
  | hret {hid} : CoreN P b (.hret hid) (b.emit P (.hret hid))
  | procWait {cls} : CoreN P b (.procWait cls)
      (push (({ b with L := { b.L with tcounter := b.L.tcounter + 1,
                                       tickets := b.L.tickets ++ [({ line := cls, id := b.L.tcounter, marked := false } : Ticket)] } } : Cfg).trace
              (.waitBegin cls b.L.tcounter)) [.waitStep cls b.L.tcounter])
  | waitTake {cls t s Q A' lg tr' n} (hr : b.L.runLoop = true) (h1 : ∀ t ∈ tr', softT t = true) (h2 : ∀ e ∈ lg, softE e = true) : CoreN P b (.waitStep cls t)
      { b with code := .processSignal s :: .waitCheck cls t :: b.code, L := { b.L with queues := Q }, A := A', log := lg ++ b.log, tr := .take b.L.active s :: (tr' ++ b.tr), nextSid := n }
  | waitStop {cls t} (hr : b.L.runLoop = false) : CoreN P b (.waitStep cls t) (b.trace (.waitEnd cls t false))
  | waitDone {cls t} (h : b.L.tickets.any (fun k => k.line = cls ∧ k.id = t ∧ k.marked) = true) : CoreN P b (.waitCheck cls t)
      (({ b with L := { b.L with tickets := b.L.tickets.filter fun k => ¬ (k.line = cls ∧ k.id = t) } } : Cfg).trace (.waitEnd cls t true))
  | waitAgain {cls t} (h : b.L.tickets.any (fun k => k.line = cls ∧ k.id = t ∧ k.marked) = false) : CoreN P b (.waitCheck cls t)
      (push b [.waitStep cls t])
  | iterEmpty {p} (h : b.L.activeQ.entries = []) : CoreN P b (.procIter p) (b.trace .procEnd)
  | iterStopped {p e es} (h : b.L.activeQ.entries = e :: es) (hr : b.L.runLoop = false) : CoreN P b (.procIter p) (b.trace .procEnd)
  | iterFirst {e es} (h : b.L.activeQ.entries = e :: es) (hr : b.L.runLoop = true) : CoreN P b (.procIter none)
      (push { b with L := { b.L with queues := listSet b.L.queues b.L.active fun q => { q with entries := es } },
                     tr := .take b.L.active e.2.2 :: b.tr } [.processSignal e.2.2, .procIter (some e.2.2.prio)])
  | iterSame {pr e es} (h : b.L.activeQ.entries = e :: es) (hr : b.L.runLoop = true) (hp : e.2.2.prio = pr) : CoreN P b (.procIter (some pr))
      (push { b with L := { b.L with queues := listSet b.L.queues b.L.active fun q => { q with entries := es } },
                     tr := .take b.L.active e.2.2 :: b.tr } [.processSignal e.2.2, .procIter (some pr)])
  | iterOther {pr e es} (h : b.L.activeQ.entries = e :: es) (hr : b.L.runLoop = true) (hp : e.2.2.prio ≠ pr) : CoreN P b (.procIter (some pr))
      ((b.trace (.putBack b.L.active e.2.2)).trace .procEnd)
  | newLoopFQ {s} (h : b.L.forceQuit = true) : CoreN P b (.newLoop s) b
  | newLoop {s} (h : b.L.forceQuit = false) : CoreN P b (.newLoop s)
      (push (((({ b with L := { b.L with queues := b.L.queues ++ [({} : EQueue)], active := b.L.queues.length,
                                         levels := b.L.levels ++ [b.L.queues.length] } } : Cfg).trace
                (.openLevel b.L.queues.length b.L.runLoop))).enqueue s) [.mainCheck b.L.queues.length])
  | closeLoop : CoreN P b .closeLoop
      (push ((b.trace (.closeReq b.L.runLoop b.L.activeQ.entries.length)).trace .procBegin) [.procIter none, .popLevel])
  | popErr {pre ins rest' src} (h : b.L.levels.getLast? = none) (hcode : b.code = pre ++ ins :: rest')
      (hpre : ∀ i ∈ pre, errCatch i = none) (hins : errCatch ins = some src) : CoreN P b .popLevel
      { excEnq b src with code := afterCatch ins rest' }
  | popExit {q pre rest'} (h : b.L.levels.getLast? = some q) (h2 : b.L.levels.dropLast.getLast? = none)
      (hcode : b.code = pre ++ .catchExit :: rest') (hpre : ∀ i ∈ pre, isCatchExit i = false) : CoreN P b .popLevel
      { b with code := rest', L := { b.L with levels := [] }, tr := .exit :: .closeLevel q :: b.tr }
  | pop {q a} (h : b.L.levels.getLast? = some q) (h2 : b.L.levels.dropLast.getLast? = some a) : CoreN P b .popLevel
      { b.trace (.closeLevel q) with L := { b.L with levels := b.L.levels.dropLast, active := a, runLoop := false } }


theorem Core.toN {P : Prog} {b c' : Cfg} {ins : Instr} (h : Core P b ins c') : CoreN P b ins c' := by
  cases h
  case getDispatch s c1 h =>
    obtain ⟨Q, A', lg, tr', n, rfl, h1, h2⟩ := take_ok_nf h
    exact .getDispatch h1 h2
  case waitTake cls t s c1 hr h =>
    obtain ⟨Q, A', lg, tr', n, rfl, h1, h2⟩ := take_ok_nf h
    exact .waitTake hr h1 h2
  case popErr h hr =>
    rcases raise_ok hr with ⟨hk, -⟩ | ⟨-, pre, ins, rest, src, h1, h2, h3, rfl⟩
    · cases hk
    · exact .popErr h h1 h2 h3
  case popExit q h h2 hr =>
    rcases raise_ok hr with ⟨-, pre, rest, h1, h3, rfl⟩ | ⟨hk, -⟩
    · exact .popExit h h2 h1 h3
    · cases hk
  case dispEnd hh => exact .dispEnd hh
  case iterStopped h hr => exact .iterStopped h hr
  all_goals constructor <;> assumption


/-- how a soft step ends: as it is, or with an exception caught further down the code -/
inductive OtherFin (m : Cfg) : Cfg → Prop
  | same : OtherFin m m
  | exit {pre rest'} (hcode : m.code = pre ++ .catchExit :: rest') (hpre : ∀ i ∈ pre, isCatchExit i = false) :
      OtherFin m { m with code := rest', tr := .exit :: m.tr }
  | err {pre ins rest' src} (hcode : m.code = pre ++ ins :: rest') (hpre : ∀ i ∈ pre, errCatch i = none)
      (hins : errCatch ins = some src) : OtherFin m { excEnq m src with code := afterCatch ins rest' }

theorem step_ok_casesN {P : Prog} {c c' : Cfg} (hs : step P c = .ok c') :
    ∃ ins rest, c.code = ins :: rest ∧
      ((otherI ins = true ∧ ∃ m, Soft rest c m ∧ OtherFin m c') ∨
       (otherI ins = false ∧ CoreN P { c with code := rest } ins c')) := by
  obtain ⟨ins, rest, hc, ⟨ho, m, hm, rfl | ⟨k, -, hk⟩⟩ | ⟨ho, hcore⟩⟩ := step_ok_cases hs
  · exact ⟨ins, rest, hc, .inl ⟨ho, _, hm, .same⟩⟩
  · refine ⟨ins, rest, hc, .inl ⟨ho, m, hm, ?_⟩⟩
    rcases raise_ok hk with ⟨-, pre, rest', h1, h2, rfl⟩ | ⟨-, pre, i, rest', src, h1, h2, h3, rfl⟩
    · exact .exit h1 h2
    · exact .err h1 h2 h3
  · exact ⟨ins, rest, hc, .inr ⟨ho, hcore.toN⟩⟩

/-- the part of the state a soft step (with or without a caught exception) leaves alone -/
structure Frame (c c' : Cfg) : Prop where
  levels : c'.L.levels = c.L.levels
  active : c'.L.active = c.L.active
  runLoop : c'.L.runLoop = c.L.runLoop
  forceQuit : c'.L.forceQuit = c.L.forceQuit
  tickets : c'.L.tickets = c.L.tickets
  tcounter : c'.L.tcounter = c.L.tcounter
  quitCb : c'.L.quitCb = c.L.quitCb
  handlers : HExt c.L.handlers c'.L.handlers
  log : Ext softE c.log c'.log

theorem Soft.frame {rest : List Instr} {c m c' : Cfg} (hm : Soft rest c m) (hf : OtherFin m c') : Frame c c' := by
  cases hf
  · exact ⟨hm.levels, hm.active, hm.runLoop, hm.forceQuit, hm.tickets, hm.tcounter, hm.quitCb, hm.handlers, hm.log⟩
  · exact ⟨hm.levels, hm.active, hm.runLoop, hm.forceQuit, hm.tickets, hm.tcounter, hm.quitCb, hm.handlers, hm.log⟩
  · exact ⟨hm.levels, hm.active, hm.runLoop, hm.forceQuit, hm.tickets, hm.tcounter, hm.quitCb, hm.handlers, hm.log⟩

theorem deliver_frame {c c' : Cfg} (h : c.deliver = some c') : Frame c c' ∧ c'.code = c.code := by
  obtain ⟨r, rs, hr, rfl⟩ := deliver_eq h
  exact ⟨⟨rfl, rfl, rfl, rfl, rfl, rfl, rfl, HExt.refl _, Ext.cons rfl (Ext.refl _ _)⟩, rfl⟩

end Simpleline.Dispatch
