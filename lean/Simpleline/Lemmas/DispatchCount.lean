import Simpleline.Lemmas.DispatchStop
import Simpleline.Lemmas.ShapeExc

namespace Simpleline.Dispatch
open Simpleline Simpleline.Shape

/-! ### an ordinary exception never unwinds a loop frame (uses the bracket invariant `Chained`) -/

theorem unwindTo_err_eq {pre post : List Instr} {x : Instr} {src : Src} (hpre : ∀ i ∈ pre, errCatch i = none)
    (hx : errCatch x = some src) : unwindTo .err (pre ++ x :: post) = some (afterCatch x post) := by
  induction pre with
  | nil =>
    cases x <;> simp [errCatch] at hx <;> simp [unwindTo, afterCatch]
    congr 2
  | cons i is ih =>
    have hi := hpre i (by simp)
    have := ih (fun j hj => hpre j (by simp [hj]))
    cases i <;> simp [errCatch] at hi <;> simpa [unwindTo] using this

/-- what a caught ordinary exception, raised by a body instruction `h` in front of `rest`, drops: body instructions and
the catcher only — no loop-core instruction other than the `catchHandler` that catches it -/
theorem err_drop_noLC {h : Instr} {rest pre post : List Instr} {x : Instr} {src : Src} (hch : Chained (h :: rest))
    (hh : h.isLC = false) (hsplit : rest = pre ++ x :: post) (hpre : ∀ i ∈ pre, errCatch i = none)
    (hx : errCatch x = some src) :
    ∃ D, rest = D ++ afterCatch x post ∧ ∀ i ∈ D, i.isLC = false ∨ i = .catchHandler := by
  have := unwind_err_chained hch hh
  rw [hsplit, unwindTo_err_eq hpre hx] at this
  obtain ⟨D, h1, h2⟩ := this
  exact ⟨D, by rw [hsplit]; exact h1, h2⟩


theorem softI_nonLC {i : Instr} (h : softI i = true) : i.isLC = false := by
  cases i <;> first | rfl | cases h

theorem otherI_nonLC {i : Instr} (h : otherI i = true) : i.isLC = false := by
  cases i <;> first | rfl | cases h

theorem notCatchPS_eq : Dispatch.notCatchPS = Simpleline.notCatchPS := by
  funext i; cases i <;> rfl

/-- the code of a soft change, before a possible exception, is `pushed ++ rest` -/
theorem soft_code_eq {rest : List Instr} {ins : Instr} {c m : Cfg} (hc : c.code = ins :: rest) (hch : Chained c.code)
    (hm : Soft rest c m) : ∃ pushed, m.code = pushed ++ rest ∧ (∀ i ∈ pushed, softI i = true) ∧ closedB pushed = true := by
  obtain ⟨pushed, suf, hcode, hsuf, hp, hpc⟩ := hm.code
  refine ⟨pushed, ?_, hp, hpc⟩
  rcases hsuf with rfl | ⟨top, hfull, rfl⟩
  · exact hcode
  · rw [hcode, notCatchPS_eq]
    rw [hc] at hfull
    obtain ⟨rfl, -⟩ := List.cons.inj hfull
    rw [hc] at hch
    rw [identSkip_chained hch]

/-- What a step of a body instruction (without exit request) does to the code below it: soft instructions are pushed
in front of `rest`, and — if an exception is caught — a prefix `D` of the result is dropped that contains no
loop-core instruction except the catching `catchHandler`. -/
theorem other_drop {rest : List Instr} {ins : Instr} {c m c' : Cfg} (hc : c.code = ins :: rest) (ho : otherI ins = true)
    (hch : Chained c.code) (hm : Soft rest c m) (hf : OtherFin m c') :
    (∃ pushed D, (∀ i ∈ pushed, softI i = true) ∧ (∀ i ∈ D, i.isLC = false ∨ i = .catchHandler) ∧
      pushed ++ rest = D ++ c'.code) ∨ c'.tr = .exit :: m.tr := by
  obtain ⟨pushed, hmcode, hp, hpc⟩ := soft_code_eq hc hch hm
  cases hf
  case same => exact .inl ⟨pushed, [], hp, by simp, by simp [hmcode]⟩
  case exit => exact .inr rfl
  case err pre x post src hcode' hpre hx =>
    left
    rw [hmcode] at hcode'
    refine ⟨pushed, ?_⟩
    rcases errCatch_split pushed with hnone | ⟨p1, y, p2, srcy, hpushed, hp1, hy⟩
    · -- the catcher is in `rest`
      rcases errCatch_split rest with hnone' | ⟨r1, z, r2, srcz, hrest, hr1, hz⟩
      · exfalso
        have : errCatch x = none := by
          have hxm : x ∈ pushed ++ rest := by rw [hcode']; simp
          rcases List.mem_append.mp hxm with h | h
          · exact hnone x h
          · exact hnone' x h
        rw [hx] at this; cases this
      · have heq : (pushed ++ r1) ++ z :: r2 = pre ++ x :: post := by rw [← hcode', hrest, List.append_assoc]
        obtain ⟨rfl, rfl, rfl⟩ := split_first_unique (fun i => (errCatch i).isSome) heq
          (by intro i hi; rcases List.mem_append.mp hi with h | h
              · simp [hnone i h]
              · simp [hr1 i h])
          (by intro i hi; simp [hpre i hi]) (by simp [hz]) (by simp [hx])
        rw [hc] at hch
        obtain ⟨D', hD1, hD2⟩ := err_drop_noLC hch (otherI_nonLC ho) hrest hr1 hz
        refine ⟨pushed ++ D', hp, ?_, by simp only [List.append_assoc]; rw [← hD1]⟩
        intro i hi
        rcases List.mem_append.mp hi with h | h
        · exact .inl (softI_nonLC (hp i h))
        · exact hD2 i h
    · -- the catcher is among the pushed instructions
      have heq : p1 ++ y :: (p2 ++ rest) = pre ++ x :: post := by rw [← hcode', hpushed]; simp
      obtain ⟨rfl, rfl, rfl⟩ := split_first_unique (fun i => (errCatch i).isSome) heq
        (by intro i hi; simp [hp1 i hi]) (by intro i hi; simp [hpre i hi]) (by simp [hy]) (by simp [hx])
      have hY : ∃ Y, Y <:+ p2 ∧ afterCatch y (p2 ++ rest) = Y ++ rest := by
        cases y <;> simp [errCatch] at hy
        case catchPI scr =>
          have hcl : closedB (.catchPI scr :: p2) = true :=
            closedB_suffix (by rw [hpushed]; exact List.suffix_append _ _) hpc
          simp only [closedB, Bool.and_eq_true, List.any_eq_true] at hcl
          obtain ⟨⟨e, he, hee⟩, -⟩ := hcl
          obtain ⟨h1, h2⟩ := dropWhile_append_of_mem (p := notEndPI) rest he (by cases e <;> simp_all [isEndPI, notEndPI])
          refine ⟨(p2.dropWhile notEndPI).tail, (List.tail_suffix _).trans (List.dropWhile_suffix _), ?_⟩
          simp only [afterCatch, h1]
          cases hd : p2.dropWhile notEndPI with
          | nil => exact absurd hd h2
          | cons a l => simp
        all_goals exact ⟨p2, List.suffix_refl _, rfl⟩
      obtain ⟨Y, ⟨D0, hD0⟩, hYeq⟩ := hY
      refine ⟨p1 ++ y :: D0, hp, ?_, ?_⟩
      · intro i hi
        exact .inl (softI_nonLC (hp i (by
          rw [hpushed, ← hD0]
          simp only [List.mem_append, List.mem_cons] at hi ⊢
          rcases hi with h | h | h
          · exact .inl h
          · exact .inr (.inl h)
          · exact .inr (.inr (.inl h)))))
      · show _ = _ ++ afterCatch y (p2 ++ rest)
        rw [hYeq, hpushed, ← hD0]; simp


/-! ### counting loop frames against levels -/

/-- the `_mainloop` activations that are pending: their loop test, or the `self._run_loop = True` that follows it, or the
`apprun` that is going to start the outermost one -/
def isFrame : Instr → Bool
  | .mainCheck _ | .restoreRun | .apprun => true
  | _ => false

def frames (l : List Instr) : Nat := l.countP isFrame

/-- the levels an activation has to leave its loop for: the open levels, plus one if `_run_loop` is down -/
def debt (L : LoopSt) : Nat := L.levels.length + (if L.runLoop then 0 else 1)

theorem frame_of_nonLC {i : Instr} (h : i.isLC = false ∨ i = .catchHandler) : isFrame i = false := by
  rcases h with h | rfl
  · cases i <;> first | rfl | cases h
  · rfl

theorem frames_zero {l : List Instr} (h : ∀ i ∈ l, i.isLC = false ∨ i = .catchHandler) : frames l = 0 := by
  unfold frames; rw [List.countP_eq_zero]; intro i hi; simp [frame_of_nonLC (h i hi)]

theorem frames_append (a b : List Instr) : frames (a ++ b) = frames a + frames b := List.countP_append

/-- a step of a body instruction without exit request keeps all frames -/
theorem other_frames {rest : List Instr} {ins : Instr} {c m c' : Cfg} (hc : c.code = ins :: rest) (ho : otherI ins = true)
    (hch : Chained c.code) (hm : Soft rest c m) (hf : OtherFin m c') (hx : c'.tr ≠ .exit :: m.tr) :
    frames c'.code = frames c.code := by
  rcases other_drop hc ho hch hm hf with ⟨pushed, D, hp, hD, heq⟩ | h
  · have h1 := congrArg frames heq
    rw [frames_append, frames_append, frames_zero hD, frames_zero (fun i hi => .inl (softI_nonLC (hp i hi)))] at h1
    rw [hc]
    have : frames (ins :: rest) = frames rest := by
      unfold frames; rw [List.countP_cons, frame_of_nonLC (.inl (otherI_nonLC ho))]; simp
    omega
  · exact absurd h hx

/-- the open part of the run: `apprun` or the outermost loop test is still pending at the bottom -/
def OpenCode (code : List Instr) : Prop := ∃ B T, code = B ++ T ∧ (∀ i ∈ B, isTop i = false) ∧ OpenTail T

theorem OpenCode.frames_pos {code : List Instr} (h : OpenCode code) : 1 ≤ frames code := by
  obtain ⟨B, T, rfl, -, hT⟩ := h
  rw [frames_append]
  rcases hT with rfl | rfl
  · have : frames [Instr.apprun] = 1 := rfl
    omega
  · have : frames [Instr.mainCheck 0, .catchExit, .quitCb] = 1 := rfl
    omega

theorem OpenCode.not_over {code : List Instr} (h : OpenCode code) :
    code ≠ [] ∧ code ≠ [.quitCb] ∧ code ≠ [.catchExit, .quitCb] ∧ code ≠ [.restoreRun, .catchExit, .quitCb] := by
  obtain ⟨B, T, rfl, -, hT⟩ := h
  exact open_ne hT

/-- open code in front of which `restoreRun` is pending holds at least two frames -/
theorem OpenCode.frames_restore {rest : List Instr} (h : OpenCode (.restoreRun :: rest)) : 2 ≤ frames (.restoreRun :: rest) := by
  obtain ⟨B, T, hcode, hB, hT⟩ := h
  cases B with
  | nil => rcases hT with rfl | rfl <;> simp at hcode
  | cons b B =>
    simp at hcode
    obtain ⟨rfl, rfl⟩ := hcode
    have : 1 ≤ frames (B ++ T) := OpenCode.frames_pos ⟨B, T, rfl, fun i hi => hB i (by simp [hi]), hT⟩
    have h2 : frames (Instr.restoreRun :: (B ++ T)) = frames (B ++ T) + 1 := by
      simp [frames, List.countP_cons, isFrame]
    omega


@[simp] theorem frames_nil : frames [] = 0 := rfl

theorem frames_cons (i : Instr) (l : List Instr) : frames (i :: l) = (if isFrame i = true then 1 else 0) + frames l := by
  unfold frames; rw [List.countP_cons]; omega

theorem frames_bodyOf (P : Prog) (X : Cfg) (h : HRef) (s : Sig) : frames (bodyOf P X h s) = 0 := by
  apply frames_zero
  intro i hi
  left
  cases h <;> simp [bodyOf] at hi
  case user hid => rcases hi with ⟨a, -, rfl⟩ | rfl <;> rfl
  all_goals (subst hi; rfl)

theorem frames_suffix_le {l l' : List Instr} (h : l' <:+ l) : frames l' ≤ frames l := h.sublist.countP_le

/-- a core step keeps the debt below the number of pending frames (while the run is open) -/
theorem coreN_count {P : Prog} {rest : List Instr} {ins : Instr} {c c' : Cfg} (hc : c.code = ins :: rest) (hch : Chained c.code)
    (hfq : FQInv c) (hhead : ins = .restoreRun → c.L.runLoop = false) (hopen : OpenCode c.code) (hopen' : OpenCode c'.code)
    (hK : debt c.L ≤ frames c.code) (h : CoreN P { c with code := rest } ins c') : debt c'.L ≤ frames c'.code := by
  rw [hc, frames_cons] at hK
  cases h
  case popErr pre x rest' src h hcode hpre hx =>
    simp only at hcode
    rw [hc] at hch
    obtain ⟨D, hD1, hD2⟩ := err_drop_noLC hch rfl hcode hpre hx
    have e2 : frames rest = frames (afterCatch x rest') := by
      rw [hD1, frames_append, frames_zero hD2]; omega
    have e1 : debt (excEnq ({ c with code := rest } : Cfg) src).L = debt c.L := rfl
    simp [isFrame] at hK
    show debt (excEnq ({ c with code := rest } : Cfg) src).L ≤ frames (afterCatch x rest')
    omega
  case popExit q pre rest' h h2 hcode hpre =>
    exfalso
    simp only at hcode
    obtain ⟨B, T, hBT, hB, hT⟩ := hopen
    rw [hc] at hBT
    cases B with
    | nil => rcases hT with rfl | rfl <;> simp at hBT
    | cons b B =>
      simp at hBT
      obtain ⟨rfl, rfl⟩ := hBT
      have := shape_exit (fun i hi => hB i (by simp [hi])) hT.tail hcode hpre
      subst this
      exact hopen'.not_over.2.1 rfl
  case forceQuit =>
    have := hopen'.frames_pos
    simp [debt] at this ⊢
    exact this
  case restoreFQ hf =>
    have h2 := OpenCode.frames_restore (hc ▸ hopen)
    rw [frames_cons] at h2
    obtain ⟨g1, g2⟩ := hfq hf
    simp [isFrame] at h2
    show debt c.L ≤ frames rest
    simp [debt, g1, g2]
    omega
  case restore hf =>
    have hr := hhead rfl
    simp [isFrame, debt, hr] at hK
    show debt ({ c.L with runLoop := true } : LoopSt) ≤ frames rest
    simp [debt]
    omega
  case pop q a h h2 =>
    have hlen : 1 ≤ c.L.levels.length := by
      have h' : c.L.levels.getLast? = some q := h
      cases hl : c.L.levels with
      | nil => rw [hl] at h'; cases h'
      | cons x xs => simp
    simp [isFrame] at hK
    show debt ({ c.L with levels := c.L.levels.dropLast, active := a, runLoop := false } : LoopSt) ≤ frames rest
    simp [debt] at hK ⊢
    split at hK <;> omega
  all_goals
    simp only [push, Cfg.trace, enqueue_eq, emit_eq, debt, frames_cons, frames_append, frames_bodyOf, isFrame,
      List.cons_append, List.nil_append] at hK ⊢
    simp at hK ⊢
    first | exact hK | omega | (split at hK <;> omega)


/-- `restoreRun` is only ever the next instruction -/
theorem restoreRun_not_tail {a : Instr} {l : List Instr} (h : Chained (a :: l)) : Instr.restoreRun ∉ l := by
  intro hm
  obtain ⟨l1, l2, rfl⟩ := List.append_of_mem hm
  have hno : ∀ x : Instr, x.fclass.allows .restoreRun = false := by
    intro x; cases x <;> rfl
  rcases List.eq_nil_or_concat l1 with rfl | ⟨init, y, rfl⟩
  · have : a.fclass.allows .restoreRun = true := h.1
    rw [hno] at this; cases this
  · have h2 : Chained (y :: .restoreRun :: l2) := by
      have : a :: (init.concat y ++ .restoreRun :: l2) = (a :: init) ++ (y :: .restoreRun :: l2) := by simp
      rw [this] at h
      exact h.of_append
    have : y.fclass.allows .restoreRun = true := h2.1
    rw [hno] at this; cases this

/-- only transitions out of the open part lead into it, and none of them is an exit request -/
theorem openCode_back {P : Prog} {c c' : Cfg} (hS : ShapeStep P c c') (ho : OpenCode c'.code) :
    OpenCode c.code ∧ Tr.exit ∉ newTr c c' := by
  obtain ⟨n1, n2, n3, n4⟩ := ho.not_over
  cases hS
  case body B B' T hT hc hB hne hcode hB' hx => exact ⟨⟨B, T, hc, hB, hT⟩, hx⟩
  case exit hc hB hne hcode hx => exact absurd hcode n2
  case start hc hcode htr => exact ⟨⟨[], _, hc, by simp, .inl rfl⟩, by rw [newTr_eq (new := []) (by simp [htr])]; simp⟩
  case loopOn hc hr hcode htr => exact ⟨⟨[], _, hc, by simp, .inr rfl⟩, by rw [newTr_eq (new := []) (by simp [htr])]; simp⟩
  case loopOff hc hr hcode htr => exact absurd hcode n4
  case restored hc hcode htr => exact absurd hcode n3
  case leave hc hcode htr => exact absurd hcode n2
  case quit hc hcode hx hlog => exact absurd hcode n1
  case same hcode hx => exact ⟨hcode ▸ ho, hx⟩
  case dead hs hcode hx => exact absurd hcode n1

def isRestore : Instr → Bool
  | .restoreRun => true
  | _ => false

theorem bodyOf_not_restore (P : Prog) (X : Cfg) (h : HRef) (s : Sig) : ∀ i ∈ bodyOf P X h s, isRestore i = false := by
  intro i hi
  cases h <;> simp [bodyOf] at hi
  case user hid => rcases hi with ⟨a, -, rfl⟩ | rfl <;> rfl
  all_goals (subst hi; rfl)

macro "codeR_tac" : tactic => `(tactic| (
  (try simp only [push, Cfg.trace, enqueue_eq, emit_eq, excEnq, List.cons_append, List.nil_append]) <;>
  repeat' first
    | exact CodeQ.refl _ _
    | apply CodeQ.cons (by simp [isRestore])
    | apply CodeQ.append (bodyOf_not_restore _ _ _ _)))

/-- `restoreRun` is pushed only by a loop test that finds the flag down -/
theorem coreN_restore {P : Prog} {b c' : Cfg} {ins : Instr} (h : CoreN P b ins c') :
    (b.L.runLoop = false ∧ c'.L.runLoop = false) ∨ CodeQ isRestore b.code c'.code := by
  cases h
  case mainExit q hr => exact .inl ⟨hr, hr⟩
  case popErr pre x rest' src h hcode hpre hx =>
    exact .inr (.of_suffix (by rw [hcode]; exact (afterCatch_suffix _ _).trans (List.suffix_append_of_suffix (List.suffix_cons _ _))))
  case popExit q pre rest' h h2 hcode hpre =>
    exact .inr (.of_suffix (by rw [hcode]; exact List.suffix_append_of_suffix (List.suffix_cons _ _)))
  all_goals right; codeR_tac

theorem softI_not_restore {i : Instr} (h : softI i = true) : isRestore i = false := by
  cases i <;> first | rfl | cases h

/-- while the run is open the debt never exceeds the pending frames; and a pending `restoreRun` sees the flag down -/
structure CountInv (c : Cfg) : Prop where
  count : OpenCode c.code → debt c.L ≤ frames c.code
  head : c.code.head? = some .restoreRun → c.L.runLoop = false

theorem frames_tail_of_nonframe {ins : Instr} {rest : List Instr} (h : isFrame ins = false) : frames (ins :: rest) = frames rest := by
  rw [frames_cons, h]; simp

theorem countInv_trans {P : Prog} {c0 c c' : Cfg} (h0 : Started c0) (hr : Reach P c0 c) (hI : CountInv c) (ht : Trans P c c') :
    CountInv c' := by
  have hch : Chained c.code := reach_chained h0 hr
  have hch' : Chained c'.code := reach_chained h0 (reach_trans hr ht)
  have hS := shapeStep_reach h0 hr ht
  have hfq := fqInv_reach h0 hr
  constructor
  · intro ho'
    obtain ⟨ho, hnx⟩ := openCode_back hS ho'
    have hK := hI.count ho
    cases ht with
    | step hs =>
      obtain ⟨ins, rest, hc, ⟨hoth, m, hm, hf⟩ | ⟨-, hcore⟩⟩ := step_ok_casesN hs
      · have hfr := hm.frame hf
        have e1 : debt c'.L = debt c.L := by simp [debt, hfr.levels, hfr.runLoop]
        have e2 := other_frames hc hoth hch hm hf (by
          intro hex
          obtain ⟨d, hd, -⟩ := hm.tr
          exact hnx (by rw [mem_newTr (d := .exit :: d) (by rw [hex, hd]; rfl)]; simp))
        omega
      · exact coreN_count hc hch hfq (fun h => hI.head (by rw [hc, h]; rfl)) ho ho' hK hcore
    | deliver hd =>
      obtain ⟨hf, hcode⟩ := deliver_frame hd
      have e1 : debt c'.L = debt c.L := by simp [debt, hf.levels, hf.runLoop]
      rw [e1, hcode]; exact hK
    | halt hs =>
      rcases step_error_cases hs with ⟨-, -, rfl⟩ | ⟨ins, rest, hc, ⟨hoth, m, hm, ⟨-, rfl⟩ | ⟨k, -, hk⟩⟩ | ⟨-, hcore⟩⟩
      · exact hK
      · have e1 : debt c'.L = debt c.L := by simp [debt, hm.levels, hm.runLoop]
        have e2 := other_frames hc hoth hch hm .same (by
          intro hex
          have := congrArg List.length hex
          simp at this)
        omega
      · exact absurd (by rw [(raise_error hk).1]) ho'.not_over.1
      · obtain ⟨g1, g2, g3⟩ := coreErr_ctl hcore
        cases hcore
        case refuse hne =>
          have e2 : frames rest ≤ frames c.code := by rw [hc]; exact frames_suffix_le (List.suffix_cons _ _)
          -- `c'` is `c` without its head `apprun`; open code cannot start with ... keep it simple: count directly
          obtain ⟨B, T, hBT, hB, hT⟩ := ho
          rw [hc] at hBT
          cases B with
          | nil =>
            rcases hT with rfl | rfl <;> simp at hBT
            subst hBT
            exact absurd rfl ho'.not_over.1
          | cons b B =>
            simp at hBT
            have := hB b (by simp)
            rw [← hBT.1] at this; cases this
        case getBlocked h =>
          have e1 : debt c'.L = debt c.L := by
            simp only [debt]
            rcases g3 with g3 | g3
            · simp [g2, g3]
            · obtain ⟨-, h | h, -, -⟩ := take_error h
              · subst h; rfl
              · obtain ⟨r, rs, hrr, rfl⟩ := deliver_eq h; rfl
          rw [e1, take_error_code h]
          rw [hc, frames_tail_of_nonframe rfl] at hK
          exact hK
        case waitBlocked cls t hrl h =>
          have e1 : debt c'.L = debt c.L := by
            obtain ⟨-, h | h, -, -⟩ := take_error h
            · subst h; rfl
            · obtain ⟨r, rs, hrr, rfl⟩ := deliver_eq h; rfl
          rw [e1, take_error_code h]
          rw [hc, frames_tail_of_nonframe rfl] at hK
          exact hK
        case kill => exact absurd rfl ho'.not_over.1
        case popErr h hr' => exact absurd (by rw [(raise_error hr').1]) ho'.not_over.1
        case popExit h h2 hr' => exact absurd (by rw [(raise_error hr').1]) ho'.not_over.1
  · intro hh
    have hmem := List.mem_of_mem_head? hh
    cases ht with
    | step hs =>
      obtain ⟨ins, rest, hc, ⟨hoth, m, hm, hf⟩ | ⟨-, hcore⟩⟩ := step_ok_casesN hs
      · exfalso
        rcases other_code_mem hm hf _ hmem with h | h
        · cases h
        · exact restoreRun_not_tail (hc ▸ hch) h
      · rcases coreN_restore hcore with ⟨-, h⟩ | h
        · exact h
        · exfalso
          have := h.all (q := isRestore) (fun i hi => by
            cases i <;> try rfl
            exact absurd hi (restoreRun_not_tail (hc ▸ hch))) _ hmem
          simp [isRestore] at this
    | deliver hd =>
      obtain ⟨hf, hcode⟩ := deliver_frame hd
      rw [hf.runLoop]; exact hI.head (hcode ▸ hh)
    | halt hs =>
      rcases step_error_cases hs with ⟨-, -, rfl⟩ | ⟨ins, rest, hc, ⟨hoth, m, hm, ⟨-, rfl⟩ | ⟨k, -, hk⟩⟩ | ⟨-, hcore⟩⟩
      · exact hI.head hh
      · exfalso
        rcases other_code_mem hm .same _ hmem with h | h
        · cases h
        · exact restoreRun_not_tail (hc ▸ hch) h
      · rw [(raise_error hk).1] at hh; simp at hh
      · exfalso
        have hno := restoreRun_not_tail (hc ▸ hch)
        cases hcore
        case refuse => exact hno hmem
        case getBlocked h => rw [take_error_code h] at hmem; exact hno hmem
        case waitBlocked h => rw [take_error_code h] at hmem; exact hno hmem
        case kill => simp at hh
        case popErr h hr' => rw [(raise_error hr').1] at hh; simp at hh
        case popExit h h2 hr' => rw [(raise_error hr').1] at hh; simp at hh


theorem countInv_reach {P : Prog} {c0 c : Cfg} (h0 : Started c0) (hr : Reach P c0 c) : CountInv c := by
  induction hr with
  | init =>
    obtain ⟨i, h, q, s, rfl⟩ := h0
    constructor
    · intro _
      have : frames (initCfg i h q s).code = 1 := by
        simp only [initCfg, frames_append]
        rw [frames_zero (by intro x hx; simp at hx; obtain ⟨a, -, rfl⟩ := hx; exact .inl rfl)]
        rfl
      rw [this]; simp [initCfg, debt]
    · intro hh
      have := List.mem_of_mem_head? hh
      simp [initCfg] at this
  | step hr hs ih => exact countInv_trans h0 hr ih (.step hs)
  | deliver hr hd ih => exact countInv_trans h0 hr ih (.deliver hd)
  | halt hr hs ih => exact countInv_trans h0 hr ih (.halt hs)

/-! ### what empties the level stack -/

theorem coreN_levels {P : Prog} {b c' : Cfg} {ins : Instr} (h : CoreN P b ins c') :
    c'.L.levels = b.L.levels ∨ c'.L.levels ≠ [] ∨ Tr.forceQuit ∈ c'.tr ∨ Tr.exit ∈ c'.tr := by
  cases h
  case forceQuit => exact .inr (.inr (.inl (by simp)))
  case newLoop s hf => exact .inr (.inl (by simp [push, Cfg.trace, enqueue_eq]))
  case pop q a h h2 =>
    refine .inr (.inl ?_)
    intro he
    have he' : b.L.levels.dropLast = [] := he
    rw [he'] at h2; cases h2
  case popExit q pre rest' h h2 hcode hpre => exact .inr (.inr (.inr (by simp)))
  all_goals exact .inl (by simp [push, Cfg.trace, emit_eq, excEnq])

/-- the level stack is empty only after a force-quit or an exit request -/
def LevelsInv (c : Cfg) : Prop := c.L.levels = [] → Tr.forceQuit ∈ c.tr ∨ Tr.exit ∈ c.tr

theorem levelsInv_trans {P : Prog} {c c' : Cfg} (hI : LevelsInv c) (ht : Trans P c c') : LevelsInv c' := by
  obtain ⟨new, hnew, -⟩ := trans_origin ht
  have keep : c'.L.levels = c.L.levels → LevelsInv c' := by
    intro he hl
    rw [hnew]
    exact (hI (he ▸ hl)).imp (List.mem_append_right _) (List.mem_append_right _)
  cases ht with
  | step hs =>
    obtain ⟨ins, rest, hc, ⟨ho, m, hm, hf⟩ | ⟨-, hcore⟩⟩ := step_ok_casesN hs
    · exact keep (hm.frame hf).levels
    · rcases coreN_levels hcore with h | h | h | h
      · exact keep h
      · exact fun hl => absurd hl h
      · exact fun _ => .inl h
      · exact fun _ => .inr h
  | deliver hd => exact keep (deliver_frame hd).1.levels
  | halt hs =>
    rcases step_error_cases hs with ⟨-, -, rfl⟩ | ⟨ins, rest, hc, ⟨ho, m, hm, ⟨-, rfl⟩ | ⟨k, -, hk⟩⟩ | ⟨-, hcore⟩⟩
    · exact hI
    · exact keep hm.levels
    · refine keep ?_
      rw [(raise_error hk).1]; cases k <;> exact hm.levels
    · cases hcore
      case refuse => exact keep rfl
      case getBlocked h =>
        obtain ⟨-, h | h, -, -⟩ := take_error h
        · subst h; exact keep rfl
        · obtain ⟨r, rs, hrr, rfl⟩ := deliver_eq h; exact keep rfl
      case waitBlocked h =>
        obtain ⟨-, h | h, -, -⟩ := take_error h
        · subst h; exact keep rfl
        · obtain ⟨r, rs, hrr, rfl⟩ := deliver_eq h; exact keep rfl
      case kill => exact keep rfl
      case popErr h hr' => exact keep (by rw [(raise_error hr').1]; rfl)
      case popExit q h h2 hr' =>
        intro _
        right
        rw [(raise_error hr').1]
        simp [preRaise]

theorem levelsInv_reach {P : Prog} {c0 c : Cfg} (h0 : Started c0) (hr : Reach P c0 c) : LevelsInv c := by
  refine reach_induction ?_ ?_ hr
  · obtain ⟨i, h, q, s, rfl⟩ := h0
    intro hl; simp [initCfg] at hl
  · intro c c' _ hI ht; exact levelsInv_trans hI ht

/-- **the outermost loop test finds the flag down only after force-quit** -/
theorem outer_down_forceQuit {P : Prog} {c0 c : Cfg} (h0 : Started c0) (hr : Reach P c0 c)
    (hc : c.code = [.mainCheck 0, .catchExit, .quitCb]) (hf : c.L.runLoop = false) : Tr.forceQuit ∈ c.tr := by
  have hK := (countInv_reach h0 hr).count ⟨[], _, hc, by simp, .inr rfl⟩
  have hfr : frames c.code = 1 := by rw [hc]; rfl
  simp only [debt, hf, hfr] at hK
  have hl : c.L.levels = [] := by
    cases hl : c.L.levels with
    | nil => rfl
    | cons a l => rw [hl] at hK; simp at hK
  rcases levelsInv_reach h0 hr hl with h | h
  · exact h
  · rcases exit_over_reach h0 hr h with h' | h' <;> rw [hc] at h' <;> cases h'


/-- a live run that has returned was told to: an exit request, or a force-quit made the outermost loop leave -/
theorem returned_reason {P : Prog} {c0 c : Cfg} (h0 : Started c0) (hl : Live P c0 c) (hc : c.code = []) :
    Tr.exit ∈ c.tr ∨ (Tr.loopReturn 0 ∈ c.tr ∧ Tr.forceQuit ∈ c.tr) :=
  ((liveInv_live (R := fun tr => Tr.forceQuit ∈ tr) (fun _ _ h => List.mem_append_right _ h) h0
    (fun _ hr hc hf => outer_down_forceQuit h0 hr hc hf) hl).done hc).1

/-! ### nothing but an exit request drops loop-core instructions -/

/-- the loop-core instructions other than the `except Exception` scope of a handler call -/
def isKeep : Instr → Bool
  | .apprun | .catchExit | .quitCb | .mainCheck _ | .restoreRun | .loopCheck | .getDispatch
  | .processSignal _ | .dispatch _ _ | .kill _ => true
  | _ => false

theorem keep_of_drop {D : List Instr} (h : ∀ i ∈ D, i.isLC = false ∨ i = .catchHandler) : D.filter isKeep = [] := by
  rw [List.filter_eq_nil_iff]
  intro i hi
  rcases h i hi with h | rfl
  · cases i <;> first | (simp [isKeep]; done) | cases h
  · simp [isKeep]

theorem coreN_suffix {P : Prog} {b c' : Cfg} {ins : Instr} (h : CoreN P b ins c') (hch : Chained (ins :: b.code)) :
    (b.code.filter isKeep <:+ c'.code.filter isKeep) ∨ ∃ q, c'.tr = .exit :: .closeLevel q :: b.tr := by
  cases h
  case popErr pre x rest' src h hcode hpre hx =>
    left
    obtain ⟨D, hD1, hD2⟩ := err_drop_noLC hch rfl hcode hpre hx
    show _ <:+ (afterCatch x rest').filter isKeep
    rw [hD1, List.filter_append, keep_of_drop hD2, List.nil_append]
    exact List.suffix_refl _
  case popExit q pre rest' h h2 hcode hpre => exact .inr ⟨q, rfl⟩
  all_goals
    left
    apply List.IsSuffix.filter
    simp [push, Cfg.trace, enqueue_eq, emit_eq, List.suffix_cons_iff]

/-- **Only an exit request drops loop-core instructions.**  Out of a reachable configuration, a successful step that does
not record an exit request keeps every loop-core instruction pending below the executed one — the remaining
`dispatch`es of every signal being dispatched, every loop test, at every depth —, in order: they are a suffix of the
loop-core instructions pending afterwards. -/
theorem keep_loop_core {P : Prog} {c0 c c' : Cfg} (h0 : Started c0) (hr : Reach P c0 c) (hs : step P c = .ok c')
    (hx : Tr.exit ∉ newTr c c') : c.code.tail.filter isKeep <:+ c'.code.filter isKeep := by
  have hch : Chained c.code := reach_chained h0 hr
  obtain ⟨new, hnew, -⟩ := trans_origin (Trans.step hs)
  obtain ⟨ins, rest, hc, ⟨hoth, m, hm, hf⟩ | ⟨-, hcore⟩⟩ := step_ok_casesN hs
  · rcases other_drop hc hoth hch hm hf with ⟨pushed, D, hp, hD, heq⟩ | hex
    · have h1 := congrArg (List.filter isKeep) heq
      rw [List.filter_append, List.filter_append, keep_of_drop hD,
        keep_of_drop (fun i hi => .inl (softI_nonLC (hp i hi)))] at h1
      simp only [List.nil_append] at h1
      rw [hc, List.tail_cons, h1]
      exact List.suffix_refl _
    · exfalso
      obtain ⟨d, hd, -⟩ := hm.tr
      exact hx (by rw [mem_newTr (d := .exit :: d) (by rw [hex, hd]; rfl)]; simp)
  · rcases coreN_suffix hcore (hc ▸ hch) with h | ⟨q, h⟩
    · rw [hc]; exact h
    · exact absurd (by rw [mem_newTr (d := [.exit, .closeLevel q]) (by rw [h]; rfl)]; simp) hx

end Simpleline.Dispatch
