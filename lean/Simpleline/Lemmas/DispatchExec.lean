import Simpleline.Lemmas.DispatchSteps

namespace Simpleline.Dispatch
open Simpleline

/-! ### executions -/

theorem reach_trans {P : Prog} {c0 c c' : Cfg} (hr : Reach P c0 c) (ht : Trans P c c') : Reach P c0 c' := by
  cases ht with
  | step hs => exact .step hr hs
  | deliver hd => exact .deliver hr hd
  | halt hs => exact .halt hr hs

theorem reach_steps {P : Prog} {c0 c c' : Cfg} (hr : Reach P c0 c) (hs : Steps P c c') : Reach P c0 c' := by
  induction hs with
  | refl => exact hr
  | tail _ ht ih => exact reach_trans ih ht

theorem Steps.of_reach {P : Prog} {c0 c : Cfg} (hr : Reach P c0 c) : Steps P c0 c := by
  refine reach_induction (motive := fun c => Steps P c0 c) (.refl _) ?_ hr
  intro c c' _ ih ht
  exact .tail ih ht

theorem Steps.trans {P : Prog} {a b c : Cfg} (h1 : Steps P a b) (h2 : Steps P b c) : Steps P a c := by
  induction h2 with
  | refl => exact h1
  | tail _ ht ih => exact .tail ih ht

/-- a run with fuel visits reachable configurations only -/
theorem runFuel_steps (P : Prog) (n : Nat) (c : Cfg) : Steps P c (runFuel P n c).1 := by
  induction n generalizing c with
  | zero => exact .refl _
  | succ n ih =>
    unfold runFuel
    cases hs : step P c with
    | ok c' => exact (Steps.tail (.refl _) (.step hs)).trans (ih c')
    | error e => obtain ⟨o, c'⟩ := e; exact .tail (.refl _) (.halt hs)

theorem runFuel_reach (P : Prog) (n : Nat) (c0 : Cfg) : Reach P c0 (runFuel P n c0).1 :=
  reach_steps Reach.init (runFuel_steps P n c0)

theorem runLive_live {P : Prog} {c0 : Cfg} (n : Nat) : ∀ {c : Cfg}, Live P c0 c → Live P c0 (runLive P n c) := by
  induction n with
  | zero => intro c h; exact h
  | succ n ih =>
    intro c h
    unfold runLive
    cases hs : step P c with
    | ok c' => exact ih (.step h hs)
    | error e => exact h

theorem steps_static {P : Prog} {c c' : Cfg} (h : Steps P c c') :
    c.L.handlers <+: c'.L.handlers ∧ c'.L.quitCb = c.L.quitCb ∧ c.L.tcounter ≤ c'.L.tcounter ∧
      (∃ new, c'.tr = new ++ c.tr) ∧ ∃ new, c'.log = new ++ c.log := by
  induction h with
  | refl => exact ⟨List.prefix_refl _, rfl, Nat.le_refl _, ⟨[], rfl⟩, ⟨[], rfl⟩⟩
  | tail _ ht ih =>
    obtain ⟨h1, h2, h3, ⟨n1, h4⟩, ⟨n2, h5⟩⟩ := ih
    obtain ⟨g1, g2, g3⟩ := trans_static ht
    obtain ⟨m1, g4, -⟩ := trans_origin ht
    obtain ⟨m2, g5, -⟩ := trans_logOrigin ht
    exact ⟨h1.trans g1.prefix, g2.trans h2, Nat.le_trans h3 g3, ⟨m1 ++ n1, by rw [g4, h4, List.append_assoc]⟩,
      ⟨m2 ++ n2, by rw [g5, h5, List.append_assoc]⟩⟩


theorem takeCount_append_le (s : Sig) (new tr : List Tr) : takeCount s tr ≤ takeCount s (new ++ tr) := by
  induction new with
  | nil => exact Nat.le_refl _
  | cons t new ih =>
    cases t <;> simp only [List.cons_append, takeCount] <;> first | exact ih | (split <;> omega)

/-- when the dispatch of `s` completes, the handlers called for it are the whole live list (unless force-quit) -/
theorem dispatch_complete {P : Prog} {c0 c c' : Cfg} (h0 : Started c0) (hr : Reach P c0 c) (ht : Trans P c c')
    (s : Sig) (n : Nat) (hm : Tr.dispatched s n ∈ newTr c c') (h1 : takeCount s c'.tr ≤ 1) :
    callsOf s c'.tr = (handlersOf c'.L s.cls).take n ∧
    (c.L.forceQuit = false → callsOf s c'.tr = handlersOf c.L s.cls) := by
  have hI := dispInv_reach h0 (reach_trans hr ht) s
  have hIc := dispInv_reach h0 hr s
  obtain ⟨hnew, horig⟩ := (trans_origin ht).toNewTr
  have hin : Tr.dispatched s n ∈ c'.tr := by rw [hnew]; exact List.mem_append_left _ hm
  have h1c : takeCount s c.tr ≤ 1 := Nat.le_trans (hnew ▸ takeCount_append_le s _ _) h1
  obtain ⟨hle, heq⟩ := hI.done h1 n hin
  refine ⟨heq, fun hf => ?_⟩
  have hpre := handlersOf_ext (trans_static ht).1 s.cls
  rcases horig _ hm with ⟨hhead, hnone | hfq⟩ | ⟨-, rfl, hnil, -⟩
  · have hge : (handlersOf c.L s.cls).length ≤ n := by simpa using hnone
    have hlec := (hIc.disp h1c n (List.mem_of_mem_head? hhead)).1
    rw [heq, take_of_prefix hpre hlec, List.take_of_length_le hge]
  · rw [hf] at hfq; cases hfq
  · rw [heq, take_of_prefix hpre (Nat.zero_le _), hnil]; rfl

end Simpleline.Dispatch
