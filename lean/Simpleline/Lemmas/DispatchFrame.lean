import Simpleline.Spec.DispatchSpec

namespace Simpleline.Dispatch
open Simpleline

theorem enqueue_eq (c : Cfg) (s : Sig) :
    c.enqueue s = { c with L := { c.L with queues := enqQ c.L s }, tr := enqT c.L s :: c.tr } := by
  unfold Cfg.enqueue enqQ enqT Cfg.trace
  split <;> rfl

theorem redraw_eq (c : Cfg) :
    c.redraw = { c with L := { c.L with queues := enqQ c.L (renderSig c.nextSid) },
                        tr := enqT c.L (renderSig c.nextSid) :: c.tr, nextSid := c.nextSid + 1 } := by
  unfold Cfg.redraw Cfg.newSig
  simp only [enqueue_eq]
  rfl

theorem deliver_eq {c c' : Cfg} (h : c.deliver = some c') :
    ∃ r rs, c.A.readers = r :: rs ∧
      c' = { c with L := { c.L with queues := enqQ c.L (lineSig c r) },
                    A := { c.A with readers := rs, stdin := c.A.stdin.tail },
                    log := .read (c.A.stdin.headD []) :: c.log,
                    tr := enqT c.L (lineSig c r) :: c.tr, nextSid := c.nextSid + 1 } := by
  unfold Cfg.deliver at h
  split at h
  · cases h
  · rename_i r rs hr
    refine ⟨r, rs, hr, ?_⟩
    simp only [Cfg.newSig, enqueue_eq, Option.some.injEq] at h
    rw [← h]; rfl


/-! `emit`: the event is logged; a typed line may be delivered -/

def emitQ (P : Prog) (c : Cfg) (e : Ev) : List EQueue := (c.emit P e).L.queues
def emitR (P : Prog) (c : Cfg) (e : Ev) : List Nat := (c.emit P e).A.readers
def emitS (P : Prog) (c : Cfg) (e : Ev) : List Str := (c.emit P e).A.stdin
def emitN (P : Prog) (c : Cfg) (e : Ev) : Nat := (c.emit P e).nextSid
def emitLog (P : Prog) (c : Cfg) (e : Ev) : List Ev := (c.emit P e).log.take ((c.emit P e).log.length - (c.log.length + 1))
def emitTr (P : Prog) (c : Cfg) (e : Ev) : List Tr := (c.emit P e).tr.take ((c.emit P e).tr.length - c.tr.length)

theorem emit_cases (P : Prog) (c : Cfg) (e : Ev) :
    c.emit P e = { c with log := e :: c.log } ∨ ({ c with log := e :: c.log } : Cfg).deliver = some (c.emit P e) := by
  unfold Cfg.emit
  simp only
  split
  · cases h : ({ c with log := e :: c.log } : Cfg).deliver <;> simp
  · simp

theorem emit_eq (P : Prog) (c : Cfg) (e : Ev) :
    c.emit P e = { c with L := { c.L with queues := emitQ P c e },
                          A := { c.A with readers := emitR P c e, stdin := emitS P c e },
                          log := emitLog P c e ++ e :: c.log, tr := emitTr P c e ++ c.tr,
                          nextSid := emitN P c e } := by
  unfold emitQ emitR emitS emitN emitLog emitTr
  rcases emit_cases P c e with h | h
  · rw [h]; simp
  · obtain ⟨r, rs, hr, h⟩ := deliver_eq h
    rw [h]; simp

/-- the only trace event an `emit` can add is the enqueueing (or dropping) of one `InputReceived` signal -/
theorem emitTr_cases (P : Prog) (c : Cfg) (e : Ev) :
    emitTr P c e = [] ∨ ∃ s, s.cls = .inputReceived ∧ emitTr P c e = [enqT c.L s] := by
  unfold emitTr
  rcases emit_cases P c e with h | h
  · rw [h]; simp
  · obtain ⟨r, rs, hr, h⟩ := deliver_eq h
    rw [h]; right; exact ⟨lineSig { c with log := e :: c.log } r, rfl, by simp⟩

theorem emitLog_cases (P : Prog) (c : Cfg) (e : Ev) :
    emitLog P c e = [] ∨ ∃ l, emitLog P c e = [.read l] := by
  unfold emitLog
  rcases emit_cases P c e with h | h
  · rw [h]; simp
  · obtain ⟨r, rs, hr, h⟩ := deliver_eq h
    rw [h]; right; exact ⟨c.A.stdin.headD [], by simp⟩


/-! ### exceptions -/

theorem unwind_sysexit (code : List Instr) (c : Cfg) :
    unwind .sysexit code c = .error (.killed 1, { c with code := [] }) := by
  induction code with
  | nil => rfl
  | cons i is ih => cases i <;> simpa [unwind] using ih

theorem unwind_err_none {code : List Instr} (h : ∀ i ∈ code, errCatch i = none) (c : Cfg) :
    unwind .err code c = .error (.raised "err", { c with code := [] }) := by
  induction code with
  | nil => rfl
  | cons i is ih =>
    have hi := h i (by simp)
    have := ih (fun j hj => h j (by simp [hj]))
    cases i <;> simp [errCatch] at hi <;> simpa [unwind] using this

theorem unwind_err_catch {pre : List Instr} (hpre : ∀ i ∈ pre, errCatch i = none) {ins : Instr} {src : Src}
    (hins : errCatch ins = some src) (rest : List Instr) (c : Cfg) :
    unwind .err (pre ++ ins :: rest) c = .ok { excEnq c src with code := afterCatch ins rest } := by
  induction pre with
  | nil =>
    cases ins <;> simp [errCatch] at hins <;> subst hins <;>
      simp [unwind, Cfg.newSig, enqueue_eq, excEnq, excSig, afterCatch]
    congr 2
  | cons i is ih =>
    have hi := hpre i (by simp)
    have := ih (fun j hj => hpre j (by simp [hj]))
    cases i <;> simp [errCatch] at hi <;> simpa [unwind] using this

theorem unwind_exit_none {code : List Instr} (h : ∀ i ∈ code, isCatchExit i = false) (c : Cfg) :
    unwind .exit code c = .error (.raised "exit", { c with code := [] }) := by
  induction code with
  | nil => rfl
  | cons i is ih =>
    have hi := h i (by simp)
    have := ih (fun j hj => h j (by simp [hj]))
    cases i <;> simp [isCatchExit] at hi <;> simpa [unwind] using this

theorem unwind_exit_catch {pre : List Instr} (hpre : ∀ i ∈ pre, isCatchExit i = false) (rest : List Instr) (c : Cfg) :
    unwind .exit (pre ++ .catchExit :: rest) c = .ok { c with code := rest } := by
  induction pre with
  | nil => simp [unwind]
  | cons i is ih =>
    have hi := hpre i (by simp)
    have := ih (fun j hj => hpre j (by simp [hj]))
    cases i <;> simp [isCatchExit] at hi <;> simpa [unwind] using this

/-- split a list at the first element satisfying `p` -/
theorem split_first {α} (p : α → Bool) (l : List α) :
    (∀ i ∈ l, p i = false) ∨ ∃ pre x rest, l = pre ++ x :: rest ∧ (∀ i ∈ pre, p i = false) ∧ p x = true := by
  induction l with
  | nil => left; simp
  | cons a as ih =>
    cases hp : p a
    · rcases ih with h | ⟨pre, x, rest, h1, h2, h3⟩
      · left; intro i hi; simp at hi; rcases hi with rfl | hi; exact hp; exact h i hi
      · right; refine ⟨a :: pre, x, rest, by simp [h1], ?_, h3⟩
        intro i hi; simp at hi; rcases hi with rfl | hi; exact hp; exact h2 i hi
    · right; exact ⟨[], a, as, rfl, by simp, hp⟩

theorem errCatch_split (code : List Instr) :
    (∀ i ∈ code, errCatch i = none) ∨
    ∃ pre ins rest src, code = pre ++ ins :: rest ∧ (∀ i ∈ pre, errCatch i = none) ∧ errCatch ins = some src := by
  rcases split_first (fun i => (errCatch i).isSome) code with h | ⟨pre, x, rest, h1, h2, h3⟩
  · left; intro i hi; simpa using h i hi
  · right
    obtain ⟨src, hs⟩ := Option.isSome_iff_exists.mp h3
    exact ⟨pre, x, rest, src, h1, fun i hi => by simpa using h2 i hi, hs⟩

theorem catchExit_split (code : List Instr) :
    (∀ i ∈ code, isCatchExit i = false) ∨
    ∃ pre rest, code = pre ++ .catchExit :: rest ∧ (∀ i ∈ pre, isCatchExit i = false) := by
  rcases split_first isCatchExit code with h | ⟨pre, x, rest, h1, h2, h3⟩
  · left; exact h
  · right
    cases x <;> simp [isCatchExit] at h3
    exact ⟨pre, rest, h1, h2⟩

/-- what a successful unwinding is -/
theorem unwind_ok {k : Kind} {code : List Instr} {c c' : Cfg} (h : unwind k code c = .ok c') :
    (k = .exit ∧ ∃ pre rest, code = pre ++ .catchExit :: rest ∧ (∀ i ∈ pre, isCatchExit i = false) ∧
        c' = { c with code := rest }) ∨
    (k = .err ∧ ∃ pre ins rest src, code = pre ++ ins :: rest ∧ (∀ i ∈ pre, errCatch i = none) ∧
        errCatch ins = some src ∧ c' = { excEnq c src with code := afterCatch ins rest }) := by
  cases k with
  | sysexit => rw [unwind_sysexit] at h; cases h
  | exit =>
    left; refine ⟨rfl, ?_⟩
    rcases catchExit_split code with hn | ⟨pre, rest, h1, h2⟩
    · rw [unwind_exit_none hn] at h; cases h
    · subst h1; rw [unwind_exit_catch h2] at h; cases h; exact ⟨pre, rest, rfl, h2, rfl⟩
  | err =>
    right; refine ⟨rfl, ?_⟩
    rcases errCatch_split code with hn | ⟨pre, ins, rest, src, h1, h2, h3⟩
    · rw [unwind_err_none hn] at h; cases h
    · subst h1; rw [unwind_err_catch h2 h3] at h; cases h; exact ⟨pre, ins, rest, src, rfl, h2, h3, rfl⟩

/-- a failed unwinding ends the run with empty code and otherwise unchanged state -/
theorem unwind_error {k : Kind} {code : List Instr} {c c' : Cfg} {o : Outcome} (h : unwind k code c = .error (o, c')) :
    c' = { c with code := [] } ∧ o = failOutcome k := by
  cases k with
  | sysexit => rw [unwind_sysexit] at h; cases h; exact ⟨rfl, rfl⟩
  | exit =>
    rcases catchExit_split code with hn | ⟨pre, rest, h1, h2⟩
    · rw [unwind_exit_none hn] at h; cases h; exact ⟨rfl, rfl⟩
    · subst h1; rw [unwind_exit_catch h2] at h; cases h
  | err =>
    rcases errCatch_split code with hn | ⟨pre, ins, rest, src, h1, h2, h3⟩
    · rw [unwind_err_none hn] at h; cases h; exact ⟨rfl, rfl⟩
    · subst h1; rw [unwind_err_catch h2 h3] at h; cases h

theorem afterCatch_suffix (ins : Instr) (rest : List Instr) : afterCatch ins rest <:+ rest := by
  cases ins <;> simp [afterCatch]
  exact (List.tail_suffix _).trans (List.dropWhile_suffix _)


/-! ### `raise` -/

theorem raise_eq (c : Cfg) (k : Kind) : c.raise k = unwind k c.code (preRaise c k) := by
  cases k <;> rfl

theorem raise_ok {c c' : Cfg} {k : Kind} (h : c.raise k = .ok c') :
    (k = .exit ∧ ∃ pre rest, c.code = pre ++ .catchExit :: rest ∧ (∀ i ∈ pre, isCatchExit i = false) ∧
        c' = { c with code := rest, tr := .exit :: c.tr }) ∨
    (k = .err ∧ ∃ pre ins rest src, c.code = pre ++ ins :: rest ∧ (∀ i ∈ pre, errCatch i = none) ∧
        errCatch ins = some src ∧ c' = { excEnq c src with code := afterCatch ins rest }) := by
  rw [raise_eq] at h
  rcases unwind_ok h with ⟨rfl, pre, rest, h1, h2, h3⟩ | ⟨rfl, pre, ins, rest, src, h1, h2, h3, h4⟩
  · left; exact ⟨rfl, pre, rest, h1, h2, h3⟩
  · right; exact ⟨rfl, pre, ins, rest, src, h1, h2, h3, h4⟩

theorem raise_error {c c' : Cfg} {k : Kind} {o : Outcome} (h : c.raise k = .error (o, c')) :
    c' = { preRaise c k with code := [] } ∧ o = failOutcome k := by
  rw [raise_eq] at h
  exact unwind_error h

/-! ### `take` -/

/-- removing the head entry of the active queue -/
def popQ (L : LoopSt) : List EQueue := listSet L.queues L.active fun q => { q with entries := q.entries.tail }

theorem take_ok {c c' : Cfg} {s : Sig} (h : c.take = .ok (s, c')) :
    ∃ c1 e es, (c1 = c ∨ (c.L.activeQ.entries = [] ∧ c.deliver = some c1)) ∧ c1.L.activeQ.entries = e :: es ∧ s = e.2.2 ∧
      c' = { c1 with L := { c1.L with queues := listSet c1.L.queues c1.L.active fun q => { q with entries := es } },
                     tr := .take c1.L.active s :: c1.tr } := by
  unfold Cfg.take at h
  by_cases hq : c.L.activeQ.entries = []
  · cases hd : c.deliver with
    | none => simp [hd, hq] at h
    | some c1 =>
      simp only [hq, hd, if_true, Option.getD_some] at h
      split at h
      · cases h
      · rename_i e es he
        cases h
        exact ⟨c1, e, es, .inr ⟨hq, rfl⟩, he, rfl, rfl⟩
  · simp only [hq, if_false] at h
    split at h
    · cases h
    · rename_i e es he
      cases h
      exact ⟨c, e, es, .inl rfl, he, rfl, rfl⟩

theorem take_error {c c' : Cfg} {o : Outcome} (h : c.take = .error (o, c')) :
    o = .blocked ∧ (c' = c ∨ c.deliver = some c') ∧ c.L.activeQ.entries = [] ∧ c'.L.activeQ.entries = [] := by
  unfold Cfg.take at h
  by_cases hq : c.L.activeQ.entries = []
  · cases hd : c.deliver with
    | none => simp [hd, hq] at h; simp [← h.2, h.1, hq]
    | some c1 =>
      simp only [hq, hd, if_true, Option.getD_some] at h
      split at h
      · rename_i he; cases h; exact ⟨rfl, .inr rfl, hq, he⟩
      · cases h
  · simp only [hq, if_false] at h
    split at h
    · rename_i he; exact absurd he hq
    · cases h

end Simpleline.Dispatch
