import Simpleline.Lemmas.DispatchReg

namespace Simpleline.Dispatch
open Simpleline

/-! ### the dispatch of one signal value `s`: bookkeeping -/

def isPSs (s : Sig) : Instr → Bool
  | .processSignal s' => decide (s' = s)
  | _ => false

def isDisp (s : Sig) : Instr → Bool
  | .dispatch s' _ => decide (s' = s)
  | _ => false

def isCallS (s : Sig) : Instr → Bool
  | .callH _ _ s' => decide (s' = s)
  | _ => false

/-- the instructions that belong to the dispatch of `s` -/
def relI (s : Sig) (i : Instr) : Bool := isPSs s i || isDisp s i || isCallS s i

def isDoneT (s : Sig) : Tr → Bool
  | .dispatched s' _ => decide (s' = s)
  | _ => false

/-- the trace events that belong to the dispatch of `s` -/
def relT (s : Sig) : Tr → Bool
  | .call _ _ s' => decide (s' = s)
  | .take _ s' => decide (s' = s)
  | .dispatched s' _ => decide (s' = s)
  | _ => false

theorem callsOf_irrel {s : Sig} {new : List Tr} (h : ∀ t ∈ new, relT s t = false) (tr : List Tr) :
    callsOf s (new ++ tr) = callsOf s tr := by
  induction new with
  | nil => rfl
  | cons t new ih =>
    have ht := h t (by simp)
    have := ih (fun t ht => h t (by simp [ht]))
    cases t <;> simp_all [callsOf, relT]

theorem takeCount_irrel {s : Sig} {new : List Tr} (h : ∀ t ∈ new, relT s t = false) (tr : List Tr) :
    takeCount s (new ++ tr) = takeCount s tr := by
  induction new with
  | nil => rfl
  | cons t new ih =>
    have ht := h t (by simp)
    have := ih (fun t ht => h t (by simp [ht]))
    cases t <;> simp_all [takeCount, relT]

theorem doneCount_irrel {s : Sig} {new : List Tr} (h : ∀ t ∈ new, relT s t = false) (tr : List Tr) :
    (new ++ tr).countP (isDoneT s) = tr.countP (isDoneT s) := by
  induction new with
  | nil => rfl
  | cons t new ih =>
    have ht := h t (by simp)
    have := ih (fun t ht => h t (by simp [ht]))
    cases t <;> simp_all [isDoneT, relT]

theorem done_mem_irrel {s : Sig} {new : List Tr} (h : ∀ t ∈ new, relT s t = false) {tr : List Tr} {n : Nat}
    (hm : Tr.dispatched s n ∈ new ++ tr) : Tr.dispatched s n ∈ tr := by
  rcases List.mem_append.mp hm with hm | hm
  · have := h _ hm; simp [relT] at this
  · exact hm

theorem softT_irrel {s : Sig} {t : Tr} (h : softT t = true) : relT s t = false := by
  cases t <;> first | rfl | cases h

theorem exitOrSoft_irrel {s : Sig} {t : Tr} (h : exitOrSoft t) : relT s t = false := by
  rcases h with rfl | h
  · rfl
  · exact softT_irrel h

theorem softI_irrel {s : Sig} {i : Instr} (h : softI i = true) : relI s i = false := by
  cases i <;> first | rfl | cases h

/-- the invariant of the dispatch of `s` -/
structure DispInv (s : Sig) (c : Cfg) : Prop where
  count : c.code.countP (isPSs s) + c.code.countP (isDisp s) + c.tr.countP (isDoneT s) ≤ takeCount s c.tr
  none : takeCount s c.tr = 0 → callsOf s c.tr = []
  disp : takeCount s c.tr ≤ 1 → ∀ j, Instr.dispatch s j ∈ c.code →
    j ≤ (handlersOf c.L s.cls).length ∧ callsOf s c.tr ++ pend s c.code = (handlersOf c.L s.cls).take j
  done : takeCount s c.tr ≤ 1 → ∀ n, Tr.dispatched s n ∈ c.tr →
    n ≤ (handlersOf c.L s.cls).length ∧ callsOf s c.tr = (handlersOf c.L s.cls).take n
  ps : takeCount s c.tr ≤ 1 → Instr.processSignal s ∈ c.code → callsOf s c.tr = []

theorem handlersOf_ext {L L' : LoopSt} (h : HExt L.handlers L'.handlers) (cls : Cls) :
    handlersOf L cls <+: handlersOf L' cls := by
  obtain ⟨m, hm, -⟩ := h
  unfold handlersOf
  rw [hm, List.filter_append, List.map_append]
  exact List.prefix_append _ _

theorem take_of_prefix {α} {l l' : List α} (h : l <+: l') {j : Nat} (hj : j ≤ l.length) : l'.take j = l.take j := by
  obtain ⟨t, rfl⟩ := h
  rw [List.take_append_of_le_length hj]

/-- a transition that does not concern `s`: no instruction of its dispatch is pushed, no event of its
dispatch is traced, no call for it is pending -/
structure Neutral (s : Sig) (c c' : Cfg) : Prop where
  code : ∃ pushed suf, c'.code = pushed ++ suf ∧ suf <:+ c.code.tail ∧ ∀ i ∈ pushed, relI s i = false
  tr : ∃ new, c'.tr = new ++ c.tr ∧ ∀ t ∈ new, relT s t = false
  handlers : HExt c.L.handlers c'.L.handlers
  pend : pend s c.code = []


theorem countP_le_of_ext {f : Instr → Bool} {code pushed suf rest : List Instr} (hcode : code = pushed ++ suf)
    (hsuf : suf <:+ rest) (hp : ∀ i ∈ pushed, f i = false) : code.countP f ≤ rest.countP f := by
  subst hcode
  rw [List.countP_append]
  have : pushed.countP f = 0 := by
    rw [List.countP_eq_zero]; intro i hi; simp [hp i hi]
  rw [this, Nat.zero_add]
  exact hsuf.sublist.countP_le

theorem relI_parts {s : Sig} {i : Instr} (h : relI s i = false) : isPSs s i = false ∧ isDisp s i = false ∧ isCallS s i = false := by
  unfold relI at h
  simp only [Bool.or_eq_false_iff] at h
  exact ⟨h.1.1, h.1.2, h.2⟩

theorem pend_ne_nil {s : Sig} {l : List Instr} (h : pend s l ≠ []) : ∃ h d rest, l = .callH h d s :: rest := by
  cases l with
  | nil => simp [pend] at h
  | cons i rest =>
    cases i <;> simp [pend] at h
    rename_i hh d s'
    subst h
    exact ⟨hh, d, rest, rfl⟩

theorem mem_tail_of_cons {α} {a : α} {l rest : List α} (h : l = a :: rest) {x : α} (hx : x ∈ rest) : x ∈ l.tail := by
  subst h; exact hx

theorem pend_nil_of_ext {s : Sig} {c : Cfg} (hC : CodeInv c) {code pushed suf : List Instr} (hcode : code = pushed ++ suf)
    (hsuf : suf <:+ c.code.tail) (hp : ∀ i ∈ pushed, relI s i = false) : pend s code = [] := by
  apply Classical.byContradiction
  intro hne
  obtain ⟨h, d, rest, hl⟩ := pend_ne_nil hne
  have hm : Instr.callH h d s ∈ pushed ++ suf := by rw [← hcode, hl]; simp
  rcases List.mem_append.mp hm with hm | hm
  · have := (relI_parts (hp _ hm)).2.2
    simp [isCallS] at this
  · have := hC.noCall _ (hsuf.subset hm)
    simp [isCallH] at this

theorem DispInv.neutral {s : Sig} {c c' : Cfg} (hI : DispInv s c) (hC : CodeInv c) (hN : Neutral s c c') : DispInv s c' := by
  obtain ⟨pushed, suf, hcode, hsuf, hp⟩ := hN.code
  obtain ⟨new, hnew, hirr⟩ := hN.tr
  have hT : takeCount s c'.tr = takeCount s c.tr := by rw [hnew, takeCount_irrel hirr]
  have hD : c'.tr.countP (isDoneT s) = c.tr.countP (isDoneT s) := by rw [hnew, doneCount_irrel hirr]
  have hCalls : callsOf s c'.tr = callsOf s c.tr := by rw [hnew, callsOf_irrel hirr]
  have hpend' : pend s c'.code = [] := pend_nil_of_ext hC hcode hsuf hp
  have htail : ∀ f : Instr → Bool, c.code.tail.countP f ≤ c.code.countP f :=
    fun f => (List.tail_sublist _).countP_le
  have hmem : ∀ i, relI s i = true → i ∈ c'.code → i ∈ c.code := by
    intro i hi hm
    rw [hcode] at hm
    rcases List.mem_append.mp hm with hm | hm
    · rw [hp i hm] at hi; cases hi
    · exact List.mem_of_mem_tail (hsuf.subset hm)
  have hpre := handlersOf_ext hN.handlers s.cls
  refine ⟨?_, ?_, ?_, ?_, ?_⟩
  · have h1 := countP_le_of_ext (f := isPSs s) hcode hsuf (fun i hi => (relI_parts (hp i hi)).1)
    have h2 := countP_le_of_ext (f := isDisp s) hcode hsuf (fun i hi => (relI_parts (hp i hi)).2.1)
    have := hI.count
    have := htail (isPSs s)
    have := htail (isDisp s)
    omega
  · intro h0; rw [hCalls]; exact hI.none (hT ▸ h0)
  · intro h1 j hj
    obtain ⟨hle, heq⟩ := hI.disp (hT ▸ h1) j (hmem _ (by simp [relI, isDisp]) hj)
    refine ⟨Nat.le_trans hle hpre.length_le, ?_⟩
    rw [hCalls, hpend', take_of_prefix hpre hle, ← heq, hN.pend]
  · intro h1 n hn
    rw [hnew] at hn
    obtain ⟨hle, heq⟩ := hI.done (hT ▸ h1) n (done_mem_irrel hirr hn)
    exact ⟨Nat.le_trans hle hpre.length_le, by rw [hCalls, take_of_prefix hpre hle, heq]⟩
  · intro h1 hps
    rw [hCalls]
    exact hI.ps (hT ▸ h1) (hmem _ (by simp [relI, isPSs]) hps)


/-- `code` is a suffix of `rest` with instructions that do not belong to the dispatch of `s` pushed in front -/
def CodeN (s : Sig) (rest code : List Instr) : Prop :=
  ∃ pushed suf, code = pushed ++ suf ∧ suf <:+ rest ∧ ∀ i ∈ pushed, relI s i = false

theorem CodeN.refl (s : Sig) (rest : List Instr) : CodeN s rest rest := ⟨[], rest, rfl, List.suffix_refl _, by simp⟩

theorem CodeN.of_suffix {s : Sig} {rest suf : List Instr} (h : suf <:+ rest) : CodeN s rest suf := ⟨[], suf, rfl, h, by simp⟩

theorem CodeN.cons {s : Sig} {rest l : List Instr} {i : Instr} (hi : relI s i = false) (h : CodeN s rest l) : CodeN s rest (i :: l) := by
  obtain ⟨p, sf, rfl, hs, hp⟩ := h
  exact ⟨i :: p, sf, rfl, hs, by simpa [hi] using hp⟩

theorem CodeN.append {s : Sig} {rest l d : List Instr} (hd : ∀ i ∈ d, relI s i = false) (h : CodeN s rest l) : CodeN s rest (d ++ l) := by
  obtain ⟨p, sf, rfl, hs, hp⟩ := h
  refine ⟨d ++ p, sf, by simp, hs, ?_⟩
  intro t ht; simp at ht; rcases ht with ht | ht; exact hd t ht; exact hp t ht

theorem suffix_append_cases {α} {l p s : List α} (h : l <:+ p ++ s) : (∃ p', p' <:+ p ∧ l = p' ++ s) ∨ l <:+ s := by
  induction p with
  | nil => right; simpa using h
  | cons a p ih =>
    rcases List.suffix_cons_iff.mp h with rfl | h
    · left; exact ⟨a :: p, List.suffix_refl _, rfl⟩
    · rcases ih h with ⟨p', hp', rfl⟩ | h2
      · left; exact ⟨p', hp'.trans (List.suffix_cons _ _), rfl⟩
      · right; exact h2

theorem CodeN.suffix {s : Sig} {rest l l' : List Instr} (h : CodeN s rest l) (hl : l' <:+ l) : CodeN s rest l' := by
  obtain ⟨p, sf, rfl, hs, hp⟩ := h
  rcases suffix_append_cases hl with ⟨p', hp', rfl⟩ | h2
  · exact ⟨p', sf, rfl, hs, fun i hi => hp i (hp'.subset hi)⟩
  · exact ⟨[], l', rfl, h2.trans hs, by simp⟩

theorem otherI_pend {s : Sig} {ins : Instr} (h : otherI ins = true) (rest : List Instr) : pend s (ins :: rest) = [] := by
  cases ins <;> first | rfl | cases h

theorem other_neutral {s : Sig} {rest : List Instr} {ins : Instr} {c m c' : Cfg} (hc : c.code = ins :: rest)
    (ho : otherI ins = true) (hm : Soft rest c m) (hf : OtherFin m c') : Neutral s c c' := by
  refine ⟨?_, ?_, (hm.frame hf).handlers, by rw [hc]; exact otherI_pend ho rest⟩
  · obtain ⟨pushed, suf, hcode, hsuf, hp, -⟩ := hm.code.suffix_rest
    have : CodeN s rest m.code := ⟨pushed, suf, hcode, hsuf, fun i hi => softI_irrel (hp i hi)⟩
    rw [hc]
    exact this.suffix hf.suffix
  · have h1 : ExtP (fun t => relT s t = false) c.tr m.tr := hm.tr.toP (fun _ => softT_irrel)
    cases hf
    · exact h1
    · exact ExtP.cons rfl h1
    · exact ExtP.cons (softT_irrel (softT_enqT _ _)) h1

theorem DispInv.congr {s : Sig} {c c' : Cfg} (hI : DispInv s c) (hcode : c'.code = c.code) (hh : c'.L.handlers = c.L.handlers)
    (htr : ExtP (fun t => relT s t = false) c.tr c'.tr) : DispInv s c' := by
  obtain ⟨new, hnew, hirr⟩ := htr
  have hT : takeCount s c'.tr = takeCount s c.tr := by rw [hnew, takeCount_irrel hirr]
  have hD : c'.tr.countP (isDoneT s) = c.tr.countP (isDoneT s) := by rw [hnew, doneCount_irrel hirr]
  have hCalls : callsOf s c'.tr = callsOf s c.tr := by rw [hnew, callsOf_irrel hirr]
  have hH : handlersOf c'.L s.cls = handlersOf c.L s.cls := by unfold handlersOf; rw [hh]
  refine ⟨?_, ?_, ?_, ?_, ?_⟩
  · rw [hcode, hT, hD]; exact hI.count
  · rw [hT, hCalls]; exact hI.none
  · rw [hT, hcode, hCalls, hH]; exact hI.disp
  · rw [hT, hCalls, hH]
    intro h1 n hn
    rw [hnew] at hn
    exact hI.done h1 n (done_mem_irrel hirr hn)
  · rw [hT, hcode, hCalls]; exact hI.ps


/-! the steps that belong to the dispatch of `s` -/

theorem countP_pos_of_mem {f : Instr → Bool} {l : List Instr} {i : Instr} (hm : i ∈ l) (hf : f i = true) : 1 ≤ l.countP f :=
  List.countP_pos_iff.mpr ⟨i, hm, hf⟩

theorem doneCount_pos {s : Sig} {tr : List Tr} {n : Nat} (hm : Tr.dispatched s n ∈ tr) : 1 ≤ tr.countP (isDoneT s) :=
  List.countP_pos_iff.mpr ⟨_, hm, by simp [isDoneT]⟩

theorem callsOf_soft_append {s : Sig} {new : List Tr} (h : ∀ t ∈ new, softT t = true) (tr : List Tr) :
    callsOf s (new ++ tr) = callsOf s tr := callsOf_irrel (fun t ht => softT_irrel (h t ht)) tr

theorem takeCount_soft_append {s : Sig} {new : List Tr} (h : ∀ t ∈ new, softT t = true) (tr : List Tr) :
    takeCount s (new ++ tr) = takeCount s tr := takeCount_irrel (fun t ht => softT_irrel (h t ht)) tr

theorem doneCount_soft_append {s : Sig} {new : List Tr} (h : ∀ t ∈ new, softT t = true) (tr : List Tr) :
    (new ++ tr).countP (isDoneT s) = tr.countP (isDoneT s) := doneCount_irrel (fun t ht => softT_irrel (h t ht)) tr

/-- `s` is taken from a queue: `processSignal s` becomes the head -/
theorem DispInv.takeS {s : Sig} {c c' : Cfg} {q : Nat} {extra : List Instr} {new : List Tr} (hI : DispInv s c)
    (hcode : c'.code = .processSignal s :: (extra ++ c.code.tail)) (hextra : ∀ i ∈ extra, relI s i = false)
    (htr : c'.tr = .take q s :: (new ++ c.tr)) (hnew : ∀ t ∈ new, softT t = true) : DispInv s c' := by
  have hT : takeCount s c'.tr = takeCount s c.tr + 1 := by rw [htr]; simp [takeCount, takeCount_soft_append hnew]
  have hD : c'.tr.countP (isDoneT s) = c.tr.countP (isDoneT s) := by
    rw [htr]; simp [isDoneT, doneCount_soft_append hnew]
  have hCalls : callsOf s c'.tr = callsOf s c.tr := by rw [htr]; simp [callsOf, callsOf_soft_append hnew]
  have htail : ∀ f : Instr → Bool, c.code.tail.countP f ≤ c.code.countP f := fun f => (List.tail_sublist _).countP_le
  have hx : ∀ f : Instr → Bool, (∀ i, relI s i = false → f i = false) → extra.countP f = 0 := by
    intro f hf; rw [List.countP_eq_zero]; intro i hi; simp [hf i (hextra i hi)]
  have h1 : c'.code.countP (isPSs s) = 1 + c.code.tail.countP (isPSs s) := by
    rw [hcode]; simp [List.countP_append, isPSs, hx _ (fun i hi => (relI_parts hi).1)]; omega
  have h2 : c'.code.countP (isDisp s) = c.code.tail.countP (isDisp s) := by
    rw [hcode]; simp [List.countP_append, isDisp, hx _ (fun i hi => (relI_parts hi).2.1)]
  have hcount := hI.count
  have := htail (isPSs s)
  have := htail (isDisp s)
  refine ⟨by omega, by omega, ?_, ?_, ?_⟩
  · intro hle j hj
    exfalso
    rw [hcode] at hj
    simp only [List.mem_cons, List.mem_append] at hj
    rcases hj with hj | hj | hj
    · cases hj
    · have := (relI_parts (hextra _ hj)).2.1; simp [isDisp] at this
    · have := countP_pos_of_mem (f := isDisp s) hj (by simp [isDisp]); omega
  · intro hle n hn
    exfalso
    have : Tr.dispatched s n ∈ c.tr := by
      rw [htr] at hn
      simp only [List.mem_cons, List.mem_append] at hn
      rcases hn with hn | hn | hn
      · cases hn
      · have := hnew _ hn; simp [softT] at this
      · exact hn
    have := doneCount_pos this; omega
  · intro hle _
    rw [hCalls]; exact hI.none (by omega)

theorem not_mem_of_countP_zero {f : Instr → Bool} {l : List Instr} (h : l.countP f = 0) {i : Instr} (hf : f i = true) : i ∉ l := by
  intro hm; have := countP_pos_of_mem hm hf; omega

theorem not_done_of_count_zero {s : Sig} {tr : List Tr} (h : tr.countP (isDoneT s) = 0) {n : Nat} : Tr.dispatched s n ∉ tr := by
  intro hm; have := doneCount_pos hm; omega

theorem DispInv.head_ps {s : Sig} {c : Cfg} {rest : List Instr} (hI : DispInv s c) (hc : c.code = .processSignal s :: rest)
    (hle : takeCount s c.tr ≤ 1) :
    rest.countP (isPSs s) = 0 ∧ rest.countP (isDisp s) = 0 ∧ c.tr.countP (isDoneT s) = 0 ∧ callsOf s c.tr = [] := by
  have hcount := hI.count
  rw [hc] at hcount
  simp [isPSs, isDisp] at hcount
  exact ⟨by omega, by omega, by omega, hI.ps hle (by simp [hc])⟩

theorem DispInv.head_disp {s : Sig} {c : Cfg} {rest : List Instr} {i : Nat} (hI : DispInv s c) (hc : c.code = .dispatch s i :: rest)
    (hle : takeCount s c.tr ≤ 1) :
    rest.countP (isPSs s) = 0 ∧ rest.countP (isDisp s) = 0 ∧ c.tr.countP (isDoneT s) = 0 ∧
      i ≤ (handlersOf c.L s.cls).length ∧ callsOf s c.tr = (handlersOf c.L s.cls).take i := by
  have hcount := hI.count
  rw [hc] at hcount
  simp [isPSs, isDisp] at hcount
  obtain ⟨h1, h2⟩ := hI.disp hle i (by simp [hc])
  simp [hc, pend] at h2
  exact ⟨by omega, by omega, by omega, h1, h2⟩

/-- `processSignal s` finds handlers: the dispatch starts at index 0 -/
theorem DispInv.psDisp {s : Sig} {c c' : Cfg} {rest : List Instr} (hI : DispInv s c) (hc : c.code = .processSignal s :: rest)
    (hcode : c'.code = .dispatch s 0 :: rest) (htr : c'.tr = c.tr) (hh : c'.L.handlers = c.L.handlers) : DispInv s c' := by
  have hH : handlersOf c'.L s.cls = handlersOf c.L s.cls := by unfold handlersOf; rw [hh]
  have hcount := hI.count
  rw [hc] at hcount
  simp [isPSs, isDisp] at hcount
  refine ⟨?_, ?_, ?_, ?_, ?_⟩
  · rw [hcode, htr]; simp [isPSs, isDisp]; omega
  · rw [htr]; exact hI.none
  · rw [htr, hH]
    intro hle j hj
    obtain ⟨h1, h2, h3, h4⟩ := hI.head_ps hc hle
    rw [hcode] at hj ⊢
    simp only [List.mem_cons] at hj
    rcases hj with hj | hj
    · cases hj; simp [pend, h4]
    · exact absurd hj (not_mem_of_countP_zero h2 (by simp [isDisp]))
  · rw [htr, hH]
    intro hle n hn
    exact absurd hn (not_done_of_count_zero (hI.head_ps hc hle).2.2.1)
  · rw [htr]
    intro hle hps
    exact (hI.head_ps hc hle).2.2.2

/-- `processSignal s` finds no handler: nothing is dispatched (`rest`), or the process is killed -/
theorem DispInv.psEnd {s : Sig} {c c' : Cfg} {rest pushed : List Instr} {new : List Tr} (hI : DispInv s c)
    (hc : c.code = .processSignal s :: rest) (hcode : c'.code = pushed ++ rest) (hp : ∀ i ∈ pushed, relI s i = false)
    (htr : c'.tr = new ++ c.tr) (hnew : new = [] ∨ (new = [.dispatched s 0] ∧ handlersOf c.L s.cls = []))
    (hh : c'.L.handlers = c.L.handlers) : DispInv s c' := by
  have hH : handlersOf c'.L s.cls = handlersOf c.L s.cls := by unfold handlersOf; rw [hh]
  have hcount := hI.count
  rw [hc] at hcount
  simp [isPSs, isDisp] at hcount
  have hx : ∀ f : Instr → Bool, (∀ i, relI s i = false → f i = false) → pushed.countP f = 0 := by
    intro f hf; rw [List.countP_eq_zero]; intro i hi; simp [hf i (hp i hi)]
  have hT : takeCount s c'.tr = takeCount s c.tr := by
    rcases hnew with rfl | ⟨rfl, -⟩ <;> simp [htr, takeCount]
  have hCalls : callsOf s c'.tr = callsOf s c.tr := by
    rcases hnew with rfl | ⟨rfl, -⟩ <;> simp [htr, callsOf]
  have hD : c'.tr.countP (isDoneT s) ≤ c.tr.countP (isDoneT s) + 1 := by
    rcases hnew with rfl | ⟨rfl, -⟩ <;> simp [htr, isDoneT]
  have hmem : ∀ i, relI s i = true → i ∈ c'.code → i ∈ rest := by
    intro i hi hm
    rw [hcode] at hm
    rcases List.mem_append.mp hm with hm | hm
    · rw [hp i hm] at hi; cases hi
    · exact hm
  refine ⟨?_, ?_, ?_, ?_, ?_⟩
  · rw [hcode, hT]
    simp only [List.countP_append, hx _ (fun i hi => (relI_parts hi).1), hx _ (fun i hi => (relI_parts hi).2.1)]
    omega
  · rw [hT, hCalls]; exact hI.none
  · rw [hT, hH, hCalls]
    intro hle j hj
    exact absurd (hmem _ (by simp [relI, isDisp]) hj) (not_mem_of_countP_zero (hI.head_ps hc hle).2.1 (by simp [isDisp]))
  · rw [hT, hH, hCalls]
    intro hle n hn
    obtain ⟨h1, h2, h3, h4⟩ := hI.head_ps hc hle
    rw [htr] at hn
    rcases hnew with rfl | ⟨rfl, hno⟩
    · exact absurd hn (not_done_of_count_zero h3)
    · simp only [List.cons_append, List.nil_append, List.mem_cons] at hn
      rcases hn with hn | hn
      · cases hn; simp [h4]
      · exact absurd hn (not_done_of_count_zero h3)
  · rw [hT, hCalls]
    intro hle hps
    exact absurd (hmem _ (by simp [relI, isPSs]) hps) (not_mem_of_countP_zero (hI.head_ps hc hle).1 (by simp [isPSs]))

/-- `dispatch s i` finds handler `i`: it is called next, the dispatch continues at `i + 1` -/
theorem DispInv.dispNext {s : Sig} {c c' : Cfg} {rest : List Instr} {i : Nat} {h : HRef} {d : Option Nat} (hI : DispInv s c)
    (hc : c.code = .dispatch s i :: rest) (hcode : c'.code = .callH h d s :: .catchHandler :: .dispatch s (i + 1) :: rest)
    (hget : (handlersOf c.L s.cls)[i]? = some (h, d)) (htr : c'.tr = c.tr) (hh : c'.L.handlers = c.L.handlers) :
    DispInv s c' := by
  have hH : handlersOf c'.L s.cls = handlersOf c.L s.cls := by unfold handlersOf; rw [hh]
  have hcount := hI.count
  rw [hc] at hcount
  simp [isPSs, isDisp] at hcount
  refine ⟨?_, ?_, ?_, ?_, ?_⟩
  · rw [hcode, htr]; simp [isPSs, isDisp]; omega
  · rw [htr]; exact hI.none
  · rw [htr, hH]
    intro hle j hj
    obtain ⟨h1, h2, h3, h4, h5⟩ := hI.head_disp hc hle
    rw [hcode] at hj ⊢
    simp only [List.mem_cons] at hj
    rcases hj with hj | hj | hj | hj
    · cases hj
    · cases hj
    · cases hj
      have hlt : i < (handlersOf c.L s.cls).length := by
        rcases List.getElem?_eq_some_iff.mp hget with ⟨hlt, -⟩; exact hlt
      refine ⟨hlt, ?_⟩
      simp [pend, h5, List.take_add_one, hget]
    · exact absurd hj (not_mem_of_countP_zero h2 (by simp [isDisp]))
  · rw [htr, hH]
    intro hle n hn
    exact absurd hn (not_done_of_count_zero (hI.head_disp hc hle).2.2.1)
  · rw [htr]
    intro hle hps
    rw [hcode] at hps
    simp only [List.mem_cons] at hps
    rcases hps with hps | hps | hps | hps
    · cases hps
    · cases hps
    · cases hps
    · exact absurd hps (not_mem_of_countP_zero (hI.head_disp hc hle).1 (by simp [isPSs]))

/-- `dispatch s i` is past the end (or force-quit): the dispatch of `s` is complete -/
theorem DispInv.dispDone {s : Sig} {c c' : Cfg} {rest : List Instr} {i : Nat} (hI : DispInv s c)
    (hc : c.code = .dispatch s i :: rest) (hcode : c'.code = rest)
    (htr : c'.tr = .dispatched s i :: c.tr) (hh : c'.L.handlers = c.L.handlers) : DispInv s c' := by
  have hH : handlersOf c'.L s.cls = handlersOf c.L s.cls := by unfold handlersOf; rw [hh]
  have hcount := hI.count
  rw [hc] at hcount
  simp [isPSs, isDisp] at hcount
  have hT : takeCount s c'.tr = takeCount s c.tr := by simp [htr, takeCount]
  have hCalls : callsOf s c'.tr = callsOf s c.tr := by simp [htr, callsOf]
  refine ⟨?_, ?_, ?_, ?_, ?_⟩
  · rw [hcode, hT, htr]; simp [isDoneT]; omega
  · rw [hT, hCalls]; exact hI.none
  · rw [hT, hH, hCalls, hcode]
    intro hle j hj
    exact absurd hj (not_mem_of_countP_zero (hI.head_disp hc hle).2.1 (by simp [isDisp]))
  · rw [hT, hH, hCalls]
    intro hle n hn
    obtain ⟨h1, h2, h3, h4, h5⟩ := hI.head_disp hc hle
    rw [htr] at hn
    simp only [List.mem_cons] at hn
    rcases hn with hn | hn
    · cases hn; exact ⟨h4, h5⟩
    · exact absurd hn (not_done_of_count_zero h3)
  · rw [hT, hCalls, hcode]
    intro hle hps
    exact absurd hps (not_mem_of_countP_zero (hI.head_disp hc hle).1 (by simp [isPSs]))

/-- the pending call for `s` is executed -/
theorem DispInv.call {s : Sig} {c c' : Cfg} {rest body : List Instr} {new : List Tr} {h : HRef} {d : Option Nat}
    (hI : DispInv s c) (hC : CodeInv c) (hc : c.code = .callH h d s :: rest) (hcode : c'.code = body ++ rest)
    (hbody : ∀ i ∈ body, relI s i = false) (htr : c'.tr = new ++ .call h d s :: c.tr) (hnew : ∀ t ∈ new, softT t = true)
    (hh : c'.L.handlers = c.L.handlers) : DispInv s c' := by
  have hH : handlersOf c'.L s.cls = handlersOf c.L s.cls := by unfold handlersOf; rw [hh]
  obtain ⟨j, K, hshape, -, -⟩ := hC.headCall h d s (by simp [hc])
  have hrest : rest = .catchHandler :: .dispatch s (j + 1) :: K := by
    rw [hc] at hshape; exact (List.cons.inj hshape).2
  have hdisp : 1 ≤ c.code.countP (isDisp s) := countP_pos_of_mem (i := .dispatch s (j + 1)) (by simp [hc, hrest]) (by simp [isDisp])
  have hT : takeCount s c'.tr = takeCount s c.tr := by rw [htr, takeCount_soft_append hnew]; simp [takeCount]
  have hCalls : callsOf s c'.tr = callsOf s c.tr ++ [(h, d)] := by rw [htr, callsOf_soft_append hnew]; simp [callsOf]
  have hD : c'.tr.countP (isDoneT s) = c.tr.countP (isDoneT s) := by
    rw [htr, doneCount_soft_append hnew]; simp [isDoneT]
  have hx : ∀ f : Instr → Bool, (∀ i, relI s i = false → f i = false) → body.countP f = 0 := by
    intro f hf; rw [List.countP_eq_zero]; intro i hi; simp [hf i (hbody i hi)]
  have hpend' : pend s c'.code = [] :=
    pend_nil_of_ext hC hcode (by rw [hc]; exact List.suffix_refl _) hbody
  have hcount := hI.count
  have h1 : c'.code.countP (isPSs s) = c.code.countP (isPSs s) := by
    rw [hcode, hc, List.countP_append, List.countP_cons, hx _ (fun i hi => (relI_parts hi).1)]; simp [isPSs]
  have h2 : c'.code.countP (isDisp s) = c.code.countP (isDisp s) := by
    rw [hcode, hc, List.countP_append, List.countP_cons, hx _ (fun i hi => (relI_parts hi).2.1)]; simp [isDisp]
  have hmem : ∀ i, relI s i = true → i ∈ c'.code → i ∈ c.code := by
    intro i hi hm
    rw [hcode] at hm
    rcases List.mem_append.mp hm with hm | hm
    · rw [hbody i hm] at hi; cases hi
    · rw [hc]; exact List.mem_cons_of_mem _ hm
  refine ⟨by omega, fun h0 => by omega, ?_, ?_, ?_⟩
  · rw [hT, hH, hCalls, hpend']
    intro hle j' hj'
    obtain ⟨g1, g2⟩ := hI.disp hle j' (hmem _ (by simp [relI, isDisp]) hj')
    refine ⟨g1, ?_⟩
    rw [← g2, hc]; simp [pend]
  · rw [hT]
    intro hle n hn
    exfalso
    have : Tr.dispatched s n ∈ c.tr := by
      rw [htr] at hn
      simp only [List.mem_cons, List.mem_append] at hn
      rcases hn with hn | hn | hn
      · have := hnew _ hn; simp [softT] at this
      · cases hn
      · exact hn
    have := doneCount_pos this; omega
  · rw [hT]
    intro hle hps
    exfalso
    have := countP_pos_of_mem (f := isPSs s) (hmem _ (by simp [relI, isPSs]) hps) (by simp [isPSs])
    omega

macro "codeN_tac" : tactic => `(tactic| (
  (try simp only [push, Cfg.trace, enqueue_eq, emit_eq, excEnq, List.tail_cons, List.cons_append, List.nil_append]) <;>
  repeat' first
    | exact CodeN.refl _ _
    | apply CodeN.cons (by simp [relI, isPSs, isDisp, isCallS, *])
    | apply CodeN.append (by simp [relI, isPSs, isDisp, isCallS, *])))

macro "trN_tac" : tactic => `(tactic| (
  (try simp only [push, Cfg.trace, enqueue_eq, emit_eq, excEnq]) <;>
  repeat' first
    | exact ExtP.refl _ _
    | apply ExtP.append (fun t ht => softT_irrel (softT_emitTr _ _ _ t ht))
    | apply ExtP.append (fun t ht => softT_irrel (by first | exact ‹∀ t ∈ _, softT t = true› t ht))
    | apply ExtP.cons (by first | exact softT_irrel (softT_enqT _ _) | simp [relT, *])))

theorem DispInv.core {P : Prog} {s : Sig} {rest : List Instr} {ins : Instr} {c c' : Cfg} (hI : DispInv s c) (hC : CodeInv c)
    (hc : c.code = ins :: rest) (h : CoreN P { c with code := rest } ins c') : DispInv s c' := by
  cases h
  case getDispatch s' Q A' lg tr' n h1 h2 =>
    by_cases hs : s' = s
    · subst hs; exact hI.takeS (extra := []) (by simp [hc]) (by simp) rfl h1
    · refine hI.neutral hC ⟨?_, ?_, ?_, ?_⟩
      · rw [hc]; codeN_tac
      · trN_tac
      · simp
      · simp [hc, pend]
  case waitTake cls t s' Q A' lg tr' n hr h1 h2 =>
    by_cases hs : s' = s
    · subst hs; exact hI.takeS (extra := [.waitCheck cls t]) (by simp [hc]) (by simp [relI, isPSs, isDisp, isCallS]) rfl h1
    · refine hI.neutral hC ⟨?_, ?_, ?_, ?_⟩
      · rw [hc]; codeN_tac
      · trN_tac
      · simp
      · simp [hc, pend]
  case iterFirst e es he hr =>
    by_cases hs : e.2.2 = s
    · subst hs
      exact hI.takeS (q := c.L.active) (extra := [.procIter (some e.2.2.prio)]) (new := []) (by simp [hc, push])
        (by simp [relI, isPSs, isDisp, isCallS]) (by simp [push]) (by simp)
    · refine hI.neutral hC ⟨?_, ?_, ?_, ?_⟩
      · rw [hc]; codeN_tac
      · trN_tac
      · simp [push]
      · simp [hc, pend]
  case iterSame pr e es he hr hp =>
    by_cases hs : e.2.2 = s
    · subst hs
      exact hI.takeS (q := c.L.active) (extra := [.procIter (some pr)]) (new := []) (by simp [hc, push])
        (by simp [relI, isPSs, isDisp, isCallS]) (by simp [push]) (by simp)
    · refine hI.neutral hC ⟨?_, ?_, ?_, ?_⟩
      · rw [hc]; codeN_tac
      · trN_tac
      · simp [push]
      · simp [hc, pend]
  case psDispatch s' hne =>
    by_cases hs : s' = s
    · subst hs; exact hI.psDisp hc (by simp [push]) (by simp [push]) (by simp [push])
    · refine hI.neutral hC ⟨?_, ?_, ?_, ?_⟩
      · rw [hc]; codeN_tac
      · trN_tac
      · simp [push]
      · simp [hc, pend]
  case psKill s' hno he =>
    by_cases hs : s' = s
    · subst hs
      exact hI.psEnd (pushed := [.kill s']) (new := []) hc (by simp [push]) (by simp [relI, isPSs, isDisp, isCallS])
        (by simp [push]) (.inl rfl) (by simp [push])
    · refine hI.neutral hC ⟨?_, ?_, ?_, ?_⟩
      · rw [hc]; codeN_tac
      · trN_tac
      · simp [push]
      · simp [hc, pend]
  case psNone s' hno he =>
    by_cases hs : s' = s
    · subst hs
      exact hI.psEnd (pushed := []) (new := [.dispatched s' 0]) hc (by simp [Cfg.trace]) (by simp)
        (by simp [Cfg.trace]) (.inr ⟨rfl, hno⟩) (by simp [Cfg.trace])
    · refine hI.neutral hC ⟨?_, ?_, ?_, ?_⟩
      · rw [hc]; codeN_tac
      · trN_tac
      · simp [Cfg.trace]
      · simp [hc, pend]
  case dispCall s' i h d hh hf =>
    by_cases hs : s' = s
    · subst hs; exact hI.dispNext hc (by simp [push]) hh (by simp [push]) (by simp [push])
    · refine hI.neutral hC ⟨?_, ?_, ?_, ?_⟩
      · rw [hc]; codeN_tac
      · trN_tac
      · simp [push]
      · simp [hc, pend]
  case dispFQ s' i h d hh hf =>
    by_cases hs : s' = s
    · subst hs; exact hI.dispDone hc (by simp [Cfg.trace]) (by simp [Cfg.trace]) (by simp [Cfg.trace])
    · refine hI.neutral hC ⟨?_, ?_, ?_, ?_⟩
      · rw [hc]; codeN_tac
      · trN_tac
      · simp [Cfg.trace]
      · simp [hc, pend]
  case dispEnd s' i hh =>
    by_cases hs : s' = s
    · subst hs; exact hI.dispDone hc (by simp [Cfg.trace]) (by simp [Cfg.trace]) (by simp [Cfg.trace])
    · refine hI.neutral hC ⟨?_, ?_, ?_, ?_⟩
      · rw [hc]; codeN_tac
      · trN_tac
      · simp [Cfg.trace]
      · simp [hc, pend]
  case callExc d s' =>
    by_cases hs : s' = s
    · subst hs
      exact hI.call (body := []) hC hc (by simp [emit_eq, Cfg.trace]) (by simp) (by simp [emit_eq, Cfg.trace]; rfl)
        (softT_emitTr _ _ _) (by simp [emit_eq, Cfg.trace])
    · refine hI.neutral hC ⟨?_, ?_, ?_, ?_⟩
      · rw [hc]; codeN_tac
      · trN_tac
      · simp [emit_eq, Cfg.trace]
      · simp [hc, pend, hs]
  case callUser hid d s' =>
    have hb : ∀ X : Cfg, ∀ i ∈ bodyOf P X (.user hid) s', relI s i = false := by
      intro X i hi
      simp only [bodyOf, List.mem_append, List.mem_map, List.mem_singleton] at hi
      rcases hi with ⟨a, -, rfl⟩ | rfl <;> rfl
    by_cases hs : s' = s
    · subst hs
      exact hI.call (body := bodyOf P (({ c with code := rest } : Cfg).trace (.call (.user hid) d s')) (.user hid) s')
        hC hc (by simp [push, emit_eq, Cfg.trace]) (hb _) (by simp [push, emit_eq, Cfg.trace]; rfl)
        (softT_emitTr _ _ _) (by simp [push, emit_eq, Cfg.trace])
    · refine hI.neutral hC ⟨?_, ?_, ?_, ?_⟩
      · rw [hc]; simp only [push, emit_eq, Cfg.trace, List.tail_cons]
        exact CodeN.append (hb _) (CodeN.refl _ _)
      · trN_tac
      · simp [push, emit_eq, Cfg.trace]
      · simp [hc, pend, hs]
  case callSys h d s' hu he =>
    have hb : ∀ i ∈ bodyOf P ({ c with code := rest } : Cfg) h s', relI s i = false := by
      intro i hi
      cases h <;> simp [bodyOf] at hi <;> first | (subst hi; rfl) | exact absurd rfl (hu _) | exact absurd rfl he
    by_cases hs : s' = s
    · subst hs
      exact hI.call (new := []) hC hc (by simp [push, Cfg.trace]) hb (by simp [push, Cfg.trace])
        (by simp) (by simp [push, Cfg.trace])
    · refine hI.neutral hC ⟨?_, ?_, ?_, ?_⟩
      · rw [hc]; simp only [push, Cfg.trace, List.tail_cons]
        exact CodeN.append hb (CodeN.refl _ _)
      · trN_tac
      · simp [push, Cfg.trace]
      · simp [hc, pend, hs]
  case popErr pre ins' rest' src h hcode hpre hins =>
    simp only at hcode
    refine hI.neutral hC ⟨?_, ?_, ?_, ?_⟩
    · rw [hc]
      exact CodeN.of_suffix (by
        rw [hcode]; exact (afterCatch_suffix _ _).trans (List.suffix_append_of_suffix (List.suffix_cons _ _)))
    · trN_tac
    · simp [excEnq]
    · simp [hc, pend]
  case popExit q pre rest' h h2' hcode hpre =>
    simp only at hcode
    refine hI.neutral hC ⟨?_, ?_, ?_, ?_⟩
    · rw [hc]
      exact CodeN.of_suffix (by rw [hcode]; exact List.suffix_append_of_suffix (List.suffix_cons _ _))
    · trN_tac
    · simp
    · simp [hc, pend]
  all_goals
    refine hI.neutral hC ⟨?_, ?_, ?_, ?_⟩
    · rw [hc]; codeN_tac
    · trN_tac
    · simp [push, Cfg.trace, enqueue_eq, emit_eq]
    · simp [hc, pend]


theorem countP_zero_of_all_false {f : Instr → Bool} {l : List Instr} (h : ∀ i ∈ l, f i = false) : l.countP f = 0 := by
  rw [List.countP_eq_zero]; intro i hi; simp [h i hi]

theorem DispInv.init (s : Sig) (init : List Act) (handlers : List (Cls × HRef × Option Nat)) (quitCb : Option Nat) (stdin : List Str) :
    DispInv s (initCfg init handlers quitCb stdin) := by
  have hcode : ∀ i ∈ (initCfg init handlers quitCb stdin).code, relI s i = false := by
    intro i hi
    simp only [initCfg, List.mem_append, List.mem_map, List.mem_singleton] at hi
    rcases hi with ⟨a, -, rfl⟩ | rfl <;> rfl
  refine ⟨?_, fun _ => rfl, ?_, ?_, ?_⟩
  · rw [countP_zero_of_all_false (fun i hi => (relI_parts (hcode i hi)).1),
      countP_zero_of_all_false (fun i hi => (relI_parts (hcode i hi)).2.1)]
    simp [initCfg, takeCount]
  · intro _ j hj; have := (relI_parts (hcode _ hj)).2.1; simp [isDisp] at this
  · intro _ n hn; simp [initCfg] at hn
  · intro _ hj; have := (relI_parts (hcode _ hj)).1; simp [isPSs] at this

theorem DispInv.halt_nil {s : Sig} {c c' : Cfg} (hI : DispInv s c) (hC : CodeInv c)
    (hp : pend s c.code = []) (hcode : c'.code = [])
    (htr : ExtP (fun t => relT s t = false) c.tr c'.tr) (hh : HExt c.L.handlers c'.L.handlers) : DispInv s c' :=
  hI.neutral hC ⟨⟨[], [], by simp [hcode], List.nil_suffix, by simp⟩, htr, hh, hp⟩

theorem coreErr_pend {P : Prog} {b c' : Cfg} {ins : Instr} {o : Outcome} (h : CoreErr P b ins o c') (s : Sig) (rest : List Instr) :
    pend s (ins :: rest) = [] := by
  cases h <;> rfl

theorem DispInv.trans {P : Prog} {s : Sig} {c c' : Cfg} (hI : DispInv s c) (hC : CodeInv c) (ht : Trans P c c') : DispInv s c' := by
  cases ht with
  | step hs =>
    obtain ⟨ins, rest, hc, ⟨ho, m, hm, hf⟩ | ⟨-, hcore⟩⟩ := step_ok_casesN hs
    · exact hI.neutral hC (other_neutral hc ho hm hf)
    · exact hI.core hC hc hcore
  | deliver hd =>
    obtain ⟨r, rs, hr, rfl⟩ := deliver_eq hd
    exact hI.congr rfl rfl (ExtP.cons (softT_irrel (softT_enqT _ _)) (ExtP.refl _ _))
  | halt hs =>
    rcases step_error_cases hs with ⟨-, -, rfl⟩ | ⟨ins, rest, hc, ⟨ho, m, hm, ⟨-, rfl⟩ | ⟨k, -, hk⟩⟩ | ⟨-, hcore⟩⟩
    · exact hI
    · exact hI.neutral hC (other_neutral hc ho hm .same)
    · have hh := (raise_hist hk (.inr ⟨_, rfl⟩)).1
      refine hI.halt_nil hC (by rw [hc]; exact otherI_pend ho rest) (by rw [(raise_error hk).1]) ?_ ?_
      · exact (hm.tr.toP (fun _ => softT_irrel)).trans (hh.mono (fun _ => exitOrSoft_irrel))
      · rw [(raise_error hk).1]; cases k <;> exact hm.handlers
    · have hp := coreErr_pend hcore s rest
      have hst := (coreErr_static hcore).1
      have htr := coreErr_origin hc hcore
      cases hcore
      case refuse =>
        exact hI.neutral hC ⟨⟨[], rest, rfl, by simp [hc], by simp⟩, ExtP.refl _ _, HExt.refl _, hc ▸ hp⟩
      case getBlocked h =>
        refine hI.neutral hC ⟨⟨[], rest, by simp [take_error_code h], by simp [hc], by simp⟩, ?_, by rw [hst]; exact HExt.refl _, hc ▸ hp⟩
        obtain ⟨-, h | h, -, -⟩ := take_error h
        · subst h; exact ExtP.refl _ _
        · obtain ⟨r, rs, hr, rfl⟩ := deliver_eq h
          exact ExtP.cons (softT_irrel (softT_enqT _ _)) (ExtP.refl _ _)
      case waitBlocked h =>
        refine hI.neutral hC ⟨⟨[], rest, by simp [take_error_code h], by simp [hc], by simp⟩, ?_, by rw [hst]; exact HExt.refl _, hc ▸ hp⟩
        obtain ⟨-, h | h, -, -⟩ := take_error h
        · subst h; exact ExtP.refl _ _
        · obtain ⟨r, rs, hr, rfl⟩ := deliver_eq h
          exact ExtP.cons (softT_irrel (softT_enqT _ _)) (ExtP.refl _ _)
      case kill =>
        exact hI.halt_nil hC (hc ▸ hp) rfl (ExtP.cons rfl (ExtP.refl _ _)) (HExt.refl _)
      case popErr h hr =>
        refine hI.halt_nil hC (hc ▸ hp) (by rw [(raise_error hr).1]) ?_ (by rw [hst]; exact HExt.refl _)
        exact (raise_hist hr (.inr ⟨_, rfl⟩)).1.mono (fun _ => exitOrSoft_irrel)
      case popExit q h h2 hr =>
        refine hI.halt_nil hC (hc ▸ hp) (by rw [(raise_error hr).1]) ?_ (by rw [hst]; exact HExt.refl _)
        exact ExtP.trans (ExtP.cons rfl (ExtP.refl _ _)) ((raise_hist hr (.inr ⟨_, rfl⟩)).1.mono (fun _ => exitOrSoft_irrel))

theorem dispInv_reach {P : Prog} {c0 c : Cfg} (h0 : Started c0) (hr : Reach P c0 c) (s : Sig) : DispInv s c := by
  refine reach_induction ?_ ?_ hr
  · obtain ⟨i, h, q, st, rfl⟩ := h0; exact .init s i h q st
  · intro c c' hr hI ht
    exact hI.trans (codeInv_reach h0 hr) ht

end Simpleline.Dispatch
