import Simpleline.Lemmas.DispatchSoft

namespace Simpleline.Dispatch
open Simpleline

/-- the result of a step of a non-core instruction: a soft change `m`, possibly followed by raising an exception -/
def OtherRes (r : Except (Outcome × Cfg) Cfg) (rest : List Instr) (c : Cfg) : Prop :=
  ∃ m, Soft rest c m ∧ (r = .ok m ∨ (∃ k, k ≠ Kind.sysexit ∧ r = m.raise k) ∨ r = .error (.livelock, m))

theorem OtherRes.ok {rest : List Instr} {c m : Cfg} (h : Soft rest c m) : OtherRes (.ok m) rest c := ⟨m, h, .inl rfl⟩
theorem OtherRes.raise {rest : List Instr} {c m : Cfg} {k : Kind} (hk : k ≠ Kind.sysexit) (h : Soft rest c m) :
    OtherRes (m.raise k) rest c := ⟨m, h, .inr (.inl ⟨k, hk, rfl⟩)⟩
theorem OtherRes.livelock {rest : List Instr} {c m : Cfg} (h : Soft rest c m) : OtherRes (.error (.livelock, m)) rest c :=
  ⟨m, h, .inr (.inr rfl)⟩

theorem OtherRes.of_ok {r} {rest : List Instr} {c m : Cfg} (hr : r = .ok m) (h : Soft rest c m) : OtherRes r rest c :=
  ⟨m, h, .inl hr⟩
theorem OtherRes.of_raise {r} {rest : List Instr} {c m : Cfg} {k : Kind} (hr : r = m.raise k) (hk : k ≠ Kind.sysexit)
    (h : Soft rest c m) : OtherRes r rest c := ⟨m, h, .inr (.inl ⟨k, hk, hr⟩)⟩

/-- what a step of a non-core instruction is -/
def OtherStep (P : Prog) (c : Cfg) (rest : List Instr) : Prop := OtherRes (step P c) rest c

macro "soft_field" : tactic => `(tactic| (
  (try simp [push, Cfg.trace, Cfg.write, Cfg.newSig, enqueue_eq, redraw_eq, emit_eq, newIH]) <;>
  repeat' first
    | exact CodeExt.refl _ _
    | exact Ext.refl _ _
    | exact HExt.refl _
    | exact CodeExt.dropPS _ _ (by intro i; cases i <;> rfl) (by assumption)
    | apply CodeExt.append (softI_go _ _ _ _ (by simp))
    | apply CodeExt.consPS
    | apply CodeExt.consPI
    | apply CodeExt.cons (by simp [softI, blockI])
    | apply CodeExt.append (by simp [softI, blockI])
    | apply Ext.cons (by first | exact softT_enqT _ _ | simp [softT, softE])
    | apply Ext.append (softT_emitTr _ _ _)
    | apply Ext.append (softE_emitLog _ _ _)
    | apply HExt.snoc))

macro "soft_solve" : tactic => `(tactic| (constructor <;> soft_field))

macro "other_leaf" : tactic => `(tactic| (
  (first | apply OtherRes.ok | apply OtherRes.raise (by simp) | apply OtherRes.livelock) <;> soft_solve))

theorem step_other {P : Prog} {c : Cfg} {ins : Instr} {rest : List Instr} (hc : c.code = ins :: rest)
    (ho : otherI ins = true) : OtherStep P c rest := by
  unfold OtherStep
  cases ins
  case procIter p => cases p <;> cases ho
  case act a =>
    simp only [step, hc]
    cases a
    case forceQuit => cases ho
    case proc cls => cases cls <;> simp only [doAct] <;> other_leaf
    all_goals simp only [doAct]
    all_goals repeat' split
    all_goals other_leaf
  case inputReceived s =>
    simp only [step, hc]
    split
    · other_leaf
    · refine OtherRes.ok (Soft.setA (Soft.foldl _ ?_ _ _ ?_) _)
      · intro m t hm; exact (hm.nextSid _).enqueue _
      · exact ((Soft.base _ _).nextSid _).enqueue _
  case getInput2 scr args =>
    simp only [step, hc]
    split
    · other_leaf
    · obtain ⟨m, hm, h⟩ := (((Soft.base rest c).setA (c.A.setScr scr fun s => { s with inputArgs := args })).addIH
        (.scr scr) (P.spec scr).skipCheck (some scr)).startReq (c.A.ihs.length) (.scr scr) (promptText P defaultPrompt)
      rcases h with h | h
      · exact .of_ok h hm
      · exact .of_raise h (by simp) hm
  case blockingInput scr cont =>
    simp only [step, hc]
    obtain ⟨m, hm, h⟩ := (((Soft.base rest c).addIH (.im scr) (P.spec scr).skipCheck none).pushI
      (is := [.waitInput (newIH { c with code := rest } (.im scr) (P.spec scr).skipCheck none).1]) (by simp [softI, blockI])).startReq
        (newIH { c with code := rest } (.im scr) (P.spec scr).skipCheck none).1 (.im scr)
        (if cont = true then promptText P contPrompt
            else match textPrompt P.cc msgPrompt P.width with | Except.ok s => s | Except.error _ => [])
    rcases h with h | h
    · exact .of_ok h hm
    · exact .of_raise h (by simp) hm
  all_goals first | (cases ho; done) | skip
  all_goals simp only [step, hc]
  all_goals repeat' split
  all_goals other_leaf

end Simpleline.Dispatch
