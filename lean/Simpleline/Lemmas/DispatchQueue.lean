import Simpleline.Lemmas.DispatchExec
import Simpleline.Lemmas.LoopWF

namespace Simpleline.Dispatch
open Simpleline

/-- The `ExceptionSignal` a catcher enqueues goes in front of every pending signal of the level it is routed to that is
less urgent than priority −20 (behind those at least as urgent); no other queue changes. -/
theorem exc_overtakes {P : Prog} {c0 c : Cfg} (h0 : Started c0) (hr : Reach P c0 c) (hf : c.L.forceQuit = false) (src : Src) :
    (((({ c with nextSid := c.nextSid + 1 } : Cfg).enqueue (excSig c.nextSid src)).queue (c.L.route src)).entries =
      (c.queue (c.L.route src)).entries.filter (fun x => x.1 ≤ -20) ++
        [((-20 : Int), (c.queue (c.L.route src)).seq, excSig c.nextSid src)] ++
        (c.queue (c.L.route src)).entries.filter (fun x => -20 < x.1)) ∧
    ∀ q', q' ≠ c.L.route src →
      (({ c with nextSid := c.nextSid + 1 } : Cfg).enqueue (excSig c.nextSid src)).queue q' = c.queue q' := by
  have hwf := WF.reach h0 hr
  have hlt : c.L.route src < c.L.queues.length := hwf.route_lt src
  have hsorted : (c.queue (c.L.route src)).Sorted := hwf.sorted _
  have e : ∀ q', (({ c with nextSid := c.nextSid + 1 } : Cfg).enqueue (excSig c.nextSid src)).queue q' =
      if c.L.route src = q' ∧ q' < c.L.queues.length then (c.queue q').put (excSig c.nextSid src) else c.queue q' := by
    intro q'
    simp only [enqueue_eq, Cfg.queue, enqQ, hf, Bool.false_eq_true, if_false]
    exact getD_listSet' _ _ _ _ _
  constructor
  · rw [e, if_pos ⟨rfl, hlt⟩]
    exact put_place _ hsorted
  · intro q' hq'
    rw [e, if_neg (fun h => hq' h.1.symm)]

end Simpleline.Dispatch
