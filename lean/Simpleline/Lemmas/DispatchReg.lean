import Simpleline.Lemmas.DispatchCodeInv

namespace Simpleline.Dispatch
open Simpleline

/-! ### the parts of the loop state that never change, or only grow -/

theorem coreN_static {P : Prog} {b c' : Cfg} {ins : Instr} (h : CoreN P b ins c') :
    c'.L.handlers = b.L.handlers ∧ c'.L.quitCb = b.L.quitCb ∧ b.L.tcounter ≤ c'.L.tcounter := by
  cases h <;> simp [push, Cfg.trace, enqueue_eq, emit_eq, excEnq]

theorem coreErr_static {P : Prog} {b c' : Cfg} {ins : Instr} {o : Outcome} (h : CoreErr P b ins o c') :
    c'.L.handlers = b.L.handlers ∧ c'.L.quitCb = b.L.quitCb ∧ b.L.tcounter ≤ c'.L.tcounter := by
  cases h
  case refuse => simp
  case getBlocked h =>
    obtain ⟨-, h | h, -, -⟩ := take_error h
    · subst h; simp
    · obtain ⟨r, rs, hr, rfl⟩ := deliver_eq h; simp
  case waitBlocked h =>
    obtain ⟨-, h | h, -, -⟩ := take_error h
    · subst h; simp
    · obtain ⟨r, rs, hr, rfl⟩ := deliver_eq h; simp
  case kill => simp [Cfg.trace, Cfg.write]
  case popErr h hr => rw [(raise_error hr).1]; simp [preRaise]
  case popExit h h2 hr => rw [(raise_error hr).1]; simp [preRaise, Cfg.trace]

/-- what every transition preserves: the quit callback; registrations and the ticket counter only grow -/
theorem trans_static {P : Prog} {c c' : Cfg} (h : Trans P c c') :
    HExt c.L.handlers c'.L.handlers ∧ c'.L.quitCb = c.L.quitCb ∧ c.L.tcounter ≤ c'.L.tcounter := by
  cases h with
  | step hs =>
    obtain ⟨ins, rest, hc, ⟨-, m, hm, hf⟩ | ⟨-, hcore⟩⟩ := step_ok_casesN hs
    · have := hm.frame hf
      exact ⟨this.handlers, this.quitCb, by rw [this.tcounter]; exact Nat.le_refl _⟩
    · obtain ⟨h1, h2, h3⟩ := coreN_static hcore
      exact ⟨by rw [h1]; exact HExt.refl _, h2, h3⟩
  | deliver hd =>
    have := (deliver_frame hd).1
    exact ⟨this.handlers, this.quitCb, by rw [this.tcounter]; exact Nat.le_refl _⟩
  | halt hs =>
    rcases step_error_cases hs with ⟨-, -, rfl⟩ | ⟨ins, rest, hc, ⟨-, m, hm, ⟨-, rfl⟩ | ⟨k, -, hk⟩⟩ | ⟨-, hcore⟩⟩
    · exact ⟨HExt.refl _, rfl, Nat.le_refl _⟩
    · exact ⟨hm.handlers, hm.quitCb, by rw [hm.tcounter]; exact Nat.le_refl _⟩
    · rw [(raise_error hk).1]
      cases k <;> exact ⟨hm.handlers, hm.quitCb, by simp [preRaise, hm.tcounter]⟩
    · obtain ⟨h1, h2, h3⟩ := coreErr_static hcore
      exact ⟨by rw [h1]; exact HExt.refl _, h2, h3⟩

theorem HExt.mem {old new : List (Cls × HRef × Option Nat)} (h : HExt old new) {x} (hx : x ∈ old) : x ∈ new := by
  obtain ⟨m, rfl, -⟩ := h
  exact List.mem_append_left _ hx

theorem HExt.prefix {old new : List (Cls × HRef × Option Nat)} (h : HExt old new) : old <+: new := by
  obtain ⟨m, rfl, -⟩ := h
  exact List.prefix_append _ _

theorem handlersOf_mem {L : LoopSt} {cls : Cls} {j : Nat} {h : HRef} {d : Option Nat}
    (hj : (handlersOf L cls)[j]? = some (h, d)) : (cls, h, d) ∈ L.handlers := by
  have := List.mem_of_getElem? hj
  unfold handlersOf at this
  simp only [List.mem_map, List.mem_filter] at this
  obtain ⟨⟨cls', h', d'⟩, ⟨hm, hcls⟩, heq⟩ := this
  simp at hcls heq
  obtain ⟨rfl, rfl⟩ := heq
  subst hcls
  exact hm

/-- every handler call in the history was for a handler registered for the signal's class, with its data -/
def CallReg (c : Cfg) : Prop := ∀ h d s, Tr.call h d s ∈ c.tr → (s.cls, h, d) ∈ c.L.handlers

theorem CallReg.trans {P : Prog} {c c' : Cfg} (hI : CallReg c) (hC : CodeInv c) (ht : Trans P c c') : CallReg c' := by
  intro h d s hm
  obtain ⟨hH, -, -⟩ := trans_static ht
  obtain ⟨new, hnew, hp⟩ := trans_origin ht
  rw [hnew] at hm
  rcases List.mem_append.mp hm with hm | hm
  · have := hp _ hm
    obtain ⟨j, K, -, hj, -⟩ := hC.headCall h d s this
    exact hH.mem (handlersOf_mem hj)
  · exact hH.mem (hI h d s hm)

theorem Reach.trans_cases {P : Prog} {c0 c : Cfg} (hr : Reach P c0 c) :
    c = c0 ∨ ∃ c1, Reach P c0 c1 ∧ Trans P c1 c := by
  cases hr with
  | init => exact .inl rfl
  | step hr hs => exact .inr ⟨_, hr, .step hs⟩
  | deliver hr hd => exact .inr ⟨_, hr, .deliver hd⟩
  | halt hr hs => exact .inr ⟨_, hr, .halt hs⟩

/-- induction over reachability with one case for all three kinds of transitions -/
theorem reach_induction {P : Prog} {c0 : Cfg} {motive : Cfg → Prop} (h0 : motive c0)
    (hstep : ∀ c c', Reach P c0 c → motive c → Trans P c c' → motive c') {c : Cfg} (hr : Reach P c0 c) : motive c := by
  induction hr with
  | init => exact h0
  | step hr hs ih => exact hstep _ _ hr ih (.step hs)
  | deliver hr hd ih => exact hstep _ _ hr ih (.deliver hd)
  | halt hr hs ih => exact hstep _ _ hr ih (.halt hs)

theorem callReg_reach {P : Prog} {c0 c : Cfg} (h0 : Started c0) (hr : Reach P c0 c) : CallReg c := by
  refine reach_induction ?_ ?_ hr
  · obtain ⟨i, h, q, s, rfl⟩ := h0
    intro h d s hm; simp [initCfg] at hm
  · intro c c' hr hI ht
    exact hI.trans (codeInv_reach h0 hr) ht

end Simpleline.Dispatch
