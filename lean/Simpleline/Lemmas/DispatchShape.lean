import Simpleline.Lemmas.DispatchExec

namespace Simpleline.Dispatch
open Simpleline

/-! ### the bottom of the pending code: `run()` itself -/

/-- the instructions of `App.run()` outside its main loop -/
def isTop : Instr → Bool
  | .apprun | .catchExit | .quitCb => true
  | _ => false

/-- the frames of `run()` that are still pending below everything else: before the start; while the
outermost `_mainloop` activation runs; when it has left its loop; when it has returned -/
inductive Tail : List Instr → Prop
  | pre : Tail [.apprun]
  | main : Tail [.mainCheck 0, .catchExit, .quitCb]
  | restore : Tail [.restoreRun, .catchExit, .quitCb]
  | fin : Tail [.catchExit, .quitCb]

/-- the pending code is `body ++ T` with `T` one of the tails (or only the quit callback is left, or nothing) -/
def Shape (c : Cfg) : Prop :=
  c.code = [] ∨ c.code = [.quitCb] ∨
    ∃ body T, c.code = body ++ T ∧ (∀ i ∈ body, isTop i = false) ∧ Tail T

theorem Tail.plain {T : List Instr} (h : Tail T) :
    ∀ i ∈ T, errCatch i = none ∧ notCatchPS i = true ∧ notEndPI i = true := by
  cases h <;> simp [errCatch, notCatchPS, notEndPI]

theorem Tail.exit {T : List Instr} (h : Tail T) : T = [.apprun] ∨ ∃ pre, T = pre ++ [.catchExit, .quitCb] ∧ ∀ i ∈ pre, isCatchExit i = false := by
  cases h
  · exact .inl rfl
  · exact .inr ⟨[.mainCheck 0], rfl, by simp [isCatchExit]⟩
  · exact .inr ⟨[.restoreRun], rfl, by simp [isCatchExit]⟩
  · exact .inr ⟨[], rfl, by simp⟩

theorem clean_not_catchExit {i : Instr} (h : isTop i = false) : isCatchExit i = false := by
  cases i <;> first | rfl | cases h

theorem softI_clean {i : Instr} (h : softI i = true) : isTop i = false := by
  cases i <;> first | rfl | cases h

/-- splitting a list at the first element satisfying `p` is unique -/
theorem split_first_unique {α} (p : α → Bool) {a a' b b' : List α} {x x' : α} (h : a ++ x :: b = a' ++ x' :: b')
    (ha : ∀ i ∈ a, p i = false) (ha' : ∀ i ∈ a', p i = false) (hx : p x = true) (hx' : p x' = true) :
    a = a' ∧ x = x' ∧ b = b' := by
  induction a generalizing a' with
  | nil =>
    cases a' with
    | nil => simp at h; exact ⟨rfl, h.1, h.2⟩
    | cons y a' =>
      simp at h
      have := ha' y (by simp)
      rw [← h.1, hx] at this; cases this
  | cons y a ih =>
    cases a' with
    | nil =>
      simp at h
      have := ha y (by simp)
      rw [h.1, hx'] at this; cases this
    | cons y' a' =>
      simp at h
      obtain ⟨rfl, h⟩ := h
      obtain ⟨rfl, rfl, rfl⟩ := ih h (fun i hi => ha i (by simp [hi])) (fun i hi => ha' i (by simp [hi]))
      exact ⟨rfl, rfl, rfl⟩

/-- an exit request in a code `B ++ T`: refused before the start, afterwards it lands on the quit callback -/
theorem shape_exit {B T pre rest' : List Instr} (hB : ∀ i ∈ B, isTop i = false) (hT : Tail T)
    (h : B ++ T = pre ++ .catchExit :: rest') (hpre : ∀ i ∈ pre, isCatchExit i = false) : rest' = [.quitCb] := by
  rcases hT.exit with rfl | ⟨p, rfl, hp⟩
  · exfalso
    have : Instr.catchExit ∈ B ++ [Instr.apprun] := by rw [h]; simp
    simp at this
    have := hB _ this; simp [isTop] at this
  · have h' : (B ++ p) ++ .catchExit :: [.quitCb] = pre ++ .catchExit :: rest' := by simpa using h
    have := split_first_unique isCatchExit h' (by
      intro i hi; rcases List.mem_append.mp hi with hi | hi
      · exact clean_not_catchExit (hB i hi)
      · exact hp i hi) hpre rfl rfl
    exact this.2.2.symm

theorem shape_exit_none {B T : List Instr} (hT : Tail T)
    (h : ∀ i ∈ B ++ T, isCatchExit i = false) : T = [.apprun] := by
  rcases hT.exit with rfl | ⟨p, rfl, hp⟩
  · rfl
  · have := h .catchExit (by simp); simp [isCatchExit] at this

theorem dropWhile_append_of_mem {α} {p : α → Bool} {l1 : List α} (l2 : List α) {x : α} (hx : x ∈ l1) (hp : p x = false) :
    (l1 ++ l2).dropWhile p = l1.dropWhile p ++ l2 ∧ l1.dropWhile p ≠ [] := by
  induction l1 with
  | nil => simp at hx
  | cons a l ih =>
    simp only [List.cons_append, List.dropWhile_cons]
    cases hpa : p a
    · simp
    · simp only [if_true]
      rcases List.mem_cons.mp hx with rfl | hx
      · rw [hp] at hpa; cases hpa
      · exact ih hx

/-- dropping up to a marker that is known to be in the body stays inside the body -/
theorem shape_drop {B T : List Instr} {p : Instr → Bool} (hT : ∀ i ∈ T, p i = true) (hany : (B ++ T).any (fun i => !p i) = true) :
    ∃ B', B' ≠ [] ∧ B' <:+ B ∧ (B ++ T).dropWhile p = B' ++ T := by
  simp only [List.any_eq_true, Bool.not_eq_true'] at hany
  obtain ⟨x, hx, hpx⟩ := hany
  rcases List.mem_append.mp hx with hx | hx
  · obtain ⟨h1, h2⟩ := dropWhile_append_of_mem T hx hpx
    exact ⟨_, h2, List.dropWhile_suffix _, h1⟩
  · rw [hT x hx] at hpx; cases hpx


theorem isEndPI_eq (i : Instr) : isEndPI i = !notEndPI i := by cases i <;> rfl
theorem isCatchPS_eq (i : Instr) : isCatchPS i = !notCatchPS i := by cases i <;> rfl

/-- if `x` is not in `T`, a split of `B ++ T` at `x` is a split of `B` -/
theorem split_in_body {B T pre post : List Instr} {x : Instr} (h : B ++ T = pre ++ x :: post) (hx : x ∉ T) :
    ∃ r2, B = pre ++ x :: r2 ∧ post = r2 ++ T := by
  rcases List.append_eq_append_iff.mp h with ⟨a', rfl, h2⟩ | ⟨c', rfl, h2⟩
  · exact absurd (by rw [h2]; simp) hx
  · cases c' with
    | nil => simp at h2; exact absurd (by rw [← h2]; simp) hx
    | cons y r2 =>
      simp at h2
      obtain ⟨rfl, rfl⟩ := h2
      exact ⟨r2, rfl, rfl⟩

/-- a caught ordinary exception in a code `B ++ T`: the catcher is in the body, and so is where execution continues -/
theorem shape_err {B T pre post : List Instr} {x : Instr} {src : Src} (hB : ∀ i ∈ B, isTop i = false) (hT : Tail T)
    (hcl : closedB (B ++ T) = true) (h : B ++ T = pre ++ x :: post) (hx : errCatch x = some src) :
    ∃ B', (∀ i ∈ B', isTop i = false) ∧ afterCatch x post = B' ++ T := by
  have hxT : x ∉ T := fun hm => by have := (hT.plain x hm).1; rw [hx] at this; cases this
  obtain ⟨r2, rfl, rfl⟩ := split_in_body h hxT
  have hr2 : ∀ i ∈ r2, isTop i = false := fun i hi => hB i (by simp [hi])
  have hcl2 : closedB (x :: (r2 ++ T)) = true :=
    closedB_suffix (by rw [List.append_assoc]; exact List.suffix_append _ _) hcl
  cases x <;> simp [errCatch] at hx
  case catchPI scr =>
    simp only [closedB, Bool.and_eq_true] at hcl2
    obtain ⟨B', hne, hsuf, hdrop⟩ := shape_drop (p := notEndPI) (B := r2) (T := T) (fun i hi => (hT.plain i hi).2.2)
      (by simpa [isEndPI_eq] using hcl2.1)
    refine ⟨B'.tail, fun i hi => hr2 i (hsuf.subset (List.mem_of_mem_tail hi)), ?_⟩
    simp only [afterCatch, hdrop]
    cases B' with
    | nil => exact absurd rfl hne
    | cons y B' => simp
  all_goals exact ⟨r2, hr2, rfl⟩

/-- `identCheck` giving up: the `catchPS` it skips to is in the body -/
theorem shape_dropPS {B T : List Instr} {top : Entry} (hB : ∀ i ∈ B, isTop i = false) (hT : Tail T)
    (hcl : closedB (.identCheck top :: (B ++ T)) = true) :
    ∃ B', (∀ i ∈ B', isTop i = false) ∧ (B ++ T).dropWhile notCatchPS = B' ++ T := by
  simp only [closedB, Bool.and_eq_true] at hcl
  obtain ⟨B', -, hsuf, hdrop⟩ := shape_drop (p := notCatchPS) (B := B) (T := T) (fun i hi => (hT.plain i hi).2.1)
    (by simpa [isCatchPS_eq] using hcl.1)
  exact ⟨B', fun i hi => hB i (hsuf.subset hi), hdrop⟩


/-- the shape after a transition, and: an exit request leaves exactly the quit callback (after the start) or nothing -/
def ShapeRes (c c' : Cfg) : Prop :=
  Shape c' ∧ (Tr.exit ∈ newTr c c' → c'.code = [.quitCb] ∨ (c'.code = [] ∧ ¬ AfterStart c))

theorem newTr_eq {c c' : Cfg} {new : List Tr} (h : c'.tr = new ++ c.tr) : newTr c c' = new := by
  simp [Simpleline.newTr, h]

theorem ShapeRes.body {c c' : Cfg} {B T : List Instr} {d : List Tr} (hcode : c'.code = B ++ T) (hB : ∀ i ∈ B, isTop i = false)
    (hT : Tail T) (htr : c'.tr = d ++ c.tr) (hd : Tr.exit ∉ d) : ShapeRes c c' := by
  refine ⟨.inr (.inr ⟨B, T, hcode, hB, hT⟩), fun h => ?_⟩
  rw [newTr_eq htr] at h
  exact absurd h hd

theorem soft_no_exit {d : List Tr} (h : ∀ t ∈ d, softT t = true) : Tr.exit ∉ d := by
  intro hm; have := h _ hm; simp [softT] at this

/-- after a soft change the code is again a clean body on the same tail, and closed -/
theorem soft_body {rest B T : List Instr} {ins : Instr} {c m : Cfg} (hc : c.code = ins :: rest)
    (hrest : rest = B ++ T) (hB : ∀ i ∈ B, isTop i = false) (hT : Tail T) (hcl : closedB c.code = true)
    (hm : Soft rest c m) : (∃ B', (∀ i ∈ B', isTop i = false) ∧ m.code = B' ++ T) ∧ closedB m.code = true := by
  obtain ⟨pushed, suf, hcode, hsuf, hp, hpc⟩ := hm.code
  constructor
  · rcases hsuf with rfl | ⟨top, hfull, rfl⟩
    · exact ⟨pushed ++ B, fun i hi => by
        rcases List.mem_append.mp hi with hi | hi
        · exact softI_clean (hp i hi)
        · exact hB i hi, by rw [hcode, hrest, List.append_assoc]⟩
    · rw [hfull, hrest] at hcl
      obtain ⟨B', hB', hdrop⟩ := shape_dropPS hB hT hcl
      exact ⟨pushed ++ B', fun i hi => by
        rcases List.mem_append.mp hi with hi | hi
        · exact softI_clean (hp i hi)
        · exact hB' i hi, by rw [hcode, hrest, hdrop, List.append_assoc]⟩
  · obtain ⟨pushed', suf', hcode', hsuf', -, hpc'⟩ := hm.code.suffix_rest
    rw [hcode']
    exact closedB_append hpc' (closedB_suffix hsuf' (closedB_tail (hc ▸ hcl)))

/-- the shape is preserved by a soft step out of a body instruction -/
theorem shape_other {rest B T : List Instr} {ins : Instr} {c m c' : Cfg} (hc : c.code = ins :: rest)
    (hrest : rest = B ++ T) (hB : ∀ i ∈ B, isTop i = false) (hT : Tail T) (hcl : closedB c.code = true)
    (hm : Soft rest c m) (hf : OtherFin m c') : ShapeRes c c' := by
  obtain ⟨d, hd, hds⟩ := hm.tr
  obtain ⟨⟨B', hB', hmcode⟩, hmcl⟩ := soft_body hc hrest hB hT hcl hm
  cases hf
  case same => exact .body hmcode hB' hT hd (soft_no_exit hds)
  case exit pre rest' hcode' hpre =>
    rw [hmcode] at hcode'
    have := shape_exit hB' hT hcode' hpre
    subst this
    exact ⟨.inr (.inl rfl), fun _ => .inl rfl⟩
  case err pre x rest' src hcode' hpre hins =>
    rw [hmcode] at hcode' hmcl
    obtain ⟨B'', hB'', hafter⟩ := shape_err hB' hT hmcl hcode' hins
    refine .body (d := enqT m.L (excSig m.nextSid src) :: d) hafter hB'' hT (by simp [excEnq, hd]) ?_
    intro hm'
    rcases List.mem_cons.mp hm' with h | h
    · have := softT_enqT m.L (excSig m.nextSid src); rw [← h] at this; simp [softT] at this
    · exact soft_no_exit hds h

/-- `code` is `rest` with non-top instructions pushed in front -/
def CodeC (rest code : List Instr) : Prop := ∃ pushed, code = pushed ++ rest ∧ ∀ i ∈ pushed, isTop i = false

theorem CodeC.refl (rest : List Instr) : CodeC rest rest := ⟨[], rfl, by simp⟩

theorem CodeC.cons {rest l : List Instr} {i : Instr} (hi : isTop i = false) (h : CodeC rest l) : CodeC rest (i :: l) := by
  obtain ⟨p, rfl, hp⟩ := h
  exact ⟨i :: p, rfl, by simpa [hi] using hp⟩

theorem CodeC.append {rest l d : List Instr} (hd : ∀ i ∈ d, isTop i = false) (h : CodeC rest l) : CodeC rest (d ++ l) := by
  obtain ⟨p, rfl, hp⟩ := h
  refine ⟨d ++ p, by simp, ?_⟩
  intro t ht; simp at ht; rcases ht with ht | ht; exact hd t ht; exact hp t ht

theorem bodyOf_clean (P : Prog) (X : Cfg) (h : HRef) (s : Sig) : ∀ i ∈ bodyOf P X h s, isTop i = false := by
  intro i hi
  cases h <;> simp [bodyOf] at hi
  case user hid => rcases hi with ⟨a, -, rfl⟩ | rfl <;> rfl
  all_goals (subst hi; rfl)

macro "codeC_tac" : tactic => `(tactic| (
  (try simp only [push, Cfg.trace, enqueue_eq, emit_eq, excEnq, List.cons_append, List.nil_append]) <;>
  repeat' first
    | exact CodeC.refl _
    | apply CodeC.cons (by simp [isTop])
    | apply CodeC.append (bodyOf_clean _ _ _ _)))

/-- the new trace events are `d`, none of them an exit request -/
def NoExit (old new : List Tr) : Prop := ∃ d, new = d ++ old ∧ Tr.exit ∉ d

theorem NoExit.refl (old : List Tr) : NoExit old old := ⟨[], rfl, by simp⟩

theorem NoExit.cons {old l : List Tr} {t : Tr} (ht : t ≠ .exit) (h : NoExit old l) : NoExit old (t :: l) := by
  obtain ⟨d, rfl, hd⟩ := h
  exact ⟨t :: d, rfl, by simp [hd, Ne.symm ht]⟩

theorem NoExit.append {old l d : List Tr} (hd : ∀ t ∈ d, softT t = true) (h : NoExit old l) : NoExit old (d ++ l) := by
  obtain ⟨d', rfl, hd'⟩ := h
  refine ⟨d ++ d', by simp, ?_⟩
  intro hm; rcases List.mem_append.mp hm with hm | hm
  · exact soft_no_exit hd hm
  · exact hd' hm

theorem enqT_ne_exit (L : LoopSt) (s : Sig) : enqT L s ≠ .exit := by
  unfold enqT; split <;> simp

macro "noExit_tac" : tactic => `(tactic| (
  (try simp only [push, Cfg.trace, enqueue_eq, emit_eq, excEnq]) <;>
  repeat' first
    | exact NoExit.refl _
    | apply NoExit.append (softT_emitTr _ _ _)
    | apply NoExit.append (by assumption)
    | apply NoExit.cons (enqT_ne_exit _ _)
    | apply NoExit.cons (by simp)))

theorem ShapeRes.ofC {c c' : Cfg} {rest B T : List Instr} (hrest : rest = B ++ T) (hB : ∀ i ∈ B, isTop i = false) (hT : Tail T)
    (hcode : CodeC rest c'.code) (htr : NoExit c.tr c'.tr) : ShapeRes c c' := by
  obtain ⟨pushed, hcode, hp⟩ := hcode
  obtain ⟨d, htr, hd⟩ := htr
  refine .body (B := pushed ++ B) (by rw [hcode, hrest, List.append_assoc]) ?_ hT htr hd
  intro i hi
  rcases List.mem_append.mp hi with hi | hi
  · exact hp i hi
  · exact hB i hi

/-- the shape is preserved by a core step out of a body instruction -/
theorem shape_core_body {P : Prog} {rest B T : List Instr} {ins : Instr} {c c' : Cfg} (hc : c.code = ins :: rest)
    (hrest : rest = B ++ T) (hB : ∀ i ∈ B, isTop i = false) (hT : Tail T) (hcl : closedB c.code = true)
    (hins : isTop ins = false) (h : CoreN P { c with code := rest } ins c') : ShapeRes c c' := by
  have hclr : closedB (B ++ T) = true := hrest ▸ closedB_tail (hc ▸ hcl)
  cases h
  case apprun => cases hins
  case catchExit => cases hins
  case quitCbSome => cases hins
  case quitCbNone => cases hins
  case popErr pre x rest' src h hcode hpre hx =>
    simp only at hcode
    rw [hrest] at hcode
    obtain ⟨B', hB', hafter⟩ := shape_err hB hT hclr hcode hx
    exact .body (d := [enqT c.L (excSig c.nextSid src)]) hafter hB' hT (by simp [excEnq])
      (by simp [Ne.symm (enqT_ne_exit _ _)])
  case popExit q pre rest' h h2 hcode hpre =>
    simp only at hcode
    rw [hrest] at hcode
    have := shape_exit hB hT hcode hpre
    subst this
    exact ⟨.inr (.inl rfl), fun _ => .inl rfl⟩
  all_goals
    refine .ofC hrest hB hT ?_ ?_
    · codeC_tac
    · noExit_tac


theorem shape_cases {c : Cfg} {ins : Instr} {rest : List Instr} (hS : Shape c) (hc : c.code = ins :: rest) :
    (ins = .quitCb ∧ rest = []) ∨ Tail (ins :: rest) ∨
    (isTop ins = false ∧ ∃ B T, rest = B ++ T ∧ (∀ i ∈ B, isTop i = false) ∧ Tail T) := by
  rcases hS with h | h | ⟨body, T, h, hB, hT⟩
  · rw [hc] at h; cases h
  · rw [hc] at h; cases h; exact .inl ⟨rfl, rfl⟩
  · rw [hc] at h
    cases body with
    | nil => simp at h; exact .inr (.inl (h ▸ hT))
    | cons b B =>
      simp at h
      obtain ⟨rfl, rfl⟩ := h
      exact .inr (.inr ⟨hB _ (by simp), B, T, rfl, fun i hi => hB i (by simp [hi]), hT⟩)

theorem ShapeRes.nil {c c' : Cfg} (h : c'.code = []) (hx : Tr.exit ∈ newTr c c' → ¬ AfterStart c) : ShapeRes c c' :=
  ⟨.inl h, fun hm => .inr ⟨h, hx hm⟩⟩

theorem shape_core_top {P : Prog} {rest : List Instr} {ins : Instr} {c c' : Cfg} (hc : c.code = ins :: rest)
    (hT : (ins = .quitCb ∧ rest = []) ∨ Tail (ins :: rest)) (h : CoreN P { c with code := rest } ins c') : ShapeRes c c' := by
  rcases hT with ⟨rfl, rfl⟩ | hT
  · cases h
    case quitCbSome d hd =>
      refine ⟨.inl (by simp [emit_eq]), fun hm => ?_⟩
      rw [newTr_eq (new := emitTr P ({ c with code := [] } : Cfg) (.quitcb d)) (by simp [emit_eq])] at hm
      exact absurd hm (soft_no_exit (softT_emitTr _ _ _))
    case quitCbNone hd => exact ⟨.inl rfl, fun hm => by simp [Simpleline.newTr] at hm⟩
  · cases hT
    case pre =>
      cases h
      exact .body (B := []) (T := [.mainCheck 0, .catchExit, .quitCb]) (d := []) (by simp [push]) (by simp) .main
        (by simp [push]) (by simp)
    case main =>
      cases h
      case mainGo hr =>
        exact .body (B := [.loopCheck]) (T := [.mainCheck 0, .catchExit, .quitCb]) (d := []) (by simp [push])
          (by simp [isTop]) .main (by simp [push]) (by simp)
      case mainExit hr =>
        exact .body (B := []) (T := [.restoreRun, .catchExit, .quitCb]) (d := [.loopReturn 0]) (by simp [push, Cfg.trace])
          (by simp) .restore (by simp [push, Cfg.trace]) (by simp)
    case restore =>
      cases h
      case restoreFQ hf => exact .body (B := []) (T := [.catchExit, .quitCb]) (d := []) rfl (by simp) .fin rfl (by simp)
      case restore hf => exact .body (B := []) (T := [.catchExit, .quitCb]) (d := []) rfl (by simp) .fin rfl (by simp)
    case fin =>
      cases h
      exact ⟨.inr (.inl rfl), fun hm => by simp [Simpleline.newTr] at hm⟩

theorem Tail.head_core {ins : Instr} {rest : List Instr} (h : Tail (ins :: rest)) : otherI ins = false := by
  cases h <;> rfl

theorem raise_exit_error_no_catch {c c' : Cfg} {o : Outcome} (h : c.raise .exit = .error (o, c')) :
    ∀ i ∈ c.code, isCatchExit i = false := by
  rcases catchExit_split c.code with hn | ⟨pre, rest, h1, h2⟩
  · exact hn
  · rw [raise_eq, h1, unwind_exit_catch h2] at h; cases h

theorem not_afterStart_of_mem {c : Cfg} (h : Instr.apprun ∈ c.code) : ¬ AfterStart c := by
  intro hA
  have := List.all_eq_true.mp hA _ h
  simp [isApprun] at this

/-- an exit request that nothing catches: `run()` has not been entered -/
theorem exit_uncaught_pre {c X c' : Cfg} {o : Outcome} {ins : Instr} {B T : List Instr} (hc : c.code = ins :: (B ++ T))
    (hT : Tail T) (hX : ∃ B', X.code = B' ++ T) (h : X.raise .exit = .error (o, c')) : ¬ AfterStart c := by
  obtain ⟨B', hX⟩ := hX
  have hn := raise_exit_error_no_catch h
  rw [hX] at hn
  have := shape_exit_none hT hn
  subst this
  exact not_afterStart_of_mem (by rw [hc]; simp)

/-- the shape of the code is preserved by every transition; an exit request leaves only the quit callback, or nothing -/
theorem shape_trans {P : Prog} {c c' : Cfg} (hS : Shape c) (hcl : closedB c.code = true) (ht : Trans P c c') : ShapeRes c c' := by
  cases ht with
  | step hs =>
    obtain ⟨ins, rest, hc, ⟨ho, m, hm, hf⟩ | ⟨ho, hcore⟩⟩ := step_ok_casesN hs
    · rcases shape_cases hS hc with ⟨rfl, -⟩ | hT | ⟨-, B, T, hrest, hB, hT⟩
      · cases ho
      · rw [hT.head_core] at ho; cases ho
      · exact shape_other hc hrest hB hT hcl hm hf
    · rcases shape_cases hS hc with h | hT | ⟨hins, B, T, hrest, hB, hT⟩
      · exact shape_core_top hc (.inl h) hcore
      · exact shape_core_top hc (.inr hT) hcore
      · exact shape_core_body hc hrest hB hT hcl hins hcore
  | deliver hd =>
    obtain ⟨r, rs, hr, rfl⟩ := deliver_eq hd
    refine ⟨hS, fun hm => ?_⟩
    rw [newTr_eq (new := [enqT c.L (lineSig c r)]) rfl] at hm
    simp at hm
    exact absurd hm.symm (enqT_ne_exit _ _)
  | halt hs =>
    rcases step_error_cases hs with ⟨-, -, rfl⟩ | ⟨ins, rest, hc, ⟨ho, m, hm, ⟨-, rfl⟩ | ⟨k, -, hk⟩⟩ | ⟨ho, hcore⟩⟩
    · exact ⟨hS, fun hm => by simp [Simpleline.newTr] at hm⟩
    · rcases shape_cases hS hc with ⟨rfl, -⟩ | hT | ⟨-, B, T, hrest, hB, hT⟩
      · cases ho
      · rw [hT.head_core] at ho; cases ho
      · exact shape_other hc hrest hB hT hcl hm .same
    · refine .nil (by rw [(raise_error hk).1]) (fun hx => ?_)
      rcases shape_cases hS hc with ⟨rfl, -⟩ | hT | ⟨-, B, T, hrest, hB, hT⟩
      · cases ho
      · rw [hT.head_core] at ho; cases ho
      · obtain ⟨⟨B', -, hmcode⟩, -⟩ := soft_body hc hrest hB hT hcl hm
        obtain ⟨d, hd, hds⟩ := hm.tr
        cases k
        · exact exit_uncaught_pre (hrest ▸ hc) hT ⟨B', hmcode⟩ hk
        · rw [(raise_error hk).1, newTr_eq (new := d) (by simp [preRaise, hd])] at hx
          exact absurd hx (soft_no_exit hds)
        · rw [(raise_error hk).1, newTr_eq (new := d) (by simp [preRaise, hd])] at hx
          exact absurd hx (soft_no_exit hds)
    · cases hcore
      case refuse hne =>
        rcases shape_cases hS hc with ⟨h, -⟩ | hT | ⟨hins, -⟩
        · cases h
        · cases hT; exact .nil rfl (fun hx => by simp [Simpleline.newTr] at hx)
        · cases hins
      case getBlocked h =>
        rcases shape_cases hS hc with ⟨h', -⟩ | hT | ⟨hins, B, T, hrest, hB, hT⟩
        · cases h'
        · cases hT
        · obtain ⟨-, h | h, -, -⟩ := take_error h
          · subst h; exact .body (d := []) hrest hB hT rfl (by simp)
          · obtain ⟨r, rs, hr, rfl⟩ := deliver_eq h
            exact .body (d := [enqT c.L (lineSig { c with code := rest } r)]) hrest hB hT rfl
              (by simp [Ne.symm (enqT_ne_exit _ _)])
      case waitBlocked hrl h =>
        rcases shape_cases hS hc with ⟨h', -⟩ | hT | ⟨hins, B, T, hrest, hB, hT⟩
        · cases h'
        · cases hT
        · obtain ⟨-, h | h, -, -⟩ := take_error h
          · subst h; exact .body (d := []) hrest hB hT rfl (by simp)
          · obtain ⟨r, rs, hr, rfl⟩ := deliver_eq h
            exact .body (d := [enqT c.L (lineSig { c with code := rest } r)]) hrest hB hT rfl
              (by simp [Ne.symm (enqT_ne_exit _ _)])
      case kill =>
        refine .nil rfl (fun hx => ?_)
        rw [newTr_eq (new := [.kill]) (by simp [Cfg.trace, Cfg.write])] at hx
        simp at hx
      case popErr h hr =>
        refine .nil (by rw [(raise_error hr).1]) (fun hx => ?_)
        rw [(raise_error hr).1, newTr_eq (new := []) (by simp [preRaise])] at hx
        simp at hx
      case popExit q h h2 hr =>
        refine .nil (by rw [(raise_error hr).1]) (fun _ => ?_)
        rcases shape_cases hS hc with ⟨h', -⟩ | hT | ⟨hins, B, T, hrest, hB, hT⟩
        · cases h'
        · cases hT
        · exact exit_uncaught_pre (hrest ▸ hc) hT ⟨B, hrest⟩ hr


theorem Shape.init (init : List Act) (handlers : List (Cls × HRef × Option Nat)) (quitCb : Option Nat) (stdin : List Str) :
    Shape (initCfg init handlers quitCb stdin) :=
  .inr (.inr ⟨init.map .act, [.apprun], rfl, by simp [isTop], .pre⟩)

theorem shape_reach {P : Prog} {c0 c : Cfg} (h0 : Started c0) (hr : Reach P c0 c) : Shape c := by
  refine reach_induction ?_ ?_ hr
  · obtain ⟨i, h, q, s, rfl⟩ := h0; exact .init i h q s
  · intro c c' hr hI ht
    exact (shape_trans hI (codeInv_reach h0 hr).closed ht).1

/-- once only the quit callback (or nothing) is left, nothing else ever runs -/
theorem over_trans {P : Prog} {c c' : Cfg} (h : c.code = [.quitCb] ∨ c.code = []) (ht : Trans P c c') :
    c'.code = [.quitCb] ∨ c'.code = [] := by
  cases ht with
  | step hs =>
    obtain ⟨ins, rest, hc, ⟨ho, m, hm, hf⟩ | ⟨ho, hcore⟩⟩ := step_ok_casesN hs
    · rcases h with h | h <;> rw [hc] at h <;> cases h; cases ho
    · rcases h with h | h <;> rw [hc] at h <;> cases h
      cases hcore
      · exact .inr (by simp [emit_eq])
      · exact .inr rfl
  | deliver hd => rw [(deliver_frame hd).2]; exact h
  | halt hs =>
    rcases step_error_cases hs with ⟨-, -, rfl⟩ | ⟨ins, rest, hc, ⟨ho, -⟩ | ⟨ho, hcore⟩⟩
    · exact h
    · rcases h with h | h <;> rw [hc] at h <;> cases h; cases ho
    · rcases h with h | h <;> rw [hc] at h <;> cases h
      cases hcore

/-- after an exit request only the quit callback is left to run, or nothing -/
theorem exit_over_reach {P : Prog} {c0 c : Cfg} (h0 : Started c0) (hr : Reach P c0 c) (hm : Tr.exit ∈ c.tr) :
    c.code = [.quitCb] ∨ c.code = [] := by
  revert hm
  refine reach_induction (motive := fun c => Tr.exit ∈ c.tr → c.code = [.quitCb] ∨ c.code = []) ?_ ?_ hr
  · obtain ⟨i, h, q, s, rfl⟩ := h0
    intro hm; simp [initCfg] at hm
  · intro c c' hr hI ht hm
    obtain ⟨hnew, -⟩ := (trans_origin ht).toNewTr
    rw [hnew] at hm
    rcases List.mem_append.mp hm with hm | hm
    · exact ((shape_trans (shape_reach h0 hr) (codeInv_reach h0 hr).closed ht).2 hm).imp id And.left
    · exact over_trans (hI hm) ht

end Simpleline.Dispatch
