import Simpleline.Lemmas.DispatchExec

namespace Simpleline.Dispatch
open Simpleline

/-! ### the bottom of the pending code: `run()` itself -/

/-- the instructions of `App.run()` outside its main loop -/
def isTop : Instr → Bool
  | .apprun | .catchExit | .quitCb => true
  | _ => false

/-- the frames of `run()` that are still pending below everything else: before the start; while the
outermost `_mainloop` activation runs; when it has left its loop; when it has returned -/
inductive Tail : List Instr → Prop
  | pre : Tail [.apprun]
  | main : Tail [.mainCheck 0, .catchExit, .quitCb]
  | restore : Tail [.restoreRun, .catchExit, .quitCb]
  | fin : Tail [.catchExit, .quitCb]

/-- the tails above which other code may be pending: before the start, and while the outermost loop runs -/
def OpenTail (T : List Instr) : Prop := T = [.apprun] ∨ T = [.mainCheck 0, .catchExit, .quitCb]

theorem OpenTail.tail {T : List Instr} (h : OpenTail T) : Tail T := by
  rcases h with rfl | rfl
  · exact .pre
  · exact .main

/-- the pending code is `body ++ T` with `T` the pending `apprun` or the outermost loop test followed by
`catchExit, quitCb`; or the outermost loop has been left and exactly `restoreRun, catchExit, quitCb` / `catchExit, quitCb` /
`quitCb` / nothing is left -/
def Shape (c : Cfg) : Prop :=
  c.code = [] ∨ c.code = [.quitCb] ∨ c.code = [.catchExit, .quitCb] ∨ c.code = [.restoreRun, .catchExit, .quitCb] ∨
    ∃ body T, c.code = body ++ T ∧ (∀ i ∈ body, isTop i = false) ∧ OpenTail T

theorem Tail.plain {T : List Instr} (h : Tail T) :
    ∀ i ∈ T, errCatch i = none ∧ notCatchPS i = true ∧ notEndPI i = true := by
  cases h <;> simp [errCatch, notCatchPS, notEndPI]

theorem Tail.exit {T : List Instr} (h : Tail T) : T = [.apprun] ∨ ∃ pre, T = pre ++ [.catchExit, .quitCb] ∧ ∀ i ∈ pre, isCatchExit i = false := by
  cases h
  · exact .inl rfl
  · exact .inr ⟨[.mainCheck 0], rfl, by simp [isCatchExit]⟩
  · exact .inr ⟨[.restoreRun], rfl, by simp [isCatchExit]⟩
  · exact .inr ⟨[], rfl, by simp⟩

theorem clean_not_catchExit {i : Instr} (h : isTop i = false) : isCatchExit i = false := by
  cases i <;> first | rfl | cases h

theorem softI_clean {i : Instr} (h : softI i = true) : isTop i = false := by
  cases i <;> first | rfl | cases h

/-- splitting a list at the first element satisfying `p` is unique -/
theorem split_first_unique {α} (p : α → Bool) {a a' b b' : List α} {x x' : α} (h : a ++ x :: b = a' ++ x' :: b')
    (ha : ∀ i ∈ a, p i = false) (ha' : ∀ i ∈ a', p i = false) (hx : p x = true) (hx' : p x' = true) :
    a = a' ∧ x = x' ∧ b = b' := by
  induction a generalizing a' with
  | nil =>
    cases a' with
    | nil => simp at h; exact ⟨rfl, h.1, h.2⟩
    | cons y a' =>
      simp at h
      have := ha' y (by simp)
      rw [← h.1, hx] at this; cases this
  | cons y a ih =>
    cases a' with
    | nil =>
      simp at h
      have := ha y (by simp)
      rw [h.1, hx'] at this; cases this
    | cons y' a' =>
      simp at h
      obtain ⟨rfl, h⟩ := h
      obtain ⟨rfl, rfl, rfl⟩ := ih h (fun i hi => ha i (by simp [hi])) (fun i hi => ha' i (by simp [hi]))
      exact ⟨rfl, rfl, rfl⟩

/-- an exit request in a code `B ++ T`: refused before the start, afterwards it lands on the quit callback -/
theorem shape_exit {B T pre rest' : List Instr} (hB : ∀ i ∈ B, isTop i = false) (hT : Tail T)
    (h : B ++ T = pre ++ .catchExit :: rest') (hpre : ∀ i ∈ pre, isCatchExit i = false) : rest' = [.quitCb] := by
  rcases hT.exit with rfl | ⟨p, rfl, hp⟩
  · exfalso
    have : Instr.catchExit ∈ B ++ [Instr.apprun] := by rw [h]; simp
    simp at this
    have := hB _ this; simp [isTop] at this
  · have h' : (B ++ p) ++ .catchExit :: [.quitCb] = pre ++ .catchExit :: rest' := by simpa using h
    have := split_first_unique isCatchExit h' (by
      intro i hi; rcases List.mem_append.mp hi with hi | hi
      · exact clean_not_catchExit (hB i hi)
      · exact hp i hi) hpre rfl rfl
    exact this.2.2.symm

theorem shape_exit_none {B T : List Instr} (hT : Tail T)
    (h : ∀ i ∈ B ++ T, isCatchExit i = false) : T = [.apprun] := by
  rcases hT.exit with rfl | ⟨p, rfl, hp⟩
  · rfl
  · have := h .catchExit (by simp); simp [isCatchExit] at this

theorem dropWhile_append_of_mem {α} {p : α → Bool} {l1 : List α} (l2 : List α) {x : α} (hx : x ∈ l1) (hp : p x = false) :
    (l1 ++ l2).dropWhile p = l1.dropWhile p ++ l2 ∧ l1.dropWhile p ≠ [] := by
  induction l1 with
  | nil => simp at hx
  | cons a l ih =>
    simp only [List.cons_append, List.dropWhile_cons]
    cases hpa : p a
    · simp
    · simp only [if_true]
      rcases List.mem_cons.mp hx with rfl | hx
      · rw [hp] at hpa; cases hpa
      · exact ih hx

/-- dropping up to a marker that is known to be in the body stays inside the body -/
theorem shape_drop {B T : List Instr} {p : Instr → Bool} (hT : ∀ i ∈ T, p i = true) (hany : (B ++ T).any (fun i => !p i) = true) :
    ∃ B', B' ≠ [] ∧ B' <:+ B ∧ (B ++ T).dropWhile p = B' ++ T := by
  simp only [List.any_eq_true, Bool.not_eq_true'] at hany
  obtain ⟨x, hx, hpx⟩ := hany
  rcases List.mem_append.mp hx with hx | hx
  · obtain ⟨h1, h2⟩ := dropWhile_append_of_mem T hx hpx
    exact ⟨_, h2, List.dropWhile_suffix _, h1⟩
  · rw [hT x hx] at hpx; cases hpx


theorem isEndPI_eq (i : Instr) : isEndPI i = !notEndPI i := by cases i <;> rfl
theorem isCatchPS_eq (i : Instr) : isCatchPS i = !notCatchPS i := by cases i <;> rfl

/-- if `x` is not in `T`, a split of `B ++ T` at `x` is a split of `B` -/
theorem split_in_body {B T pre post : List Instr} {x : Instr} (h : B ++ T = pre ++ x :: post) (hx : x ∉ T) :
    ∃ r2, B = pre ++ x :: r2 ∧ post = r2 ++ T := by
  rcases List.append_eq_append_iff.mp h with ⟨a', rfl, h2⟩ | ⟨c', rfl, h2⟩
  · exact absurd (by rw [h2]; simp) hx
  · cases c' with
    | nil => simp at h2; exact absurd (by rw [← h2]; simp) hx
    | cons y r2 =>
      simp at h2
      obtain ⟨rfl, rfl⟩ := h2
      exact ⟨r2, rfl, rfl⟩

/-- a caught ordinary exception in a code `B ++ T`: the catcher is in the body, and so is where execution continues -/
theorem shape_err {B T pre post : List Instr} {x : Instr} {src : Src} (hB : ∀ i ∈ B, isTop i = false) (hT : Tail T)
    (hcl : closedB (B ++ T) = true) (h : B ++ T = pre ++ x :: post) (hx : errCatch x = some src) :
    ∃ B', (∀ i ∈ B', isTop i = false) ∧ afterCatch x post = B' ++ T := by
  have hxT : x ∉ T := fun hm => by have := (hT.plain x hm).1; rw [hx] at this; cases this
  obtain ⟨r2, rfl, rfl⟩ := split_in_body h hxT
  have hr2 : ∀ i ∈ r2, isTop i = false := fun i hi => hB i (by simp [hi])
  have hcl2 : closedB (x :: (r2 ++ T)) = true :=
    closedB_suffix (by rw [List.append_assoc]; exact List.suffix_append _ _) hcl
  cases x <;> simp [errCatch] at hx
  case catchPI scr =>
    simp only [closedB, Bool.and_eq_true] at hcl2
    obtain ⟨B', hne, hsuf, hdrop⟩ := shape_drop (p := notEndPI) (B := r2) (T := T) (fun i hi => (hT.plain i hi).2.2)
      (by simpa [isEndPI_eq] using hcl2.1)
    refine ⟨B'.tail, fun i hi => hr2 i (hsuf.subset (List.mem_of_mem_tail hi)), ?_⟩
    simp only [afterCatch, hdrop]
    cases B' with
    | nil => exact absurd rfl hne
    | cons y B' => simp
  all_goals exact ⟨r2, hr2, rfl⟩

/-- `identCheck` giving up: the `catchPS` it skips to is in the body -/
theorem shape_dropPS {B T : List Instr} {top : Entry} (hB : ∀ i ∈ B, isTop i = false) (hT : Tail T)
    (hcl : closedB (.identCheck top :: (B ++ T)) = true) :
    ∃ B', (∀ i ∈ B', isTop i = false) ∧ (B ++ T).dropWhile notCatchPS = B' ++ T := by
  simp only [closedB, Bool.and_eq_true] at hcl
  obtain ⟨B', -, hsuf, hdrop⟩ := shape_drop (p := notCatchPS) (B := B) (T := T) (fun i hi => (hT.plain i hi).2.1)
    (by simpa [isCatchPS_eq] using hcl.1)
  exact ⟨B', fun i hi => hB i (hsuf.subset hi), hdrop⟩


theorem newTr_eq {c c' : Cfg} {new : List Tr} (h : c'.tr = new ++ c.tr) : newTr c c' = new := by
  simp [Simpleline.newTr, h]

theorem soft_no_exit {d : List Tr} (h : ∀ t ∈ d, softT t = true) : Tr.exit ∉ d := by
  intro hm; have := h _ hm; simp [softT] at this

/-- after a soft change the code is again a clean body on the same tail, and closed -/
theorem soft_body {rest B T : List Instr} {ins : Instr} {c m : Cfg} (hc : c.code = ins :: rest)
    (hrest : rest = B ++ T) (hB : ∀ i ∈ B, isTop i = false) (hT : Tail T) (hcl : closedB c.code = true)
    (hm : Soft rest c m) : (∃ B', (∀ i ∈ B', isTop i = false) ∧ m.code = B' ++ T) ∧ closedB m.code = true := by
  obtain ⟨pushed, suf, hcode, hsuf, hp, hpc⟩ := hm.code
  constructor
  · rcases hsuf with rfl | ⟨top, hfull, rfl⟩
    · exact ⟨pushed ++ B, fun i hi => by
        rcases List.mem_append.mp hi with hi | hi
        · exact softI_clean (hp i hi)
        · exact hB i hi, by rw [hcode, hrest, List.append_assoc]⟩
    · rw [hfull, hrest] at hcl
      obtain ⟨B', hB', hdrop⟩ := shape_dropPS hB hT hcl
      exact ⟨pushed ++ B', fun i hi => by
        rcases List.mem_append.mp hi with hi | hi
        · exact softI_clean (hp i hi)
        · exact hB' i hi, by rw [hcode, hrest, hdrop, List.append_assoc]⟩
  · obtain ⟨pushed', suf', hcode', hsuf', -, hpc'⟩ := hm.code.suffix_rest
    rw [hcode']
    exact closedB_append hpc' (closedB_suffix hsuf' (closedB_tail (hc ▸ hcl)))

/-- `code` is `rest` with non-top instructions pushed in front -/
def CodeC (rest code : List Instr) : Prop := ∃ pushed, code = pushed ++ rest ∧ ∀ i ∈ pushed, isTop i = false

theorem CodeC.refl (rest : List Instr) : CodeC rest rest := ⟨[], rfl, by simp⟩

theorem CodeC.cons {rest l : List Instr} {i : Instr} (hi : isTop i = false) (h : CodeC rest l) : CodeC rest (i :: l) := by
  obtain ⟨p, rfl, hp⟩ := h
  exact ⟨i :: p, rfl, by simpa [hi] using hp⟩

theorem CodeC.append {rest l d : List Instr} (hd : ∀ i ∈ d, isTop i = false) (h : CodeC rest l) : CodeC rest (d ++ l) := by
  obtain ⟨p, rfl, hp⟩ := h
  refine ⟨d ++ p, by simp, ?_⟩
  intro t ht; simp at ht; rcases ht with ht | ht; exact hd t ht; exact hp t ht

theorem bodyOf_clean (P : Prog) (X : Cfg) (h : HRef) (s : Sig) : ∀ i ∈ bodyOf P X h s, isTop i = false := by
  intro i hi
  cases h <;> simp [bodyOf] at hi
  case user hid => rcases hi with ⟨a, -, rfl⟩ | rfl <;> rfl
  all_goals (subst hi; rfl)

macro "codeC_tac" : tactic => `(tactic| (
  (try simp only [push, Cfg.trace, enqueue_eq, emit_eq, excEnq, List.cons_append, List.nil_append]) <;>
  repeat' first
    | exact CodeC.refl _
    | apply CodeC.cons (by simp [isTop])
    | apply CodeC.append (bodyOf_clean _ _ _ _)))

/-- the new trace events are `d`, none of them an exit request -/
def NoExit (old new : List Tr) : Prop := ∃ d, new = d ++ old ∧ Tr.exit ∉ d

theorem NoExit.refl (old : List Tr) : NoExit old old := ⟨[], rfl, by simp⟩

theorem NoExit.cons {old l : List Tr} {t : Tr} (ht : t ≠ .exit) (h : NoExit old l) : NoExit old (t :: l) := by
  obtain ⟨d, rfl, hd⟩ := h
  exact ⟨t :: d, rfl, by simp [hd, Ne.symm ht]⟩

theorem NoExit.append {old l d : List Tr} (hd : ∀ t ∈ d, softT t = true) (h : NoExit old l) : NoExit old (d ++ l) := by
  obtain ⟨d', rfl, hd'⟩ := h
  refine ⟨d ++ d', by simp, ?_⟩
  intro hm; rcases List.mem_append.mp hm with hm | hm
  · exact soft_no_exit hd hm
  · exact hd' hm

theorem enqT_ne_exit (L : LoopSt) (s : Sig) : enqT L s ≠ .exit := by
  unfold enqT; split <;> simp

macro "noExit_tac" : tactic => `(tactic| (
  (try simp only [push, Cfg.trace, enqueue_eq, emit_eq, excEnq]) <;>
  repeat' first
    | exact NoExit.refl _
    | apply NoExit.append (softT_emitTr _ _ _)
    | apply NoExit.append (by assumption)
    | apply NoExit.cons (enqT_ne_exit _ _)
    | apply NoExit.cons (by simp)))

theorem raise_exit_error_no_catch {c c' : Cfg} {o : Outcome} (h : c.raise .exit = .error (o, c')) :
    ∀ i ∈ c.code, isCatchExit i = false := by
  rcases catchExit_split c.code with hn | ⟨pre, rest, h1, h2⟩
  · exact hn
  · rw [raise_eq, h1, unwind_exit_catch h2] at h; cases h

theorem not_afterStart_of_mem {c : Cfg} (h : Instr.apprun ∈ c.code) : ¬ AfterStart c := by
  intro hA
  have := List.all_eq_true.mp hA _ h
  simp [isApprun] at this


theorem mem_newTr {c c' : Cfg} {d : List Tr} (h : c'.tr = d ++ c.tr) {t : Tr} : t ∈ newTr c c' ↔ t ∈ d := by
  rw [newTr_eq h]

/-- What a transition does to the bottom of the pending code. `B`, `B'` are bodies (no `apprun`, `catchExit`, `quitCb`). -/
inductive ShapeStep (P : Prog) (c c' : Cfg) : Prop
  /-- a step of a body instruction that is not a successful exit request: the tail stays -/
  | body {B B' T : List Instr} (hT : OpenTail T) (hc : c.code = B ++ T) (hB : ∀ i ∈ B, isTop i = false) (hne : B ≠ [])
      (hcode : c'.code = B' ++ T) (hB' : ∀ i ∈ B', isTop i = false) (hx : Tr.exit ∉ newTr c c') : ShapeStep P c c'
  /-- a successful exit request (`run()` has been entered): everything up to `catchExit` is dropped -/
  | exit {B : List Instr} (hc : c.code = B ++ [.mainCheck 0, .catchExit, .quitCb]) (hB : ∀ i ∈ B, isTop i = false) (hne : B ≠ [])
      (hcode : c'.code = [.quitCb]) (hx : Tr.exit ∈ newTr c c') : ShapeStep P c c'
  | start (hc : c.code = [.apprun]) (hcode : c'.code = [.mainCheck 0, .catchExit, .quitCb]) (htr : c'.tr = c.tr) : ShapeStep P c c'
  | loopOn (hc : c.code = [.mainCheck 0, .catchExit, .quitCb]) (hr : c.L.runLoop = true)
      (hcode : c'.code = [.loopCheck, .mainCheck 0, .catchExit, .quitCb]) (htr : c'.tr = c.tr) : ShapeStep P c c'
  | loopOff (hc : c.code = [.mainCheck 0, .catchExit, .quitCb]) (hr : c.L.runLoop = false)
      (hcode : c'.code = [.restoreRun, .catchExit, .quitCb]) (htr : c'.tr = .loopReturn 0 :: c.tr) : ShapeStep P c c'
  | restored (hc : c.code = [.restoreRun, .catchExit, .quitCb]) (hcode : c'.code = [.catchExit, .quitCb]) (htr : c'.tr = c.tr) :
      ShapeStep P c c'
  | leave (hc : c.code = [.catchExit, .quitCb]) (hcode : c'.code = [.quitCb]) (htr : c'.tr = c.tr) : ShapeStep P c c'
  | quit (hc : c.code = [.quitCb]) (hcode : c'.code = []) (hx : Tr.exit ∉ newTr c c')
      (hlog : ∃ lg, (∀ e ∈ lg, softE e = true) ∧ c'.log = lg ++ c.L.quitCb.toList.map Ev.quitcb ++ c.log) : ShapeStep P c c'
  /-- a delivery; the "step" of a configuration without code -/
  | same (hcode : c'.code = c.code) (hx : Tr.exit ∉ newTr c c') : ShapeStep P c c'
  /-- the run dies -/
  | dead (hs : ∃ o, step P c = .error (o, c')) (hcode : c'.code = []) (hx : Tr.exit ∈ newTr c c' → ¬ AfterStart c) : ShapeStep P c c'

theorem ShapeStep.shape {c c' : Cfg} (h : ShapeStep P c c') (hS : Shape c) : Shape c' := by
  cases h
  case body B B' T hT hc hB hne hcode hB' hx => exact .inr (.inr (.inr (.inr ⟨B', T, hcode, hB', hT⟩)))
  case exit hc hB hne hcode hx => exact .inr (.inl hcode)
  case start hc hcode htr => exact .inr (.inr (.inr (.inr ⟨[], _, hcode, by simp, .inr rfl⟩)))
  case loopOn hc hr hcode htr => exact .inr (.inr (.inr (.inr ⟨[.loopCheck], _, hcode, by simp [isTop], .inr rfl⟩)))
  case loopOff hc hr hcode htr => exact .inr (.inr (.inr (.inl hcode)))
  case restored hc hcode htr => exact .inr (.inr (.inl hcode))
  case leave hc hcode htr => exact .inr (.inl hcode)
  case quit hc hcode hx hlog => exact .inl hcode
  case same hcode hx => unfold Shape; rw [hcode]; exact hS
  case dead hs hcode hx => exact .inl hcode

theorem open_afterStart {c : Cfg} {B : List Instr} (hc : c.code = B ++ [.mainCheck 0, .catchExit, .quitCb])
    (hB : ∀ i ∈ B, isTop i = false) : AfterStart c := by
  rw [AfterStart, hc, List.all_eq_true]
  intro i hi
  rcases List.mem_append.mp hi with hi | hi
  · have := hB i hi; cases i <;> simp_all [isTop, isApprun]
  · simp at hi; rcases hi with rfl | rfl | rfl <;> rfl

/-- a soft step out of a body instruction -/
theorem shape_other {P : Prog} {rest B T : List Instr} {ins : Instr} {c m c' : Cfg} (hc : c.code = ins :: rest)
    (hrest : rest = B ++ T) (hB : ∀ i ∈ B, isTop i = false) (hT : OpenTail T) (hins : isTop ins = false)
    (hcl : closedB c.code = true) (hm : Soft rest c m) (hf : OtherFin m c') : ShapeStep P c c' := by
  obtain ⟨d, hd, hds⟩ := hm.tr
  obtain ⟨⟨B', hB', hmcode⟩, hmcl⟩ := soft_body hc hrest hB hT.tail hcl hm
  have hc' : c.code = (ins :: B) ++ T := by rw [hc, hrest]; rfl
  have hB0 : ∀ i ∈ ins :: B, isTop i = false := by
    intro i hi; rcases List.mem_cons.mp hi with rfl | hi; exact hins; exact hB i hi
  cases hf
  case same => exact .body hT hc' hB0 (by simp) hmcode hB' (by rw [mem_newTr hd]; exact soft_no_exit hds)
  case exit pre rest' hcode' hpre =>
    rw [hmcode] at hcode'
    have := shape_exit hB' hT.tail hcode' hpre
    subst this
    rcases hT with rfl | rfl
    · exfalso
      have : Instr.catchExit ∈ B' ++ [Instr.apprun] := by rw [hcode']; simp
      simp at this
      have := hB' _ this; simp [isTop] at this
    · exact .exit hc' hB0 (by simp) rfl (by rw [mem_newTr (d := .exit :: d) (by simp [hd])]; simp)
  case err pre x rest' src hcode' hpre hx =>
    rw [hmcode] at hcode' hmcl
    obtain ⟨B'', hB'', hafter⟩ := shape_err hB' hT.tail hmcl hcode' hx
    refine .body hT hc' hB0 (by simp) hafter hB'' ?_
    rw [mem_newTr (d := enqT m.L (excSig m.nextSid src) :: d) (by simp [excEnq, hd])]
    intro hm'
    rcases List.mem_cons.mp hm' with h | h
    · exact enqT_ne_exit _ _ h.symm
    · exact soft_no_exit hds h

/-- a core step out of a body instruction -/
theorem shape_core_body {P : Prog} {rest B T : List Instr} {ins : Instr} {c c' : Cfg} (hc : c.code = ins :: rest)
    (hrest : rest = B ++ T) (hB : ∀ i ∈ B, isTop i = false) (hT : OpenTail T) (hcl : closedB c.code = true)
    (hins : isTop ins = false) (h : CoreN P { c with code := rest } ins c') : ShapeStep P c c' := by
  have hclr : closedB (B ++ T) = true := hrest ▸ closedB_tail (hc ▸ hcl)
  have hc' : c.code = (ins :: B) ++ T := by rw [hc, hrest]; rfl
  have hB0 : ∀ i ∈ ins :: B, isTop i = false := by
    intro i hi; rcases List.mem_cons.mp hi with rfl | hi; exact hins; exact hB i hi
  have key : ∀ {c'' : Cfg}, CodeC rest c''.code → NoExit c.tr c''.tr → ShapeStep P c c'' := by
    intro c'' hcode htr
    obtain ⟨pushed, hcode, hp⟩ := hcode
    obtain ⟨d, htr, hd⟩ := htr
    refine .body (B' := pushed ++ B) hT hc' hB0 (by simp) (by rw [hcode, hrest, List.append_assoc]) ?_
      (by rw [mem_newTr htr]; exact hd)
    intro i hi
    rcases List.mem_append.mp hi with hi | hi
    · exact hp i hi
    · exact hB i hi
  cases h
  case apprun => cases hins
  case catchExit => cases hins
  case quitCbSome => cases hins
  case quitCbNone => cases hins
  case popErr pre x rest' src h hcode hpre hx =>
    simp only at hcode
    rw [hrest] at hcode
    obtain ⟨B', hB', hafter⟩ := shape_err hB hT.tail hclr hcode hx
    refine .body hT hc' hB0 (by simp) hafter hB' ?_
    rw [mem_newTr (d := [enqT c.L (excSig c.nextSid src)]) (by simp [excEnq])]
    simp [Ne.symm (enqT_ne_exit _ _)]
  case popExit q pre rest' h h2 hcode hpre =>
    simp only at hcode
    rw [hrest] at hcode
    have := shape_exit hB hT.tail hcode hpre
    subst this
    rcases hT with rfl | rfl
    · exfalso
      have : Instr.catchExit ∈ B ++ [Instr.apprun] := by rw [hcode]; simp
      simp at this
      have := hB _ this; simp [isTop] at this
    · exact .exit hc' hB0 (by simp) rfl
        (by rw [mem_newTr (d := [.exit, .closeLevel q]) (by simp)]; simp)
  all_goals
    refine key ?_ ?_
    · codeC_tac
    · noExit_tac

/-- the cases of a configuration with pending code that has the shape -/
theorem shape_cases {c : Cfg} {ins : Instr} {rest : List Instr} (hS : Shape c) (hc : c.code = ins :: rest) :
    (ins = .quitCb ∧ rest = []) ∨ (ins = .catchExit ∧ rest = [.quitCb]) ∨ (ins = .restoreRun ∧ rest = [.catchExit, .quitCb]) ∨
    (ins = .apprun ∧ rest = []) ∨ (ins = .mainCheck 0 ∧ rest = [.catchExit, .quitCb]) ∨
    (isTop ins = false ∧ ∃ B T, rest = B ++ T ∧ (∀ i ∈ B, isTop i = false) ∧ OpenTail T) := by
  rcases hS with h | h | h | h | ⟨body, T, h, hB, hT⟩
  · rw [hc] at h; cases h
  · rw [hc] at h; cases h; exact .inl ⟨rfl, rfl⟩
  · rw [hc] at h; cases h; exact .inr (.inl ⟨rfl, rfl⟩)
  · rw [hc] at h; cases h; exact .inr (.inr (.inl ⟨rfl, rfl⟩))
  · rw [hc] at h
    cases body with
    | nil =>
      simp at h
      rcases hT with rfl | rfl
      · cases h; exact .inr (.inr (.inr (.inl ⟨rfl, rfl⟩)))
      · cases h; exact .inr (.inr (.inr (.inr (.inl ⟨rfl, rfl⟩))))
    | cons b B =>
      simp at h
      obtain ⟨rfl, rfl⟩ := h
      exact .inr (.inr (.inr (.inr (.inr ⟨hB _ (by simp), B, T, rfl, fun i hi => hB i (by simp [hi]), hT⟩))))

/-- a core step of one of the bottom instructions themselves -/
theorem shape_core_top {P : Prog} {rest : List Instr} {ins : Instr} {c c' : Cfg} (hc : c.code = ins :: rest)
    (hT : (ins = .quitCb ∧ rest = []) ∨ (ins = .catchExit ∧ rest = [.quitCb]) ∨ (ins = .restoreRun ∧ rest = [.catchExit, .quitCb]) ∨
      (ins = .apprun ∧ rest = []) ∨ (ins = .mainCheck 0 ∧ rest = [.catchExit, .quitCb]))
    (h : CoreN P { c with code := rest } ins c') : ShapeStep P c c' := by
  rcases hT with ⟨rfl, rfl⟩ | ⟨rfl, rfl⟩ | ⟨rfl, rfl⟩ | ⟨rfl, rfl⟩ | ⟨rfl, rfl⟩
  · cases h
    case quitCbSome d hd =>
      have hd' : c.L.quitCb = some d := hd
      refine .quit hc (by simp [emit_eq]) ?_ ⟨emitLog P ({ c with code := [] } : Cfg) (.quitcb d), softE_emitLog _ _ _, by simp [emit_eq, hd']⟩
      rw [mem_newTr (d := emitTr P ({ c with code := [] } : Cfg) (.quitcb d)) (by simp [emit_eq])]
      exact soft_no_exit (softT_emitTr _ _ _)
    case quitCbNone hd =>
      have hd' : c.L.quitCb = none := hd
      exact .quit hc rfl (by simp [Simpleline.newTr]) ⟨[], by simp, by simp [hd']⟩
  · cases h; exact .leave hc rfl rfl
  · cases h
    case restoreFQ hf => exact .restored hc rfl rfl
    case restore hf => exact .restored hc rfl rfl
  · cases h; exact .start hc (by simp [push]) (by simp [push])
  · cases h
    case mainGo hr => exact .loopOn hc hr (by simp [push]) (by simp [push])
    case mainExit hr => exact .loopOff hc hr (by simp [push, Cfg.trace]) (by simp [push, Cfg.trace])

theorem otherI_body {ins : Instr} (h : otherI ins = true) :
    ins ≠ .quitCb ∧ ins ≠ .catchExit ∧ ins ≠ .restoreRun ∧ ins ≠ .apprun ∧ ins ≠ .mainCheck 0 := by
  cases ins <;> first | (cases h; done) | (refine ⟨?_, ?_, ?_, ?_, ?_⟩ <;> simp)

/-- an exit request that nothing catches: `run()` has not been entered -/
theorem exit_uncaught_pre {c X c' : Cfg} {o : Outcome} {ins : Instr} {B T : List Instr} (hc : c.code = ins :: (B ++ T))
    (hT : OpenTail T) (hX : ∃ B', X.code = B' ++ T) (h : X.raise .exit = .error (o, c')) : ¬ AfterStart c := by
  obtain ⟨B', hX⟩ := hX
  have hn := raise_exit_error_no_catch h
  rw [hX] at hn
  have := shape_exit_none hT.tail hn
  subst this
  exact not_afterStart_of_mem (by rw [hc]; simp)

/-- every transition out of a configuration with the shape is one of the `ShapeStep`s -/
theorem shape_trans {P : Prog} {c c' : Cfg} (hS : Shape c) (hcl : closedB c.code = true) (ht : Trans P c c') : ShapeStep P c c' := by
  cases ht with
  | step hs =>
    obtain ⟨ins, rest, hc, ⟨ho, m, hm, hf⟩ | ⟨ho, hcore⟩⟩ := step_ok_casesN hs
    · obtain ⟨g1, g2, g3, g4, g5⟩ := otherI_body ho
      rcases shape_cases hS hc with ⟨h, -⟩ | ⟨h, -⟩ | ⟨h, -⟩ | ⟨h, -⟩ | ⟨h, -⟩ | ⟨hins, B, T, hrest, hB, hT⟩
      · exact absurd h g1
      · exact absurd h g2
      · exact absurd h g3
      · exact absurd h g4
      · exact absurd h g5
      · exact shape_other hc hrest hB hT hins hcl hm hf
    · rcases shape_cases hS hc with h | h | h | h | h | ⟨hins, B, T, hrest, hB, hT⟩
      · exact shape_core_top hc (.inl h) hcore
      · exact shape_core_top hc (.inr (.inl h)) hcore
      · exact shape_core_top hc (.inr (.inr (.inl h))) hcore
      · exact shape_core_top hc (.inr (.inr (.inr (.inl h)))) hcore
      · exact shape_core_top hc (.inr (.inr (.inr (.inr h)))) hcore
      · exact shape_core_body hc hrest hB hT hcl hins hcore
  | deliver hd =>
    obtain ⟨r, rs, hr, rfl⟩ := deliver_eq hd
    refine .same rfl ?_
    rw [mem_newTr (d := [enqT c.L (lineSig c r)]) rfl]
    simp [Ne.symm (enqT_ne_exit _ _)]
  | halt hs =>
    rcases step_error_cases hs with ⟨-, -, rfl⟩ | ⟨ins, rest, hc, ⟨ho, m, hm, ⟨-, rfl⟩ | ⟨k, -, hk⟩⟩ | ⟨ho, hcore⟩⟩
    · exact .same rfl (by simp [Simpleline.newTr])
    · obtain ⟨g1, g2, g3, g4, g5⟩ := otherI_body ho
      rcases shape_cases hS hc with ⟨h, -⟩ | ⟨h, -⟩ | ⟨h, -⟩ | ⟨h, -⟩ | ⟨h, -⟩ | ⟨hins, B, T, hrest, hB, hT⟩
      · exact absurd h g1
      · exact absurd h g2
      · exact absurd h g3
      · exact absurd h g4
      · exact absurd h g5
      · exact shape_other hc hrest hB hT hins hcl hm .same
    · refine .dead ⟨_, hs⟩ (by rw [(raise_error hk).1]) (fun hx => ?_)
      obtain ⟨g1, g2, g3, g4, g5⟩ := otherI_body ho
      rcases shape_cases hS hc with ⟨h, -⟩ | ⟨h, -⟩ | ⟨h, -⟩ | ⟨h, -⟩ | ⟨h, -⟩ | ⟨hins, B, T, hrest, hB, hT⟩
      · exact absurd h g1
      · exact absurd h g2
      · exact absurd h g3
      · exact absurd h g4
      · exact absurd h g5
      · obtain ⟨⟨B', -, hmcode⟩, -⟩ := soft_body hc hrest hB hT.tail hcl hm
        obtain ⟨d, hd, hds⟩ := hm.tr
        cases k
        · exact exit_uncaught_pre (hrest ▸ hc) hT ⟨B', hmcode⟩ hk
        · rw [(raise_error hk).1, mem_newTr (d := d) (by simp [preRaise, hd])] at hx
          exact absurd hx (soft_no_exit hds)
        · rw [(raise_error hk).1, mem_newTr (d := d) (by simp [preRaise, hd])] at hx
          exact absurd hx (soft_no_exit hds)
    · cases hcore
      case refuse hne =>
        rcases shape_cases hS hc with ⟨h, -⟩ | ⟨h, -⟩ | ⟨h, -⟩ | ⟨-, h⟩ | ⟨h, -⟩ | ⟨hins, -⟩
        · cases h
        · cases h
        · cases h
        · subst h; exact .dead ⟨_, hs⟩ rfl (fun hx => by simp [Simpleline.newTr] at hx)
        · cases h
        · cases hins
      case getBlocked h =>
        rcases shape_cases hS hc with ⟨h', -⟩ | ⟨h', -⟩ | ⟨h', -⟩ | ⟨h', -⟩ | ⟨h', -⟩ | ⟨hins, B, T, hrest, hB, hT⟩
        · cases h'
        · cases h'
        · cases h'
        · cases h'
        · cases h'
        · have hc' : c.code = (Instr.getDispatch :: B) ++ T := by rw [hc, hrest]; rfl
          have hB0 : ∀ i ∈ Instr.getDispatch :: B, isTop i = false := by
            intro i hi; rcases List.mem_cons.mp hi with rfl | hi; rfl; exact hB i hi
          obtain ⟨-, h | h, -, -⟩ := take_error h
          · subst h; exact .body hT hc' hB0 (by simp) hrest hB (by simp [Simpleline.newTr])
          · obtain ⟨r, rs, hr, rfl⟩ := deliver_eq h
            refine .body hT hc' hB0 (by simp) hrest hB ?_
            rw [mem_newTr (d := [enqT c.L (lineSig { c with code := rest } r)]) rfl]
            simp [Ne.symm (enqT_ne_exit _ _)]
      case waitBlocked cls t hrl h =>
        rcases shape_cases hS hc with ⟨h', -⟩ | ⟨h', -⟩ | ⟨h', -⟩ | ⟨h', -⟩ | ⟨h', -⟩ | ⟨hins, B, T, hrest, hB, hT⟩
        · cases h'
        · cases h'
        · cases h'
        · cases h'
        · cases h'
        · have hc' : c.code = (Instr.waitStep cls t :: B) ++ T := by rw [hc, hrest]; rfl
          have hB0 : ∀ i ∈ Instr.waitStep cls t :: B, isTop i = false := by
            intro i hi; rcases List.mem_cons.mp hi with rfl | hi; rfl; exact hB i hi
          obtain ⟨-, h | h, -, -⟩ := take_error h
          · subst h; exact .body hT hc' hB0 (by simp) hrest hB (by simp [Simpleline.newTr])
          · obtain ⟨r, rs, hr, rfl⟩ := deliver_eq h
            refine .body hT hc' hB0 (by simp) hrest hB ?_
            rw [mem_newTr (d := [enqT c.L (lineSig { c with code := rest } r)]) rfl]
            simp [Ne.symm (enqT_ne_exit _ _)]
      case kill =>
        refine .dead ⟨_, hs⟩ rfl (fun hx => ?_)
        rw [mem_newTr (d := [.kill]) (by simp [Cfg.trace, Cfg.write])] at hx
        simp at hx
      case popErr h hr =>
        refine .dead ⟨_, hs⟩ (by rw [(raise_error hr).1]) (fun hx => ?_)
        rw [(raise_error hr).1, mem_newTr (d := []) (by simp [preRaise])] at hx
        simp at hx
      case popExit q h h2 hr =>
        refine .dead ⟨_, hs⟩ (by rw [(raise_error hr).1]) (fun _ => ?_)
        rcases shape_cases hS hc with ⟨h', -⟩ | ⟨h', -⟩ | ⟨h', -⟩ | ⟨h', -⟩ | ⟨h', -⟩ | ⟨hins, B, T, hrest, hB, hT⟩
        · cases h'
        · cases h'
        · cases h'
        · cases h'
        · cases h'
        · exact exit_uncaught_pre (hrest ▸ hc) hT ⟨B, hrest⟩ hr

theorem Shape.init (init : List Act) (handlers : List (Cls × HRef × Option Nat)) (quitCb : Option Nat) (stdin : List Str) :
    Shape (initCfg init handlers quitCb stdin) :=
  .inr (.inr (.inr (.inr ⟨init.map .act, [.apprun], rfl, by simp [isTop], .inl rfl⟩)))

theorem shape_reach {P : Prog} {c0 c : Cfg} (h0 : Started c0) (hr : Reach P c0 c) : Shape c := by
  refine reach_induction ?_ ?_ hr
  · obtain ⟨i, h, q, s, rfl⟩ := h0; exact .init i h q s
  · intro c c' hr hI ht
    exact (shape_trans hI (codeInv_reach h0 hr).closed ht).shape hI

/-- the classification of the transitions out of a reachable configuration -/
theorem shapeStep_reach {P : Prog} {c0 c c' : Cfg} (h0 : Started c0) (hr : Reach P c0 c) (ht : Trans P c c') : ShapeStep P c c' :=
  shape_trans (shape_reach h0 hr) (codeInv_reach h0 hr).closed ht

end Simpleline.Dispatch
