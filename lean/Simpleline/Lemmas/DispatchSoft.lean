import Simpleline.Lemmas.DispatchFrame

namespace Simpleline.Dispatch
open Simpleline

/-- instructions that scheduler / input / user-action code may push -/
def softI : Instr → Bool
  | .apprun | .catchExit | .quitCb | .mainCheck _ | .restoreRun | .loopCheck | .getDispatch
  | .processSignal _ | .dispatch _ _ | .catchHandler | .kill _ | .callH _ _ _ | .hret _
  | .waitStep _ _ | .waitCheck _ _ | .procIter (some _) | .popLevel => false
  | _ => true

/-- the instructions outside the loop core: scheduler, input pipeline, user actions except force-quit -/
def otherI : Instr → Bool
  | .act .forceQuit => false
  | .newLoop _ | .closeLoop | .procWait _ | .procIter none => false
  | i => softI i

def softT : Tr → Bool
  | .enq _ _ | .dropped _ | .stackOp _ _ | .show _ | .refresh _ | .modalBegin _ | .modalEnd _ | .procBegin => true
  | _ => false

def softE : Ev → Bool
  | .cb _ _ _ _ | .read _ | .note _ => true
  | _ => false

/-- `new` extends `old` at the front by elements satisfying `p` only -/
def Ext {α} (p : α → Bool) (old new : List α) : Prop := ∃ d, new = d ++ old ∧ ∀ t ∈ d, p t = true

@[simp] theorem Ext.refl {α} (p : α → Bool) (old : List α) : Ext p old old := ⟨[], rfl, by simp⟩

theorem Ext.cons {α} {p : α → Bool} {old l : List α} {t : α} (ht : p t = true) (h : Ext p old l) : Ext p old (t :: l) := by
  obtain ⟨d, rfl, hd⟩ := h
  exact ⟨t :: d, rfl, by simpa [ht] using hd⟩

theorem Ext.append {α} {p : α → Bool} {old l d : List α} (hd : ∀ t ∈ d, p t = true) (h : Ext p old l) : Ext p old (d ++ l) := by
  obtain ⟨d', rfl, hd'⟩ := h
  refine ⟨d ++ d', by simp, ?_⟩
  intro t ht; simp at ht; rcases ht with ht | ht; exact hd t ht; exact hd' t ht

theorem Ext.trans {α} {p : α → Bool} {a b c : List α} (h1 : Ext p a b) (h2 : Ext p b c) : Ext p a c := by
  obtain ⟨d, rfl, hd⟩ := h1
  exact h2.elim fun d' ⟨e, hd'⟩ => e ▸ (Ext.append hd' ⟨d, rfl, hd⟩)

@[simp] theorem softT_enqT (L : LoopSt) (s : Sig) : softT (enqT L s) = true := by
  unfold enqT; split <;> rfl


theorem softT_emitTr (P : Prog) (c : Cfg) (e : Ev) : ∀ t ∈ emitTr P c e, softT t = true := by
  rcases emitTr_cases P c e with h | ⟨s, _, h⟩ <;> simp [h]

theorem softE_emitLog (P : Prog) (c : Cfg) (e : Ev) : ∀ t ∈ emitLog P c e, softE t = true := by
  rcases emitLog_cases P c e with h | ⟨s, h⟩ <;> simp [h, softE]

def isCatchPS : Instr → Bool
  | .catchPS => true
  | _ => false

def notCatchPS : Instr → Bool
  | .catchPS => false
  | _ => true

def isEndPI : Instr → Bool
  | .endPI => true
  | _ => false

/-- instructions that open a block closed by a later marker: `identCheck … catchPS`, `catchPI … endPI` -/
def blockI : Instr → Bool
  | .identCheck _ => true
  | .catchPI _ => true
  | _ => false

/-- every `identCheck` has a `catchPS` behind it and every `catchPI` an `endPI` -/
def closedB : List Instr → Bool
  | [] => true
  | .identCheck _ :: l => l.any isCatchPS && closedB l
  | .catchPI _ :: l => l.any isEndPI && closedB l
  | _ :: l => closedB l

theorem closedB_cons_plain {i : Instr} (hi : blockI i = false) (l : List Instr) : closedB (i :: l) = closedB l := by
  cases i <;> first | rfl | cases hi

theorem closedB_append_plain {d : List Instr} (hd : ∀ i ∈ d, blockI i = false) (l : List Instr) :
    closedB (d ++ l) = closedB l := by
  induction d with
  | nil => rfl
  | cons a d ih =>
    rw [List.cons_append, closedB_cons_plain (hd a (by simp)), ih (fun i hi => hd i (by simp [hi]))]

theorem closedB_tail {i : Instr} {l : List Instr} (h : closedB (i :: l) = true) : closedB l = true := by
  cases i <;> simp_all [closedB]

theorem closedB_suffix {l l' : List Instr} (hs : l' <:+ l) (h : closedB l = true) : closedB l' = true := by
  induction l with
  | nil => simp_all
  | cons a l ih =>
    rcases List.suffix_cons_iff.mp hs with rfl | hs
    · exact h
    · exact ih hs (closedB_tail h)

theorem closedB_append {a b : List Instr} (ha : closedB a = true) (hb : closedB b = true) : closedB (a ++ b) = true := by
  induction a with
  | nil => exact hb
  | cons i a ih =>
    have := ih (closedB_tail ha)
    cases i <;> simp_all [closedB]

/-- `code` is what remains of `rest` (all of it, or — `identCheck` giving up — from its first `catchPS` on) with
soft, closed blocks of instructions pushed in front; `full` is the code before the step -/
def CodeExt (full rest code : List Instr) : Prop :=
  ∃ pushed suf, code = pushed ++ suf ∧
    (suf = rest ∨ ∃ top, full = .identCheck top :: rest ∧ suf = rest.dropWhile notCatchPS) ∧
    (∀ i ∈ pushed, softI i = true) ∧ closedB pushed = true

@[simp] theorem CodeExt.refl (full rest : List Instr) : CodeExt full rest rest := ⟨[], rest, rfl, .inl rfl, by simp, rfl⟩

theorem CodeExt.dropPS {full : List Instr} (rest : List Instr) (f : Instr → Bool) (hf : ∀ i, f i = notCatchPS i) {top : Entry}
    (hfull : full = .identCheck top :: rest) : CodeExt full rest (rest.dropWhile f) := by
  have : f = notCatchPS := funext hf
  subst this
  exact ⟨[], _, rfl, .inr ⟨top, hfull, rfl⟩, by simp, rfl⟩

theorem CodeExt.cons {full rest l : List Instr} {i : Instr} (hi : softI i = true ∧ blockI i = false) (h : CodeExt full rest l) :
    CodeExt full rest (i :: l) := by
  obtain ⟨p, s, rfl, hs, hp, hc⟩ := h
  exact ⟨i :: p, s, rfl, hs, by simpa [hi.1] using hp, by rw [closedB_cons_plain hi.2]; exact hc⟩

theorem CodeExt.append {full rest l d : List Instr} (hd : ∀ i ∈ d, softI i = true ∧ blockI i = false) (h : CodeExt full rest l) :
    CodeExt full rest (d ++ l) := by
  obtain ⟨p, s, rfl, hs, hp, hc⟩ := h
  refine ⟨d ++ p, s, by simp, hs, ?_, ?_⟩
  · intro t ht; simp at ht; rcases ht with ht | ht; exact (hd t ht).1; exact hp t ht
  · rw [closedB_append_plain (fun i hi => (hd i hi).2)]; exact hc

theorem CodeExt.consPS {full rest l : List Instr} (top : Entry) (h : CodeExt full rest l) :
    CodeExt full rest (.identCheck top :: .catchPS :: l) := by
  obtain ⟨p, s, rfl, hs, hp, hc⟩ := h
  refine ⟨.identCheck top :: .catchPS :: p, s, rfl, hs, ?_, ?_⟩
  · intro t ht; simp at ht; rcases ht with rfl | rfl | ht; rfl; rfl; exact hp t ht
  · simpa [closedB, isCatchPS] using hc

theorem CodeExt.consPI {full rest l : List Instr} (scr : Nat) (h : CodeExt full rest l) :
    CodeExt full rest (.catchPI scr :: .countAndAct scr :: .endPI :: l) := by
  obtain ⟨p, s, rfl, hs, hp, hc⟩ := h
  refine ⟨.catchPI scr :: .countAndAct scr :: .endPI :: p, s, rfl, hs, ?_, ?_⟩
  · intro t ht; simp at ht; rcases ht with rfl | rfl | rfl | ht; rfl; rfl; rfl; exact hp t ht
  · simpa [closedB, isEndPI] using hc

theorem CodeExt.suffix_rest {full rest l : List Instr} (h : CodeExt full rest l) : ∃ pushed suf, l = pushed ++ suf ∧ suf <:+ rest ∧
    (∀ i ∈ pushed, softI i = true) ∧ closedB pushed = true := by
  obtain ⟨p, s, rfl, hs, hp, hc⟩ := h
  refine ⟨p, s, rfl, ?_, hp, hc⟩
  rcases hs with rfl | ⟨_, _, rfl⟩
  · exact List.suffix_refl _
  · exact List.dropWhile_suffix _

/-- handler registrations are only appended, and only by new input handlers -/
def HExt (old new : List (Cls × HRef × Option Nat)) : Prop :=
  ∃ more, new = old ++ more ∧ ∀ x ∈ more, ∃ n, x = (Cls.inputReady, HRef.ih n, none)

@[simp] theorem HExt.refl (old : List (Cls × HRef × Option Nat)) : HExt old old := ⟨[], by simp, by simp⟩

theorem HExt.snoc {old new : List (Cls × HRef × Option Nat)} (n : Nat) (h : HExt old new) :
    HExt old (new ++ [(Cls.inputReady, HRef.ih n, none)]) := by
  obtain ⟨m, rfl, hm⟩ := h
  refine ⟨m ++ [(Cls.inputReady, HRef.ih n, none)], by simp, ?_⟩
  intro x hx; simp at hx; rcases hx with hx | hx; exact hm x hx; exact ⟨n, hx⟩

/-- `m` differs from `c` (whose head instruction has been removed, leaving `rest`) only "softly" -/
structure Soft (rest : List Instr) (c m : Cfg) : Prop where
  code : CodeExt c.code rest m.code
  levels : m.L.levels = c.L.levels
  active : m.L.active = c.L.active
  runLoop : m.L.runLoop = c.L.runLoop
  forceQuit : m.L.forceQuit = c.L.forceQuit
  tickets : m.L.tickets = c.L.tickets
  tcounter : m.L.tcounter = c.L.tcounter
  quitCb : m.L.quitCb = c.L.quitCb
  handlers : HExt c.L.handlers m.L.handlers
  tr : Ext softT c.tr m.tr
  log : Ext softE c.log m.log


theorem Soft.base (rest : List Instr) (c : Cfg) : Soft rest c { c with code := rest } := by
  constructor <;> simp


theorem Soft.setA {rest : List Instr} {c m : Cfg} (h : Soft rest c m) (A' : AppSt) : Soft rest c { m with A := A' } := by
  obtain ⟨a, b, c, d, e, f, g, h, i, j, k⟩ := h
  exact ⟨a, b, c, d, e, f, g, h, i, j, k⟩

theorem Soft.setQ {rest : List Instr} {c m : Cfg} (h : Soft rest c m) (Q : List EQueue) :
    Soft rest c { m with L := { m.L with queues := Q } } := by
  obtain ⟨a, b, c, d, e, f, g, h, i, j, k⟩ := h
  exact ⟨a, b, c, d, e, f, g, h, i, j, k⟩

theorem Soft.trace {rest : List Instr} {c m : Cfg} (h : Soft rest c m) {t : Tr} (ht : softT t = true) :
    Soft rest c (m.trace t) := by
  obtain ⟨a, b, c, d, e, f, g, h, i, j, k⟩ := h
  exact ⟨a, b, c, d, e, f, g, h, i, j.cons ht, k⟩

theorem Soft.enqueue {rest : List Instr} {c m : Cfg} (h : Soft rest c m) (s : Sig) : Soft rest c (m.enqueue s) := by
  rw [enqueue_eq]
  obtain ⟨a, b, c, d, e, f, g, h, i, j, k⟩ := h
  exact ⟨a, b, c, d, e, f, g, h, i, j.cons (by simp), k⟩

theorem Soft.nextSid {rest : List Instr} {c m : Cfg} (h : Soft rest c m) (n : Nat) : Soft rest c { m with nextSid := n } := by
  obtain ⟨a, b, c, d, e, f, g, h, i, j, k⟩ := h
  exact ⟨a, b, c, d, e, f, g, h, i, j, k⟩

theorem Soft.redraw {rest : List Instr} {c m : Cfg} (h : Soft rest c m) : Soft rest c m.redraw :=
  (h.nextSid _).enqueue _

theorem Soft.write {rest : List Instr} {c m : Cfg} (h : Soft rest c m) (t : Str) : Soft rest c (m.write t) := h.setA _

theorem Soft.pushI {rest : List Instr} {c m : Cfg} (h : Soft rest c m) {is : List Instr}
    (his : ∀ i ∈ is, softI i = true ∧ blockI i = false) :
    Soft rest c (push m is) := by
  obtain ⟨a, b, c, d, e, f, g, h, i, j, k⟩ := h
  exact ⟨a.append his, b, c, d, e, f, g, h, i, j, k⟩

theorem Soft.emit {rest : List Instr} {c m : Cfg} (h : Soft rest c m) (P : Prog) {e : Ev} (he : softE e = true) :
    Soft rest c (m.emit P e) := by
  rw [emit_eq]
  obtain ⟨a, b, c, d, e, f, g, h, i, j, k⟩ := h
  exact ⟨a, b, c, d, e, f, g, h, i, j.append (softT_emitTr _ _ _), (k.cons he).append (softE_emitLog _ _ _)⟩

theorem Soft.addIH {rest : List Instr} {c m : Cfg} (h : Soft rest c m) (src : Src) (skip : Bool) (cb : Option Nat) :
    Soft rest c (newIH m src skip cb).2 := by
  obtain ⟨a, b, c, d, e, f, g, h, i, j, k⟩ := h
  exact ⟨a, b, c, d, e, f, g, h, i.snoc _, j, k⟩

theorem Soft.foldl {rest : List Instr} {c : Cfg} {β} (f : Cfg → β → Cfg) (hf : ∀ m t, Soft rest c m → Soft rest c (f m t))
    (l : List β) : ∀ m, Soft rest c m → Soft rest c (l.foldl f m) := by
  induction l with
  | nil => intro m h; exact h
  | cons a l ih => intro m h; exact ih _ (hf _ _ h)

theorem Soft.startReq {rest : List Instr} {c m0 : Cfg} (h : Soft rest c m0) (ih : Nat) (req : Src) (text : Str) :
    ∃ m, Soft rest c m ∧ (startRequest m0 ih req text = .ok m ∨ startRequest m0 ih req text = m.raise .err) := by
  unfold startRequest
  simp only
  split
  · exact ⟨_, h.setA _, .inr rfl⟩
  · split
    · exact ⟨_, (h.setA _).write _, .inl rfl⟩
    · exact ⟨_, (h.setA _).write _, .inl rfl⟩

theorem softI_go (scr : Nat) (evs : List OutEv) : ∀ (cur : List Str) (acc : List Instr),
    (∀ i ∈ acc, softI i = true ∧ blockI i = false) → ∀ i ∈ step.go scr evs cur acc, softI i = true ∧ blockI i = false := by
  induction evs with
  | nil =>
    intro cur acc hacc i hi
    simp only [step.go] at hi
    split at hi
    · exact hacc i hi
    · simp at hi; rcases hi with hi | rfl; exact hacc i hi; exact ⟨rfl, rfl⟩
  | cons e evs ih =>
    intro cur acc hacc
    cases e with
    | line l => simp only [step.go]; exact ih _ _ hacc
    | ask =>
      simp only [step.go]
      apply ih
      intro i hi
      simp at hi
      rcases hi with hi | rfl
      · split at hi
        · exact hacc i hi
        · simp at hi; rcases hi with hi | rfl; exact hacc i hi; exact ⟨rfl, rfl⟩
      · exact ⟨rfl, rfl⟩

end Simpleline.Dispatch
