import Simpleline.Lemmas.DispatchOrder

namespace Simpleline.Dispatch
open Simpleline

theorem excEnq_eq (c : Cfg) (src : Src) :
    excEnq c src = ({ c with nextSid := c.nextSid + 1 } : Cfg).enqueue (excSig c.nextSid src) := by
  simp [excEnq, enqueue_eq]

/-- an ordinary exception is caught by the first catcher below the raising code -/
theorem raise_err_caught (c : Cfg) (body rest : List Instr) (ins : Instr) (src : Src)
    (hcode : c.code = body ++ ins :: rest) (hbody : ∀ i ∈ body, errCatch i = none) (hins : errCatch ins = some src) :
    c.raise .err =
      .ok { (({ c with nextSid := c.nextSid + 1 } : Cfg).enqueue (excSig c.nextSid src)) with code := afterCatch ins rest } := by
  have h1 : c.raise .err = unwind .err (body ++ ins :: rest) c := by rw [raise_eq, hcode]; rfl
  rw [h1, unwind_err_catch hbody hins, excEnq_eq]

/-- … and if there is none it ends the run -/
theorem raise_err_uncaught (c : Cfg) (h : ∀ i ∈ c.code, errCatch i = none) :
    c.raise .err = .error (.raised "err", { c with code := [] }) := by
  rw [raise_eq, unwind_err_none h]; rfl

theorem dispatch_step_call (P : Prog) (c : Cfg) (s : Sig) (i : Nat) (rest : List Instr) (h : HRef) (d : Option Nat)
    (hc : c.code = .dispatch s i :: rest) (hh : (handlersOf c.L s.cls)[i]? = some (h, d)) (hf : c.L.forceQuit = false) :
    step P c = .ok { c with code := .callH h d s :: .catchHandler :: .dispatch s (i + 1) :: rest } := by
  have hh' : (handlersOf ({ c with code := rest } : Cfg).L s.cls)[i]? = some (h, d) := hh
  simp [step, hc, hh', hf, push]

theorem dispatch_step_done (P : Prog) (c : Cfg) (s : Sig) (i : Nat) (rest : List Instr)
    (hc : c.code = .dispatch s i :: rest) (hh : (handlersOf c.L s.cls)[i]? = none ∨ c.L.forceQuit = true) :
    step P c = .ok { c with code := rest, tr := .dispatched s i :: c.tr } := by
  simp only [step, hc]
  split
  · rename_i h d heq
    have heq' : (handlersOf c.L s.cls)[i]? = some (h, d) := heq
    rcases hh with hh | hh
    · rw [hh] at heq'; cases heq'
    · simp [hh, Cfg.trace]
  · simp [Cfg.trace]

theorem processSignal_step (P : Prog) (c : Cfg) (s : Sig) (rest : List Instr) (hc : c.code = .processSignal s :: rest) :
    step P c = .ok
      (if handlersOf c.L s.cls ≠ [] then
        { c with code := .dispatch s 0 :: rest, L := { c.L with tickets := mark c.L.tickets s.cls } }
      else if s.cls = .exception then
        { c with code := .kill s :: rest, L := { c.L with tickets := mark c.L.tickets s.cls } }
      else
        { c with code := rest, L := { c.L with tickets := mark c.L.tickets s.cls }, tr := .dispatched s 0 :: c.tr }) := by
  have e : ∀ T, handlersOf ({ c.L with tickets := T } : LoopSt) s.cls = handlersOf c.L s.cls := fun _ => rfl
  simp only [step, hc, e]
  split
  · simp [push]
  · split <;> simp [push, Cfg.trace]

/-- an `ExceptionSignal` nobody handles kills the process: traceback separator and screen stack are printed, exit status 1 -/
theorem kill_run (P : Prog) (c : Cfg) (s : Sig) (rest : List Instr) (hc : c.code = .processSignal s :: rest)
    (hs : s.cls = .exception) (hn : handlersOf c.L .exception = []) :
    ∃ c1 c2, step P c = .ok c1 ∧ step P c1 = .error (.killed 1, c2) ∧ c2.code = [] ∧
      c2.A.out = c.A.out ++ [['\n'], dumpStack P c.A.stack ++ ['\n']] ∧
      c2.tr = .kill :: c.tr ∧ c2.log = c.log ∧ step P c2 = .error (.returned, c2) := by
  refine ⟨{ c with code := .kill s :: rest, L := { c.L with tickets := mark c.L.tickets s.cls } },
    { c with code := [], L := { c.L with tickets := mark c.L.tickets s.cls },
             A := { c.A with out := c.A.out ++ [['\n'], dumpStack P c.A.stack ++ ['\n']] }, tr := .kill :: c.tr }, ?_, ?_, rfl, rfl, rfl, rfl, ?_⟩
  · rw [processSignal_step P c s rest hc]
    simp [hs, hn]
  · simp [step, raise_eq, unwind_sysexit, preRaise, Cfg.write, Cfg.trace]
  · simp [step]


/-- the case of a signal handler: the remaining handlers of the signal are next, the loop state is untouched -/
theorem raise_err_handler (c : Cfg) (body K : List Instr) (s : Sig) (i : Nat)
    (hcode : c.code = body ++ .catchHandler :: .dispatch s (i + 1) :: K) (hbody : ∀ i ∈ body, errCatch i = none) :
    ∃ c', c.raise .err = .ok c' ∧ c'.code = .dispatch s (i + 1) :: K ∧
      c'.tr = (if c.L.forceQuit then Tr.dropped { id := c.nextSid + 1, cls := .exception, prio := -20, src := .loop }
               else .enq (c.L.route .loop) { id := c.nextSid + 1, cls := .exception, prio := -20, src := .loop }) :: c.tr ∧
      c'.L.handlers = c.L.handlers ∧ c'.L.levels = c.L.levels ∧ c'.L.active = c.L.active ∧
      c'.L.runLoop = c.L.runLoop ∧ c'.L.forceQuit = c.L.forceQuit ∧ c'.L.tickets = c.L.tickets ∧
      c'.A = c.A ∧ c'.log = c.log := by
  refine ⟨_, raise_err_caught c body _ .catchHandler .loop hcode hbody rfl, rfl, ?_, ?_⟩
  · simp only [enqueue_eq, enqT, excSig]
  · simp [enqueue_eq]

end Simpleline.Dispatch
