import Simpleline.Lemmas.DispatchShape

namespace Simpleline.Dispatch
open Simpleline

/-! ### `apprun` is never pushed: once `run()` has been entered it stays entered -/

/-- `code` is a suffix of `rest` with instructions not satisfying `q` pushed in front -/
def CodeQ (q : Instr → Bool) (rest code : List Instr) : Prop :=
  ∃ pushed suf, code = pushed ++ suf ∧ suf <:+ rest ∧ ∀ i ∈ pushed, q i = false

theorem CodeQ.refl (q : Instr → Bool) (rest : List Instr) : CodeQ q rest rest := ⟨[], rest, rfl, List.suffix_refl _, by simp⟩

theorem CodeQ.of_suffix {q : Instr → Bool} {rest suf : List Instr} (h : suf <:+ rest) : CodeQ q rest suf := ⟨[], suf, rfl, h, by simp⟩

theorem CodeQ.cons {q : Instr → Bool} {rest l : List Instr} {i : Instr} (hi : q i = false) (h : CodeQ q rest l) : CodeQ q rest (i :: l) := by
  obtain ⟨p, sf, rfl, hs, hp⟩ := h
  exact ⟨i :: p, sf, rfl, hs, by simpa [hi] using hp⟩

theorem CodeQ.append {q : Instr → Bool} {rest l d : List Instr} (hd : ∀ i ∈ d, q i = false) (h : CodeQ q rest l) : CodeQ q rest (d ++ l) := by
  obtain ⟨p, sf, rfl, hs, hp⟩ := h
  refine ⟨d ++ p, sf, by simp, hs, ?_⟩
  intro t ht; simp at ht; rcases ht with ht | ht; exact hd t ht; exact hp t ht

theorem CodeQ.all {q : Instr → Bool} {rest code : List Instr} (h : CodeQ q rest code) (hr : ∀ i ∈ rest, q i = false) :
    ∀ i ∈ code, q i = false := by
  obtain ⟨p, sf, rfl, hs, hp⟩ := h
  intro i hi
  rcases List.mem_append.mp hi with hi | hi
  · exact hp i hi
  · exact hr i (hs.subset hi)

theorem bodyOf_not_apprun (P : Prog) (X : Cfg) (h : HRef) (s : Sig) : ∀ i ∈ bodyOf P X h s, isApprun i = false := by
  intro i hi
  cases h <;> simp [bodyOf] at hi
  case user hid => rcases hi with ⟨a, -, rfl⟩ | rfl <;> rfl
  all_goals (subst hi; rfl)

macro "codeA_tac" : tactic => `(tactic| (
  (try simp only [push, Cfg.trace, enqueue_eq, emit_eq, excEnq, List.cons_append, List.nil_append]) <;>
  repeat' first
    | exact CodeQ.refl _ _
    | apply CodeQ.cons (by simp [isApprun])
    | apply CodeQ.append (bodyOf_not_apprun _ _ _ _)))

theorem coreN_no_apprun {P : Prog} {b c' : Cfg} {ins : Instr} (h : CoreN P b ins c') : CodeQ isApprun b.code c'.code := by
  cases h
  case popErr pre x rest' src h hcode hpre hx =>
    exact .of_suffix (by rw [hcode]; exact (afterCatch_suffix _ _).trans (List.suffix_append_of_suffix (List.suffix_cons _ _)))
  case popExit q pre rest' h h2 hcode hpre =>
    exact .of_suffix (by rw [hcode]; exact List.suffix_append_of_suffix (List.suffix_cons _ _))
  all_goals codeA_tac

theorem softI_not_apprun {i : Instr} (h : softI i = true) : isApprun i = false := by
  cases i <;> first | rfl | cases h

theorem AfterStart.iff {c : Cfg} : AfterStart c ↔ ∀ i ∈ c.code, isApprun i = false := by
  simp [AfterStart]

/-- once no `apprun` is pending, none ever is again -/
theorem afterStart_trans {P : Prog} {c c' : Cfg} (hA : AfterStart c) (ht : Trans P c c') : AfterStart c' := by
  rw [AfterStart.iff] at hA ⊢
  cases ht with
  | step hs =>
    obtain ⟨ins, rest, hc, ⟨ho, m, hm, hf⟩ | ⟨ho, hcore⟩⟩ := step_ok_casesN hs
    · intro i hi
      rcases other_code_mem hm hf i hi with h | h
      · exact softI_not_apprun h
      · exact hA i (by simp [hc, h])
    · exact (coreN_no_apprun hcore).all (fun i hi => hA i (by simp [hc, hi]))
  | deliver hd => rw [(deliver_frame hd).2]; exact hA
  | halt hs =>
    rcases step_error_cases hs with ⟨-, -, rfl⟩ | ⟨ins, rest, hc, ⟨ho, m, hm, ⟨-, rfl⟩ | ⟨k, -, hk⟩⟩ | ⟨ho, hcore⟩⟩
    · exact hA
    · intro i hi
      rcases other_code_mem hm .same i hi with h | h
      · exact softI_not_apprun h
      · exact hA i (by simp [hc, h])
    · rw [(raise_error hk).1]; simp
    · have hr : ∀ i ∈ rest, isApprun i = false := fun i hi => hA i (by simp [hc, hi])
      cases hcore
      case refuse => exact hr
      case getBlocked h => rw [take_error_code h]; exact hr
      case waitBlocked h => rw [take_error_code h]; exact hr
      case kill => simp
      case popErr h hr' => rw [(raise_error hr').1]; simp
      case popExit h h2 hr' => rw [(raise_error hr').1]; simp

theorem afterStart_steps {P : Prog} {c c' : Cfg} (hA : AfterStart c) (hs : Steps P c c') : AfterStart c' := by
  induction hs with
  | refl => exact hA
  | tail _ ht ih => exact afterStart_trans ih ht


/-! ### force-quit -/

/-- under force-quit the loop flag is down and there is no level left -/
def FQInv (c : Cfg) : Prop := c.L.forceQuit = true → c.L.runLoop = false ∧ c.L.levels = []

theorem coreN_fq {P : Prog} {b c' : Cfg} {ins : Instr} (h : CoreN P b ins c') (hI : FQInv b) : FQInv c' := by
  unfold FQInv at *
  cases h <;> simp_all [push, Cfg.trace, enqueue_eq, emit_eq, excEnq]

theorem coreErr_ctl {P : Prog} {b c' : Cfg} {ins : Instr} {o : Outcome} (h : CoreErr P b ins o c') :
    c'.L.forceQuit = b.L.forceQuit ∧ c'.L.runLoop = b.L.runLoop ∧ (c'.L.levels = b.L.levels ∨ c'.L.levels = []) := by
  cases h
  case refuse => simp
  case getBlocked h =>
    obtain ⟨-, h | h, -, -⟩ := take_error h
    · subst h; simp
    · obtain ⟨r, rs, hr, rfl⟩ := deliver_eq h; simp
  case waitBlocked h =>
    obtain ⟨-, h | h, -, -⟩ := take_error h
    · subst h; simp
    · obtain ⟨r, rs, hr, rfl⟩ := deliver_eq h; simp
  case kill => simp [Cfg.trace, Cfg.write]
  case popErr h hr => rw [(raise_error hr).1]; simp [preRaise]
  case popExit h h2 hr => rw [(raise_error hr).1]; simp [preRaise, Cfg.trace]

theorem FQInv.frame {c c' : Cfg} (hI : FQInv c) (hf : Frame c c') : FQInv c' := by
  unfold FQInv at *
  rw [hf.forceQuit, hf.runLoop, hf.levels]; exact hI

theorem fqInv_trans {P : Prog} {c c' : Cfg} (hI : FQInv c) (ht : Trans P c c') : FQInv c' := by
  cases ht with
  | step hs =>
    obtain ⟨ins, rest, hc, ⟨ho, m, hm, hf⟩ | ⟨ho, hcore⟩⟩ := step_ok_casesN hs
    · exact hI.frame (hm.frame hf)
    · exact coreN_fq hcore hI
  | deliver hd => exact hI.frame (deliver_frame hd).1
  | halt hs =>
    rcases step_error_cases hs with ⟨-, -, rfl⟩ | ⟨ins, rest, hc, ⟨ho, m, hm, ⟨-, rfl⟩ | ⟨k, -, hk⟩⟩ | ⟨ho, hcore⟩⟩
    · exact hI
    · exact hI.frame (hm.frame .same)
    · rw [(raise_error hk).1]
      have := hI.frame (hm.frame .same)
      cases k <;> exact this
    · obtain ⟨h1, h2, h3⟩ := coreErr_ctl hcore
      unfold FQInv at *
      rw [h1, h2]
      intro hf
      obtain ⟨g1, g2⟩ := hI hf
      refine ⟨g1, ?_⟩
      rcases h3 with h3 | h3
      · rw [h3]; exact g2
      · exact h3

theorem fqInv_reach {P : Prog} {c0 c : Cfg} (h0 : Started c0) (hr : Reach P c0 c) : FQInv c := by
  refine reach_induction ?_ ?_ hr
  · obtain ⟨i, h, q, s, rfl⟩ := h0
    intro hf; simp [initCfg] at hf
  · intro c c' _ hI ht; exact fqInv_trans hI ht

theorem coreN_fq_persist {P : Prog} {b c' : Cfg} {ins : Instr} (h : CoreN P b ins c') (hins : isApprun ins = false)
    (hf : b.L.forceQuit = true) : c'.L.forceQuit = true := by
  cases h <;> simp_all [push, Cfg.trace, emit_eq, excEnq, isApprun]

/-- after the start force-quit is never reset -/
theorem fq_persist_trans {P : Prog} {c c' : Cfg} (hA : AfterStart c) (hf : c.L.forceQuit = true) (ht : Trans P c c') :
    c'.L.forceQuit = true := by
  cases ht with
  | step hs =>
    obtain ⟨ins, rest, hc, ⟨ho, m, hm, hfin⟩ | ⟨ho, hcore⟩⟩ := step_ok_casesN hs
    · rw [(hm.frame hfin).forceQuit]; exact hf
    · exact coreN_fq_persist hcore (AfterStart.iff.mp hA ins (by simp [hc])) hf
  | deliver hd => rw [(deliver_frame hd).1.forceQuit]; exact hf
  | halt hs =>
    rcases step_error_cases hs with ⟨-, -, rfl⟩ | ⟨ins, rest, hc, ⟨ho, m, hm, ⟨-, rfl⟩ | ⟨k, -, hk⟩⟩ | ⟨ho, hcore⟩⟩
    · exact hf
    · rw [hm.forceQuit]; exact hf
    · rw [(raise_error hk).1]
      cases k <;> simp [preRaise, hm.forceQuit, hf]
    · rw [(coreErr_ctl hcore).1]; exact hf

theorem fq_persist_steps {P : Prog} {c c' : Cfg} (hA : AfterStart c) (hf : c.L.forceQuit = true) (hs : Steps P c c') :
    AfterStart c' ∧ c'.L.forceQuit = true := by
  induction hs with
  | refl => exact ⟨hA, hf⟩
  | tail _ ht ih => exact ⟨afterStart_trans ih.1 ht, fq_persist_trans ih.1 ih.2 ht⟩


/-! ### after an exit request; the quit callback -/

theorem open_ne {B T : List Instr} (hT : OpenTail T) :
    B ++ T ≠ [] ∧ B ++ T ≠ [.quitCb] ∧ B ++ T ≠ [.catchExit, .quitCb] ∧ B ++ T ≠ [.restoreRun, .catchExit, .quitCb] := by
  rcases hT with rfl | rfl
  · refine ⟨by simp, ?_, ?_, ?_⟩ <;> intro h <;> have := congrArg List.reverse h <;> simp at this
  · refine ⟨by simp, ?_, ?_, ?_⟩ <;> intro h <;> have := congrArg List.reverse h <;> simp at this

/-- a configuration without code stays without code -/
theorem nil_trans {P : Prog} {c c' : Cfg} (ht : Trans P c c') (h : c.code = []) : c'.code = [] := by
  cases ht with
  | step hs => obtain ⟨ins, rest, hc⟩ := step_ok_code hs; rw [hc] at h; cases h
  | deliver hd => rw [(deliver_frame hd).2]; exact h
  | halt hs => rw [step_nil h] at hs; cases hs; exact h

/-- once only the quit callback (or nothing) is left, nothing else ever runs -/
theorem over_trans {P : Prog} {c c' : Cfg} (hS : ShapeStep P c c') (h : c.code = [.quitCb] ∨ c.code = []) :
    c'.code = [.quitCb] ∨ c'.code = [] := by
  cases hS
  case body B B' T hT hc hB hne hcode hB' hx =>
    obtain ⟨h1, h2, -, -⟩ := open_ne (B := B) hT
    rcases h with h | h <;> rw [hc] at h
    · exact absurd h h2
    · exact absurd h h1
  case exit hc hB hne hcode hx => exact .inl hcode
  case start hc hcode htr => rcases h with h | h <;> rw [hc] at h <;> cases h
  case loopOn hc hr hcode htr => rcases h with h | h <;> rw [hc] at h <;> cases h
  case loopOff hc hr hcode htr => rcases h with h | h <;> rw [hc] at h <;> cases h
  case restored hc hcode htr => rcases h with h | h <;> rw [hc] at h <;> cases h
  case leave hc hcode htr => exact .inl hcode
  case quit hc hcode hx hlog => exact .inr hcode
  case same hcode hx => rw [hcode]; exact h
  case dead hs hcode hx => exact .inr hcode

/-- after an exit request only the quit callback is left to run, or nothing -/
theorem exit_over_reach {P : Prog} {c0 c : Cfg} (h0 : Started c0) (hr : Reach P c0 c) (hm : Tr.exit ∈ c.tr) :
    c.code = [.quitCb] ∨ c.code = [] := by
  revert hm
  refine reach_induction (motive := fun c => Tr.exit ∈ c.tr → c.code = [.quitCb] ∨ c.code = []) ?_ ?_ hr
  · obtain ⟨i, h, q, s, rfl⟩ := h0
    intro hm; simp [initCfg] at hm
  · intro c c' hr hI ht hm
    have hS := shapeStep_reach h0 hr ht
    obtain ⟨hnew, -⟩ := (trans_origin ht).toNewTr
    rw [hnew] at hm
    rcases List.mem_append.mp hm with hm | hm
    · cases hS
      case body hx => exact absurd hm hx
      case exit hc hB hne hcode hx => exact .inl hcode
      case start hc hcode htr => rw [newTr_eq (new := []) (by simp [htr])] at hm; simp at hm
      case loopOn hc hr hcode htr => rw [newTr_eq (new := []) (by simp [htr])] at hm; simp at hm
      case loopOff hc hr hcode htr => rw [newTr_eq (new := [.loopReturn 0]) (by simp [htr])] at hm; simp at hm
      case restored hc hcode htr => rw [newTr_eq (new := []) (by simp [htr])] at hm; simp at hm
      case leave hc hcode htr => exact .inl hcode
      case quit hc hcode hx hlog => exact .inr hcode
      case same hcode hx => exact absurd hm hx
      case dead hs hcode hx => exact .inr hcode
    · exact over_trans hS (hI hm)

/-- when the code is down to the quit callback or nothing, no handler is called any more -/
theorem over_no_call {P : Prog} {c c' : Cfg} (ht : Trans P c c') (h : c.code = [.quitCb] ∨ c.code = [])
    (hd : HRef) (d : Option Nat) (s : Sig) : Tr.call hd d s ∉ newTr c c' := by
  intro hm
  have := (trans_origin ht).toNewTr.2 _ hm
  rcases h with h | h <;> simp [TrOrigin, h] at this

/-! the quit callback: logged at most once, with the registered argument, and only as the very last thing -/

structure QuitInv (c0 c : Cfg) : Prop where
  count : c.log.countP isQuitcbEv = 0 ∨ (c.log.countP isQuitcbEv = 1 ∧ c.code = [])
  arg : ∀ d, Ev.quitcb d ∈ c.log → c0.L.quitCb = some d

theorem countP_soft_zero {lg : List Ev} (h : ∀ e ∈ lg, softE e = true) : lg.countP isQuitcbEv = 0 := by
  rw [List.countP_eq_zero]
  intro e he
  have := h e he
  cases e <;> simp_all [softE, isQuitcbEv]

/-- the transition that logs the quit callback: the step of `quitCb`, the last instruction -/
theorem quitcb_logged {P : Prog} {c c' : Cfg} (hS : Shape c) (ht : Trans P c c') {d : Nat} (hm : Ev.quitcb d ∈ newLog c c') :
    c.code = [.quitCb] ∧ c'.code = [] ∧ c.L.quitCb = some d ∧
      ∃ lg, (∀ e ∈ lg, softE e = true) ∧ c'.log = lg ++ .quitcb d :: c.log := by
  obtain ⟨hlog, horig⟩ := (trans_logOrigin ht).toNewLog
  obtain ⟨hhead, hq⟩ := horig _ hm
  have hc : c.code = [.quitCb] := by
    cases hcode : c.code with
    | nil => simp [hcode] at hhead
    | cons ins rest =>
      simp [hcode] at hhead
      subst hhead
      rcases shape_cases hS hcode with ⟨-, h⟩ | ⟨h, -⟩ | ⟨h, -⟩ | ⟨h, -⟩ | ⟨h, -⟩ | ⟨h, -⟩
      · rw [h]
      all_goals cases h
  refine ⟨hc, ?_, hq, ?_⟩
  all_goals
    cases ht with
    | step hs =>
      obtain ⟨ins, rest, hc', ⟨ho, -⟩ | ⟨-, hcore⟩⟩ := step_ok_casesN hs
      · rw [hc] at hc'; cases hc'; cases ho
      · rw [hc] at hc'; cases hc'
        cases hcore
        case quitCbSome d' hd' =>
          have hd'' : c.L.quitCb = some d' := hd'
          rw [hq] at hd''; cases hd''
          first
            | (simp [emit_eq]; done)
            | exact ⟨emitLog P ({ c with code := [] } : Cfg) (.quitcb d), softE_emitLog _ _ _, by simp [emit_eq]⟩
        case quitCbNone hd' =>
          have hd'' : c.L.quitCb = none := hd'
          simp [hq] at hd''
    | deliver hd =>
      obtain ⟨r, rs, hr, rfl⟩ := deliver_eq hd
      simp [Simpleline.newLog] at hm
    | halt hs =>
      rcases step_error_cases hs with ⟨h, -, -⟩ | ⟨ins, rest, hc', ⟨ho, -⟩ | ⟨-, hcore⟩⟩
      · rw [hc] at h; cases h
      · rw [hc] at hc'; cases hc'; cases ho
      · rw [hc] at hc'; cases hc'; cases hcore

theorem quitInv_trans {P : Prog} {c0 c c' : Cfg} (hq : c.L.quitCb = c0.L.quitCb) (hI : QuitInv c0 c) (hS : Shape c)
    (ht : Trans P c c') : QuitInv c0 c' := by
  obtain ⟨hlog, horig⟩ := (trans_logOrigin ht).toNewLog
  by_cases hex : ∃ d, Ev.quitcb d ∈ newLog c c'
  · obtain ⟨d, hm⟩ := hex
    obtain ⟨hc, hc', hqd, lg, hsoft, hl⟩ := quitcb_logged hS ht hm
    have h0 : c.log.countP isQuitcbEv = 0 := by
      rcases hI.count with h | ⟨-, h⟩
      · exact h
      · rw [hc] at h; cases h
    constructor
    · right
      rw [hl, List.countP_append, List.countP_cons, countP_soft_zero hsoft, h0]
      exact ⟨by simp [isQuitcbEv], hc'⟩
    · intro d' hm'
      rw [hl] at hm'
      simp only [List.mem_append, List.mem_cons] at hm'
      rcases hm' with hm' | hm' | hm'
      · have := hsoft _ hm'; simp [softE] at this
      · cases hm'; rw [← hq]; exact hqd
      · exact hI.arg d' hm'
  · have h0 : ∀ e ∈ newLog c c', isQuitcbEv e = false := by
      intro e he
      cases e <;> try rfl
      exact absurd ⟨_, he⟩ hex
    constructor
    · rw [hlog, List.countP_append]
      have : (newLog c c').countP isQuitcbEv = 0 := by
        rw [List.countP_eq_zero]; intro e he; simp [h0 e he]
      rw [this, Nat.zero_add]
      rcases hI.count with h | ⟨h, hnil⟩
      · exact .inl h
      · exact .inr ⟨h, nil_trans ht hnil⟩
    · intro d hm
      rw [hlog] at hm
      rcases List.mem_append.mp hm with hm | hm
      · have := h0 _ hm; simp [isQuitcbEv] at this
      · exact hI.arg d hm

theorem quitInv_reach {P : Prog} {c0 c : Cfg} (h0 : Started c0) (hr : Reach P c0 c) : QuitInv c0 c ∧ c.L.quitCb = c0.L.quitCb := by
  refine reach_induction (motive := fun c => QuitInv c0 c ∧ c.L.quitCb = c0.L.quitCb) ?_ ?_ hr
  · obtain ⟨i, h, q, s, rfl⟩ := h0
    exact ⟨⟨.inl (by simp [initCfg]), fun d hm => by simp [initCfg] at hm⟩, rfl⟩
  · intro c c' hr hI ht
    exact ⟨quitInv_trans hI.2 hI.1 (shape_reach h0 hr) ht, (trans_static ht).2.1.trans hI.2⟩


/-! ### what lowers the loop flag -/

/-- a reason for `_run_loop` being `False` is in the history: force-quit, or a level closed by `close_loop` -/
def StopReason (tr : List Tr) : Prop := Tr.forceQuit ∈ tr ∨ ∃ q, Tr.closeLevel q ∈ tr

theorem StopReason.grow {tr new : List Tr} (h : StopReason tr) : StopReason (new ++ tr) := by
  rcases h with h | ⟨q, h⟩
  · exact .inl (List.mem_append_right _ h)
  · exact .inr ⟨q, List.mem_append_right _ h⟩

theorem StopReason.cons {tr : List Tr} {t : Tr} (h : StopReason tr) : StopReason (t :: tr) := h.grow (new := [t])

/-- the loop flag goes down only in `force_quit` and when `close_loop` pops a level -/
theorem coreN_runLoop_cases {P : Prog} {b c' : Cfg} {ins : Instr} (h : CoreN P b ins c') :
    c'.L.runLoop = b.L.runLoop ∨ c'.L.runLoop = true ∨
      (ins = .act .forceQuit ∧ Tr.forceQuit ∈ c'.tr) ∨ (ins = .popLevel ∧ ∃ q, Tr.closeLevel q ∈ c'.tr) := by
  cases h
  case forceQuit => exact .inr (.inr (.inl ⟨rfl, by simp⟩))
  case pop q a h h2 => exact .inr (.inr (.inr ⟨rfl, q, by simp [Cfg.trace]⟩))
  case apprun => exact .inr (.inl (by simp [push]))
  case restore => exact .inr (.inl rfl)
  all_goals exact .inl (by simp [push, Cfg.trace, enqueue_eq, emit_eq, excEnq])

/-- whenever the loop flag is down, a reason for it is in the history -/
def RunLoopInv (c : Cfg) : Prop := c.L.runLoop = false → StopReason c.tr

theorem runLoopInv_trans {P : Prog} {c c' : Cfg} (hI : RunLoopInv c) (ht : Trans P c c') : RunLoopInv c' := by
  obtain ⟨new, hnew, -⟩ := trans_origin ht
  have keep : c'.L.runLoop = c.L.runLoop → RunLoopInv c' := by
    intro he hf
    rw [hnew]; exact (hI (he ▸ hf)).grow
  cases ht with
  | step hs =>
    obtain ⟨ins, rest, hc, ⟨ho, m, hm, hfin⟩ | ⟨ho, hcore⟩⟩ := step_ok_casesN hs
    · exact keep (hm.frame hfin).runLoop
    · rcases coreN_runLoop_cases hcore with h | h | ⟨-, h⟩ | ⟨-, q, h⟩
      · exact keep h
      · intro hf; rw [h] at hf; cases hf
      · exact fun _ => .inl h
      · exact fun _ => .inr ⟨q, h⟩
  | deliver hd => exact keep (deliver_frame hd).1.runLoop
  | halt hs =>
    rcases step_error_cases hs with ⟨-, -, rfl⟩ | ⟨ins, rest, hc, ⟨ho, m, hm, ⟨-, rfl⟩ | ⟨k, -, hk⟩⟩ | ⟨ho, hcore⟩⟩
    · exact hI
    · exact keep hm.runLoop
    · refine keep ?_
      rw [(raise_error hk).1]
      cases k <;> exact hm.runLoop
    · exact keep (coreErr_ctl hcore).2.1

theorem runLoopInv_reach {P : Prog} {c0 c : Cfg} (h0 : Started c0) (hr : Reach P c0 c) : RunLoopInv c := by
  refine reach_induction ?_ ?_ hr
  · obtain ⟨i, h, q, s, rfl⟩ := h0
    intro hf; simp [initCfg] at hf
  · intro c c' _ hI ht; exact runLoopInv_trans hI ht

/-- … in one transition: the flag goes from up to down only by `force_quit` or by `close_loop` popping a level -/
theorem runLoop_cleared {P : Prog} {c c' : Cfg} (ht : Trans P c c') (h1 : c.L.runLoop = true) (h2 : c'.L.runLoop = false) :
    (c.code.head? = some (.act .forceQuit) ∧ Tr.forceQuit ∈ newTr c c') ∨
    (c.code.head? = some .popLevel ∧ ∃ q, Tr.closeLevel q ∈ newTr c c') := by
  have contra : c'.L.runLoop = c.L.runLoop → False := fun he => by rw [he, h1] at h2; cases h2
  obtain ⟨hnew, horig⟩ := (trans_origin ht).toNewTr
  cases ht with
  | step hs =>
    obtain ⟨ins, rest, hc, ⟨ho, m, hm, hfin⟩ | ⟨ho, hcore⟩⟩ := step_ok_casesN hs
    · exact (contra (hm.frame hfin).runLoop).elim
    · rcases coreN_runLoop_cases hcore with h | h | ⟨rfl, h⟩ | ⟨rfl, q, h⟩
      · exact (contra h).elim
      · rw [h] at h2; cases h2
      · left; refine ⟨by simp [hc], ?_⟩
        cases hcore
        rw [newTr_eq (new := [.forceQuit]) rfl]; simp
      · right; refine ⟨by simp [hc], ?_⟩
        cases hcore
        case popErr pre x rest' src h hcode hpre hx => simp [excEnq] at h2; rw [h1] at h2; cases h2
        case popExit q' pre rest' h hh2 hcode hpre => simp at h2; rw [h1] at h2; cases h2
        case pop q' a h hh2 => exact ⟨q', by rw [newTr_eq (new := [.closeLevel q']) (by simp [Cfg.trace])]; simp⟩
  | deliver hd => exact (contra (deliver_frame hd).1.runLoop).elim
  | halt hs =>
    rcases step_error_cases hs with ⟨-, -, rfl⟩ | ⟨ins, rest, hc, ⟨ho, m, hm, ⟨-, rfl⟩ | ⟨k, -, hk⟩⟩ | ⟨ho, hcore⟩⟩
    · exact (contra rfl).elim
    · exact (contra hm.runLoop).elim
    · refine (contra ?_).elim
      rw [(raise_error hk).1]
      cases k <;> exact hm.runLoop
    · exact (contra (coreErr_ctl hcore).2.1).elim


/-! ### how a run comes to return -/

theorem live_reach {P : Prog} {c0 c : Cfg} (h : Live P c0 c) : Reach P c0 c := by
  induction h with
  | init => exact .init
  | step _ hs ih => exact .step ih hs
  | deliver _ hd ih => exact .deliver ih hd

/-- the outermost `_mainloop` activation has left its loop, and `R` held of the history when it did -/
def LeftLoop (R : List Tr → Prop) (tr : List Tr) : Prop := Tr.loopReturn 0 ∈ tr ∧ R tr

/-- how a live run gets to the bottom of `run()`; `R` is what is known of the history when the outermost loop test finds
the flag down -/
structure LiveInv (R : List Tr → Prop) (c0 c : Cfg) : Prop where
  left : c.code = [.restoreRun, .catchExit, .quitCb] ∨ c.code = [.catchExit, .quitCb] → LeftLoop R c.tr
  quit : c.code = [.quitCb] → Tr.exit ∈ c.tr ∨ LeftLoop R c.tr
  done : c.code = [] → (Tr.exit ∈ c.tr ∨ LeftLoop R c.tr) ∧ ∀ d, c0.L.quitCb = some d → Ev.quitcb d ∈ c.log

theorem liveInv_trans {R : List Tr → Prop} (hRg : ∀ tr new, R tr → R (new ++ tr)) {P : Prog} {c0 c c' : Cfg}
    (hq : c.L.quitCb = c0.L.quitCb)
    (hoff : c.code = [.mainCheck 0, .catchExit, .quitCb] → c.L.runLoop = false → R c.tr) (hI : LiveInv R c0 c)
    (hS : ShapeStep P c c') (ht : Trans P c c') (hlive : ∀ o, step P c ≠ .error (o, c')) : LiveInv R c0 c' := by
  obtain ⟨new, hnew, -⟩ := trans_origin ht
  obtain ⟨newl, hnewl, -⟩ := trans_logOrigin ht
  have gl : LeftLoop R c.tr → LeftLoop R c'.tr := fun h => hnew ▸ ⟨List.mem_append_right _ h.1, hRg _ _ h.2⟩
  have ge : Tr.exit ∈ c.tr → Tr.exit ∈ c'.tr := fun h => hnew ▸ List.mem_append_right _ h
  cases hS
  case body B B' T hT hc hB hne hcode hB' hx =>
    obtain ⟨h1, h2, h3, h4⟩ := open_ne (B := B') hT
    refine ⟨?_, ?_, ?_⟩ <;> intro h <;> rw [hcode] at h
    · rcases h with h | h
      · exact absurd h h4
      · exact absurd h h3
    · exact absurd h h2
    · exact absurd h h1
  case exit hc hB hne hcode hx =>
    have hex : Tr.exit ∈ c'.tr := by
      obtain ⟨hn, -⟩ := (trans_origin ht).toNewTr
      rw [hn]; exact List.mem_append_left _ hx
    refine ⟨?_, fun _ => .inl hex, ?_⟩ <;> intro h <;> rw [hcode] at h
    · rcases h with h | h <;> cases h
    · cases h
  case start hc hcode htr =>
    refine ⟨?_, ?_, ?_⟩ <;> intro h <;> rw [hcode] at h
    · rcases h with h | h <;> cases h
    · cases h
    · cases h
  case loopOn hc hr hcode htr =>
    refine ⟨?_, ?_, ?_⟩ <;> intro h <;> rw [hcode] at h
    · rcases h with h | h <;> cases h
    · cases h
    · cases h
  case loopOff hc hr hcode htr =>
    refine ⟨fun _ => ?_, ?_, ?_⟩
    · rw [htr]; exact ⟨by simp, hRg _ [_] (hoff hc hr)⟩
    all_goals (intro h; rw [hcode] at h; cases h)
  case restored hc hcode htr =>
    refine ⟨fun _ => gl (hI.left (.inl hc)), ?_, ?_⟩ <;> intro h <;> rw [hcode] at h <;> cases h
  case leave hc hcode htr =>
    refine ⟨?_, fun _ => .inr (gl (hI.left (.inr hc))), ?_⟩ <;> intro h <;> rw [hcode] at h
    · rcases h with h | h <;> cases h
    · cases h
  case quit hc hcode hx hlog =>
    refine ⟨?_, ?_, fun _ => ⟨(hI.quit hc).imp ge gl, ?_⟩⟩
    · intro h; rw [hcode] at h; rcases h with h | h <;> cases h
    · intro h; rw [hcode] at h; cases h
    · intro d hd
      obtain ⟨lg, -, hl⟩ := hlog
      rw [hl, hq, hd]; simp
  case same hcode hx =>
    refine ⟨fun h => gl (hI.left (hcode ▸ h)), fun h => (hI.quit (hcode ▸ h)).imp ge gl, fun h => ?_⟩
    obtain ⟨h1, h2⟩ := hI.done (hcode ▸ h)
    exact ⟨h1.imp ge gl, fun d hd => hnewl ▸ List.mem_append_right _ (h2 d hd)⟩
  case dead hs hcode hx =>
    obtain ⟨o, hs⟩ := hs
    exact absurd hs (hlive o)

theorem liveInv_live {R : List Tr → Prop} (hRg : ∀ tr new, R tr → R (new ++ tr)) {P : Prog} {c0 c : Cfg} (h0 : Started c0)
    (hoff : ∀ c, Reach P c0 c → c.code = [.mainCheck 0, .catchExit, .quitCb] → c.L.runLoop = false → R c.tr)
    (h : Live P c0 c) : LiveInv R c0 c := by
  induction h with
  | init =>
    obtain ⟨i, hh, q, s, rfl⟩ := h0
    refine ⟨?_, ?_, ?_⟩ <;> intro h
    · rcases h with h | h <;> have := congrArg List.reverse h <;> simp [initCfg] at this
    · have := congrArg List.reverse h; simp [initCfg] at this
    · simp [initCfg] at h
  | step hl hs ih =>
    have hr := live_reach hl
    exact liveInv_trans hRg (quitInv_reach h0 hr).2 (hoff _ hr) ih (shapeStep_reach h0 hr (.step hs)) (.step hs)
      (fun o he => by rw [hs] at he; cases he)
  | @deliver c c' hl hd ih =>
    obtain ⟨r, rs, hrr, rfl⟩ := deliver_eq hd
    have g : LeftLoop R c.tr → LeftLoop R (enqT c.L (lineSig c r) :: c.tr) :=
      fun h => ⟨List.mem_cons_of_mem _ h.1, hRg _ [_] h.2⟩
    refine ⟨fun h => g (ih.left h), fun h => (ih.quit h).imp (List.mem_cons_of_mem _) g, fun h => ?_⟩
    obtain ⟨h1, h2⟩ := ih.done h
    exact ⟨h1.imp (List.mem_cons_of_mem _) g, fun d hd => List.mem_cons_of_mem _ (h2 d hd)⟩

/-! ### single steps -/

theorem enqueue_fq (c : Cfg) (s : Sig) (hf : c.L.forceQuit = true) : c.enqueue s = c.trace (.dropped s) := by
  simp [Cfg.enqueue, hf]

theorem step_newLoop_fq (P : Prog) (c : Cfg) (s : Sig) (rest : List Instr) (hc : c.code = .newLoop s :: rest)
    (hf : c.L.forceQuit = true) : step P c = .ok { c with code := rest } := by
  simp [step, hc, hf]

theorem step_mainCheck_down (P : Prog) (c : Cfg) (q : Nat) (rest : List Instr) (hc : c.code = .mainCheck q :: rest)
    (hr : c.L.runLoop = false) : step P c = .ok { c with code := .restoreRun :: rest, tr := .loopReturn q :: c.tr } := by
  simp [step, hc, hr, push, Cfg.trace]

theorem step_mainCheck_up (P : Prog) (c : Cfg) (q : Nat) (rest : List Instr) (hc : c.code = .mainCheck q :: rest)
    (hr : c.L.runLoop = true) : step P c = .ok { c with code := .loopCheck :: .mainCheck q :: rest } := by
  simp [step, hc, hr, push]

theorem step_restoreRun_fq (P : Prog) (c : Cfg) (rest : List Instr) (hc : c.code = .restoreRun :: rest)
    (hf : c.L.forceQuit = true) : step P c = .ok { c with code := rest } := by
  simp [step, hc, hf]

theorem step_loopCheck_down (P : Prog) (c : Cfg) (rest : List Instr) (hc : c.code = .loopCheck :: rest)
    (hr : c.L.runLoop = false) : step P c = .ok { c with code := rest } := by
  simp [step, hc, hr]

theorem step_waitStep_down (P : Prog) (c : Cfg) (cls : Cls) (t : Nat) (rest : List Instr) (hc : c.code = .waitStep cls t :: rest)
    (hr : c.L.runLoop = false) : step P c = .ok { c with code := rest, tr := .waitEnd cls t false :: c.tr } := by
  simp [step, hc, hr, Cfg.trace]

theorem step_procIter_down (P : Prog) (c : Cfg) (p : Option Int) (rest : List Instr) (hc : c.code = .procIter p :: rest)
    (hr : c.L.runLoop = false) : step P c = .ok { c with code := rest, tr := .procEnd :: c.tr } := by
  simp only [step, hc]
  split
  · simp [Cfg.trace]
  · simp [hr, Cfg.trace]

theorem apprun_refuses (P : Prog) (c : Cfg) (rest : List Instr) (hc : c.code = .apprun :: rest)
    (he : P.runEmpty = false) (hs : c.A.stack = []) :
    step P c = .error (.raised "NothingScheduled", { c with code := rest }) := by
  simp [step, hc, he, hs]

theorem apprun_starts (P : Prog) (c : Cfg) (rest : List Instr) (hc : c.code = .apprun :: rest)
    (h : P.runEmpty = true ∨ c.A.stack ≠ []) :
    step P c = .ok { c with code := .mainCheck 0 :: .catchExit :: .quitCb :: rest,
                            L := { c.L with forceQuit := false, runLoop := true } } := by
  simp only [step, hc]
  rw [if_neg]
  · simp [push]
  · rcases h with h | h <;> simp [h]

theorem raise_exit_caught (c : Cfg) (pre rest : List Instr) (hcode : c.code = pre ++ .catchExit :: rest)
    (hpre : ∀ i ∈ pre, isCatchExit i = false) : c.raise .exit = .ok { c with code := rest, tr := .exit :: c.tr } := by
  have h1 : c.raise .exit = unwind .exit (pre ++ .catchExit :: rest) (preRaise c .exit) := by rw [raise_eq, hcode]
  rw [h1, unwind_exit_catch hpre]; rfl

theorem step_quitCb (P : Prog) (c : Cfg) (hc : c.code = [.quitCb]) :
    ∃ c', step P c = .ok c' ∧ c'.code = [] ∧ step P c' = .error (.returned, c') ∧
      ∃ lg, (∀ e ∈ lg, softE e = true) ∧ c'.log = lg ++ c.L.quitCb.toList.map Ev.quitcb ++ c.log := by
  cases hq : c.L.quitCb with
  | none =>
    refine ⟨{ c with code := [] }, by simp [step, hc, hq], rfl, by simp [step], [], by simp, by simp⟩
  | some d =>
    refine ⟨({ c with code := [] } : Cfg).emit P (.quitcb d), by simp [step, hc, hq], by simp [emit_eq],
      step_nil (by simp [emit_eq]), emitLog P ({ c with code := [] } : Cfg) (.quitcb d), softE_emitLog _ _ _, by simp [emit_eq]⟩


/-! ### halting with `returned` -/

theorem returned_iff (P : Prog) (c c' : Cfg) : step P c = .error (.returned, c') ↔ c.code = [] ∧ c' = c := by
  constructor
  · intro hs
    rcases step_error_cases hs with ⟨hc, -, h⟩ | ⟨ins, rest, hc, ⟨-, m, hm, ⟨ho, -⟩ | ⟨k, hk, hr⟩⟩ | ⟨-, hcore⟩⟩
    · exact ⟨hc, h⟩
    · cases ho
    · have := (raise_error hr).2; cases k <;> simp [failOutcome] at this
    · cases hcore <;> first | (rename_i h; have := (take_error h).1; cases this) | skip
      all_goals first | (rename_i hr; have := (raise_error hr).2; simp [failOutcome] at this) | skip
  · rintro ⟨hc, rfl⟩; exact step_nil hc

/-- after the start an exit request always succeeds and leaves exactly the quit callback -/
theorem exit_lands {P : Prog} {c0 c c' : Cfg} (h0 : Started c0) (hr : Reach P c0 c) (hA : AfterStart c) (ht : Trans P c c')
    (hx : Tr.exit ∈ newTr c c') : c'.code = [.quitCb] := by
  have hS := shapeStep_reach h0 hr ht
  cases hS
  case body hx' => exact absurd hx hx'
  case exit hcode _ => exact hcode
  case start hc hcode htr => rw [newTr_eq (new := []) (by simp [htr])] at hx; simp at hx
  case loopOn hc hr' hcode htr => rw [newTr_eq (new := []) (by simp [htr])] at hx; simp at hx
  case loopOff hc hr' hcode htr => rw [newTr_eq (new := [.loopReturn 0]) (by simp [htr])] at hx; simp at hx
  case restored hc hcode htr => rw [newTr_eq (new := []) (by simp [htr])] at hx; simp at hx
  case leave hc hcode htr => exact hcode
  case quit hc hcode hx' hlog => exact absurd hx hx'
  case same hcode hx' => exact absurd hx hx'
  case dead hs hcode hx' => exact absurd hA (hx' hx)

/-- before the start an exit request is not caught: the run dies -/
theorem exit_before_start {P : Prog} {c0 c c' : Cfg} (h0 : Started c0) (hr : Reach P c0 c) (hA : ¬ AfterStart c)
    (ht : Trans P c c') (hx : Tr.exit ∈ newTr c c') : c'.code = [] ∧ ∃ o, step P c = .error (o, c') := by
  have hS := shapeStep_reach h0 hr ht
  cases hS
  case body hx' => exact absurd hx hx'
  case exit hc hB hne hcode _ => exact absurd (open_afterStart hc hB) hA
  case start hc hcode htr => rw [newTr_eq (new := []) (by simp [htr])] at hx; simp at hx
  case loopOn hc hr' hcode htr => rw [newTr_eq (new := []) (by simp [htr])] at hx; simp at hx
  case loopOff hc hr' hcode htr => rw [newTr_eq (new := [.loopReturn 0]) (by simp [htr])] at hx; simp at hx
  case restored hc hcode htr => rw [newTr_eq (new := []) (by simp [htr])] at hx; simp at hx
  case leave hc hcode htr => rw [newTr_eq (new := []) (by simp [htr])] at hx; simp at hx
  case quit hc hcode hx' hlog => exact absurd hx hx'
  case same hcode hx' => exact absurd hx hx'
  case dead hs hcode hx' => exact ⟨hcode, hs⟩

theorem blocked_of_take {P : Prog} {c c' : Cfg} {o : Outcome} {rest : List Instr}
    (hc : c.code = .getDispatch :: rest ∨ ∃ cls t, c.code = .waitStep cls t :: rest)
    (hs : step P c = .error (o, c')) : o = .blocked := by
  rcases hc with hc | ⟨cls, t, hc⟩
  · have := core_error hc rfl hs; cases this; rename_i h; exact (take_error h).1
  · have := core_error hc rfl hs; cases this; rename_i h; exact (take_error h).1


/-- no handler call after force-quit (set after the start), in the whole rest of the execution -/
theorem fq_no_call {P : Prog} {c0 c c1 c2 : Cfg} (h0 : Started c0) (hr : Reach P c0 c) (hA : AfterStart c)
    (hf : c.L.forceQuit = true) (hs : Steps P c c1) (ht : Trans P c1 c2) (h : HRef) (d : Option Nat) (s : Sig) :
    Tr.call h d s ∉ newTr c1 c2 := by
  intro hm
  have hf1 := (fq_persist_steps hA hf hs).2
  have hhead := (trans_origin ht).toNewTr.2 _ hm
  obtain ⟨_, _, _, _, hf0⟩ := (codeInv_reach h0 (reach_steps hr hs)).headCall h d s hhead
  rw [hf1] at hf0; cases hf0

theorem quit_once {P : Prog} {c0 c : Cfg} (h0 : Started c0) (hr : Reach P c0 c) :
    c.log.countP isQuitcbEv ≤ 1 ∧ (c.log.countP isQuitcbEv = 1 → c.code = []) ∧
    (∀ d, Ev.quitcb d ∈ c.log → c0.L.quitCb = some d) ∧ c.L.quitCb = c0.L.quitCb := by
  obtain ⟨hq, he⟩ := quitInv_reach h0 hr
  refine ⟨?_, ?_, hq.arg, he⟩
  · rcases hq.count with h | ⟨h, -⟩ <;> omega
  · intro h1
    rcases hq.count with h | ⟨-, h⟩
    · omega
    · exact h

end Simpleline.Dispatch
