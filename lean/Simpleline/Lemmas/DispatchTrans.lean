import Simpleline.Lemmas.DispatchCore

namespace Simpleline.Dispatch
open Simpleline

/-! ### every step is a core step or a soft step -/

theorem other_ok {P : Prog} {c c' : Cfg} {rest : List Instr} (h : OtherStep P c rest) (hs : step P c = .ok c') :
    ∃ m, Soft rest c m ∧ (c' = m ∨ ∃ k, k ≠ Kind.sysexit ∧ m.raise k = .ok c') := by
  unfold OtherStep OtherRes at h
  obtain ⟨m, hm, h | ⟨k, hk, h⟩ | h⟩ := h
  · rw [h] at hs; cases hs; exact ⟨_, hm, .inl rfl⟩
  · rw [h] at hs; exact ⟨m, hm, .inr ⟨k, hk, hs⟩⟩
  · rw [h] at hs; cases hs

theorem other_error {P : Prog} {c c' : Cfg} {o : Outcome} {rest : List Instr} (h : OtherStep P c rest)
    (hs : step P c = .error (o, c')) :
    ∃ m, Soft rest c m ∧ ((o = .livelock ∧ c' = m) ∨ ∃ k, k ≠ Kind.sysexit ∧ m.raise k = .error (o, c')) := by
  unfold OtherStep OtherRes at h
  obtain ⟨m, hm, h | ⟨k, hk, h⟩ | h⟩ := h
  · rw [h] at hs; cases hs
  · rw [h] at hs; exact ⟨m, hm, .inr ⟨k, hk, hs⟩⟩
  · rw [h] at hs; cases hs; exact ⟨_, hm, .inl ⟨rfl, rfl⟩⟩

theorem step_ok_code {P : Prog} {c c' : Cfg} (hs : step P c = .ok c') : ∃ ins rest, c.code = ins :: rest := by
  cases hc : c.code with
  | nil => simp [step, hc] at hs
  | cons ins rest => exact ⟨ins, rest, rfl⟩

theorem step_nil {P : Prog} {c : Cfg} (hc : c.code = []) : step P c = .error (.returned, c) := by
  simp [step, hc]

/-- a successful step: either of a loop-core instruction, or a soft one possibly followed by a caught exception -/
theorem step_ok_cases {P : Prog} {c c' : Cfg} (hs : step P c = .ok c') :
    ∃ ins rest, c.code = ins :: rest ∧
      ((otherI ins = true ∧ ∃ m, Soft rest c m ∧ (c' = m ∨ ∃ k, k ≠ Kind.sysexit ∧ m.raise k = .ok c')) ∨
       (otherI ins = false ∧ Core P { c with code := rest } ins c')) := by
  obtain ⟨ins, rest, hc⟩ := step_ok_code hs
  refine ⟨ins, rest, hc, ?_⟩
  cases ho : otherI ins
  · right; exact ⟨rfl, core_ok hc ho hs⟩
  · left; exact ⟨rfl, other_ok (step_other hc ho) hs⟩

/-- a halting step -/
theorem step_error_cases {P : Prog} {c c' : Cfg} {o : Outcome} (hs : step P c = .error (o, c')) :
    (c.code = [] ∧ o = .returned ∧ c' = c) ∨
    ∃ ins rest, c.code = ins :: rest ∧
      ((otherI ins = true ∧ ∃ m, Soft rest c m ∧
          ((o = .livelock ∧ c' = m) ∨ ∃ k, k ≠ Kind.sysexit ∧ m.raise k = .error (o, c'))) ∨
       (otherI ins = false ∧ CoreErr P { c with code := rest } ins o c')) := by
  cases hc : c.code with
  | nil => left; rw [step_nil hc] at hs; cases hs; exact ⟨rfl, rfl, rfl⟩
  | cons ins rest =>
    right
    refine ⟨ins, rest, rfl, ?_⟩
    cases ho : otherI ins
    · right; exact ⟨rfl, core_error hc ho hs⟩
    · left; exact ⟨rfl, other_error (step_other hc ho) hs⟩


/-! ### extension of a history by events satisfying a predicate -/

def ExtP {α} (p : α → Prop) (old new : List α) : Prop := ∃ d, new = d ++ old ∧ ∀ t ∈ d, p t

theorem ExtP.refl {α} (p : α → Prop) (old : List α) : ExtP p old old := ⟨[], rfl, by simp⟩

theorem ExtP.cons {α} {p : α → Prop} {old l : List α} {t : α} (ht : p t) (h : ExtP p old l) : ExtP p old (t :: l) := by
  obtain ⟨d, rfl, hd⟩ := h
  exact ⟨t :: d, rfl, by simpa [ht] using hd⟩

theorem ExtP.append {α} {p : α → Prop} {old l d : List α} (hd : ∀ t ∈ d, p t) (h : ExtP p old l) : ExtP p old (d ++ l) := by
  obtain ⟨d', rfl, hd'⟩ := h
  refine ⟨d ++ d', by simp, ?_⟩
  intro t ht; simp at ht; rcases ht with ht | ht; exact hd t ht; exact hd' t ht

theorem ExtP.trans {α} {p : α → Prop} {a b c : List α} (h1 : ExtP p a b) (h2 : ExtP p b c) : ExtP p a c := by
  obtain ⟨d, rfl, hd⟩ := h1
  obtain ⟨d', rfl, hd'⟩ := h2
  exact ExtP.append hd' ⟨d, rfl, hd⟩

theorem ExtP.mono {α} {p q : α → Prop} {old new : List α} (hpq : ∀ t, p t → q t) (h : ExtP p old new) : ExtP q old new := by
  obtain ⟨d, rfl, hd⟩ := h
  exact ⟨d, rfl, fun t ht => hpq t (hd t ht)⟩

theorem Ext.toP {α} {p : α → Bool} {q : α → Prop} {old new : List α} (hpq : ∀ t, p t = true → q t) (h : Ext p old new) :
    ExtP q old new := by
  obtain ⟨d, rfl, hd⟩ := h
  exact ⟨d, rfl, fun t ht => hpq t (hd t ht)⟩

theorem ExtP.toNewTr {p : Tr → Prop} {c c' : Cfg} (h : ExtP p c.tr c'.tr) :
    c'.tr = newTr c c' ++ c.tr ∧ ∀ t ∈ newTr c c', p t := by
  obtain ⟨d, hd, hp⟩ := h
  have : newTr c c' = d := by simp [Simpleline.newTr, hd]
  rw [this]; exact ⟨hd, hp⟩

theorem ExtP.toNewLog {p : Ev → Prop} {c c' : Cfg} (h : ExtP p c.log c'.log) :
    c'.log = newLog c c' ++ c.log ∧ ∀ t ∈ newLog c c', p t := by
  obtain ⟨d, hd, hp⟩ := h
  have : newLog c c' = d := by simp [Simpleline.newLog, hd]
  rw [this]; exact ⟨hd, hp⟩

theorem origin_of_soft {c c' : Cfg} {t : Tr} (h : softT t = true) : TrOrigin c c' t := by
  cases t <;> first | trivial | cases h

theorem origin_enqT {c c' : Cfg} (L : LoopSt) (s : Sig) : TrOrigin c c' (enqT L s) := origin_of_soft (by simp)

theorem origin_emitTr {c c' : Cfg} (P : Prog) (b : Cfg) (e : Ev) : ∀ t ∈ emitTr P b e, TrOrigin c c' t :=
  fun t ht => origin_of_soft (softT_emitTr P b e t ht)

theorem logOrigin_of_soft {c : Cfg} {e : Ev} (h : softE e = true) : LogOrigin c e := by
  cases e <;> first | trivial | cases h

theorem logOrigin_emitLog {c : Cfg} (P : Prog) (b : Cfg) (e : Ev) : ∀ t ∈ emitLog P b e, LogOrigin c t :=
  fun t ht => logOrigin_of_soft (softE_emitLog P b e t ht)

/-- normal form of a successful `take`: possibly a delivery, then the head of the active queue is removed -/
theorem take_ok_nf {c c' : Cfg} {s : Sig} (h : c.take = .ok (s, c')) :
    ∃ Q A' lg tr' n,
      c' = { c with L := { c.L with queues := Q }, A := A', log := lg ++ c.log, tr := .take c.L.active s :: (tr' ++ c.tr), nextSid := n } ∧
      (∀ t ∈ tr', softT t = true) ∧ (∀ e ∈ lg, softE e = true) := by
  obtain ⟨c1, e, es, h1, h2, rfl, rfl⟩ := take_ok h
  rcases h1 with rfl | ⟨_, h1⟩
  · exact ⟨_, c1.A, [], [], c1.nextSid, rfl, by simp, by simp⟩
  · obtain ⟨r, rs, hr, rfl⟩ := deliver_eq h1
    exact ⟨_, _, [.read (c.A.stdin.headD [])], [enqT c.L (lineSig c r)], c.nextSid + 1, rfl, by simp, by simp [softE]⟩


/-- normal form of a caught exception: code is cut back, one trace event is added (`exit`, or the enqueueing of the
`ExceptionSignal`), the queue store may change -/
theorem raise_ok_nf {c c' : Cfg} {k : Kind} (h : c.raise k = .ok c') :
    ∃ code' Q T n,
      c' = { c with code := code', L := { c.L with queues := Q }, tr := T :: c.tr, nextSid := n } ∧
      (T = .exit ∨ softT T = true) ∧ code' <:+ c.code ∧ code'.length < c.code.length := by
  rcases raise_ok h with ⟨rfl, pre, rest, h1, h2, rfl⟩ | ⟨rfl, pre, ins, rest, src, h1, h2, h3, rfl⟩
  · refine ⟨rest, c.L.queues, .exit, c.nextSid, rfl, .inl rfl, ?_, ?_⟩
    · rw [h1]; exact List.suffix_append_of_suffix (List.suffix_cons _ _)
    · simp [h1]; omega
  · refine ⟨afterCatch ins rest, _, _, _, rfl, .inr (softT_enqT _ _), ?_, ?_⟩
    · rw [h1]; exact (afterCatch_suffix _ _).trans (List.suffix_append_of_suffix (List.suffix_cons _ _))
    · have := (afterCatch_suffix ins rest).length_le
      simp [h1]; omega

macro "origin_tac" hc:term : tactic => `(tactic| (
  (try simp only [push, Cfg.trace, enqueue_eq, emit_eq]) <;>
  repeat' first
    | exact ExtP.refl _ _
    | apply ExtP.append (origin_emitTr _ _ _)
    | apply ExtP.cons (origin_enqT _ _)
    | apply ExtP.cons (by simp_all [TrOrigin, $hc:term])))

theorem core_origin {P : Prog} {c c' : Cfg} {ins : Instr} {rest : List Instr} (hc : c.code = ins :: rest)
    (h : Core P { c with code := rest } ins c') : ExtP (TrOrigin c c') c.tr c'.tr := by
  cases h
  case getDispatch s c1 h =>
    obtain ⟨Q, A', lg, tr', n, rfl, h1, h2⟩ := take_ok_nf h
    refine ExtP.cons ?_ (ExtP.append (fun t ht => origin_of_soft (h1 t ht)) (ExtP.refl _ _))
    simp [TrOrigin, hc, push]
  case waitTake cls t s c1 hr h =>
    obtain ⟨Q, A', lg, tr', n, rfl, h1, h2⟩ := take_ok_nf h
    refine ExtP.cons ?_ (ExtP.append (fun t ht => origin_of_soft (h1 t ht)) (ExtP.refl _ _))
    simp at hr
    simp [TrOrigin, hc, push, hr]
  case popErr h hr =>
    obtain ⟨code', Q, T, n, rfl, hT, -, -⟩ := raise_ok_nf hr
    refine ExtP.cons ?_ (ExtP.refl _ _)
    rcases hT with rfl | hT
    · trivial
    · exact origin_of_soft hT
  case popExit q h h2 hr =>
    obtain ⟨code', Q, T, n, rfl, hT, -, -⟩ := raise_ok_nf hr
    refine ExtP.cons ?_ (ExtP.cons ?_ (ExtP.refl _ _))
    · rcases hT with rfl | hT
      · trivial
      · exact origin_of_soft hT
    · simp at h
      simp [TrOrigin, hc, h]
  all_goals origin_tac hc


def exitOrSoft (t : Tr) : Prop := t = .exit ∨ softT t = true

theorem origin_of_exitOrSoft {c c' : Cfg} {t : Tr} (h : exitOrSoft t) : TrOrigin c c' t := by
  rcases h with rfl | h
  · trivial
  · exact origin_of_soft h

/-- what raising an exception does to the trace and the log, whether it is caught or not -/
theorem raise_hist {m c' : Cfg} {k : Kind} {r : Except (Outcome × Cfg) Cfg} (hr : m.raise k = r)
    (h : r = .ok c' ∨ ∃ o, r = .error (o, c')) : ExtP exitOrSoft m.tr c'.tr ∧ c'.log = m.log := by
  subst hr
  rcases h with h | ⟨o, h⟩
  · obtain ⟨code', Q, T, n, rfl, hT, -, -⟩ := raise_ok_nf h
    exact ⟨ExtP.cons hT (ExtP.refl _ _), rfl⟩
  · obtain ⟨rfl, -⟩ := raise_error h
    cases k
    · exact ⟨ExtP.cons (.inl rfl) (ExtP.refl _ _), rfl⟩
    · exact ⟨ExtP.refl _ _, rfl⟩
    · exact ⟨ExtP.refl _ _, rfl⟩

theorem coreErr_origin {P : Prog} {c c' : Cfg} {o : Outcome} {ins : Instr} {rest : List Instr} (hc : c.code = ins :: rest)
    (h : CoreErr P { c with code := rest } ins o c') : ExtP (TrOrigin c c') c.tr c'.tr := by
  cases h
  case refuse => exact ExtP.refl _ _
  case getBlocked h =>
    obtain ⟨-, h | h, -, -⟩ := take_error h
    · subst h; exact ExtP.refl _ _
    · obtain ⟨r, rs, hr, rfl⟩ := deliver_eq h
      exact ExtP.cons (origin_enqT _ _) (ExtP.refl _ _)
  case waitBlocked h =>
    obtain ⟨-, h | h, -, -⟩ := take_error h
    · subst h; exact ExtP.refl _ _
    · obtain ⟨r, rs, hr, rfl⟩ := deliver_eq h
      exact ExtP.cons (origin_enqT _ _) (ExtP.refl _ _)
  case kill s => exact ExtP.cons (by simp [TrOrigin, hc]) (ExtP.refl _ _)
  case popErr h hr =>
    exact (raise_hist hr (.inr ⟨_, rfl⟩)).1.mono (fun _ => origin_of_exitOrSoft)
  case popExit q h h2 hr =>
    refine ExtP.trans (ExtP.cons ?_ (ExtP.refl _ _)) ((raise_hist hr (.inr ⟨_, rfl⟩)).1.mono (fun _ => origin_of_exitOrSoft))
    simp at h
    simp [TrOrigin, hc, h]

theorem soft_origin {rest : List Instr} {c m c' : Cfg} (hm : Soft rest c m) : ExtP (TrOrigin c c') c.tr m.tr :=
  hm.tr.toP (fun _ => origin_of_soft)

/-- every trace event a transition adds has its origin in the configuration the transition started from -/
theorem trans_origin {P : Prog} {c c' : Cfg} (h : Trans P c c') : ExtP (TrOrigin c c') c.tr c'.tr := by
  cases h with
  | step hs =>
    obtain ⟨ins, rest, hc, ⟨-, m, hm, rfl | ⟨k, -, hk⟩⟩ | ⟨-, hcore⟩⟩ := step_ok_cases hs
    · exact soft_origin hm
    · exact (soft_origin hm).trans ((raise_hist hk (.inl rfl)).1.mono (fun _ => origin_of_exitOrSoft))
    · exact core_origin hc hcore
  | deliver hd =>
    obtain ⟨r, rs, hr, rfl⟩ := deliver_eq hd
    exact ExtP.cons (origin_enqT _ _) (ExtP.refl _ _)
  | halt hs =>
    rcases step_error_cases hs with ⟨-, -, rfl⟩ | ⟨ins, rest, hc, ⟨-, m, hm, ⟨-, rfl⟩ | ⟨k, -, hk⟩⟩ | ⟨-, hcore⟩⟩
    · exact ExtP.refl _ _
    · exact soft_origin hm
    · exact (soft_origin hm).trans ((raise_hist hk (.inr ⟨_, rfl⟩)).1.mono (fun _ => origin_of_exitOrSoft))
    · exact coreErr_origin hc hcore


/-! ### the log -/

macro "log_tac" hc:term : tactic => `(tactic| (
  (try simp only [push, Cfg.trace, enqueue_eq, emit_eq]) <;>
  repeat' first
    | exact ExtP.refl _ _
    | apply ExtP.append (logOrigin_emitLog _ _ _)
    | apply ExtP.cons (by simp_all [LogOrigin, $hc:term])))

theorem core_logOrigin {P : Prog} {c c' : Cfg} {ins : Instr} {rest : List Instr} (hc : c.code = ins :: rest)
    (h : Core P { c with code := rest } ins c') : ExtP (LogOrigin c) c.log c'.log := by
  cases h
  case getDispatch s c1 h =>
    obtain ⟨Q, A', lg, tr', n, rfl, h1, h2⟩ := take_ok_nf h
    exact ExtP.append (fun t ht => logOrigin_of_soft (h2 t ht)) (ExtP.refl _ _)
  case waitTake cls t s c1 hr h =>
    obtain ⟨Q, A', lg, tr', n, rfl, h1, h2⟩ := take_ok_nf h
    exact ExtP.append (fun t ht => logOrigin_of_soft (h2 t ht)) (ExtP.refl _ _)
  case popErr h hr => rw [(raise_hist hr (.inl rfl)).2]; exact ExtP.refl _ _
  case popExit q h h2 hr => rw [(raise_hist hr (.inl rfl)).2]; exact ExtP.refl _ _
  all_goals log_tac hc

theorem coreErr_logOrigin {P : Prog} {c c' : Cfg} {o : Outcome} {ins : Instr} {rest : List Instr}
    (h : CoreErr P { c with code := rest } ins o c') : ExtP (LogOrigin c) c.log c'.log := by
  cases h
  case refuse => exact ExtP.refl _ _
  case getBlocked h =>
    obtain ⟨-, h | h, -, -⟩ := take_error h
    · subst h; exact ExtP.refl _ _
    · obtain ⟨r, rs, hr, rfl⟩ := deliver_eq h
      exact ExtP.cons trivial (ExtP.refl _ _)
  case waitBlocked h =>
    obtain ⟨-, h | h, -, -⟩ := take_error h
    · subst h; exact ExtP.refl _ _
    · obtain ⟨r, rs, hr, rfl⟩ := deliver_eq h
      exact ExtP.cons trivial (ExtP.refl _ _)
  case kill s => exact ExtP.refl _ _
  case popErr h hr => rw [(raise_hist hr (.inr ⟨_, rfl⟩)).2]; exact ExtP.refl _ _
  case popExit q h h2 hr => rw [(raise_hist hr (.inr ⟨_, rfl⟩)).2]; exact ExtP.refl _ _

theorem soft_logOrigin {rest : List Instr} {c m : Cfg} (hm : Soft rest c m) : ExtP (LogOrigin c) c.log m.log :=
  hm.log.toP (fun _ => logOrigin_of_soft)

/-- every observable event a transition logs has its origin in the configuration the transition started from -/
theorem trans_logOrigin {P : Prog} {c c' : Cfg} (h : Trans P c c') : ExtP (LogOrigin c) c.log c'.log := by
  cases h with
  | step hs =>
    obtain ⟨ins, rest, hc, ⟨-, m, hm, rfl | ⟨k, -, hk⟩⟩ | ⟨-, hcore⟩⟩ := step_ok_cases hs
    · exact soft_logOrigin hm
    · rw [(raise_hist hk (.inl rfl)).2]; exact soft_logOrigin hm
    · exact core_logOrigin hc hcore
  | deliver hd =>
    obtain ⟨r, rs, hr, rfl⟩ := deliver_eq hd
    exact ExtP.cons trivial (ExtP.refl _ _)
  | halt hs =>
    rcases step_error_cases hs with ⟨-, -, rfl⟩ | ⟨ins, rest, hc, ⟨-, m, hm, ⟨-, rfl⟩ | ⟨k, -, hk⟩⟩ | ⟨-, hcore⟩⟩
    · exact ExtP.refl _ _
    · exact soft_logOrigin hm
    · rw [(raise_hist hk (.inr ⟨_, rfl⟩)).2]; exact soft_logOrigin hm
    · exact coreErr_logOrigin hcore

end Simpleline.Dispatch
