import Simpleline.Lemmas.DispatchExec

namespace Simpleline.Dispatch
open Simpleline

/-! ### `since` -/

theorem since_append {e : Tr} {new : List Tr} (h : e ∉ new) (tr : List Tr) : since e (new ++ tr) = new ++ since e tr := by
  induction new with
  | nil => rfl
  | cons t new ih =>
    have ht : t ≠ e := fun he => h (by simp [he])
    simp only [since, List.cons_append, List.takeWhile_cons, ht, ne_eq, not_false_eq_true, decide_true, if_true]
    congr 1
    exact ih (fun hm => h (by simp [hm]))

theorem since_cons_self (e : Tr) (tr : List Tr) : since e (e :: tr) = [] := by
  simp [since]

theorem mem_since_grow {e t : Tr} {new tr : List Tr} (h : e ∉ new) (hm : t ∈ since e tr) : t ∈ since e (new ++ tr) := by
  rw [since_append h]; exact List.mem_append_right _ hm

/-! ### tickets -/

/-- the ticket invariant -/
structure TicketInv (c : Cfg) : Prop where
  /-- ticket ids are below the counter … -/
  lt : ∀ k ∈ c.L.tickets, k.id < c.L.tcounter
  /-- … and distinct -/
  nodup : (c.L.tickets.map (·.id)).Nodup
  /-- every `waitBegin` in the history has an id below the counter -/
  begun : ∀ cls t, Tr.waitBegin cls t ∈ c.tr → t < c.L.tcounter
  /-- every outstanding ticket's wait has begun; if it is marked, a signal of its class was taken since -/
  marked : ∀ k ∈ c.L.tickets, Tr.waitBegin k.line k.id ∈ c.tr ∧
    (k.marked = true → ∃ q s, s.cls = k.line ∧ Tr.take q s ∈ since (.waitBegin k.line k.id) c.tr)
  /-- the signal about to be processed was taken after every outstanding wait began -/
  head : ∀ s, c.code.head? = some (.processSignal s) →
    ∀ k ∈ c.L.tickets, ∃ q, Tr.take q s ∈ since (.waitBegin k.line k.id) c.tr


def isWaitBegin : Tr → Bool
  | .waitBegin _ _ => true
  | _ => false

theorem not_mem_of_noBegin {new : List Tr} (h : ∀ t ∈ new, isWaitBegin t = false) (cls : Cls) (t : Nat) :
    Tr.waitBegin cls t ∉ new := fun hm => by have := h _ hm; simp [isWaitBegin] at this

/-- a transition that leaves the tickets alone and begins no wait -/
theorem TicketInv.keep {c c' : Cfg} {new : List Tr} (hI : TicketInv c) (ht : c'.L.tickets = c.L.tickets)
    (hc : c'.L.tcounter = c.L.tcounter) (htr : c'.tr = new ++ c.tr) (hnew : ∀ t ∈ new, isWaitBegin t = false)
    (hhead : ∀ s, c'.code.head? = some (.processSignal s) →
      c.code.head? = some (.processSignal s) ∨ ∃ q, Tr.take q s ∈ new) : TicketInv c' := by
  have hn := not_mem_of_noBegin hnew
  refine ⟨by rw [ht, hc]; exact hI.lt, by rw [ht]; exact hI.nodup, ?_, ?_, ?_⟩
  · intro cls t hm
    rw [htr] at hm; rw [hc]
    rcases List.mem_append.mp hm with hm | hm
    · exact absurd hm (hn cls t)
    · exact hI.begun cls t hm
  · rw [ht, htr]
    intro k hk
    obtain ⟨h1, h2⟩ := hI.marked k hk
    refine ⟨List.mem_append_right _ h1, fun hm => ?_⟩
    obtain ⟨q, s, hs, hmem⟩ := h2 hm
    exact ⟨q, s, hs, mem_since_grow (hn _ _) hmem⟩
  · rw [ht, htr]
    intro s hs k hk
    rcases hhead s hs with h | ⟨q, h⟩
    · obtain ⟨q, hq⟩ := hI.head s h k hk
      exact ⟨q, mem_since_grow (hn _ _) hq⟩
    · exact ⟨q, by rw [since_append (hn _ _)]; exact List.mem_append_left _ h⟩

theorem softT_noBegin {t : Tr} (h : softT t = true) : isWaitBegin t = false := by
  cases t <;> first | rfl | cases h

theorem exitOrSoft_noBegin {t : Tr} (h : exitOrSoft t) : isWaitBegin t = false := by
  rcases h with rfl | h
  · rfl
  · exact softT_noBegin h

/-- `processSignal s` marks the line of the class of `s` -/
theorem TicketInv.mark {c c' : Cfg} {s : Sig} {new : List Tr} (hI : TicketInv c) (hhd : c.code.head? = some (.processSignal s))
    (ht : c'.L.tickets = mark c.L.tickets s.cls) (hc : c'.L.tcounter = c.L.tcounter) (htr : c'.tr = new ++ c.tr)
    (hnew : ∀ t ∈ new, isWaitBegin t = false) (hhead : ∀ s', c'.code.head? ≠ some (.processSignal s')) : TicketInv c' := by
  have hn := not_mem_of_noBegin hnew
  have hmem : ∀ k' ∈ c'.L.tickets, ∃ k ∈ c.L.tickets, k'.line = k.line ∧ k'.id = k.id ∧
      (k'.marked = true → k.marked = true ∨ k.line = s.cls) := by
    intro k' hk'
    rw [ht] at hk'
    simp only [Simpleline.mark, List.mem_map] at hk'
    obtain ⟨k, hk, rfl⟩ := hk'
    refine ⟨k, hk, ?_⟩
    split
    · rename_i hl; exact ⟨rfl, rfl, fun _ => .inr hl⟩
    · exact ⟨rfl, rfl, fun h => .inl h⟩
  have hids : c'.L.tickets.map (·.id) = c.L.tickets.map (·.id) := by
    rw [ht]; simp only [Simpleline.mark, List.map_map]
    apply List.map_congr_left
    intro k _; simp only [Function.comp]; split <;> rfl
  refine ⟨?_, by rw [hids]; exact hI.nodup, ?_, ?_, fun s' h => absurd h (hhead s')⟩
  · intro k' hk'
    obtain ⟨k, hk, -, hid, -⟩ := hmem k' hk'
    rw [hid, hc]; exact hI.lt k hk
  · intro cls t hm
    rw [htr] at hm; rw [hc]
    rcases List.mem_append.mp hm with hm | hm
    · exact absurd hm (hn cls t)
    · exact hI.begun cls t hm
  · intro k' hk'
    obtain ⟨k, hk, hl, hid, hm⟩ := hmem k' hk'
    obtain ⟨h1, h2⟩ := hI.marked k hk
    rw [hl, hid, htr]
    refine ⟨List.mem_append_right _ h1, fun hmk => ?_⟩
    rcases hm hmk with hold | hline
    · obtain ⟨q, s0, hs0, hmem0⟩ := h2 hold
      exact ⟨q, s0, hs0, mem_since_grow (hn _ _) hmem0⟩
    · obtain ⟨q, hq⟩ := hI.head s hhd k hk
      exact ⟨q, s, hline.symm, mem_since_grow (hn _ _) hq⟩

/-- `process_signals(return_after=cls)` takes a new, unmarked ticket -/
theorem TicketInv.begin {c c' : Cfg} {cls : Cls} (hI : TicketInv c)
    (ht : c'.L.tickets = c.L.tickets ++ [({ line := cls, id := c.L.tcounter, marked := false } : Ticket)])
    (hc : c'.L.tcounter = c.L.tcounter + 1) (htr : c'.tr = .waitBegin cls c.L.tcounter :: c.tr)
    (hhead : ∀ s', c'.code.head? ≠ some (.processSignal s')) : TicketInv c' := by
  have hfresh : ∀ k ∈ c.L.tickets, Tr.waitBegin k.line k.id ≠ Tr.waitBegin cls c.L.tcounter := by
    intro k hk he
    have := hI.lt k hk
    have hid : k.id = c.L.tcounter := by injection he
    omega
  refine ⟨?_, ?_, ?_, ?_, fun s' h => absurd h (hhead s')⟩
  · intro k hk
    rw [ht] at hk; rw [hc]
    rcases List.mem_append.mp hk with hk | hk
    · exact Nat.lt_succ_of_lt (hI.lt k hk)
    · simp at hk; subst hk; exact Nat.lt_succ_self _
  · rw [ht, List.map_append, List.nodup_append]
    refine ⟨hI.nodup, by simp, ?_⟩
    intro a ha b hb
    simp at hb; subst hb
    simp only [List.mem_map] at ha
    obtain ⟨k, hk, rfl⟩ := ha
    exact Nat.ne_of_lt (hI.lt k hk)
  · intro cls' t hm
    rw [htr] at hm; rw [hc]
    rcases List.mem_cons.mp hm with hm | hm
    · cases hm; exact Nat.lt_succ_self _
    · exact Nat.lt_succ_of_lt (hI.begun cls' t hm)
  · intro k hk
    rw [ht] at hk; rw [htr]
    rcases List.mem_append.mp hk with hk | hk
    · obtain ⟨h1, h2⟩ := hI.marked k hk
      refine ⟨List.mem_cons_of_mem _ h1, fun hm => ?_⟩
      obtain ⟨q, s, hs, hmem⟩ := h2 hm
      refine ⟨q, s, hs, ?_⟩
      exact mem_since_grow (new := [_]) (by
        intro hm'; simp only [List.mem_singleton] at hm'; exact hfresh k hk hm') hmem
    · simp at hk; subst hk
      exact ⟨by simp, fun hm => by cases hm⟩

/-- a released waiter hands its ticket back -/
theorem TicketInv.release {c c' : Cfg} {cls : Cls} {t : Nat} {new : List Tr} (hI : TicketInv c)
    (ht : c'.L.tickets = c.L.tickets.filter fun k => ¬ (k.line = cls ∧ k.id = t)) (hc : c'.L.tcounter = c.L.tcounter)
    (htr : c'.tr = new ++ c.tr) (hnew : ∀ t ∈ new, isWaitBegin t = false)
    (hhead : ∀ s', c'.code.head? ≠ some (.processSignal s')) : TicketInv c' := by
  have hn := not_mem_of_noBegin hnew
  have hsub : ∀ k ∈ c'.L.tickets, k ∈ c.L.tickets := by
    intro k hk; rw [ht] at hk; exact (List.mem_filter.mp hk).1
  refine ⟨?_, ?_, ?_, ?_, fun s' h => absurd h (hhead s')⟩
  · intro k hk; rw [hc]; exact hI.lt k (hsub k hk)
  · rw [ht]; exact (List.filter_sublist.map _).nodup hI.nodup
  · intro cls' t' hm
    rw [htr] at hm; rw [hc]
    rcases List.mem_append.mp hm with hm | hm
    · exact absurd hm (hn cls' t')
    · exact hI.begun cls' t' hm
  · intro k hk
    obtain ⟨h1, h2⟩ := hI.marked k (hsub k hk)
    rw [htr]
    refine ⟨List.mem_append_right _ h1, fun hm => ?_⟩
    obtain ⟨q, s, hs, hmem⟩ := h2 hm
    exact ⟨q, s, hs, mem_since_grow (hn _ _) hmem⟩


macro "noBegin_tac" : tactic => `(tactic| (
  (try simp only [push, Cfg.trace, enqueue_eq, emit_eq, excEnq]) <;>
  repeat' first
    | exact ExtP.refl _ _
    | apply ExtP.append (fun t ht => softT_noBegin (softT_emitTr _ _ _ t ht))
    | apply ExtP.append (fun t ht => softT_noBegin (by first | exact ‹∀ t ∈ _, softT t = true› t ht))
    | apply ExtP.cons (by first | exact softT_noBegin (softT_enqT _ _) | rfl)))

theorem TicketInv.core {P : Prog} {rest : List Instr} {ins : Instr} {c c' : Cfg} (hI : TicketInv c) (hC : CodeInv c)
    (hc : c.code = ins :: rest) (h : CoreN P { c with code := rest } ins c') : TicketInv c' := by
  have hrest : ∀ s, rest.head? ≠ some (.processSignal s) := by
    intro s hh
    have := hC.noPS _ (by rw [hc]; exact List.mem_of_mem_head? hh)
    simp [isPS] at this
  have keep : ∀ {c'' : Cfg}, c''.L.tickets = c.L.tickets → c''.L.tcounter = c.L.tcounter →
      ExtP (fun t => isWaitBegin t = false) c.tr c''.tr → (∀ s, c''.code.head? ≠ some (.processSignal s)) → TicketInv c'' := by
    intro c'' h1 h2 ⟨new, h3, h4⟩ h5
    exact hI.keep h1 h2 h3 h4 (fun s hs => absurd hs (h5 s))
  cases h
  case procWait cls =>
    exact hI.begin (cls := cls) (by simp [push, Cfg.trace]) (by simp [push, Cfg.trace]) (by simp [push, Cfg.trace])
      (by simp [push])
  case psDispatch s hne =>
    exact hI.mark (s := s) (new := []) (by simp [hc]) (by simp [push]) (by simp [push]) (by simp [push]) (by simp) (by simp [push])
  case psKill s hno he =>
    exact hI.mark (s := s) (new := []) (by simp [hc]) (by simp [push]) (by simp [push]) (by simp [push]) (by simp) (by simp [push])
  case psNone s hno he =>
    exact hI.mark (s := s) (new := [.dispatched s 0]) (by simp [hc]) (by simp [Cfg.trace]) (by simp [Cfg.trace])
      (by simp [Cfg.trace]) (by simp [isWaitBegin]) (by simpa [Cfg.trace] using hrest)
  case waitDone cls t hm =>
    exact hI.release (cls := cls) (t := t) (new := [.waitEnd cls t true]) (by simp [Cfg.trace]) (by simp [Cfg.trace])
      (by simp [Cfg.trace]) (by simp [isWaitBegin]) (by simpa [Cfg.trace] using hrest)
  case getDispatch s Q A' lg tr' n h1 h2 =>
    refine hI.keep (new := .take c.L.active s :: tr') rfl rfl rfl ?_ ?_
    · intro t ht
      rcases List.mem_cons.mp ht with rfl | ht
      · rfl
      · exact softT_noBegin (h1 t ht)
    · intro s' hs'; simp at hs'; subst hs'; exact .inr ⟨c.L.active, by simp⟩
  case waitTake cls t s Q A' lg tr' n hr h1 h2 =>
    refine hI.keep (new := .take c.L.active s :: tr') rfl rfl rfl ?_ ?_
    · intro t ht
      rcases List.mem_cons.mp ht with rfl | ht
      · rfl
      · exact softT_noBegin (h1 t ht)
    · intro s' hs'; simp at hs'; subst hs'; exact .inr ⟨c.L.active, by simp⟩
  case iterFirst e es he hr =>
    refine hI.keep (new := [.take c.L.active e.2.2]) (by simp [push]) (by simp [push]) (by simp [push]) (by simp [isWaitBegin]) ?_
    intro s' hs'; simp [push] at hs'; subst hs'; exact .inr ⟨c.L.active, by simp⟩
  case iterSame pr e es he hr hp =>
    refine hI.keep (new := [.take c.L.active e.2.2]) (by simp [push]) (by simp [push]) (by simp [push]) (by simp [isWaitBegin]) ?_
    intro s' hs'; simp [push] at hs'; subst hs'; exact .inr ⟨c.L.active, by simp⟩
  case popErr pre x rest' src h hcode hpre hx =>
    refine keep (by simp [excEnq]) (by simp [excEnq]) (by noBegin_tac) ?_
    intro s hs
    have hsuf : afterCatch x rest' <:+ rest := by
      rw [show rest = pre ++ x :: rest' from hcode]
      exact (afterCatch_suffix _ _).trans (List.suffix_append_of_suffix (List.suffix_cons _ _))
    have := hC.noPS _ (by rw [hc]; exact hsuf.subset (List.mem_of_mem_head? hs))
    simp [isPS] at this
  case popExit q pre rest' h h2 hcode hpre =>
    refine keep rfl rfl (by noBegin_tac) ?_
    intro s hs
    have hsuf : rest' <:+ rest := by
      rw [show rest = pre ++ .catchExit :: rest' from hcode]
      exact List.suffix_append_of_suffix (List.suffix_cons _ _)
    have := hC.noPS _ (by rw [hc]; exact hsuf.subset (List.mem_of_mem_head? hs))
    simp [isPS] at this
  case callUser hid d s =>
    refine keep (by simp [push, emit_eq, Cfg.trace]) (by simp [push, emit_eq, Cfg.trace]) (by noBegin_tac) ?_
    intro s' hs'
    simp only [push, bodyOf, emit_eq, Cfg.trace] at hs'
    cases hacts : P.handlerScript hid (invNo (Tr.call (HRef.user hid) d s :: c.tr) hid) with
    | nil => simp [hacts] at hs'
    | cons a as => simp [hacts] at hs'
  case callSys h d s hu he =>
    refine keep (by simp [push, Cfg.trace]) (by simp [push, Cfg.trace]) (by noBegin_tac) ?_
    intro s' hs'
    cases h <;> simp [push, bodyOf, Cfg.trace] at hs'
    · exact absurd rfl (hu _)
    · exact absurd rfl he
  all_goals
    refine keep (by simp [push, Cfg.trace, enqueue_eq, emit_eq]) (by simp [push, Cfg.trace, enqueue_eq, emit_eq])
      (by noBegin_tac) ?_
    first
      | (simp [push, Cfg.trace, enqueue_eq, emit_eq]; done)
      | (simpa [push, Cfg.trace, enqueue_eq, emit_eq] using hrest)


theorem TicketInv.frame {c c' : Cfg} {rest : List Instr} {ins : Instr} (hI : TicketInv c) (hC : CodeInv c)
    (hc : c.code = ins :: rest) (hf : Frame c c') (htr : ExtP (fun t => isWaitBegin t = false) c.tr c'.tr)
    (hcode : ∀ i ∈ c'.code, softI i = true ∨ i ∈ rest) : TicketInv c' := by
  obtain ⟨new, h3, h4⟩ := htr
  refine hI.keep hf.tickets hf.tcounter h3 h4 (fun s hs => ?_)
  exfalso
  rcases hcode _ (List.mem_of_mem_head? hs) with h | h
  · cases h
  · have := hC.noPS _ (by rw [hc]; exact h)
    simp [isPS] at this

theorem TicketInv.dead {c c' : Cfg} (hI : TicketInv c) (ht : c'.L.tickets = c.L.tickets) (hc : c'.L.tcounter = c.L.tcounter)
    (htr : ExtP (fun t => isWaitBegin t = false) c.tr c'.tr) (hcode : ∀ s, c'.code.head? ≠ some (.processSignal s)) :
    TicketInv c' := by
  obtain ⟨new, h3, h4⟩ := htr
  exact hI.keep ht hc h3 h4 (fun s hs => absurd hs (hcode s))

theorem ticketInv_trans {P : Prog} {c c' : Cfg} (hI : TicketInv c) (hC : CodeInv c) (ht : Trans P c c') : TicketInv c' := by
  cases ht with
  | step hs =>
    obtain ⟨ins, rest, hc, ⟨ho, m, hm, hf⟩ | ⟨-, hcore⟩⟩ := step_ok_casesN hs
    · refine hI.frame hC hc (hm.frame hf) ?_ (other_code_mem hm hf)
      have h1 : ExtP (fun t => isWaitBegin t = false) c.tr m.tr := hm.tr.toP (fun _ => softT_noBegin)
      cases hf
      · exact h1
      · exact ExtP.cons rfl h1
      · exact ExtP.cons (softT_noBegin (softT_enqT _ _)) h1
    · exact hI.core hC hc hcore
  | deliver hd =>
    obtain ⟨r, rs, hr, rfl⟩ := deliver_eq hd
    exact hI.keep (new := [enqT c.L (lineSig c r)]) rfl rfl rfl (by simp [softT_noBegin]) (fun s hs => .inl hs)
  | halt hs =>
    rcases step_error_cases hs with ⟨-, -, rfl⟩ | ⟨ins, rest, hc, ⟨ho, m, hm, ⟨-, rfl⟩ | ⟨k, -, hk⟩⟩ | ⟨-, hcore⟩⟩
    · exact hI
    · exact hI.frame hC hc (hm.frame .same) (hm.tr.toP (fun _ => softT_noBegin)) (other_code_mem hm .same)
    · refine hI.dead ?_ ?_ ?_ (by rw [(raise_error hk).1]; simp)
      · rw [(raise_error hk).1]; cases k <;> exact hm.tickets
      · rw [(raise_error hk).1]; cases k <;> exact hm.tcounter
      · exact (hm.tr.toP (fun _ => softT_noBegin)).trans ((raise_hist hk (.inr ⟨_, rfl⟩)).1.mono (fun _ => exitOrSoft_noBegin))
    · have hrest : ∀ s, rest.head? ≠ some (.processSignal s) := by
        intro s hh
        have := hC.noPS _ (by rw [hc]; exact List.mem_of_mem_head? hh)
        simp [isPS] at this
      cases hcore
      case refuse => exact hI.dead rfl rfl (ExtP.refl _ _) hrest
      case getBlocked h =>
        obtain ⟨-, h | h, -, -⟩ := take_error h
        · subst h; exact hI.dead rfl rfl (ExtP.refl _ _) hrest
        · obtain ⟨r, rs, hr, rfl⟩ := deliver_eq h
          exact hI.dead rfl rfl (ExtP.cons (softT_noBegin (softT_enqT _ _)) (ExtP.refl _ _)) hrest
      case waitBlocked h =>
        obtain ⟨-, h | h, -, -⟩ := take_error h
        · subst h; exact hI.dead rfl rfl (ExtP.refl _ _) hrest
        · obtain ⟨r, rs, hr, rfl⟩ := deliver_eq h
          exact hI.dead rfl rfl (ExtP.cons (softT_noBegin (softT_enqT _ _)) (ExtP.refl _ _)) hrest
      case kill => exact hI.dead rfl rfl (ExtP.cons rfl (ExtP.refl _ _)) (by simp)
      case popErr h hr =>
        refine hI.dead ?_ ?_ ((raise_hist hr (.inr ⟨_, rfl⟩)).1.mono (fun _ => exitOrSoft_noBegin)) (by rw [(raise_error hr).1]; simp)
        · rw [(raise_error hr).1]; rfl
        · rw [(raise_error hr).1]; rfl
      case popExit q h h2 hr =>
        refine hI.dead ?_ ?_ ?_ (by rw [(raise_error hr).1]; simp)
        · rw [(raise_error hr).1]; rfl
        · rw [(raise_error hr).1]; rfl
        · exact ExtP.trans (ExtP.cons rfl (ExtP.refl _ _)) ((raise_hist hr (.inr ⟨_, rfl⟩)).1.mono (fun _ => exitOrSoft_noBegin))

theorem TicketInv.init (init : List Act) (handlers : List (Cls × HRef × Option Nat)) (quitCb : Option Nat) (stdin : List Str) :
    TicketInv (initCfg init handlers quitCb stdin) := by
  refine ⟨by simp [initCfg], by simp [initCfg], by simp [initCfg], by simp [initCfg], ?_⟩
  intro s hs k hk
  simp [initCfg] at hk

theorem ticketInv_reach {P : Prog} {c0 c : Cfg} (h0 : Started c0) (hr : Reach P c0 c) : TicketInv c := by
  refine reach_induction ?_ ?_ hr
  · obtain ⟨i, h, q, s, rfl⟩ := h0; exact .init i h q s
  · intro c c' hr hI ht
    exact ticketInv_trans hI (codeInv_reach h0 hr) ht


/-! ### single steps of waiting and non-waiting processing -/

theorem mark_spec (ts : List Ticket) (cls : Cls) :
    (mark ts cls).length = ts.length ∧
    ∀ i (hi : i < ts.length) (hi' : i < (mark ts cls).length),
      (mark ts cls)[i].line = ts[i].line ∧ (mark ts cls)[i].id = ts[i].id ∧
      ((mark ts cls)[i].marked = true ↔ ts[i].marked = true ∨ ts[i].line = cls) := by
  refine ⟨by simp [Simpleline.mark], fun i hi hi' => ?_⟩
  simp only [Simpleline.mark, List.getElem_map]
  split
  · rename_i h; simp [h]
  · rename_i h; simp [h]

theorem mark_all (ts : List Ticket) (cls : Cls) : ∀ k ∈ mark ts cls, k.line = cls → k.marked = true := by
  intro k hk hl
  simp only [Simpleline.mark, List.mem_map] at hk
  obtain ⟨k0, -, rfl⟩ := hk
  split
  · rfl
  · rename_i h; split at hl <;> simp_all

theorem step_procWait (P : Prog) (c : Cfg) (cls : Cls) (rest : List Instr) (hc : c.code = .procWait cls :: rest) :
    step P c = .ok { c with code := .waitStep cls c.L.tcounter :: rest,
                            L := { c.L with tcounter := c.L.tcounter + 1,
                                            tickets := c.L.tickets ++ [({ line := cls, id := c.L.tcounter, marked := false } : Ticket)] },
                            tr := .waitBegin cls c.L.tcounter :: c.tr } := by
  simp [step, hc, push, Cfg.trace]

theorem step_waitCheck_marked (P : Prog) (c : Cfg) (cls : Cls) (t : Nat) (rest : List Instr) (hc : c.code = .waitCheck cls t :: rest)
    (hm : ∃ k ∈ c.L.tickets, k.line = cls ∧ k.id = t ∧ k.marked = true) :
    step P c = .ok { c with code := rest,
                            L := { c.L with tickets := c.L.tickets.filter fun k => ¬ (k.line = cls ∧ k.id = t) },
                            tr := .waitEnd cls t true :: c.tr } := by
  have : c.L.tickets.any (fun k => decide (k.line = cls ∧ k.id = t ∧ k.marked = true)) = true := by
    obtain ⟨k, hk, h1, h2, h3⟩ := hm
    simp only [List.any_eq_true, decide_eq_true_eq]
    exact ⟨k, hk, h1, h2, h3⟩
  simp only [step, hc]
  rw [if_pos this]
  simp [Cfg.trace]

theorem step_waitCheck_unmarked (P : Prog) (c : Cfg) (cls : Cls) (t : Nat) (rest : List Instr) (hc : c.code = .waitCheck cls t :: rest)
    (hm : ∀ k ∈ c.L.tickets, k.line = cls → k.id = t → k.marked = false) :
    step P c = .ok { c with code := .waitStep cls t :: rest } := by
  have : ¬ (c.L.tickets.any (fun k => decide (k.line = cls ∧ k.id = t ∧ k.marked = true)) = true) := by
    simp only [List.any_eq_true, decide_eq_true_eq, not_exists, not_and]
    intro k hk h1 h2 h3
    rw [hm k hk h1 h2] at h3; cases h3
  simp only [step, hc]
  rw [if_neg this]
  simp [push]

/-- the non-waiting form never halts the machine: it never blocks -/
theorem step_procIter_ok (P : Prog) (c : Cfg) (p : Option Int) (rest : List Instr) (hc : c.code = .procIter p :: rest) :
    ∃ c', step P c = .ok c' := by
  simp only [step, hc]
  split
  · exact ⟨_, rfl⟩
  · split
    · exact ⟨_, rfl⟩
    · cases p with
      | none => exact ⟨_, rfl⟩
      | some pr => simp only; split <;> exact ⟨_, rfl⟩

theorem step_procIter_empty (P : Prog) (c : Cfg) (p : Option Int) (rest : List Instr) (hc : c.code = .procIter p :: rest)
    (he : c.L.activeQ.entries = []) : step P c = .ok { c with code := rest, tr := .procEnd :: c.tr } := by
  have he' : ({ c with code := rest } : Cfg).L.activeQ.entries = [] := he
  simp only [step, hc]
  split
  · simp [Cfg.trace]
  · rename_i e es heq; rw [he'] at heq; cases heq

theorem step_procIter_flag_down (P : Prog) (c : Cfg) (p : Option Int) (rest : List Instr) (hc : c.code = .procIter p :: rest)
    (hr : c.L.runLoop = false) : step P c = .ok { c with code := rest, tr := .procEnd :: c.tr } := by
  simp only [step, hc]
  split
  · simp [Cfg.trace]
  · simp [hr, Cfg.trace]

/-- the non-waiting form takes the head of the active queue if it is the first signal or has the priority of the first -/
theorem step_procIter_take (P : Prog) (c : Cfg) (p : Option Int) (rest : List Instr) (hc : c.code = .procIter p :: rest)
    (e : Int × Nat × Sig) (es : List (Int × Nat × Sig)) (he : c.L.activeQ.entries = e :: es) (hr : c.L.runLoop = true)
    (hp : p = none ∨ p = some e.2.2.prio) :
    step P c = .ok { c with code := .processSignal e.2.2 :: .procIter (some e.2.2.prio) :: rest,
                            L := { c.L with queues := listSet c.L.queues c.L.active fun q => { q with entries := es } },
                            tr := .take c.L.active e.2.2 :: c.tr } := by
  have he' : ({ c with code := rest } : Cfg).L.activeQ.entries = e :: es := he
  simp only [step, hc]
  split
  · rename_i heq; rw [he'] at heq; cases heq
  · rename_i e' es' heq
    rw [he'] at heq; cases heq
    rcases hp with rfl | rfl
    · simp [hr, push]
    · simp [hr, push]

/-- … and stops at the first signal of another priority, which stays where it is: the queue is unchanged -/
theorem step_procIter_stop (P : Prog) (c : Cfg) (pr : Int) (rest : List Instr) (hc : c.code = .procIter (some pr) :: rest)
    (e : Int × Nat × Sig) (es : List (Int × Nat × Sig)) (he : c.L.activeQ.entries = e :: es) (hr : c.L.runLoop = true)
    (hp : e.2.2.prio ≠ pr) :
    step P c = .ok { c with code := rest, tr := .procEnd :: .putBack c.L.active e.2.2 :: c.tr } := by
  have he' : ({ c with code := rest } : Cfg).L.activeQ.entries = e :: es := he
  simp only [step, hc]
  split
  · rename_i heq; rw [he'] at heq; cases heq
  · rename_i e' es' heq
    rw [he'] at heq; cases heq
    simp [hr, hp, Cfg.trace]


/-! ### what changes the tickets -/

/-- the ways a transition can change the ticket table -/
def TicketStep (c c' : Cfg) : Prop :=
  c'.L.tickets = c.L.tickets ∨
  (∃ cls, c.code.head? = some (.procWait cls) ∧
    c'.L.tickets = c.L.tickets ++ [({ line := cls, id := c.L.tcounter, marked := false } : Ticket)]) ∨
  (∃ s, c.code.head? = some (.processSignal s) ∧ c'.L.tickets = mark c.L.tickets s.cls) ∨
  (∃ cls t, c.code.head? = some (.waitCheck cls t) ∧
    c'.L.tickets = c.L.tickets.filter fun k => ¬ (k.line = cls ∧ k.id = t))

theorem coreN_tickets {P : Prog} {rest : List Instr} {ins : Instr} {c c' : Cfg} (hc : c.code = ins :: rest)
    (h : CoreN P { c with code := rest } ins c') : TicketStep c c' := by
  cases h
  case procWait cls => exact .inr (.inl ⟨cls, by simp [hc], by simp [push, Cfg.trace]⟩)
  case psDispatch s hne => exact .inr (.inr (.inl ⟨s, by simp [hc], by simp [push]⟩))
  case psKill s hno he => exact .inr (.inr (.inl ⟨s, by simp [hc], by simp [push]⟩))
  case psNone s hno he => exact .inr (.inr (.inl ⟨s, by simp [hc], by simp [Cfg.trace]⟩))
  case waitDone cls t hm => exact .inr (.inr (.inr ⟨cls, t, by simp [hc], by simp [Cfg.trace]⟩))
  all_goals exact .inl (by simp [push, Cfg.trace, enqueue_eq, emit_eq, excEnq])

theorem trans_tickets {P : Prog} {c c' : Cfg} (ht : Trans P c c') : TicketStep c c' := by
  cases ht with
  | step hs =>
    obtain ⟨ins, rest, hc, ⟨ho, m, hm, hf⟩ | ⟨-, hcore⟩⟩ := step_ok_casesN hs
    · exact .inl (hm.frame hf).tickets
    · exact coreN_tickets hc hcore
  | deliver hd => exact .inl (deliver_frame hd).1.tickets
  | halt hs =>
    rcases step_error_cases hs with ⟨-, -, rfl⟩ | ⟨ins, rest, hc, ⟨ho, m, hm, ⟨-, rfl⟩ | ⟨k, -, hk⟩⟩ | ⟨-, hcore⟩⟩
    · exact .inl rfl
    · exact .inl hm.tickets
    · left; rw [(raise_error hk).1]; cases k <;> exact hm.tickets
    · left
      cases hcore
      case refuse => rfl
      case getBlocked h =>
        obtain ⟨-, h | h, -, -⟩ := take_error h
        · subst h; rfl
        · obtain ⟨r, rs, hr, rfl⟩ := deliver_eq h; rfl
      case waitBlocked h =>
        obtain ⟨-, h | h, -, -⟩ := take_error h
        · subst h; rfl
        · obtain ⟨r, rs, hr, rfl⟩ := deliver_eq h; rfl
      case kill => rfl
      case popErr h hr => rw [(raise_error hr).1]; rfl
      case popExit h h2 hr => rw [(raise_error hr).1]; rfl

theorem eq_of_nodup_id {ts : List Ticket} (hn : (ts.map (·.id)).Nodup) {k k' : Ticket} (hk : k ∈ ts) (hk' : k' ∈ ts)
    (hid : k.id = k'.id) : k = k' := by
  induction ts with
  | nil => cases hk
  | cons a ts ih =>
    simp only [List.map_cons, List.nodup_cons, List.mem_map, not_exists, not_and] at hn
    rcases List.mem_cons.mp hk with rfl | hk1 <;> rcases List.mem_cons.mp hk' with rfl | hk1'
    · rfl
    · exact absurd hid.symm (hn.1 k' hk1')
    · exact absurd hid (hn.1 k hk1)
    · exact ih hn.2 hk1 hk1'

/-- a ticket gets marked only by `processSignal s` for a signal of exactly the ticket's class -/
theorem mark_origin {P : Prog} {c c' : Cfg} (hI : TicketInv c) (ht : Trans P c c') {k k' : Ticket} (hk : k ∈ c.L.tickets)
    (hk' : k' ∈ c'.L.tickets) (hid : k'.id = k.id) (hu : k.marked = false) (hm : k'.marked = true) :
    ∃ s, c.code.head? = some (.processSignal s) ∧ s.cls = k.line := by
  rcases trans_tickets ht with h | ⟨cls, -, h⟩ | ⟨s, hs, h⟩ | ⟨cls, t, -, h⟩
  · rw [h] at hk'
    have := eq_of_nodup_id hI.nodup hk hk' hid.symm
    subst this; rw [hu] at hm; cases hm
  · rw [h] at hk'
    rcases List.mem_append.mp hk' with hk' | hk'
    · have := eq_of_nodup_id hI.nodup hk hk' hid.symm
      subst this; rw [hu] at hm; cases hm
    · simp at hk'; subst hk'; cases hm
  · refine ⟨s, hs, ?_⟩
    rw [h] at hk'
    simp only [Simpleline.mark, List.mem_map] at hk'
    obtain ⟨k0, hk0, rfl⟩ := hk'
    split at hid <;> split at hm
    · rename_i hl _
      have := eq_of_nodup_id hI.nodup hk hk0 (by simpa using hid.symm)
      subst this; exact hl.symm
    · rename_i hl hl'; exact absurd hl hl'
    · rename_i hl hl'; exact absurd hl' hl
    · have := eq_of_nodup_id hI.nodup hk hk0 hid.symm
      subst this; rw [hu] at hm; cases hm
  · rw [h] at hk'
    have hk'' := (List.mem_filter.mp hk').1
    have := eq_of_nodup_id hI.nodup hk hk'' hid.symm
    subst this; rw [hu] at hm; cases hm

/-- a marked ticket stays marked until its own waiter hands it back -/
theorem mark_persists {P : Prog} {c c' : Cfg} (ht : Trans P c c') {k : Ticket} (hk : k ∈ c.L.tickets) (hm : k.marked = true) :
    k ∈ c'.L.tickets ∨ c.code.head? = some (.waitCheck k.line k.id) := by
  rcases trans_tickets ht with h | ⟨cls, -, h⟩ | ⟨s, hs, h⟩ | ⟨cls, t, hhead, h⟩
  · left; rw [h]; exact hk
  · left; rw [h]; exact List.mem_append_left _ hk
  · left; rw [h]
    simp only [Simpleline.mark, List.mem_map]
    refine ⟨k, hk, ?_⟩
    split
    · cases k; simp_all
    · rfl
  · by_cases hkk : k.line = cls ∧ k.id = t
    · right; rw [hhead, hkk.1, hkk.2]
    · left; rw [h]; exact List.mem_filter.mpr ⟨hk, by simpa using Classical.not_and_iff_not_or_not.mp hkk⟩

/-- a `waitEnd … true` is preceded, since the matching `waitBegin`, by the take of a signal of exactly the class -/
theorem waitEnd_after_take {P : Prog} {c0 c c' : Cfg} (h0 : Started c0) (hr : Reach P c0 c) (ht : Trans P c c')
    {cls : Cls} {t : Nat} (hm : Tr.waitEnd cls t true ∈ newTr c c') :
    Tr.waitBegin cls t ∈ c.tr ∧ ∃ q s, s.cls = cls ∧ Tr.take q s ∈ since (.waitBegin cls t) c.tr := by
  obtain ⟨-, k, hk, rfl, rfl, hmk⟩ := (trans_origin ht).toNewTr.2 _ hm
  obtain ⟨h1, h2⟩ := (ticketInv_reach h0 hr).marked k hk
  exact ⟨h1, h2 hmk⟩


/-- processing one signal marks every outstanding ticket of its class's line, and nothing else about the tickets changes -/
theorem processSignal_marks (P : Prog) (c : Cfg) (s : Sig) (rest : List Instr) (hc : c.code = .processSignal s :: rest) :
    ∃ c', step P c = .ok c' ∧ c'.L.tickets = mark c.L.tickets s.cls ∧
      (∀ k ∈ c'.L.tickets, k.line = s.cls → k.marked = true) ∧
      (mark c.L.tickets s.cls).length = c.L.tickets.length ∧
      ∀ i (hi : i < c.L.tickets.length) (hi' : i < (mark c.L.tickets s.cls).length),
        (mark c.L.tickets s.cls)[i].line = c.L.tickets[i].line ∧ (mark c.L.tickets s.cls)[i].id = c.L.tickets[i].id ∧
        ((mark c.L.tickets s.cls)[i].marked = true ↔ c.L.tickets[i].marked = true ∨ c.L.tickets[i].line = s.cls) := by
  refine ⟨_, processSignal_step P c s rest hc, ?_, ?_, (mark_spec _ _).1, (mark_spec _ _).2⟩
  · split
    · rfl
    · split <;> rfl
  · intro k hk
    have : k ∈ mark c.L.tickets s.cls := by
      revert hk; split
      · exact id
      · split <;> exact id
    exact mark_all _ _ k this

/-- on the history: the non-waiting form takes signals of its batch priority only, and ends with the queues as they were -/
theorem nonwaiting_history {P : Prog} {c c' : Cfg} (ht : Trans P c c') :
    (∀ pr q s, c.code.head? = some (.procIter (some pr)) → Tr.take q s ∈ newTr c c' → s.prio = pr) ∧
    (Tr.procEnd ∈ newTr c c' → c'.L.queues = c.L.queues) := by
  have horig := (trans_origin ht).toNewTr.2
  refine ⟨fun pr q s hh hm => ?_, fun hm => ?_⟩
  · obtain ⟨-, h | ⟨cls, t, h, -⟩ | ⟨p, h, hp, -⟩⟩ := horig _ hm
    · rw [hh] at h; cases h
    · rw [hh] at h; cases h
    · rw [hh] at h; cases h
      rcases hp with hp | hp
      · cases hp
      · cases hp; rfl
  · obtain ⟨p, -, hq, -⟩ := horig _ hm
    exact hq

end Simpleline.Dispatch
