/-
  Helper lemmas for C03c, part 1: the source API of `EventQueue` one call at a time (set semantics, frame
  properties) and the refinement to the sorted-list queue of the machine model.
-/
import Simpleline.Spec.EQObjSpec
import Simpleline.Lemmas.HeapQueue

namespace Simpleline.EQObj

open Simpleline.Heapq

/-! ### set semantics of the sources -/

theorem contains_addSource (q : HQueue) (x y : Src) :
    containsSource (addSource q x) y = (decide (y = x) || containsSource q y) := by
  unfold addSource containsSource
  by_cases h : x ∈ q.sources
  · by_cases hyx : y = x
    · subst hyx; simp [h]
    · simp [h, hyx]
  · by_cases hyx : y = x
    · subst hyx; simp [h]
    · simp [h, hyx]

theorem addSource_of_contains (q : HQueue) (x : Src) (h : containsSource q x = true) : addSource q x = q := by
  have h' : x ∈ q.sources := by simpa [containsSource] using h
  simp [addSource, h']

theorem addSource_idem (q : HQueue) (x : Src) : addSource (addSource q x) x = addSource q x :=
  addSource_of_contains _ _ (by simp [contains_addSource])

theorem removeSource_none_iff (q : HQueue) (x : Src) : removeSource q x = none ↔ containsSource q x = false := by
  unfold removeSource containsSource
  by_cases h : x ∈ q.sources <;> simp [h]

theorem contains_removeSource (q q' : HQueue) (x y : Src) (h : removeSource q x = some q') :
    containsSource q' y = (containsSource q y && !decide (y = x)) := by
  unfold removeSource at h
  split at h
  · cases h
    simp only [containsSource, List.contains_eq_mem, List.mem_filter, Bool.decide_and]
    by_cases hyx : y = x <;> simp [hyx]
  · cases h

theorem removeSource_some_iff (q : HQueue) (x : Src) :
    (∃ q', removeSource q x = some q') ↔ containsSource q x = true := by
  unfold removeSource containsSource
  by_cases h : x ∈ q.sources <;> simp [h]

/-! ### no duplicates -/

theorem nodup_addSource (q : HQueue) (x : Src) (h : q.sources.Nodup) : (addSource q x).sources.Nodup := by
  by_cases hx : x ∈ q.sources
  · rw [addSource_of_contains q x (by simpa [containsSource] using hx)]; exact h
  · have : (addSource q x).sources = q.sources ++ [x] := by simp [addSource, hx]
    rw [this, List.nodup_append]
    exact ⟨h, by simp, fun a ha b hb => by
      have : b = x := by simpa using hb
      subst this
      exact fun hab => hx (hab ▸ ha)⟩

theorem nodup_removeSource (q q' : HQueue) (x : Src) (h : q.sources.Nodup) (hr : removeSource q x = some q') :
    q'.sources.Nodup := by
  unfold removeSource at hr
  split at hr
  · cases hr; exact h.filter _
  · cases hr

/-! ### frame properties -/

theorem put_sources (q : HQueue) (s : Sig) : (q.put s).sources = q.sources := rfl

theorem get_sources (q q' : HQueue) (s : Sig) (h : q.get = some (s, q')) : q'.sources = q.sources := by
  unfold HQueue.get at h
  split at h
  · cases h
  · cases h; rfl

theorem getTop_sources (q q' : HQueue) (p : Int) (r : Option Sig) (h : q.getTopIfPriority p = some (r, q')) :
    q'.sources = q.sources := by
  unfold HQueue.getTopIfPriority at h
  split at h
  · cases h
  · split at h <;> cases h <;> rfl

theorem step_sourceOp_frame (q : HQueue) (o : Op) (h : o.isSourceOp = true) :
    (step q o).2.heap = q.heap ∧ (step q o).2.seq = q.seq := by
  cases o with
  | addSource x => simp only [step, addSource]; split <;> exact ⟨rfl, rfl⟩
  | removeSource x =>
    simp only [step]
    cases hr : removeSource q x with
    | none => exact ⟨rfl, rfl⟩
    | some q' =>
      unfold removeSource at hr
      split at hr
      · cases hr; exact ⟨rfl, rfl⟩
      · cases hr
  | contains x => exact ⟨rfl, rfl⟩
  | _ => cases h

theorem step_signalOp_frame (q : HQueue) (o : Op) (h : o.isSignalOp = true) :
    (step q o).2.sources = q.sources := by
  cases o with
  | put s => rfl
  | get =>
    simp only [step]
    cases hg : q.get with
    | none => rfl
    | some r => exact get_sources q r.2 r.1 hg
  | getTop p =>
    simp only [step]
    cases hg : q.getTopIfPriority p with
    | none => rfl
    | some r =>
      obtain ⟨r, q'⟩ := r
      have := getTop_sources q q' p r hg
      cases r <;> exact this
  | _ => cases h

/-- `enqueue_if_source_belongs` never touches the sources either -/
theorem step_putIf_sources (q : HQueue) (s : Sig) (x : Src) : (step q (.putIf s x)).2.sources = q.sources := by
  simp only [step, putIf]
  split <;> rfl

theorem step_putIf (q : HQueue) (s : Sig) (x : Src) :
    step q (.putIf s x) = (.bool (containsSource q x), if containsSource q x then q.put s else q) := by
  simp only [step, putIf]
  split <;> rename_i h <;> simp [h]

/-- what one call does to the membership of a source -/
theorem contains_step (q : HQueue) (o : Op) (y : Src) :
    containsSource (step q o).2 y =
      match o with
      | .addSource x => decide (y = x) || containsSource q y
      | .removeSource x => containsSource q y && !decide (y = x)
      | _ => containsSource q y := by
  cases o with
  | addSource x => exact contains_addSource q x y
  | removeSource x =>
    simp only [step]
    cases hr : removeSource q x with
    | none =>
      have hx := (removeSource_none_iff q x).1 hr
      by_cases hyx : y = x
      · subst hyx; simp [hx]
      · simp [hyx]
    | some q' => exact contains_removeSource q q' x y hr
  | contains x => rfl
  | putIf s x => simp only [containsSource, step_putIf_sources]
  | put s => rfl
  | get => simp only [containsSource, step_signalOp_frame q .get rfl]
  | getTop p => simp only [containsSource, step_signalOp_frame q (.getTop p) rfl]

theorem nodup_step (q : HQueue) (o : Op) (h : q.sources.Nodup) : (step q o).2.sources.Nodup := by
  cases o with
  | addSource x => exact nodup_addSource q x h
  | removeSource x =>
    simp only [step]
    cases hr : removeSource q x with
    | none => exact h
    | some q' => exact nodup_removeSource q q' x h hr
  | contains x => exact h
  | putIf s x => rw [step_putIf_sources]; exact h
  | put s => exact h
  | get => rw [step_signalOp_frame q .get rfl]; exact h
  | getTop p => rw [step_signalOp_frame q (.getTop p) rfl]; exact h

/-! ### the signal calls are the ones of `Model/Heapq.lean` -/

theorem step_ofSignalOp (q : HQueue) (o : Heapq.Op) :
    step q (Op.ofSignalOp o) = (Out.ofSignalOut (q.step o).1, (q.step o).2) := by
  cases o with
  | put s => rfl
  | get =>
    simp only [Op.ofSignalOp, step, HQueue.step]
    cases q.get <;> rfl
  | getTop p =>
    simp only [Op.ofSignalOp, step, HQueue.step]
    cases hg : q.getTopIfPriority p with
    | none => rfl
    | some r => obtain ⟨r, q'⟩ := r; cases r <;> rfl

theorem stepE_ofSignalOp (q : EQueue) (o : Heapq.Op) :
    stepE q (Op.ofSignalOp o) = (Out.ofSignalOut (Heapq.stepE q o).1, (Heapq.stepE q o).2) := by
  cases o with
  | put s => rfl
  | get =>
    simp only [Op.ofSignalOp, stepE, Heapq.stepE]
    cases q.entries <;> rfl
  | getTop p =>
    simp only [Op.ofSignalOp, stepE, Heapq.stepE]
    cases q.entries with
    | nil => rfl
    | cons e es => by_cases h : e.2.2.prio = p <;> simp [h, Out.ofSignalOut]

theorem run_ofSignalOps (ops : List Heapq.Op) : ∀ q : HQueue,
    run q (ops.map Op.ofSignalOp) = ((q.run ops).1.map Out.ofSignalOut, (q.run ops).2) := by
  induction ops with
  | nil => intro q; rfl
  | cons o os ih =>
    intro q
    simp only [List.map_cons, run, HQueue.run, step_ofSignalOp, ih]

/-! ### refinement -/

theorem inv_of_heap_seq {q q' : HQueue} (h : Heapq.Inv q) (hh : q'.heap = q.heap) (hs : q'.seq = q.seq) :
    Heapq.Inv q' := by
  unfold Heapq.Inv at h ⊢
  rw [hh, hs]; exact h

theorem abs_sources (q : HQueue) : (abs q).sources = q.sources := rfl

theorem abs_addSource (q : HQueue) (x : Src) : abs (addSource q x) = Simpleline.addSource (abs q) x := by
  unfold addSource Simpleline.addSource
  by_cases h : q.sources.contains x = true
  · have h' : (abs q).sources.contains x = true := h
    rw [if_pos h, if_pos h']
  · have h' : ¬ (abs q).sources.contains x = true := h
    rw [if_neg h, if_neg h']; rfl

theorem abs_removeSource (q : HQueue) (x : Src) :
    (removeSource q x).map abs = removeSourceE (abs q) x := by
  unfold removeSource removeSourceE
  by_cases h : q.sources.contains x = true
  · have h' : (abs q).sources.contains x = true := h
    rw [if_pos h, if_pos h']; rfl
  · have h' : ¬ (abs q).sources.contains x = true := h
    rw [if_neg h, if_neg h']; rfl

theorem step_refines {q : HQueue} (h : Heapq.Inv q) (o : Op) :
    Heapq.Inv (step q o).2 ∧ (step q o).1 = (stepE (abs q) o).1 ∧ abs (step q o).2 = (stepE (abs q) o).2 := by
  have sig : ∀ o' : Heapq.Op, Heapq.Inv (step q (Op.ofSignalOp o')).2 ∧
      (step q (Op.ofSignalOp o')).1 = (stepE (abs q) (Op.ofSignalOp o')).1 ∧
      abs (step q (Op.ofSignalOp o')).2 = (stepE (abs q) (Op.ofSignalOp o')).2 := by
    intro o'
    obtain ⟨h1, h2, h3⟩ := Heapq.step_refines h o'
    rw [step_ofSignalOp, stepE_ofSignalOp]
    exact ⟨h1, by simp only [h2], h3⟩
  cases o with
  | put s => exact sig (.put s)
  | get => exact sig .get
  | getTop p => exact sig (.getTop p)
  | addSource x =>
    obtain ⟨hh, hs⟩ := step_sourceOp_frame q (.addSource x) rfl
    exact ⟨inv_of_heap_seq h hh hs, rfl, abs_addSource q x⟩
  | removeSource x =>
    obtain ⟨hh, hs⟩ := step_sourceOp_frame q (.removeSource x) rfl
    refine ⟨inv_of_heap_seq h hh hs, ?_⟩
    have := abs_removeSource q x
    simp only [step, stepE]
    cases hr : removeSource q x with
    | none => simp only [hr, Option.map_none] at this; simp only [← this]; exact ⟨by first | trivial | rfl, by first | trivial | rfl⟩
    | some q' => simp only [hr, Option.map_some] at this; simp only [← this]; exact ⟨by first | trivial | rfl, by first | trivial | rfl⟩
  | contains x =>
    exact ⟨h, rfl, rfl⟩
  | putIf s x =>
    rw [step_putIf]
    simp only [stepE, abs_sources, containsSource]
    by_cases hc : q.sources.contains x = true
    · simp only [hc, if_true]; exact ⟨(inv_put h s).1, by first | trivial | rfl, (inv_put h s).2⟩
    · simp only [hc]; exact ⟨h, by simp, rfl⟩

theorem run_refines (ops : List Op) : ∀ {q : HQueue}, Heapq.Inv q →
    Heapq.Inv (run q ops).2 ∧ (run q ops).1 = (runE (abs q) ops).1 ∧ abs (run q ops).2 = (runE (abs q) ops).2 := by
  induction ops with
  | nil => intro q h; exact ⟨h, rfl, rfl⟩
  | cons o os ih =>
    intro q h
    obtain ⟨h1, h2, h3⟩ := step_refines h o
    obtain ⟨i1, i2, i3⟩ := ih h1
    simp only [run, runE]
    rw [← h3, ← h2]
    exact ⟨i1, by rw [i2], i3⟩

theorem nodup_run (ops : List Op) : ∀ (q : HQueue), q.sources.Nodup → (run q ops).2.sources.Nodup := by
  induction ops with
  | nil => intro q h; exact h
  | cons o os ih => intro q h; exact ih _ (nodup_step q o h)

end Simpleline.EQObj
