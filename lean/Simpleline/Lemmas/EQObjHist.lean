/-
  Helper lemmas for C03c, part 2: the source set as a function of the call history.
-/
import Simpleline.Lemmas.EQObjBasic

namespace Simpleline.EQObj

open Simpleline.Heapq

/-! ### sequences -/

theorem run_append (q : HQueue) (a b : List Op) :
    run q (a ++ b) = ((run q a).1 ++ (run (run q a).2 b).1, (run (run q a).2 b).2) := by
  induction a generalizing q with
  | nil => rfl
  | cons o os ih => simp only [List.cons_append, run, ih, List.cons_append]

theorem run_length (q : HQueue) (ops : List Op) : (run q ops).1.length = ops.length := by
  induction ops generalizing q with
  | nil => rfl
  | cons o os ih => simp [run, ih]

/-- the answer to the call number `pre.length` is the answer of that call in the state the calls before it lead to -/
theorem run_out_at (q : HQueue) (pre post : List Op) (o : Op) :
    (run q (pre ++ o :: post)).1[pre.length]? = some (step (run q pre).2 o).1 := by
  rw [run_append]
  simp only [run]
  rw [List.getElem?_append_right (by rw [run_length]; exact Nat.le_refl _), run_length]
  simp

/-! ### membership after a history -/

theorem contains_run (q : HQueue) (ops : List Op) (x : Src) :
    containsSource (run q ops).2 x = regAfter x (containsSource q x) ops := by
  induction ops generalizing q with
  | nil => rfl
  | cons o os ih =>
    simp only [run, regAfter]
    rw [ih, contains_step]
    cases o <;> simp only

theorem registered_nil (x : Src) : ¬ Registered x [] := by
  rintro ⟨pre, post, h, _⟩
  cases pre <;> cases h

theorem registered_cons (x : Src) (o : Op) (os : List Op) :
    Registered x (o :: os) ↔ (o = .addSource x ∧ Op.removeSource x ∉ os) ∨ Registered x os := by
  constructor
  · rintro ⟨pre, post, h, hn⟩
    cases pre with
    | nil =>
      simp only [List.nil_append, List.cons.injEq] at h
      exact Or.inl ⟨h.1, h.2 ▸ hn⟩
    | cons p pre' =>
      simp only [List.cons_append, List.cons.injEq] at h
      exact Or.inr ⟨pre', post, h.2, hn⟩
  · rintro (⟨rfl, hn⟩ | ⟨pre, post, rfl, hn⟩)
    · exact ⟨[], os, rfl, hn⟩
    · exact ⟨o :: pre, post, rfl, hn⟩

theorem regAfter_iff (x : Src) (ops : List Op) : ∀ b : Bool,
    regAfter x b ops = true ↔ Registered x ops ∨ (b = true ∧ Op.removeSource x ∉ ops) := by
  induction ops with
  | nil => intro b; simp [regAfter, registered_nil]
  | cons o os ih =>
    intro b
    rw [registered_cons]
    cases o with
    | addSource x' =>
      simp only [regAfter]
      rw [ih]
      by_cases hx : x = x'
      · subst hx
        simp only [decide_true, Bool.true_or, true_and, List.mem_cons, reduceCtorEq, false_or]
        constructor
        · rintro (h | h)
          · exact Or.inl (Or.inr h)
          · exact Or.inl (Or.inl h)
        · rintro ((h | h) | ⟨_, h⟩)
          · exact Or.inr h
          · exact Or.inl h
          · exact Or.inr h
      · have hne : ¬ (Op.addSource x' = Op.addSource x) := fun h => hx (Op.addSource.inj h).symm
        simp only [hx, decide_false, Bool.false_or, hne, false_and, false_or, List.mem_cons, reduceCtorEq]
    | removeSource x' =>
      simp only [regAfter]
      rw [ih]
      by_cases hx : x = x'
      · subst hx
        simp only [decide_true, Bool.not_true, Bool.and_false, Bool.false_eq_true, false_and, or_false,
          reduceCtorEq, List.mem_cons, true_or, not_true_eq_false, and_false, false_or]
      · have hne : ¬ (Op.removeSource x = Op.removeSource x') := fun h => hx (Op.removeSource.inj h)
        simp only [hx, decide_false, Bool.not_false, Bool.and_true, reduceCtorEq, false_and, false_or,
          List.mem_cons, hne]
    | put s => simp only [regAfter]; rw [ih]; simp only [reduceCtorEq, false_and, false_or, List.mem_cons]
    | get => simp only [regAfter]; rw [ih]; simp only [reduceCtorEq, false_and, false_or, List.mem_cons]
    | getTop p => simp only [regAfter]; rw [ih]; simp only [reduceCtorEq, false_and, false_or, List.mem_cons]
    | contains y => simp only [regAfter]; rw [ih]; simp only [reduceCtorEq, false_and, false_or, List.mem_cons]
    | putIf s y => simp only [regAfter]; rw [ih]; simp only [reduceCtorEq, false_and, false_or, List.mem_cons]

/-- from `EventQueue()`: a source belongs to the queue iff it is registered in the history -/
theorem contains_run_empty (ops : List Op) (x : Src) :
    containsSource (run HQueue.empty ops).2 x = true ↔ Registered x ops := by
  rw [contains_run, regAfter_iff]
  simp [containsSource, HQueue.empty]

/-! ### single calls -/

theorem step_contains (q : HQueue) (x : Src) : step q (.contains x) = (.bool (containsSource q x), q) := rfl

theorem step_removeSource_absent (q : HQueue) (x : Src) (h : containsSource q x = false) :
    step q (.removeSource x) = (.removeError, q) := by
  simp only [step, (removeSource_none_iff q x).2 h]

theorem step_removeSource_present (q : HQueue) (x : Src) (h : containsSource q x = true) :
    (step q (.removeSource x)).1 = .done ∧ ∀ y, containsSource (step q (.removeSource x)).2 y =
      (containsSource q y && !decide (y = x)) := by
  obtain ⟨q', hq'⟩ := (removeSource_some_iff q x).2 h
  simp only [step, hq']
  exact ⟨by first | trivial | rfl, fun y => contains_removeSource q q' x y hq'⟩

end Simpleline.EQObj
