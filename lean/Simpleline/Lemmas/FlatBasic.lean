/-
  C20d: pure lemmas — signals, scripts, counters, the abstract program unfolded, queue insertion.
-/
import Simpleline.Spec.FlatSpec

namespace Simpleline.Flat
open Simpleline Simpleline.GLoop

@[simp] theorem gsigOf_sigOf (g : GSig) : gsigOf (sigOf g) = g := rfl

@[simp] theorem sigOf_prio (g : GSig) : (sigOf g).prio = g.prio := rfl
@[simp] theorem sigOf_cls (g : GSig) : (sigOf g).cls = .user g.cls := rfl
@[simp] theorem sigOf_id (g : GSig) : (sigOf g).id = g.id := rfl
@[simp] theorem sigOf_src (g : GSig) : (sigOf g).src = .none := rfl
@[simp] theorem gsigOf_prio (s : Sig) : (gsigOf s).prio = s.prio := rfl

theorem actSig_eq {a : Act} {g : GSig} (h : actSig a = some g) : a = actOf g := by
  cases a <;> simp [actSig] at h
  rename_i cls prio src sid
  cases cls <;> cases src <;> simp at h
  subst h; rfl

theorem acts_eq_of_flat : ∀ (l : List Act), l.all (fun a => (actSig a).isSome) = true → l = (l.filterMap actSig).map actOf
  | [], _ => rfl
  | a :: l, h => by
    simp only [List.all_cons, Bool.and_eq_true] at h
    obtain ⟨g, hg⟩ := Option.isSome_iff_exists.1 h.1
    rw [List.filterMap_cons_some hg, List.map_cons, ← actSig_eq hg, ← acts_eq_of_flat l h.2]

theorem script_eq {P : Prog} (hP : Flat P) (hid n : Nat) : P.handlerScript hid n = (script P hid n).map actOf :=
  acts_eq_of_flat _ (hP.2 hid n)

/-! ### counters -/

theorem cntOf_cons (p : Nat × Nat) (st : List (Nat × Nat)) (h : Nat) :
    cntOf (p :: st) h = if p.1 = h then p.2 else cntOf st h := by
  simp only [cntOf, List.find?_cons]
  by_cases hp : p.1 = h <;> simp [hp]

theorem cntOf_map_ne (st : List (Nat × Nat)) {hid h : Nat} (hh : h ≠ hid) :
    cntOf (st.map (fun p => if p.1 = hid then (p.1, p.2 + 1) else p)) h = cntOf st h := by
  induction st with
  | nil => rfl
  | cons p st ih =>
    rw [List.map_cons, cntOf_cons, cntOf_cons, ih]
    by_cases hp : p.1 = hid
    · have : ¬ hid = h := fun e => hh e.symm
      simp [hp, this]
    · simp [hp]

theorem cntOf_map_eq (st : List (Nat × Nat)) {hid : Nat} (hany : st.any (·.1 = hid) = true) :
    cntOf (st.map (fun p => if p.1 = hid then (p.1, p.2 + 1) else p)) hid = cntOf st hid + 1 := by
  induction st with
  | nil => simp at hany
  | cons p st ih =>
    rw [List.map_cons, cntOf_cons, cntOf_cons]
    by_cases hp : p.1 = hid
    · simp [hp]
    · simp only [List.any_cons, hp, decide_false, Bool.false_or] at hany
      simp [hp, ih hany]

theorem cntOf_append_ne (st : List (Nat × Nat)) {hid h : Nat} (n : Nat) (hh : h ≠ hid) :
    cntOf (st ++ [(hid, n)]) h = cntOf st h := by
  induction st with
  | nil =>
    have : ¬ hid = h := fun e => hh e.symm
    simp [cntOf_cons, this]
  | cons p st ih => rw [List.cons_append, cntOf_cons, cntOf_cons, ih]

theorem cntOf_append_eq (st : List (Nat × Nat)) {hid : Nat} (n : Nat) (hany : st.any (·.1 = hid) = false) :
    cntOf (st ++ [(hid, n)]) hid = n ∧ cntOf st hid = 0 := by
  induction st with
  | nil => simp [cntOf_cons]; rfl
  | cons p st ih =>
    simp only [List.any_cons, Bool.or_eq_false_iff, decide_eq_false_iff_not] at hany
    rw [List.cons_append, cntOf_cons, cntOf_cons]
    simp [hany.1, ih hany.2]

theorem cntOf_bumpSt (st : List (Nat × Nat)) (hid h : Nat) :
    cntOf (bumpSt st hid) h = if h = hid then cntOf st hid + 1 else cntOf st h := by
  unfold bumpSt
  by_cases hany : st.any (·.1 = hid) = true
  · rw [if_pos hany]
    by_cases hh : h = hid
    · subst hh; simp [cntOf_map_eq st hany]
    · simp [hh, cntOf_map_ne st hh]
  · rw [if_neg hany]
    have hany' : st.any (·.1 = hid) = false := by
      cases hb : st.any (·.1 = hid)
      · rfl
      · exact absurd hb hany
    by_cases hh : h = hid
    · subst hh
      have := cntOf_append_eq st 1 hany'
      simp [this.1, this.2]
    · simp [hh, cntOf_append_ne st 1 hh]

/-! ### the abstract program as a recursion over the callbacks -/

/-- run the callbacks `l` from counters `st`: final counters and everything enqueued, in order -/
def runHs (P : Prog) : List (HRef × Option Nat) → List (Nat × Nat) → List (Nat × Nat) × List GSig
  | [], st => (st, [])
  | h :: l, st =>
    match h.1 with
    | .user hid => ((runHs P l (bumpSt st hid)).1, script P hid (cntOf st hid) ++ (runHs P l (bumpSt st hid)).2)
    | _ => runHs P l st

theorem foldl_hStep (P : Prog) : ∀ (l : List (HRef × Option Nat)) (st : List (Nat × Nat)) (acc : List GSig),
    l.foldl (hStep P) (st, acc) = ((runHs P l st).1, acc ++ (runHs P l st).2)
  | [], st, acc => by simp [runHs]
  | h :: l, st, acc => by
    rw [List.foldl_cons]
    cases hh : h.1 <;> simp only [hStep, runHs, hh] <;> rw [foldl_hStep P l] <;> simp

theorem absProg_eq (P : Prog) (hs : List (Cls × HRef × Option Nat)) (st : List (Nat × Nat)) (s : GSig) :
    absProg P hs st s = runHs P (hsOf hs (.user s.cls)) st := by
  simp [absProg, foldl_hStep]

theorem hsOf_base (hs : List (Cls × HRef × Option Nat)) (k : Nat) : hsOf (baseH ++ hs) (.user k) = hsOf hs (.user k) := by
  simp [hsOf, baseH]

theorem hsOf_flat {hs : List (Cls × HRef × Option Nat)} (hhs : FlatHandlers hs) (c : Cls) :
    ∀ h ∈ hsOf hs c, ∃ hid, h.1 = .user hid := by
  intro h hm
  simp only [hsOf, List.mem_map, List.mem_filter] at hm
  obtain ⟨x, ⟨hx, _⟩, rfl⟩ := hm
  have := List.all_eq_true.1 hhs x hx
  obtain ⟨c', r, d⟩ := x
  cases c' <;> cases r <;> simp [flatHandler] at this ⊢

/-! ### queue insertion -/

theorem mem_insertEntry {e x : Int × Nat × Sig} : ∀ {es : List (Int × Nat × Sig)}, x ∈ insertEntry e es → x = e ∨ x ∈ es
  | [], h => by simp [insertEntry] at h; exact Or.inl h
  | y :: es, h => by
    simp only [insertEntry] at h
    split at h
    · simpa using h
    · rcases List.mem_cons.1 h with h | h
      · exact Or.inr (by simp [h])
      · rcases mem_insertEntry h with h | h
        · exact Or.inl h
        · exact Or.inr (List.mem_cons_of_mem _ h)

theorem map_insertEntry (s : Sig) (n : Nat) : ∀ (es : List (Int × Nat × Sig)),
    (∀ x ∈ es, x.2.1 < n ∧ x.1 = x.2.2.prio) →
    (insertEntry (s.prio, n, s) es).map (fun x => gsigOf x.2.2) = insertStable (gsigOf s) (es.map fun x => gsigOf x.2.2)
  | [], _ => rfl
  | x :: es, h => by
    have hx := h x (by simp)
    have ih := map_insertEntry s n es (fun y hy => h y (List.mem_cons_of_mem _ hy))
    simp only [insertEntry, List.map_cons, insertStable, gsigOf_prio]
    by_cases hlt : s.prio < x.2.2.prio
    · have : s.prio < x.1 ∨ s.prio = x.1 ∧ n < x.2.1 := Or.inl (by rw [hx.2]; exact hlt)
      simp [this, hlt]
    · have : ¬ (s.prio < x.1 ∨ s.prio = x.1 ∧ n < x.2.1) := by
        rw [hx.2]; intro h; rcases h with h | h
        · exact hlt h
        · omega
      simp [this, hlt, ih]

theorem runLog_snoc (hs : List (Cls × HRef × Option Nat)) (done : List GSig) (g : GSig) :
    runLog hs (done ++ [g]) = runLog hs done ++ hLog (hsOf hs (.user g.cls)) g.id := by
  simp [runLog]

theorem hLog_cons_user (hid : Nat) (d : Option Nat) (l : List (HRef × Option Nat)) (sid : Nat) :
    hLog ((.user hid, d) :: l) sid = .h hid sid d 1 :: .hret hid :: hLog l sid := by
  simp [hLog]

theorem actSig_actOf (g : GSig) : actSig (actOf g) = some g := rfl

/-- programs given by a table are flat -/
theorem flat_tableProg (cc : CharClass) (tbl : List (Nat × List (List GSig))) : Flat (tableProg cc tbl) := by
  refine ⟨rfl, fun hid n => ?_⟩
  rw [List.all_eq_true]
  intro a ha
  simp only [tableProg, List.mem_map] at ha
  obtain ⟨g, _, rfl⟩ := ha
  rfl

/-- machine logs that are the same list of events show the same handler invocations -/
theorem invocations_congr {l l' : List Ev} (h : l = l') : invocations l = invocations l' := by rw [h]

theorem drop_cons_facts {α : Type} : ∀ (l0 : List α) (i : Nat) (h : α) (l : List α), l0.drop i = h :: l →
    l0[i]? = some h ∧ l0.drop (i + 1) = l
  | [], i, h, l, e => by simp at e
  | a :: l0, 0, h, l, e => by simp at e; simp [e]
  | a :: l0, i + 1, h, l, e => by simpa using drop_cons_facts l0 i h l (by simpa using e)

end Simpleline.Flat
