/-
  C20d: two concrete flat applications for the non-vacuity examples of `Props/C20d.lean`.
-/
import Simpleline.Lemmas.FlatBasic

namespace Simpleline.Flat
open Simpleline Simpleline.GLoop

/-- three handlers on two classes: 10 and 11 (with data 7) on class 0, 12 on class 1 -/
def exHs : List (Cls × HRef × Option Nat) :=
  [(.user 0, .user 10, none), (.user 0, .user 11, some 7), (.user 1, .user 12, none)]

/-- handler 10 enqueues signal 3 (class 1, priority 0) at its first call, handler 11 signal 4 (class 0, priority 5) at
its first call, handler 12 signal 5 (class 0, priority 5) at its first call and nothing at its second -/
def exCalmP : Prog :=
  tableProg asciiClass [(10, [[⟨3, 1, 0⟩]]), (11, [[⟨4, 0, 5⟩]]), (12, [[⟨5, 0, 5⟩], []])]

def exCalmInit : List GSig := [⟨1, 0, 0⟩, ⟨2, 1, 0⟩]

/-- G1: handler 10 enqueues the more urgent signal 3 (class 1, priority -10) while signal 2 is pending -/
def exUrgentP : Prog := tableProg asciiClass [(10, [[⟨3, 1, -10⟩]])]

def exUrgentInit : List GSig := [⟨1, 0, 0⟩, ⟨2, 0, 0⟩]

/-- the log of the MainLoop machine after at most `fuel` steps, and how the run ended -/
def mLog (P : Prog) (init : List GSig) (fuel : Nat) : List Ev × Outcome :=
  let r := runFuel P fuel (initCfg (initActs init) exHs none [])
  (r.1.log, r.2)

/-- the same for the GLib machine -/
def gLog (P : Prog) (init : List GSig) (fuel : Nat) : List Ev × Outcome :=
  let r := G.runFuel P fuel (G.initCfg (initActs init) exHs none [])
  (r.1.log, r.2)

end Simpleline.Flat
