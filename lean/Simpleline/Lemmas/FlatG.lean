/-
  C20d, GLib machine: what the instructions of a flat run do (micro steps), under the invariant of flat runs.
-/
import Simpleline.Lemmas.FlatBasic

namespace Simpleline.Flat
open Simpleline Simpleline.GLoop

/-! ### step sequences -/

theorem GSteps.trans {P : Prog} {a b c : G.Cfg} (h1 : GSteps P a b) (h2 : GSteps P b c) : GSteps P a c := by
  induction h1 with
  | refl => exact h2
  | head hs _ ih => exact .head hs (ih h2)

theorem GSteps.one {P : Prog} {c c' : G.Cfg} (h : G.step P c = .ok c') : GSteps P c c' := .head h (.refl _)

theorem GSteps.runFuel {P : Prog} {c c' : G.Cfg} (h : GSteps P c c') :
    ∃ k, ∀ j, G.runFuel P (k + j) c = G.runFuel P j c' := by
  induction h with
  | refl => exact ⟨0, fun j => by simp⟩
  | head hs _ ih =>
    obtain ⟨k, hk⟩ := ih
    refine ⟨k + 1, fun j => ?_⟩
    have : k + 1 + j = (k + j) + 1 := by omega
    rw [this, G.runFuel, hs]
    exact hk j

/-! ### the invariant of flat runs -/

/-- the handler list a source of signal `s` carries, when the handlers are the initial ones -/
def hl (hs : List (Cls × HRef × Option Nat)) (s : Sig) : G.HList :=
  if hsOf (baseH ++ hs) s.cls ≠ [] then .live else if s.cls = .exception then .kill else .empty

theorem hlistFor_eq {hs : List (Cls × HRef × Option Nat)} {L : G.GSt} (h : L.handlers = baseH ++ hs) (s : Sig) :
    L.hlistFor s = hl hs s := by
  show (if hsOf L.handlers s.cls ≠ [] then _ else _) = _
  rw [h]; rfl

/-- One loop with one context (sources `srcs` in attach order, epoch `ep`, no signal sources registered); source ids
are distinct and below the counter, the signals flat, the handler lists as decided at enqueue time; exactly the source
`busy` is in dispatch; no force quit; the handlers are the initial ones; no reader thread; `st` are the invocation
counters and `lg` the log. -/
structure GSim (hs : List (Cls × HRef × Option Nat)) (c : G.Cfg) (st : List (Nat × Nat)) (srcs : List G.GSource)
    (busy : Option Nat) (run : Bool) (ep : Nat) (lg : List Ev) : Prop where
  ctxs : c.L.ctxs = [{ sources := srcs, epoch := ep, running := run, srcset := [] }]
  wf : ∀ g ∈ srcs, g.id < c.L.nextSrc ∧ sigOf (gsigOf g.sig) = g.sig ∧ g.hs = hl hs g.sig ∧ g.inCall = (busy == some g.id)
  nodup : srcs.Pairwise (fun a b => a.id ≠ b.id)
  busy_lt : ∀ b, busy = some b → b < c.L.nextSrc
  loops : c.L.loops = [0]
  fq : c.L.forceQuit = false
  handlers : c.L.handlers = baseH ++ hs
  readers : c.A.readers = []
  cnt : ∀ hid, gcallCount c.tr hid = cntOf st hid
  log : c.log = lg

/-- the loop-state fields the invariant reads are unchanged -/
def gsameL (L L' : G.GSt) : Prop :=
  L'.ctxs = L.ctxs ∧ L'.nextSrc = L.nextSrc ∧ L'.loops = L.loops ∧ L'.forceQuit = L.forceQuit ∧ L'.handlers = L.handlers

theorem gsameL_refl (L : G.GSt) : gsameL L L := ⟨rfl, rfl, rfl, rfl, rfl⟩

theorem GSim.frame {hs : List (Cls × HRef × Option Nat)} {c : G.Cfg} {st : List (Nat × Nat)} {srcs : List G.GSource}
    {busy : Option Nat} {run : Bool} {ep : Nat} {lg : List Ev}
    (h : GSim hs c st srcs busy run ep lg) (c' : G.Cfg) (lg' : List Ev) (hL : gsameL c.L c'.L)
    (hr : c'.A.readers = c.A.readers) (htr : ∀ hid, gcallCount c'.tr hid = gcallCount c.tr hid) (hlog : c'.log = lg') :
    GSim hs c' st srcs busy run ep lg' := by
  obtain ⟨h1, h2, h3, h4, h5⟩ := hL
  exact ⟨h1.trans h.ctxs, by rw [h2]; exact h.wf, h.nodup, by rw [h2]; exact h.busy_lt, h3.trans h.loops, h4.trans h.fq,
    h5.trans h.handlers, hr.trans h.readers, fun hid => (htr hid).trans (h.cnt hid), hlog⟩

theorem gemit_eq (P : Prog) (c : G.Cfg) (e : Ev) (hr : c.A.readers = []) : c.emit P e = { c with log := e :: c.log } := by
  simp only [G.Cfg.emit, G.Cfg.deliver, hr]
  split <;> rfl

theorem ghandlersOf_eq {hs : List (Cls × HRef × Option Nat)} {L : G.GSt} (h : L.handlers = baseH ++ hs) (k : Nat) :
    G.handlersOf L (.user k) = hsOf hs (.user k) := by
  show hsOf L.handlers (.user k) = _
  rw [h, hsOf_base]

section
variable (P : Prog) {hs : List (Cls × HRef × Option Nat)} {c : G.Cfg} {st : List (Nat × Nat)} {srcs : List G.GSource}
  {busy : Option Nat} {run : Bool} {ep : Nat} {lg : List Ev}

/-! ### micro steps -/

/-- `enqueue_signal`: a new idle source is attached behind the others -/
theorem gstep_enq (h : GSim hs c st srcs busy run ep lg) (g : GSig) (rest : List G.Instr)
    (hc : c.code = .act (actOf g) :: rest) :
    ∃ c' gn, G.step P c = .ok c' ∧ c'.code = rest ∧ gsigOf gn.sig = g ∧ GSim hs c' st (srcs ++ [gn]) busy run ep lg := by
  let gn : G.GSource := { id := c.L.nextSrc, sig := sigOf g, hs := hl hs (sigOf g) }
  refine ⟨{ c with code := rest,
                   L := { c.L with ctxs := [{ sources := srcs ++ [gn], epoch := ep, running := run, srcset := [] }],
                                   nextSrc := c.L.nextSrc + 1 },
                   tr := .attach 0 gn :: .m (.enq 0 (sigOf g)) :: c.tr }, gn, ?_, rfl, rfl, ?_⟩
  · have e1 : c.L.hlistFor (sigOf g) = hl hs (sigOf g) := hlistFor_eq h.handlers _
    simp [G.step, hc, G.doAct, actOf, G.Cfg.enqueue, G.Cfg.enq?, h.fq, G.GSt.route, h.loops, G.GSt.ctx, h.ctxs,
      G.GSt.setCtx, listSet, gn]
    exact ⟨⟨rfl, e1⟩, rfl⟩
  · refine ⟨rfl, ?_, ?_, ?_, h.loops, h.fq, h.handlers, h.readers, h.cnt, h.log⟩
    · intro x hx
      rcases List.mem_append.1 hx with hx | hx
      · have := h.wf x hx
        exact ⟨Nat.lt_succ_of_lt this.1, this.2⟩
      · simp only [List.mem_singleton] at hx
        subst hx
        refine ⟨Nat.lt_succ_self _, rfl, rfl, ?_⟩
        show false = _
        cases hb : busy with
        | none => rfl
        | some b =>
          have := h.busy_lt b hb
          have hne : b ≠ c.L.nextSrc := by omega
          simp [gn, hne]
    · rw [List.pairwise_append]
      refine ⟨h.nodup, by simp, ?_⟩
      intro a ha b hb
      simp only [List.mem_singleton] at hb
      subst hb
      have := (h.wf a ha).1
      show a.id ≠ c.L.nextSrc
      omega
    · intro b hb
      exact Nat.lt_succ_of_lt (h.busy_lt b hb)

end

/-- a handler's script: the new sources are attached behind the others, in order -/
theorem gsteps_enqs (P : Prog) {hs : List (Cls × HRef × Option Nat)} {lg : List Ev} {st : List (Nat × Nat)}
    {busy : Option Nat} {run : Bool} {ep : Nat} (rest : List G.Instr) :
    ∀ (gs : List GSig) {c : G.Cfg} {srcs : List G.GSource}, GSim hs c st srcs busy run ep lg →
    c.code = gs.map (fun g => G.Instr.act (actOf g)) ++ rest →
    ∃ c' news, GSteps P c c' ∧ c'.code = rest ∧ news.map (fun x => gsigOf x.sig) = gs ∧
      GSim hs c' st (srcs ++ news) busy run ep lg
  | [], c, srcs, h, hc => ⟨c, [], .refl _, hc, rfl, by simpa using h⟩
  | g :: gs, c, srcs, h, hc => by
    obtain ⟨c1, gn, hs1, hc1, hg, h1⟩ := gstep_enq P h g _ hc
    obtain ⟨c2, news, hs2, hc2, hn, h2⟩ := gsteps_enqs P rest gs h1 hc1
    refine ⟨c2, gn :: news, .head hs1 hs2, hc2, by simp [hg, hn], by simpa using h2⟩

section
variable (P : Prog) {hs : List (Cls × HRef × Option Nat)} {c : G.Cfg} {st : List (Nat × Nat)} {srcs : List G.GSource}
  {busy : Option Nat} {run : Bool} {ep : Nat} {lg : List Ev}

theorem gstep_callH (h : GSim hs c st srcs busy run ep lg) (hid : Nat) (d : Option Nat) (g : GSig) (rest : List G.Instr)
    (hc : c.code = .callH (.user hid) d (sigOf g) :: rest) :
    ∃ c', G.step P c = .ok c' ∧ c'.code = (P.handlerScript hid (cntOf st hid)).map .act ++ .hret hid :: rest ∧
      GSim hs c' (bumpSt st hid) srcs busy run ep (.h hid g.id d 1 :: lg) := by
  refine ⟨{ c with code := (P.handlerScript hid (gcallCount c.tr hid)).map .act ++ .hret hid :: rest,
                   tr := .m (.call (.user hid) d (sigOf g)) :: c.tr, log := .h hid g.id d 1 :: c.log }, ?_, ?_, ?_⟩
  · simp only [G.step, hc, G.Cfg.trace]
    rw [gemit_eq]
    · simp [G.push, h.loops, gcallCount]
      rfl
    · exact h.readers
  · show _ ++ _ = _
    rw [h.cnt]
  · refine ⟨h.ctxs, h.wf, h.nodup, h.busy_lt, h.loops, h.fq, h.handlers, h.readers, ?_, ?_⟩
    · intro hid'
      rw [cntOf_bumpSt, ← h.cnt, ← h.cnt]
      show (List.filter _ (_ :: c.tr)).length = _
      rw [List.filter_cons]
      by_cases hh : hid' = hid
      · subst hh; simp [gcallCount]
      · have : ¬ hid = hid' := fun e => hh e.symm
        simp [gcallCount, hh, this]
    · show _ :: c.log = _
      rw [h.log]

theorem gstep_hret (h : GSim hs c st srcs busy run ep lg) (hid : Nat) (rest : List G.Instr) (hc : c.code = .hret hid :: rest) :
    ∃ c', G.step P c = .ok c' ∧ c'.code = rest ∧ GSim hs c' st srcs busy run ep (.hret hid :: lg) := by
  refine ⟨{ c with code := rest, log := .hret hid :: c.log }, ?_, rfl,
    h.frame _ _ (gsameL_refl _) rfl (fun _ => rfl) (by show _ :: c.log = _; rw [h.log])⟩
  simp only [G.step, hc]
  rw [gemit_eq]
  exact h.readers

theorem gstep_catchRun (h : GSim hs c st srcs busy run ep lg) (rest : List G.Instr) (hc : c.code = .catchRun :: rest) :
    ∃ c', G.step P c = .ok c' ∧ c'.code = rest ∧ GSim hs c' st srcs busy run ep lg := by
  refine ⟨{ c with code := rest }, ?_, rfl, h.frame _ _ (gsameL_refl _) rfl (fun _ => rfl) h.log⟩
  simp only [G.step, hc]

theorem gstep_gCall_some (h : GSim hs c st srcs busy run ep lg) (g : GSig) (i : Nat) (rest : List G.Instr) (r : HRef)
    (d : Option Nat) (hc : c.code = .gCall (sigOf g) .live i :: rest) (hh : (hsOf hs (.user g.cls))[i]? = some (r, d)) :
    ∃ c', G.step P c = .ok c' ∧ c'.code = .callH r d (sigOf g) :: .gCall (sigOf g) .live (i + 1) :: rest ∧
      GSim hs c' st srcs busy run ep lg := by
  refine ⟨{ c with code := .callH r d (sigOf g) :: .gCall (sigOf g) .live (i + 1) :: rest }, ?_, rfl,
    h.frame _ _ (gsameL_refl _) rfl (fun _ => rfl) h.log⟩
  have hh' : (G.handlersOf ({ c with code := rest } : G.Cfg).L (Cls.user g.cls))[i]? = some (r, d) := by
    rw [← ghandlersOf_eq h.handlers] at hh; exact hh
  simp [G.step, hc, hh', h.fq, G.push]

theorem gstep_gCall_none (h : GSim hs c st srcs busy run ep lg) (g : GSig) (i : Nat) (rest : List G.Instr)
    (hc : c.code = .gCall (sigOf g) .live i :: rest) (hh : (hsOf hs (.user g.cls))[i]? = none) :
    ∃ c', G.step P c = .ok c' ∧ c'.code = rest ∧ GSim hs c' st srcs busy run ep lg := by
  refine ⟨{ c with code := rest, tr := .m (.dispatched (sigOf g) i) :: c.tr }, ?_, rfl,
    h.frame _ _ (gsameL_refl _) rfl (fun _ => rfl) h.log⟩
  have hh' : (G.handlersOf ({ c with code := rest } : G.Cfg).L (Cls.user g.cls))[i]? = none := by
    rw [← ghandlersOf_eq h.handlers] at hh; exact hh
  simp [G.step, hc, hh', G.Cfg.trace]

theorem gstep_gCall_empty (h : GSim hs c st srcs busy run ep lg) (s : Sig) (i : Nat) (rest : List G.Instr)
    (hc : c.code = .gCall s .empty i :: rest) :
    ∃ c', G.step P c = .ok c' ∧ c'.code = rest ∧ GSim hs c' st srcs busy run ep lg := by
  refine ⟨{ c with code := rest, tr := .m (.dispatched s i) :: c.tr }, ?_, rfl,
    h.frame _ _ (gsameL_refl _) rfl (fun _ => rfl) h.log⟩
  simp [G.step, hc, G.Cfg.trace]

theorem gstep_runH (h : GSim hs c st srcs busy run ep lg) (b : G.GSource) (rest : List G.Instr)
    (hc : c.code = .runH 0 b :: rest) :
    ∃ c', G.step P c = .ok c' ∧ c'.code = .gCall b.sig b.hs 0 :: .catchRun :: .endRun 0 b :: rest ∧
      GSim hs c' st srcs busy run ep lg := by
  refine ⟨{ c with code := .gCall b.sig b.hs 0 :: .catchRun :: .endRun 0 b :: rest }, ?_, rfl,
    h.frame _ _ (gsameL_refl _) rfl (fun _ => rfl) h.log⟩
  simp [G.step, hc, h.fq, G.push]

theorem gstep_gRun (h : GSim hs c st srcs busy true ep lg) (rest : List G.Instr) (hc : c.code = .gRun 0 :: rest) :
    ∃ c', G.step P c = .ok c' ∧ c'.code = .gIter 0 .block :: .gRun 0 :: rest ∧ GSim hs c' st srcs busy true ep lg := by
  refine ⟨{ c with code := .gIter 0 .block :: .gRun 0 :: rest }, ?_, rfl,
    h.frame _ _ (gsameL_refl _) rfl (fun _ => rfl) h.log⟩
  simp [G.step, hc, G.Cfg.ctx, G.GSt.ctx, h.ctxs, G.push]

theorem gstep_apprun (hP : Flat P) (h : GSim hs c st srcs busy run ep lg) (rest : List G.Instr)
    (hc : c.code = .apprun :: rest) :
    ∃ c', G.step P c = .ok c' ∧ c'.code = .gRun 0 :: .quitCb :: rest ∧ GSim hs c' st srcs busy true ep lg := by
  refine ⟨{ c with code := .gRun 0 :: .quitCb :: rest,
                   L := { c.L with forceQuit := false,
                                   ctxs := [{ sources := srcs, epoch := ep, running := true, srcset := [] }] } }, ?_, rfl, ?_⟩
  · simp [G.step, hc, hP.1, h.loops, G.push, G.Cfg.setCtx, G.GSt.setCtx, h.ctxs, listSet]
  · exact ⟨rfl, h.wf, h.nodup, h.busy_lt, h.loops, rfl, h.handlers, h.readers, h.cnt, h.log⟩

end

end Simpleline.Flat
