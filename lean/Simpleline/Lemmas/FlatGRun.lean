/-
  C20d, GLib machine: the dispatch of one batch element is `gstep`; collecting a batch; the start-up.
-/
import Simpleline.Lemmas.FlatG

namespace Simpleline.Flat
open Simpleline Simpleline.GLoop

/-- the stand-in's `in_call = True` on source `sid` -/
def markIn (sid : Nat) (g : G.GSource) : G.GSource := if g.id = sid then { g with inCall := true } else g

@[simp] theorem markIn_id (sid : Nat) (g : G.GSource) : (markIn sid g).id = g.id := by unfold markIn; split <;> rfl
@[simp] theorem markIn_sig (sid : Nat) (g : G.GSource) : (markIn sid g).sig = g.sig := by unfold markIn; split <;> rfl
@[simp] theorem markIn_hs (sid : Nat) (g : G.GSource) : (markIn sid g).hs = g.hs := by unfold markIn; split <;> rfl

section
variable (P : Prog) {hs : List (Cls × HRef × Option Nat)} {c : G.Cfg} {st : List (Nat × Nat)} {srcs : List G.GSource}
  {run : Bool} {ep : Nat} {lg : List Ev}

theorem gstep_gDisp (h : GSim hs c st srcs none run ep lg) (b : G.GSource) (rest : List G.Instr)
    (hc : c.code = .gDisp 0 ep b :: rest) (hb : b ∈ srcs) :
    ∃ c', G.step P c = .ok c' ∧ c'.code = .runH 0 b :: .gAfter 0 b.id :: rest ∧
      GSim hs c' st (srcs.map (markIn b.id)) (some b.id) run ep lg := by
  cases hfind : srcs.find? (fun x => x.id = b.id) with
  | none =>
    have := List.find?_eq_none.1 hfind b hb
    simp at this
  | some cur =>
    have hcur : cur.inCall = false := by
      have := (h.wf cur (List.mem_of_find?_eq_some hfind)).2.2.2
      simpa using this
    refine ⟨{ c with code := .runH 0 b :: .gAfter 0 b.id :: rest,
                     L := { c.L with ctxs := [{ sources := srcs.map (markIn b.id), epoch := ep, running := run, srcset := [] }] },
                     tr := .m (.take 0 b.sig) :: .disp 0 ep b :: c.tr }, ?_, rfl, ?_⟩
    · simp [G.step, hc, G.Cfg.ctx, G.GSt.ctx, h.ctxs, hfind, hcur, G.Cfg.setInCall, G.Cfg.setCtx, G.GSt.setCtx, listSet,
        G.Cfg.gtrace, G.Cfg.trace, G.push]
      intro a _; rfl
    · refine ⟨rfl, ?_, ?_, ?_, h.loops, h.fq, h.handlers, h.readers, h.cnt, h.log⟩
      · intro g' hg'
        obtain ⟨g, hg, rfl⟩ := List.mem_map.1 hg'
        have := h.wf g hg
        refine ⟨by simpa using this.1, by simpa using this.2.1, by simpa using this.2.2.1, ?_⟩
        unfold markIn
        by_cases hid : g.id = b.id
        · simp [hid]
        · have hne : ¬ b.id = g.id := fun e => hid e.symm
          have hg4 : g.inCall = false := by simpa using this.2.2.2
          simp [hid, hne, hg4]
      · rw [List.pairwise_map]
        simpa using h.nodup
      · intro x hx
        cases hx
        exact (h.wf b hb).1

theorem gstep_endRun (h : GSim hs c st srcs (some sid) run ep lg) (b : G.GSource) (hsid : b.id = sid) (rest : List G.Instr)
    (hc : c.code = .endRun 0 b :: rest) :
    ∃ c', G.step P c = .ok c' ∧ c'.code = rest ∧ GSim hs c' st (srcs.filter (fun g => g.id ≠ sid)) none run ep lg := by
  subst hsid
  refine ⟨{ c with code := rest,
                   L := { c.L with ctxs := [{ sources := srcs.filter (fun g => g.id ≠ b.id), epoch := ep, running := run, srcset := [] }],
                                   tickets := mark c.L.tickets b.sig.cls },
                   tr := .destroy 0 b.id :: c.tr }, ?_, rfl, ?_⟩
  · simp [G.step, hc, G.Cfg.destroy, G.Cfg.setCtx, G.GSt.setCtx, h.ctxs, listSet, G.Cfg.gtrace]
  · refine ⟨rfl, ?_, h.nodup.filter _, (fun _ hx => by cases hx), h.loops, h.fq, h.handlers, h.readers, h.cnt, h.log⟩
    intro g hg
    obtain ⟨hg, hne⟩ := List.mem_filter.1 hg
    have := h.wf g hg
    refine ⟨this.1, this.2.1, this.2.2.1, ?_⟩
    have hne' : ¬ b.id = g.id := by
      intro e; simp [e] at hne
    rw [this.2.2.2]
    simp [hne']

theorem gstep_gAfter (h : GSim hs c st srcs none run ep lg) (sid : Nat) (hsid : ∀ g ∈ srcs, g.id ≠ sid) (rest : List G.Instr)
    (hc : c.code = .gAfter 0 sid :: rest) :
    ∃ c', G.step P c = .ok c' ∧ c'.code = rest ∧ GSim hs c' st srcs none run ep lg := by
  have e1 : srcs.map (fun g => if g.id = sid then { g with inCall := false } else g) = srcs := by
    conv => rhs; rw [← List.map_id srcs]
    apply List.map_congr_left
    intro g hg
    simp [hsid g hg]
  refine ⟨{ c with code := rest,
                   L := { c.L with ctxs := [{ sources := srcs, epoch := ep, running := run, srcset := [] }] } }, ?_, rfl,
    ⟨rfl, h.wf, h.nodup, h.busy_lt, h.loops, h.fq, h.handlers, h.readers, h.cnt, h.log⟩⟩
  simp [G.step, hc, G.Cfg.destroy, G.Cfg.setInCall, G.Cfg.setCtx, G.GSt.setCtx, h.ctxs, listSet, e1]
  exact hsid

theorem ready_eq (h : GSim hs c st srcs none run ep lg) : srcs.filter (fun g => !g.inCall) = srcs := by
  rw [List.filter_eq_self]
  intro g hg
  have := (h.wf g hg).2.2.2
  simp at this
  simp [this]

theorem gstep_gIter (h : GSim hs c st srcs none true ep lg) (p : Int) (hp : G.minPrio srcs = some p) (rest : List G.Instr)
    (hc : c.code = .gIter 0 .block :: rest) :
    ∃ c', G.step P c = .ok c' ∧
      c'.code = (srcs.filter fun g => g.sig.prio = p).map (fun g => G.Instr.gDisp 0 (ep + 1) g) ++ rest ∧
      GSim hs c' st srcs none true (ep + 1) lg := by
  refine ⟨{ c with code := (srcs.filter fun g => g.sig.prio = p).map (fun g => G.Instr.gDisp 0 (ep + 1) g) ++ rest,
                   L := { c.L with ctxs := [{ sources := srcs, epoch := ep + 1, running := true, srcset := [] }] },
                   tr := .iter 0 (ep + 1) p srcs (srcs.filter fun g => g.sig.prio = p) :: c.tr }, ?_, rfl, ?_⟩
  · have hr := ready_eq h
    simp [G.step, hc, G.Cfg.ctx, G.GSt.ctx, h.ctxs, G.Cfg.setCtx, G.GSt.setCtx, listSet, G.Ctx.ready, hr, G.Cfg.deliver,
      h.readers, hp, G.push, G.Cfg.gtrace]
  · exact ⟨rfl, h.wf, h.nodup, h.busy_lt, h.loops, h.fq, h.handlers, h.readers, h.cnt, h.log⟩

theorem gstep_gIter_blocked (h : GSim hs c st [] none true ep lg) (rest : List G.Instr)
    (hc : c.code = .gIter 0 .block :: rest) :
    ∃ c', G.step P c = .error (.blocked, c') ∧ c'.log = lg := by
  refine ⟨{ c with code := rest, L := { c.L with ctxs := [{ sources := [], epoch := ep + 1, running := true, srcset := [] }] } },
    ?_, h.log⟩
  simp [G.step, hc, G.Cfg.ctx, G.GSt.ctx, h.ctxs, G.Cfg.setCtx, G.GSt.setCtx, listSet, G.Ctx.ready, G.Cfg.deliver,
    h.readers, G.minPrio]

end

end Simpleline.Flat
