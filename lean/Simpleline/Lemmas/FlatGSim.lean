/-
  C20d, GLib machine: the dispatch of one batch element of the machine is `gstep`; the run.
-/
import Simpleline.Lemmas.FlatGRun
import Simpleline.Lemmas.GLoopSim

namespace Simpleline.Flat
open Simpleline Simpleline.GLoop

/-- the `for handler in handlers` loop of `_run_handlers` from index `i` on -/
theorem gsteps_gcall (P : Prog) (hP : Flat P) {hs : List (Cls × HRef × Option Nat)} (hhs : FlatHandlers hs) (g : GSig)
    {busy : Option Nat} {run : Bool} {ep : Nat} (rest : List G.Instr) :
    ∀ (l : List (HRef × Option Nat)) (i : Nat) {c : G.Cfg} {st : List (Nat × Nat)} {srcs : List G.GSource} {lg : List Ev},
    GSim hs c st srcs busy run ep lg → c.code = .gCall (sigOf g) .live i :: rest → (hsOf hs (.user g.cls)).drop i = l →
    ∃ c' news, GSteps P c c' ∧ c'.code = rest ∧ news.map (fun x => gsigOf x.sig) = (runHs P l st).2 ∧
      GSim hs c' (runHs P l st).1 (srcs ++ news) busy run ep ((hLog l g.id).reverse ++ lg)
  | [], i, c, st, srcs, lg, h, hc, hl => by
    have hn : (hsOf hs (.user g.cls))[i]? = none := by
      rw [List.getElem?_eq_none_iff]; exact List.drop_eq_nil_iff.1 hl
    obtain ⟨c1, hs1, hc1, h1⟩ := gstep_gCall_none P h g i rest hc hn
    exact ⟨c1, [], .one hs1, hc1, rfl, by simpa [runHs, hLog] using h1⟩
  | (r, d) :: l, i, c, st, srcs, lg, h, hc, hl => by
    obtain ⟨hsome, hdrop⟩ := drop_cons_facts _ i _ _ hl
    have hmem : (r, d) ∈ hsOf hs (.user g.cls) := List.mem_of_getElem? hsome
    obtain ⟨hid, hr⟩ := hsOf_flat hhs _ _ hmem
    simp only at hr
    subst hr
    obtain ⟨c1, hs1, hc1, h1⟩ := gstep_gCall_some P h g i rest _ d hc hsome
    obtain ⟨c2, hs2, hc2, h2⟩ := gstep_callH P h1 hid d g _ hc1
    rw [script_eq hP, List.map_map] at hc2
    obtain ⟨c3, n1, hs3, hc3, hn1, h3⟩ := gsteps_enqs P _ (script P hid (cntOf st hid)) h2 hc2
    obtain ⟨c4, hs4, hc4, h4⟩ := gstep_hret P h3 hid _ hc3
    obtain ⟨c5, n2, hs5, hc5, hn2, h5⟩ := gsteps_gcall P hP hhs g rest l (i + 1) h4 hc4 hdrop
    refine ⟨c5, n1 ++ n2, .head hs1 (.head hs2 (hs3.trans (.head hs4 hs5))), hc5, by simp [runHs, hn1, hn2], ?_⟩
    simpa [runHs, hLog_cons_user, List.append_assoc] using h5

theorem filter_mark (sid : Nat) : ∀ (l : List G.GSource),
    (l.map (markIn sid)).filter (fun g => g.id ≠ sid) = l.filter (fun g => g.id ≠ sid)
  | [] => rfl
  | a :: l => by
    have ih := filter_mark sid l
    rw [List.map_cons, List.filter_cons, List.filter_cons, ih]
    by_cases ha : a.id = sid
    · simp [ha]
    · have : markIn sid a = a := by simp [markIn, ha]
      simp [ha, this]

theorem filter_ne_of_nodup {l l1 l2 : List G.GSource} {b : G.GSource} (hl : l = l1 ++ b :: l2)
    (hn : l.Pairwise (fun a b => a.id ≠ b.id)) : l.filter (fun g => g.id ≠ b.id) = l1 ++ l2 := by
  subst hl
  rw [List.pairwise_append] at hn
  obtain ⟨_, h2, h3⟩ := hn
  rw [List.pairwise_cons] at h2
  have e1 : l1.filter (fun g => g.id ≠ b.id) = l1 := by
    rw [List.filter_eq_self]; intro x hx; simpa using h3 x hx b (by simp)
  have e2 : l2.filter (fun g => g.id ≠ b.id) = l2 := by
    rw [List.filter_eq_self]; intro x hx
    have := h2.1 x hx
    simpa using fun e : x.id = b.id => this e.symm
  rw [List.filter_append, List.filter_cons, e1, e2]
  simp

/-- the dispatch of one batch element: `gDisp`, `_run_handlers`, destroy -/
theorem gmacro_disp (P : Prog) (hP : Flat P) {hs : List (Cls × HRef × Option Nat)} (hhs : FlatHandlers hs) {c : G.Cfg}
    {st : List (Nat × Nat)} {srcs : List G.GSource} {ep : Nat} {lg : List Ev}
    (h : GSim hs c st srcs none true ep lg) (b : G.GSource) (hb : b ∈ srcs) (rest : List G.Instr)
    (hc : c.code = .gDisp 0 ep b :: rest) :
    ∃ c' news, GSteps P c c' ∧ c'.code = rest ∧
      news.map (fun x => gsigOf x.sig) = (absProg P hs st (gsigOf b.sig)).2 ∧
      GSim hs c' (absProg P hs st (gsigOf b.sig)).1 (srcs.filter (fun g => g.id ≠ b.id) ++ news) none true ep
        ((hLog (hsOf hs (.user (gsigOf b.sig).cls)) (gsigOf b.sig).id).reverse ++ lg) := by
  have hwf := h.wf b hb
  have hsig : b.sig = sigOf (gsigOf b.sig) := hwf.2.1.symm
  generalize hgb : gsigOf b.sig = gb at hsig ⊢
  obtain ⟨c1, hs1, hc1, h1⟩ := gstep_gDisp P h b rest hc hb
  obtain ⟨c2, hs2, hc2, h2⟩ := gstep_runH P h1 b _ hc1
  rw [absProg_eq]
  have hmid : ∃ c3 news, GSteps P c2 c3 ∧ c3.code = .catchRun :: .endRun 0 b :: .gAfter 0 b.id :: rest ∧
      news.map (fun x => gsigOf x.sig) = (runHs P (hsOf hs (.user gb.cls)) st).2 ∧
      GSim hs c3 (runHs P (hsOf hs (.user gb.cls)) st).1 (srcs.map (markIn b.id) ++ news) (some b.id) true ep
        ((hLog (hsOf hs (.user gb.cls)) gb.id).reverse ++ lg) := by
    have hhl : b.hs = if hsOf hs (.user gb.cls) ≠ [] then G.HList.live else .empty := by
      rw [hwf.2.2.1, hsig]
      simp [hl, hsOf_base]
    by_cases hH : hsOf hs (.user gb.cls) = []
    · rw [hhl, hsig] at hc2
      simp only [hH, ne_eq, not_true_eq_false, if_false] at hc2
      obtain ⟨c3, hs3, hc3, h3⟩ := gstep_gCall_empty P h2 _ 0 _ hc2
      refine ⟨c3, [], .one hs3, hc3, by simp [hH, runHs], ?_⟩
      simpa [hH, runHs, hLog] using h3
    · rw [hhl, hsig] at hc2
      simp only [hH, ne_eq, not_false_eq_true, if_true] at hc2
      obtain ⟨c3, news, hs3, hc3, hn, h3⟩ := gsteps_gcall P hP hhs gb _ _ 0 h2 hc2 List.drop_zero
      exact ⟨c3, news, hs3, hc3, hn, h3⟩
  obtain ⟨c3, news, hs3, hc3, hn, h3⟩ := hmid
  obtain ⟨c4, hs4, hc4, h4⟩ := gstep_catchRun P h3 _ hc3
  obtain ⟨c5, hs5, hc5, h5⟩ := gstep_endRun P h4 b rfl _ hc4
  have hnews : ∀ n ∈ news, n.id ≠ b.id := by
    have := h3.nodup
    rw [List.pairwise_append] at this
    intro n hn' e
    exact this.2.2 (markIn b.id b) (List.mem_map_of_mem hb) n hn' (by simp [e])
  have hfil : (srcs.map (markIn b.id) ++ news).filter (fun g => g.id ≠ b.id) = srcs.filter (fun g => g.id ≠ b.id) ++ news := by
    rw [List.filter_append, filter_mark]
    congr 1
    rw [List.filter_eq_self]; intro x hx; simpa using hnews x hx
  rw [hfil] at h5
  obtain ⟨c6, hs6, hc6, h6⟩ := gstep_gAfter P h5 b.id (by
    intro x hx
    rcases List.mem_append.1 hx with hx | hx
    · simpa using (List.mem_filter.1 hx).2
    · exact hnews x hx) _ hc5
  exact ⟨c6, news, .head hs1 (.head hs2 (hs3.trans (.head hs4 (.head hs5 (.one hs6))))), hc6, hn, h6⟩

end Simpleline.Flat

namespace Simpleline.Flat
open Simpleline Simpleline.GLoop

/-- The GLib machine between two dispatches: the rest of the current batch (pending `gDisp`s of the current
iteration `ep`) and `run()`'s loop are pending; nothing is in dispatch; the batch is what is left of the sources of one
priority among those attached when the iteration started (`old`). -/
def GBound (hs : List (Cls × HRef × Option Nat)) (c : G.Cfg) (st : List (Nat × Nat)) (batch srcs : List G.GSource)
    (lg : List Ev) : Prop :=
  ∃ ep, GSim hs c st srcs none true ep lg ∧
    c.code = batch.map (fun g => G.Instr.gDisp 0 ep g) ++ [.gRun 0, .quitCb] ∧
    ∃ old new p, srcs = old ++ new ∧ batch = old.filter (fun g => g.sig.prio = p)

theorem minPrio_map : ∀ (l : List G.GSource), GLoop.minPrio (l.map fun g => gsigOf g.sig) = G.minPrio l
  | [] => rfl
  | a :: l => by
    simp only [List.map_cons, GLoop.minPrio, G.minPrio, minPrio_map l]
    cases G.minPrio l <;> rfl

theorem filter_map_prio (p : Int) (l : List G.GSource) :
    (l.filter fun g => g.sig.prio = p).map (fun g => gsigOf g.sig) = (l.map fun g => gsigOf g.sig).filter (fun s => s.prio = p) := by
  induction l with
  | nil => rfl
  | cons a l ih =>
    by_cases h : a.sig.prio = p <;> simp [h, ih]

/-- dispatching the head of the batch is `gstep` -/
theorem gb_disp (P : Prog) (hP : Flat P) {hs : List (Cls × HRef × Option Nat)} (hhs : FlatHandlers hs) {c : G.Cfg}
    {st : List (Nat × Nat)} {b : G.GSource} {rest srcs : List G.GSource} {lg : List Ev}
    (h : GBound hs c st (b :: rest) srcs lg) :
    ∃ c' srcs', GSteps P c c' ∧
      GBound hs c' (absProg P hs st (gsigOf b.sig)).1 rest srcs'
        ((hLog (hsOf hs (.user (gsigOf b.sig).cls)) (gsigOf b.sig).id).reverse ++ lg) ∧
      srcs'.map (fun g => gsigOf g.sig) =
        (srcs.map fun g => gsigOf g.sig).erase (gsigOf b.sig) ++ (absProg P hs st (gsigOf b.sig)).2 := by
  obtain ⟨ep, hsim, hc, old, new, p, hsrcs, hbatch⟩ := h
  obtain ⟨pre, post, hold, hpre, hpb, hpost⟩ := List.filter_eq_cons_iff.1 hbatch.symm
  have hb : b ∈ srcs := by rw [hsrcs, hold]; simp
  obtain ⟨c', news, hst, hc', hn, h'⟩ := gmacro_disp P hP hhs hsim b hb _ hc
  have hdec : srcs = pre ++ b :: (post ++ new) := by rw [hsrcs, hold]; simp
  rw [filter_ne_of_nodup hdec hsim.nodup] at h'
  refine ⟨c', pre ++ (post ++ new) ++ news, hst, ⟨ep, h', hc', pre ++ post, new ++ news, p, by simp, ?_⟩, ?_⟩
  · rw [List.filter_append, hpost]
    have : pre.filter (fun g => g.sig.prio = p) = [] := by
      rw [List.filter_eq_nil_iff]; exact hpre
    rw [this]; rfl
  · have hnot : gsigOf b.sig ∉ pre.map (fun g => gsigOf g.sig) := by
      intro hm
      obtain ⟨x, hx, he⟩ := List.mem_map.1 hm
      have h1 : x.sig.prio = b.sig.prio := congrArg GSig.prio he
      have h2 : b.sig.prio = p := by simpa using hpb
      have h3 := hpre x hx
      simp [h1, h2] at h3
    rw [hdec]
    simp only [List.map_append, List.map_cons]
    rw [hn, List.erase_append_right _ hnot, List.erase_cons_head]

/-- with the batch exhausted `run()` starts the next iteration, which collects the sources of the most urgent priority -/
theorem gb_iter (P : Prog) {hs : List (Cls × HRef × Option Nat)} {c : G.Cfg} {st : List (Nat × Nat)}
    {srcs : List G.GSource} {lg : List Ev} (h : GBound hs c st [] srcs lg) (p : Int) (hp : G.minPrio srcs = some p) :
    ∃ c', GSteps P c c' ∧ GBound hs c' st (srcs.filter fun g => g.sig.prio = p) srcs lg := by
  obtain ⟨ep, hsim, hc, -⟩ := h
  obtain ⟨c1, hs1, hc1, h1⟩ := gstep_gRun P hsim _ hc
  obtain ⟨c2, hs2, hc2, h2⟩ := gstep_gIter P h1 p hp _ hc1
  exact ⟨c2, .head hs1 (.one hs2), ep + 1, h2, hc2, srcs, [], p, by simp, rfl⟩

/-- with nothing attached `run()` blocks in the iteration: two steps, the log stays -/
theorem gb_blocked (P : Prog) {hs : List (Cls × HRef × Option Nat)} {c : G.Cfg} {st : List (Nat × Nat)} {lg : List Ev}
    (h : GBound hs c st [] [] lg) : ∃ c', (∀ j, G.runFuel P (2 + j) c = (c', .blocked)) ∧ c'.log = lg := by
  obtain ⟨ep, hsim, hc, -⟩ := h
  obtain ⟨c1, hs1, hc1, h1⟩ := gstep_gRun P hsim _ hc
  obtain ⟨c2, hs2, hl2⟩ := gstep_gIter_blocked P h1 _ hc1
  refine ⟨c2, fun j => ?_, hl2⟩
  have : 2 + j = (j + 1) + 1 := by omega
  rw [this, G.runFuel, hs1]
  simp only [G.runFuel, hs2]

/-- the GLib machine at a dispatch boundary corresponds to the abstract GLib state `g` -/
def GRelI (hs : List (Cls × HRef × Option Nat)) (c : G.Cfg) (g : GState (List (Nat × Nat))) : Prop :=
  ∃ batch srcs, GBound hs c g.st batch srcs (runLog hs g.done).reverse ∧
    batch.map (fun x => gsigOf x.sig) = g.batch ∧ srcs.map (fun x => gsigOf x.sig) = g.attached

theorem grel_step_cons (P : Prog) (hP : Flat P) {hs : List (Cls × HRef × Option Nat)} (hhs : FlatHandlers hs) {c : G.Cfg}
    {g g' : GState (List (Nat × Nat))} (h : GRelI hs c g) (hne : g.batch ≠ []) (hg : gstep (absProg P hs) g = some g') :
    ∃ c', GSteps P c c' ∧ GRelI hs c' g' := by
  obtain ⟨batch, srcs, hb, hbm, hsm⟩ := h
  cases batch with
  | nil => exact absurd hbm.symm hne
  | cons b rest =>
    rw [gstep_of_batch_cons _ hbm.symm] at hg
    cases hg
    obtain ⟨c', srcs', hst, hb', hm'⟩ := gb_disp P hP hhs hb
    refine ⟨c', hst, rest, srcs', ?_, rfl, ?_⟩
    · simpa [runLog_snoc] using hb'
    · rw [hm', hsm]

/-- the dispatch step of the GLib machine (a new iteration first, when the batch is exhausted) is `gstep` -/
theorem grel_step (P : Prog) (hP : Flat P) {hs : List (Cls × HRef × Option Nat)} (hhs : FlatHandlers hs) {c : G.Cfg}
    {g g' : GState (List (Nat × Nat))} (h : GRelI hs c g) (hg : gstep (absProg P hs) g = some g') :
    ∃ c', GSteps P c c' ∧ GRelI hs c' g' := by
  by_cases hne : g.batch = []
  · obtain ⟨batch, srcs, hb, hbm, hsm⟩ := h
    have hb0 : batch = [] := by simpa [hne] using hbm
    subst hb0
    rw [gstep_of_batch_nil _ hne] at hg
    cases hp : G.minPrio srcs with
    | none =>
      have : collect g.attached = [] := by
        rw [← hsm]; unfold collect; rw [minPrio_map, hp]
      rw [gstep_eq] at hg
      simp [this] at hg
    | some p =>
      obtain ⟨c1, hs1, hb1⟩ := gb_iter P hb p hp
      have hcol : collect g.attached = (srcs.filter fun g => g.sig.prio = p).map (fun x => gsigOf x.sig) := by
        rw [← hsm]; unfold collect; rw [minPrio_map, hp, filter_map_prio]
      have hne1 : collect g.attached ≠ [] := by
        intro e
        rw [gstep_eq] at hg
        simp [e] at hg
      obtain ⟨c2, hs2, h2⟩ := grel_step_cons P hP hhs (g := { g with batch := collect g.attached })
        ⟨_, srcs, hb1, hcol.symm, hsm⟩ hne1 hg
      exact ⟨c2, hs1.trans hs2, h2⟩
  · exact grel_step_cons P hP hhs h hne hg

theorem grel_blocked (P : Prog) {hs : List (Cls × HRef × Option Nat)} {c : G.Cfg}
    {g : GState (List (Nat × Nat))} (h : GRelI hs c g) (hg : gstep (absProg P hs) g = none) :
    ∃ c', (∀ j, G.runFuel P (2 + j) c = (c', .blocked)) ∧ c'.log = c.log := by
  obtain ⟨batch, srcs, hb, hbm, hsm⟩ := h
  obtain ⟨h1, h2⟩ := gstep_eq_none.1 hg
  have hb0 : batch = [] := by simpa [h1] using hbm
  have hs0 : srcs = [] := by simpa [h2] using hsm
  subst hb0 hs0
  obtain ⟨c', hc', hl⟩ := gb_blocked P hb
  obtain ⟨ep, hsim, -⟩ := hb
  exact ⟨c', hc', hl.trans hsim.log.symm⟩

theorem grel_run (P : Prog) (hP : Flat P) {hs : List (Cls × HRef × Option Nat)} (hhs : FlatHandlers hs) :
    ∀ (n : Nat) {c : G.Cfg} {g : GState (List (Nat × Nat))}, GRelI hs c g →
    ∃ c', GSteps P c c' ∧ GRelI hs c' (grun (absProg P hs) n g)
  | 0, c, g, h => ⟨c, .refl _, h⟩
  | n + 1, c, g, h => by
    unfold grun
    cases hg : gstep (absProg P hs) g with
    | none => exact ⟨c, .refl _, h⟩
    | some g' =>
      obtain ⟨c1, hs1, h1⟩ := grel_step P hP hhs h hg
      obtain ⟨c2, hs2, h2⟩ := grel_run P hP hhs n h1
      exact ⟨c2, hs1.trans hs2, h2⟩

theorem ginit_sim (hs : List (Cls × HRef × Option Nat)) (acts : List Act) (quitCb : Option Nat) (stdin : List Str) :
    GSim hs (G.initCfg acts hs quitCb stdin) [] [] none false 0 [] :=
  ⟨rfl, (fun _ hx => by simp at hx), List.Pairwise.nil, (fun _ hx => by cases hx), rfl, rfl, rfl, rfl, fun _ => rfl, rfl⟩

/-- start-up: the enqueues before `run()` attach one source each; then `run()` enters its loop -/
theorem grel_init (P : Prog) (hP : Flat P) (hs : List (Cls × HRef × Option Nat)) (init : List GSig) (quitCb : Option Nat)
    (stdin : List Str) :
    ∃ c', GSteps P (G.initCfg (initActs init) hs quitCb stdin) c' ∧ GRelI hs c' (ginit [] init) := by
  have h0 := ginit_sim hs (initActs init) quitCb stdin
  have hc0 : (G.initCfg (initActs init) hs quitCb stdin).code = init.map (fun g => G.Instr.act (actOf g)) ++ [.apprun] := by
    simp [G.initCfg, initActs, List.map_map]
  obtain ⟨c1, news, hs1, hc1, hn, h1⟩ := gsteps_enqs P _ init h0 hc0
  obtain ⟨c2, hs2, hc2, h2⟩ := gstep_apprun P hP h1 _ hc1
  refine ⟨c2, hs1.trans (.one hs2), [], [] ++ news, ⟨0, h2, hc2, [], [] ++ news, 0, rfl, rfl⟩, rfl, ?_⟩
  simpa [ginit] using hn

/-- from the start configuration the GLib machine reaches a dispatch boundary that corresponds to `grun … n` -/
theorem gmachine_reaches (P : Prog) (hP : Flat P) {hs : List (Cls × HRef × Option Nat)} (hhs : FlatHandlers hs)
    (init : List GSig) (quitCb : Option Nat) (stdin : List Str) (n : Nat) :
    ∃ c, GSteps P (G.initCfg (initActs init) hs quitCb stdin) c ∧ GRelI hs c (grun (absProg P hs) n (ginit [] init)) := by
  obtain ⟨c0, hs0, h0⟩ := grel_init P hP hs init quitCb stdin
  obtain ⟨c1, hs1, h1⟩ := grel_run P hP hhs n h0
  exact ⟨c1, hs0.trans hs1, h1⟩

theorem gbatchOf_map (ep : Nat) (rest : List G.Instr) (hr : gbatchOf rest = []) : ∀ (batch : List G.GSource),
    gbatchOf (batch.map (fun g => G.Instr.gDisp 0 ep g) ++ rest) = batch
  | [] => hr
  | b :: batch => by simp [gbatchOf, gbatchOf_map ep rest hr batch]

theorem gafterBatch_map (ep : Nat) (rest : List G.Instr) (hr : gafterBatch rest = rest) : ∀ (batch : List G.GSource),
    gafterBatch (batch.map (fun g => G.Instr.gDisp 0 ep g) ++ rest) = rest
  | [] => hr
  | b :: batch => by simp [gafterBatch, gafterBatch_map ep rest hr batch]

theorem GRelI.toRel {hs : List (Cls × HRef × Option Nat)} {c : G.Cfg} {g : GState (List (Nat × Nat))}
    (h : GRelI hs c g) : GRel hs c g := by
  obtain ⟨batch, srcs, ⟨ep, hsim, hc, -⟩, hbm, hsm⟩ := h
  refine ⟨?_, ?_, ?_, hsim.cnt, by rw [hsim.log, List.reverse_reverse]⟩
  · rw [hc]; exact gafterBatch_map ep _ rfl batch
  · rw [hc, gbatchOf_map ep _ rfl batch]; exact hbm
  · simp only [gattached, G.Cfg.ctx, G.GSt.ctx, hsim.ctxs]
    exact hsm

end Simpleline.Flat
