/-
  C20d, MainLoop machine: what the instructions of a flat run do (micro steps), under the invariant of flat runs.
-/
import Simpleline.Lemmas.FlatBasic

namespace Simpleline.Flat
open Simpleline Simpleline.GLoop

/-! ### step sequences -/

theorem MSteps.trans {P : Prog} {a b c : Cfg} (h1 : MSteps P a b) (h2 : MSteps P b c) : MSteps P a c := by
  induction h1 with
  | refl => exact h2
  | head hs _ ih => exact .head hs (ih h2)

theorem MSteps.one {P : Prog} {c c' : Cfg} (h : step P c = .ok c') : MSteps P c c' := .head h (.refl _)

theorem MSteps.runFuel {P : Prog} {c c' : Cfg} (h : MSteps P c c') : ∃ k, ∀ j, runFuel P (k + j) c = runFuel P j c' := by
  induction h with
  | refl => exact ⟨0, fun j => by simp⟩
  | head hs _ ih =>
    obtain ⟨k, hk⟩ := ih
    refine ⟨k + 1, fun j => ?_⟩
    have : k + 1 + j = (k + j) + 1 := by omega
    rw [this, Simpleline.runFuel, hs]
    exact hk j

/-! ### the invariant of flat runs -/

/-- one queue object (level 0, active) without sources, entries numbered below the arrival counter and flat; no force
quit; the handlers are the initial ones; no reader thread -/
structure MInv (hs : List (Cls × HRef × Option Nat)) (c : Cfg) : Prop where
  queues : ∃ q, c.L.queues = [q] ∧ q.sources = [] ∧
    ∀ x ∈ q.entries, x.2.1 < q.seq ∧ x.1 = x.2.2.prio ∧ sigOf (gsigOf x.2.2) = x.2.2
  levels : c.L.levels = [0]
  active : c.L.active = 0
  fq : c.L.forceQuit = false
  rl : c.L.runLoop = true
  handlers : c.L.handlers = baseH ++ hs
  readers : c.A.readers = []

/-- the machine state seen abstractly: pending signals, invocation counters, log -/
structure MSim (hs : List (Cls × HRef × Option Nat)) (c : Cfg) (st : List (Nat × Nat)) (queue : List GSig)
    (log : List Ev) : Prop where
  inv : MInv hs c
  q : mqueue c = queue
  cnt : ∀ hid, callCount c.tr hid = cntOf st hid
  log : c.log = log

theorem emit_eq (P : Prog) (c : Cfg) (e : Ev) (hr : c.A.readers = []) : c.emit P e = { c with log := e :: c.log } := by
  simp only [Cfg.emit, Cfg.deliver, hr]
  split <;> rfl

theorem handlersOf_eq {hs : List (Cls × HRef × Option Nat)} {c : Cfg} (h : MInv hs c) (k : Nat) :
    handlersOf c.L (.user k) = hsOf hs (.user k) := by
  show hsOf c.L.handlers (.user k) = _
  rw [h.handlers, hsOf_base]

/-! ### micro steps -/

theorem step_enq (P : Prog) {hs : List (Cls × HRef × Option Nat)} {c : Cfg} {st : List (Nat × Nat)} {q : List GSig}
    {lg : List Ev} (h : MSim hs c st q lg) (g : GSig) (rest : List Instr) (hc : c.code = .act (actOf g) :: rest) :
    ∃ c', step P c = .ok c' ∧ c'.code = rest ∧ MSim hs c' st (insertStable g q) lg := by
  obtain ⟨q0, hq, hsrc, hent⟩ := h.inv.queues
  have hq0 : q0.entries.map (fun x => gsigOf x.2.2) = q := by
    have := h.q
    simpa [mqueue, LoopSt.activeQ, hq, h.inv.active] using this
  refine ⟨{ c with code := rest, L := { c.L with queues := [q0.put (sigOf g)] }, tr := .enq 0 (sigOf g) :: c.tr }, ?_, rfl, ?_⟩
  · simp [step, hc, doAct, actOf, Cfg.enqueue, h.inv.fq, LoopSt.route, h.inv.levels, hq, hsrc, h.inv.active, listSet,
      sigOf]
  · refine ⟨⟨⟨_, rfl, hsrc, ?_⟩, h.inv.levels, h.inv.active, h.inv.fq, h.inv.rl, h.inv.handlers, h.inv.readers⟩, ?_, h.cnt, h.log⟩
    · intro x hx
      rcases mem_insertEntry hx with rfl | hx
      · exact ⟨Nat.lt_succ_self _, rfl, rfl⟩
      · have := hent x hx
        exact ⟨Nat.lt_succ_of_lt this.1, this.2⟩
    · show (([q0.put (sigOf g)] : List EQueue).getD c.L.active {}).entries.map _ = _
      rw [h.inv.active, ← hq0]
      exact map_insertEntry (sigOf g) q0.seq q0.entries (fun x hx => ⟨(hent x hx).1, (hent x hx).2.1⟩)

theorem steps_enqs (P : Prog) {hs : List (Cls × HRef × Option Nat)} {lg : List Ev} {st : List (Nat × Nat)}
    (rest : List Instr) : ∀ (gs : List GSig) {c : Cfg} {q : List GSig}, MSim hs c st q lg →
    c.code = gs.map (fun g => Instr.act (actOf g)) ++ rest →
    ∃ c', MSteps P c c' ∧ c'.code = rest ∧ MSim hs c' st (gs.foldl (fun q e => insertStable e q) q) lg
  | [], c, q, h, hc => ⟨c, .refl _, hc, h⟩
  | g :: gs, c, q, h, hc => by
    obtain ⟨c1, hs1, hc1, h1⟩ := step_enq P h g _ hc
    obtain ⟨c2, hs2, hc2, h2⟩ := steps_enqs P rest gs h1 hc1
    exact ⟨c2, .head hs1 hs2, hc2, h2⟩

theorem step_callH (P : Prog) {hs : List (Cls × HRef × Option Nat)} {c : Cfg} {st : List (Nat × Nat)} {q : List GSig}
    {lg : List Ev} (h : MSim hs c st q lg) (hid : Nat) (d : Option Nat) (g : GSig) (rest : List Instr)
    (hc : c.code = .callH (.user hid) d (sigOf g) :: rest) :
    ∃ c', step P c = .ok c' ∧ c'.code = (P.handlerScript hid (cntOf st hid)).map .act ++ .hret hid :: rest ∧
      MSim hs c' (bumpSt st hid) q (.h hid g.id d 1 :: lg) := by
  refine ⟨{ c with code := (P.handlerScript hid (callCount c.tr hid)).map .act ++ .hret hid :: rest,
                   tr := .call (.user hid) d (sigOf g) :: c.tr, log := .h hid g.id d 1 :: c.log }, ?_, ?_, ?_⟩
  · simp only [step, hc, Cfg.trace]
    rw [emit_eq]
    · simp [push, h.inv.levels, callCount]
      rfl
    · exact h.inv.readers
  · show _ ++ _ = _
    rw [h.cnt]
  · refine ⟨⟨h.inv.queues, h.inv.levels, h.inv.active, h.inv.fq, h.inv.rl, h.inv.handlers, h.inv.readers⟩, h.q, ?_, ?_⟩
    · intro hid'
      rw [cntOf_bumpSt, ← h.cnt, ← h.cnt]
      show (List.filter _ (_ :: c.tr)).length = _
      rw [List.filter_cons]
      by_cases hh : hid' = hid
      · subst hh; simp [callCount]
      · have : ¬ hid = hid' := fun e => hh e.symm
        simp [callCount, hh, this]
    · show _ :: c.log = _
      rw [h.log]

end Simpleline.Flat
