/-
  C20d, MainLoop machine: the macro step "take the head, run all its handlers, insert what they enqueue" is `mstep`;
  the start-up; the run.
-/
import Simpleline.Lemmas.FlatM

namespace Simpleline.Flat
open Simpleline Simpleline.GLoop

/-- the loop-state fields the invariant reads are unchanged -/
def sameL (L L' : LoopSt) : Prop :=
  L'.queues = L.queues ∧ L'.levels = L.levels ∧ L'.active = L.active ∧ L'.forceQuit = L.forceQuit ∧
  L'.runLoop = L.runLoop ∧ L'.handlers = L.handlers

theorem MSim.frame {hs : List (Cls × HRef × Option Nat)} {c : Cfg} {st : List (Nat × Nat)} {q : List GSig} {lg : List Ev}
    (h : MSim hs c st q lg) (c' : Cfg) (lg' : List Ev) (hL : sameL c.L c'.L) (hr : c'.A.readers = c.A.readers)
    (htr : ∀ hid, callCount c'.tr hid = callCount c.tr hid) (hlog : c'.log = lg') : MSim hs c' st q lg' := by
  obtain ⟨h1, h2, h3, h4, h5, h6⟩ := hL
  refine ⟨⟨?_, h2.trans h.inv.levels, h3.trans h.inv.active, h4.trans h.inv.fq, h5.trans h.inv.rl,
    h6.trans h.inv.handlers, hr.trans h.inv.readers⟩, ?_, fun hid => (htr hid).trans (h.cnt hid), hlog⟩
  · rw [h1]; exact h.inv.queues
  · have := h.q
    unfold mqueue LoopSt.activeQ at this ⊢
    rw [h1, h3]; exact this

theorem sameL_refl (L : LoopSt) : sameL L L := ⟨rfl, rfl, rfl, rfl, rfl, rfl⟩

section
variable (P : Prog) {hs : List (Cls × HRef × Option Nat)} {c : Cfg} {st : List (Nat × Nat)} {q : List GSig} {lg : List Ev}

theorem step_hret (h : MSim hs c st q lg) (hid : Nat) (rest : List Instr) (hc : c.code = .hret hid :: rest) :
    ∃ c', step P c = .ok c' ∧ c'.code = rest ∧ MSim hs c' st q (.hret hid :: lg) := by
  refine ⟨{ c with code := rest, log := .hret hid :: c.log }, ?_, rfl,
    h.frame _ _ (sameL_refl _) rfl (fun _ => rfl) (by show _ :: c.log = _; rw [h.log])⟩
  simp only [step, hc]
  rw [emit_eq]
  exact h.inv.readers

theorem step_catchHandler (h : MSim hs c st q lg) (rest : List Instr) (hc : c.code = .catchHandler :: rest) :
    ∃ c', step P c = .ok c' ∧ c'.code = rest ∧ MSim hs c' st q lg := by
  refine ⟨{ c with code := rest }, ?_, rfl, h.frame _ _ (sameL_refl _) rfl (fun _ => rfl) h.log⟩
  simp only [step, hc]

theorem step_dispatch_some (h : MSim hs c st q lg) (g : GSig) (i : Nat) (rest : List Instr) (r : HRef) (d : Option Nat)
    (hc : c.code = .dispatch (sigOf g) i :: rest) (hh : (hsOf hs (.user g.cls))[i]? = some (r, d)) :
    ∃ c', step P c = .ok c' ∧ c'.code = .callH r d (sigOf g) :: .catchHandler :: .dispatch (sigOf g) (i + 1) :: rest ∧
      MSim hs c' st q lg := by
  refine ⟨{ c with code := .callH r d (sigOf g) :: .catchHandler :: .dispatch (sigOf g) (i + 1) :: rest }, ?_, rfl,
    h.frame _ _ (sameL_refl _) rfl (fun _ => rfl) h.log⟩
  have hh' : (handlersOf ({ c with code := rest } : Cfg).L (Cls.user g.cls))[i]? = some (r, d) := by
    rw [← handlersOf_eq h.inv] at hh; exact hh
  simp [step, hc, hh', h.inv.fq, push]

theorem step_dispatch_none (h : MSim hs c st q lg) (g : GSig) (i : Nat) (rest : List Instr)
    (hc : c.code = .dispatch (sigOf g) i :: rest) (hh : (hsOf hs (.user g.cls))[i]? = none) :
    ∃ c', step P c = .ok c' ∧ c'.code = rest ∧ MSim hs c' st q lg := by
  refine ⟨{ c with code := rest, tr := .dispatched (sigOf g) i :: c.tr }, ?_, rfl,
    h.frame _ _ (sameL_refl _) rfl (fun _ => rfl) h.log⟩
  have hh' : (handlersOf ({ c with code := rest } : Cfg).L (Cls.user g.cls))[i]? = none := by
    rw [← handlersOf_eq h.inv] at hh; exact hh
  simp [step, hc, hh', Cfg.trace]

end

/-- the `for handler in handlers` loop of `_process_signal` from index `i` on -/
theorem steps_dispatch (P : Prog) (hP : Flat P) {hs : List (Cls × HRef × Option Nat)} (hhs : FlatHandlers hs) (g : GSig)
    (rest : List Instr) : ∀ (l : List (HRef × Option Nat)) (i : Nat) {c : Cfg} {st : List (Nat × Nat)} {q : List GSig}
    {lg : List Ev}, MSim hs c st q lg → c.code = .dispatch (sigOf g) i :: rest → (hsOf hs (.user g.cls)).drop i = l →
    ∃ c', MSteps P c c' ∧ c'.code = rest ∧
      MSim hs c' (runHs P l st).1 ((runHs P l st).2.foldl (fun q e => insertStable e q) q) ((hLog l g.id).reverse ++ lg)
  | [], i, c, st, q, lg, h, hc, hl => by
    have hn : (hsOf hs (.user g.cls))[i]? = none := by
      rw [List.getElem?_eq_none_iff]; exact List.drop_eq_nil_iff.1 hl
    obtain ⟨c1, hs1, hc1, h1⟩ := step_dispatch_none P h g i rest hc hn
    exact ⟨c1, .one hs1, hc1, by simpa [runHs, hLog] using h1⟩
  | (r, d) :: l, i, c, st, q, lg, h, hc, hl => by
    obtain ⟨hsome, hdrop⟩ := drop_cons_facts _ i _ _ hl
    have hmem : (r, d) ∈ hsOf hs (.user g.cls) := List.mem_of_getElem? hsome
    obtain ⟨hid, hr⟩ := hsOf_flat hhs _ _ hmem
    simp only at hr
    subst hr
    obtain ⟨c1, hs1, hc1, h1⟩ := step_dispatch_some P h g i rest _ d hc hsome
    obtain ⟨c2, hs2, hc2, h2⟩ := step_callH P h1 hid d g _ hc1
    rw [script_eq hP, List.map_map] at hc2
    obtain ⟨c3, hs3, hc3, h3⟩ := steps_enqs P _ (script P hid (cntOf st hid)) h2 hc2
    obtain ⟨c4, hs4, hc4, h4⟩ := step_hret P h3 hid _ hc3
    obtain ⟨c5, hs5, hc5, h5⟩ := step_catchHandler P h4 _ hc4
    obtain ⟨c6, hs6, hc6, h6⟩ := steps_dispatch P hP hhs g rest l (i + 1) h5 hc5 hdrop
    refine ⟨c6, .head hs1 (.head hs2 (hs3.trans (.head hs4 (.head hs5 hs6)))), hc6, ?_⟩
    simpa [runHs, hLog_cons_user, List.foldl_append] using h6

end Simpleline.Flat

namespace Simpleline.Flat
open Simpleline Simpleline.GLoop

section
variable (P : Prog) {hs : List (Cls × HRef × Option Nat)} {c : Cfg} {st : List (Nat × Nat)} {q : List GSig} {lg : List Ev}

theorem step_loopCheck (h : MSim hs c st q lg) (rest : List Instr) (hc : c.code = .loopCheck :: rest) :
    ∃ c', step P c = .ok c' ∧ c'.code = .getDispatch :: .loopCheck :: rest ∧ MSim hs c' st q lg := by
  refine ⟨{ c with code := .getDispatch :: .loopCheck :: rest }, ?_, rfl, h.frame _ _ (sameL_refl _) rfl (fun _ => rfl) h.log⟩
  simp [step, hc, h.inv.rl, push]

theorem step_mainCheck (h : MSim hs c st q lg) (k : Nat) (rest : List Instr) (hc : c.code = .mainCheck k :: rest) :
    ∃ c', step P c = .ok c' ∧ c'.code = .loopCheck :: .mainCheck k :: rest ∧ MSim hs c' st q lg := by
  refine ⟨{ c with code := .loopCheck :: .mainCheck k :: rest }, ?_, rfl, h.frame _ _ (sameL_refl _) rfl (fun _ => rfl) h.log⟩
  simp [step, hc, h.inv.rl, push]

theorem step_apprun (hP : Flat P) (h : MSim hs c st q lg) (rest : List Instr) (hc : c.code = .apprun :: rest) :
    ∃ c', step P c = .ok c' ∧ c'.code = .mainCheck 0 :: .catchExit :: .quitCb :: rest ∧ MSim hs c' st q lg := by
  refine ⟨{ c with code := .mainCheck 0 :: .catchExit :: .quitCb :: rest, L := { c.L with forceQuit := false, runLoop := true } },
    ?_, rfl, h.frame _ _ ⟨rfl, rfl, rfl, h.inv.fq.symm, h.inv.rl.symm, rfl⟩ rfl (fun _ => rfl) h.log⟩
  simp [step, hc, hP.1, push]

theorem step_getDispatch (h : MSim hs c st (g :: q) lg) (rest : List Instr) (hc : c.code = .getDispatch :: rest) :
    ∃ c', step P c = .ok c' ∧ c'.code = .processSignal (sigOf g) :: rest ∧ MSim hs c' st q lg := by
  obtain ⟨q0, hq, hsrc, hent⟩ := h.inv.queues
  have hq0 : q0.entries.map (fun x => gsigOf x.2.2) = g :: q := by
    have := h.q
    simpa [mqueue, LoopSt.activeQ, hq, h.inv.active] using this
  obtain ⟨e, es, hes, hg, hq'⟩ := List.map_eq_cons_iff.1 hq0
  have he : e.2.2 = sigOf g := by rw [← hg]; exact ((hent e (by simp [hes])).2.2).symm
  have hact : c.L.activeQ.entries = e :: es := by simp [LoopSt.activeQ, hq, h.inv.active, hes]
  refine ⟨{ c with code := .processSignal (sigOf g) :: rest, L := { c.L with queues := [{ q0 with entries := es }] },
                   tr := .take 0 (sigOf g) :: c.tr }, ?_, rfl, ?_⟩
  · have hact' : ({ c with code := rest } : Cfg).L.activeQ.entries = e :: es := hact
    simp [step, hc, Cfg.take, hact', push, bind, Except.bind, he, h.inv.active, hq, listSet, pure, Except.pure]
  · refine ⟨⟨⟨_, rfl, hsrc, ?_⟩, h.inv.levels, h.inv.active, h.inv.fq, h.inv.rl, h.inv.handlers, h.inv.readers⟩, ?_, h.cnt, h.log⟩
    · intro x hx
      exact hent x (by rw [hes]; exact List.mem_cons_of_mem _ hx)
    · show (([{ q0 with entries := es }] : List EQueue).getD c.L.active {}).entries.map _ = _
      rw [h.inv.active]; exact hq'

theorem take_blocked (c : Cfg) (hq : c.L.activeQ.entries = []) (hr : c.A.readers = []) :
    c.take = .error (.blocked, c) := by
  simp [Cfg.take, hq, Cfg.deliver, hr]

theorem step_getDispatch_blocked (h : MSim hs c st [] lg) (rest : List Instr) (hc : c.code = .getDispatch :: rest) :
    ∃ c', step P c = .error (.blocked, c') ∧ c'.log = lg := by
  have hact : c.L.activeQ.entries = [] := by
    have := h.q
    simpa [mqueue] using this
  refine ⟨{ c with code := rest }, ?_, h.log⟩
  simp only [step, hc]
  rw [take_blocked { c with code := rest } hact h.inv.readers]
  rfl

theorem step_processSignal (h : MSim hs c st q lg) (g : GSig) (rest : List Instr)
    (hc : c.code = .processSignal (sigOf g) :: rest) :
    ∃ c', step P c = .ok c' ∧ MSim hs c' st q lg ∧
      ((hsOf hs (.user g.cls) ≠ [] ∧ c'.code = .dispatch (sigOf g) 0 :: rest) ∨
       (hsOf hs (.user g.cls) = [] ∧ c'.code = rest)) := by
  have e : ∀ T, handlersOf ({ c.L with tickets := T } : LoopSt) (.user g.cls) = hsOf hs (.user g.cls) :=
    fun _ => handlersOf_eq h.inv g.cls
  by_cases hh : hsOf hs (.user g.cls) = []
  · refine ⟨{ c with code := rest, L := { c.L with tickets := mark c.L.tickets (.user g.cls) },
                     tr := .dispatched (sigOf g) 0 :: c.tr }, ?_,
      h.frame _ _ ⟨rfl, rfl, rfl, rfl, rfl, rfl⟩ rfl (fun _ => rfl) h.log, Or.inr ⟨hh, rfl⟩⟩
    simp [step, hc, e, hh, Cfg.trace]
  · refine ⟨{ c with code := .dispatch (sigOf g) 0 :: rest, L := { c.L with tickets := mark c.L.tickets (.user g.cls) } }, ?_,
      h.frame _ _ ⟨rfl, rfl, rfl, rfl, rfl, rfl⟩ rfl (fun _ => rfl) h.log, Or.inl ⟨hh, rfl⟩⟩
    simp [step, hc, e, hh, push]

end

/-- one turn of `App.run()`'s loop: take the head, run all its handlers, insert what they enqueue -/
theorem macro_step (P : Prog) (hP : Flat P) {hs : List (Cls × HRef × Option Nat)} (hhs : FlatHandlers hs) {c : Cfg}
    {st : List (Nat × Nat)} {g : GSig} {q : List GSig} {lg : List Ev} (h : MSim hs c st (g :: q) lg) (hc : c.code = mFrame) :
    ∃ c', MSteps P c c' ∧ c'.code = mFrame ∧
      MSim hs c' (absProg P hs st g).1 ((absProg P hs st g).2.foldl (fun q e => insertStable e q) q)
        ((hLog (hsOf hs (.user g.cls)) g.id).reverse ++ lg) := by
  obtain ⟨c1, hs1, hc1, h1⟩ := step_loopCheck P h _ hc
  obtain ⟨c2, hs2, hc2, h2⟩ := step_getDispatch P h1 _ hc1
  obtain ⟨c3, hs3, h3, hc3⟩ := step_processSignal P h2 g _ hc2
  rw [absProg_eq]
  rcases hc3 with ⟨_, hc3⟩ | ⟨he, hc3⟩
  · obtain ⟨c4, hs4, hc4, h4⟩ := steps_dispatch P hP hhs g _ _ 0 h3 hc3 List.drop_zero
    exact ⟨c4, .head hs1 (.head hs2 (.head hs3 hs4)), hc4, h4⟩
  · refine ⟨c3, .head hs1 (.head hs2 (.one hs3)), hc3, ?_⟩
    rw [he]; simpa [runHs, hLog] using h3

/-- with nothing pending `App.run()` blocks in `get()`: two steps, the log stays -/
theorem macro_blocked (P : Prog) {hs : List (Cls × HRef × Option Nat)} {c : Cfg} {st : List (Nat × Nat)} {lg : List Ev}
    (h : MSim hs c st [] lg) (hc : c.code = mFrame) :
    ∃ c', (∀ j, runFuel P (2 + j) c = (c', .blocked)) ∧ c'.log = lg := by
  obtain ⟨c1, hs1, hc1, h1⟩ := step_loopCheck P h _ hc
  obtain ⟨c2, hs2, hl2⟩ := step_getDispatch_blocked P h1 _ hc1
  refine ⟨c2, fun j => ?_, hl2⟩
  have : 2 + j = (j + 1) + 1 := by omega
  rw [this, runFuel, hs1]
  simp only [runFuel, hs2]

theorem init_sim (hs : List (Cls × HRef × Option Nat)) (acts : List Act) (quitCb : Option Nat) (stdin : List Str) :
    MSim hs (initCfg acts hs quitCb stdin) [] [] [] :=
  ⟨⟨⟨{}, rfl, rfl, fun _ hx => by simp at hx⟩, rfl, rfl, rfl, rfl, rfl, rfl⟩, rfl, fun _ => rfl, rfl⟩

/-- start-up: the enqueues before `run()`, then `run()` enters its loop -/
theorem steps_init (P : Prog) (hP : Flat P) (hs : List (Cls × HRef × Option Nat)) (init : List GSig) (quitCb : Option Nat)
    (stdin : List Str) :
    ∃ c', MSteps P (initCfg (initActs init) hs quitCb stdin) c' ∧ c'.code = mFrame ∧
      MSim hs c' [] (minit ([] : List (Nat × Nat)) init).queue [] := by
  have h0 := init_sim hs (initActs init) quitCb stdin
  have hc0 : (initCfg (initActs init) hs quitCb stdin).code = init.map (fun g => Instr.act (actOf g)) ++ [.apprun] := by
    simp [initCfg, initActs, List.map_map]
  obtain ⟨c1, hs1, hc1, h1⟩ := steps_enqs P _ init h0 hc0
  obtain ⟨c2, hs2, hc2, h2⟩ := step_apprun P hP h1 _ hc1
  obtain ⟨c3, hs3, hc3, h3⟩ := step_mainCheck P h2 _ _ hc2
  exact ⟨c3, hs1.trans (.head hs2 (.one hs3)), hc3, h3⟩

end Simpleline.Flat

namespace Simpleline.Flat
open Simpleline Simpleline.GLoop

theorem MSim.toRel {hs : List (Cls × HRef × Option Nat)} {c : Cfg} {m : MState (List (Nat × Nat))}
    (h : MSim hs c m.st m.queue (runLog hs m.done).reverse) (hc : c.code = mFrame) : MRel hs c m :=
  ⟨hc, h.q, h.cnt, by rw [h.log, List.reverse_reverse]⟩

theorem MRel.toSim {hs : List (Cls × HRef × Option Nat)} {c : Cfg} {m : MState (List (Nat × Nat))}
    (hi : MInv hs c) (h : MRel hs c m) : MSim hs c m.st m.queue (runLog hs m.done).reverse :=
  ⟨hi, h.queue, h.cnt, by rw [← h.log, List.reverse_reverse]⟩

/-- the macro step of the machine is `mstep` -/
theorem mrel_step (P : Prog) (hP : Flat P) {hs : List (Cls × HRef × Option Nat)} (hhs : FlatHandlers hs) {c : Cfg}
    {m m' : MState (List (Nat × Nat))} (hi : MInv hs c) (h : MRel hs c m) (hm : mstep (absProg P hs) m = some m') :
    ∃ c', MSteps P c c' ∧ MInv hs c' ∧ MRel hs c' m' := by
  have hsim := h.toSim hi
  unfold mstep at hm
  split at hm
  · cases hm
  · rename_i g rest hq
    rw [hq] at hsim
    obtain ⟨c', hst, hc', h'⟩ := macro_step P hP hhs hsim h.code
    refine ⟨c', hst, h'.inv, ?_⟩
    cases hm
    refine MSim.toRel ?_ hc'
    simpa [runLog_snoc] using h'

/-- … and the machine blocks (in two steps, nothing more logged) when `mstep` has nothing to dispatch -/
theorem mrel_blocked (P : Prog) {hs : List (Cls × HRef × Option Nat)} {c : Cfg}
    {m : MState (List (Nat × Nat))} (hi : MInv hs c) (h : MRel hs c m) (hm : mstep (absProg P hs) m = none) :
    ∃ c', (∀ j, runFuel P (2 + j) c = (c', .blocked)) ∧ c'.log = c.log := by
  have hsim := h.toSim hi
  have hq : m.queue = [] := by
    unfold mstep at hm
    split at hm
    · assumption
    · cases hm
  rw [hq] at hsim
  obtain ⟨c', h1, h2⟩ := macro_blocked P hsim h.code
  exact ⟨c', h1, h2.trans hsim.log.symm⟩

theorem mrel_run (P : Prog) (hP : Flat P) {hs : List (Cls × HRef × Option Nat)} (hhs : FlatHandlers hs) :
    ∀ (n : Nat) {c : Cfg} {m : MState (List (Nat × Nat))}, MInv hs c → MRel hs c m →
    ∃ c', MSteps P c c' ∧ MInv hs c' ∧ MRel hs c' (mrun (absProg P hs) n m)
  | 0, c, m, hi, h => ⟨c, .refl _, hi, h⟩
  | n + 1, c, m, hi, h => by
    unfold mrun
    cases hm : mstep (absProg P hs) m with
    | none => exact ⟨c, .refl _, hi, h⟩
    | some m' =>
      obtain ⟨c1, hs1, hi1, h1⟩ := mrel_step P hP hhs hi h hm
      obtain ⟨c2, hs2, hi2, h2⟩ := mrel_run P hP hhs n hi1 h1
      exact ⟨c2, hs1.trans hs2, hi2, h2⟩

theorem mrel_init (P : Prog) (hP : Flat P) (hs : List (Cls × HRef × Option Nat)) (init : List GSig) (quitCb : Option Nat)
    (stdin : List Str) :
    ∃ c', MSteps P (initCfg (initActs init) hs quitCb stdin) c' ∧ MInv hs c' ∧ MRel hs c' (minit [] init) := by
  obtain ⟨c', hst, hc, h⟩ := steps_init P hP hs init quitCb stdin
  exact ⟨c', hst, h.inv, MSim.toRel (m := minit [] init) h hc⟩

/-- from the start configuration the machine reaches a dispatch boundary that corresponds to `mrun … n` -/
theorem machine_reaches (P : Prog) (hP : Flat P) {hs : List (Cls × HRef × Option Nat)} (hhs : FlatHandlers hs)
    (init : List GSig) (quitCb : Option Nat) (stdin : List Str) (n : Nat) :
    ∃ c, MSteps P (initCfg (initActs init) hs quitCb stdin) c ∧ MInv hs c ∧
      MRel hs c (mrun (absProg P hs) n (minit [] init)) := by
  obtain ⟨c0, hs0, hi0, h0⟩ := mrel_init P hP hs init quitCb stdin
  obtain ⟨c1, hs1, hi1, h1⟩ := mrel_run P hP hhs n hi0 h0
  exact ⟨c1, hs0.trans hs1, hi1, h1⟩

end Simpleline.Flat
