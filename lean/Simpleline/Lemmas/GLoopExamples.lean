/-
  C20, loop level: small concrete programs for the counterexample and the non-vacuity examples of `Props/C20.lean`.
  The program state is the list of the ids of the signals handled so far (so a different dispatch order is a
  different state).
-/
import Simpleline.Spec.GLoopSpec

namespace Simpleline.GLoop

/-- G1: the handler of signal 1 enqueues a more urgent signal (3, priority -10) -/
def exUrgent : Prog (List Nat) := fun st s =>
  (st ++ [s.id], if s.id = 1 then [⟨3, 1, -10⟩] else [])

/-- two signals of priority 0 pending -/
def exUrgentInit : List GSig := [⟨1, 0, 0⟩, ⟨2, 0, 0⟩]

/-- handlers enqueue signals of the priority being dispatched while the batch `[1, 2]` is under way;
the handler of such an arrival (4) enqueues again -/
def exSame : Prog (List Nat) := fun st s =>
  (st ++ [s.id],
   if s.id = 1 then [⟨4, 1, 0⟩]
   else if s.id = 2 then [⟨5, 1, 0⟩]
   else if s.id = 4 then [⟨6, 1, 0⟩]
   else [])

def exSameInit : List GSig := [⟨1, 0, 0⟩, ⟨2, 0, 0⟩, ⟨3, 0, 5⟩]

/-- a calm program with four priorities; handlers enqueue less urgent, equally urgent and (the last one, with
nothing else pending) more urgent signals -/
def exCalm : Prog (List Nat) := fun st s =>
  (st ++ [s.id],
   if s.id = 2 then [⟨5, 1, 0⟩, ⟨6, 1, -5⟩]
   else if s.id = 1 then [⟨7, 1, 10⟩, ⟨8, 1, 0⟩]
   else if s.id = 7 then [⟨9, 1, -20⟩]
   else [])

def exCalmInit : List GSig := [⟨1, 0, 0⟩, ⟨2, 0, -5⟩, ⟨3, 0, 0⟩, ⟨4, 0, 10⟩]

/-- not calm but sibling-calm: the handler of 1 (priority 0) enqueues the more urgent 3 (priority -3) while only
the less urgent 2 (priority 5) is pending -/
def exSib : Prog (List Nat) := fun st s =>
  (st ++ [s.id], if s.id = 1 then [⟨3, 1, -3⟩] else [])

def exSibInit : List GSig := [⟨1, 0, 0⟩, ⟨2, 0, 5⟩]

/-- equal signals: the same signal value is pending twice and is enqueued once more by a handler -/
def exDup : Prog (List Nat) := fun st s =>
  (st ++ [s.id], if s.id = 2 ∧ st.length < 2 then [⟨1, 0, 0⟩, ⟨2, 0, -1⟩] else [])

def exDupInit : List GSig := [⟨1, 0, 0⟩, ⟨2, 0, -1⟩, ⟨1, 0, 0⟩, ⟨3, 0, 0⟩]

def ids (l : List GSig) : List Nat := l.map (·.id)

end Simpleline.GLoop
