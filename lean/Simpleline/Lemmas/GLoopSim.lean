/-
  C20, loop level: calm steps preserve the simulation `Sim` between the `MainLoop` state and the GLib state.
-/
import Simpleline.Lemmas.GLoopSort

namespace Simpleline.GLoop

variable {σ : Type}

/-! ### the initial states are related -/

theorem sim_init (st : σ) (initial : List GSig) : Sim (minit st initial) (ginit st initial) where
  st := rfl
  done := rfl
  queue := rfl
  batch_prefix := List.nil_prefix
  batch_urgent := by intro b hb; cases hb

/-! ### GLib: starting an iteration -/

/-- `gstep` with the collected batch named -/
theorem gstep_eq (P : Prog σ) (g : GState σ) :
    gstep P g = match (match g.batch with | [] => collect g.attached | b => b) with
      | [] => none
      | s :: rest => some { st := (P g.st s).1, attached := g.attached.erase s ++ (P g.st s).2, batch := rest,
                            done := g.done ++ [s] } := rfl

theorem gstep_of_batch_cons (P : Prog σ) {g : GState σ} {s : GSig} {rest : List GSig} (h : g.batch = s :: rest) :
    gstep P g = some { st := (P g.st s).1, attached := g.attached.erase s ++ (P g.st s).2, batch := rest,
                       done := g.done ++ [s] } := by
  rw [gstep_eq]
  simp only [h]

theorem gstep_of_batch_nil (P : Prog σ) {g : GState σ} (h : g.batch = []) :
    gstep P g = gstep P { g with batch := collect g.attached } := by
  rw [gstep_eq, gstep_eq]
  simp only [h]
  cases collect g.attached <;> rfl

/-- collecting the batch of a new iteration keeps the two loops in step -/
theorem sim_collect {m : MState σ} {g : GState σ} (h : Sim m g) :
    Sim m { g with batch := collect g.attached } where
  st := h.st
  done := h.done
  queue := h.queue
  batch_prefix := by
    rw [h.queue]
    exact collect_prefix_stableSort g.attached
  batch_urgent := by
    intro b hb x hx
    rw [h.queue, mem_stableSort] at hx
    exact (mem_collect hb).2 x hx

/-! ### one dispatch out of a non-empty batch -/

theorem sim_step_batch (P : Prog σ) {m : MState σ} {g : GState σ} {s : GSig} {br : List GSig}
    (h : Sim m g) (hb : g.batch = s :: br) (hc : sibCalmStep P m = true) :
    ∃ m' g', mstep P m = some m' ∧ gstep P g = some g' ∧ Sim m' g' ∧ g'.batch = br ∧
      m'.done = m.done ++ [s] ∧ m'.st = (P m.st s).1 := by
  obtain ⟨t, ht⟩ := h.batch_prefix
  rw [hb, List.cons_append] at ht
  have hq := h.queue
  rw [← ht] at hq
  have hurg := h.batch_urgent
  rw [hb, ← ht] at hurg
  refine ⟨{ st := (P m.st s).1, queue := (P m.st s).2.foldl (fun q e => insertStable e q) (br ++ t),
             done := m.done ++ [s] },
    { st := (P g.st s).1, attached := g.attached.erase s ++ (P g.st s).2, batch := br, done := g.done ++ [s] },
    ?_, gstep_of_batch_cons P hb, ?_, rfl, rfl, rfl⟩
  · unfold mstep
    rw [← ht]
  · -- what the handlers enqueued is not more urgent than the rest of the batch
    have hnew : br ≠ [] → ∀ e ∈ (P m.st s).2, ∀ b ∈ br, b.prio ≤ e.prio := by
      intro hne e he b hbm
      unfold sibCalmStep at hc
      rw [← ht] at hc
      simp only [Bool.or_eq_true, List.all_eq_true, decide_eq_true_eq] at hc
      have h2 := hurg b (List.mem_cons_of_mem _ hbm) s (List.mem_cons_self ..)
      rcases hc with hc | hc
      · have h3 := hurg s (List.mem_cons_self ..) b (List.mem_cons_of_mem _ (List.mem_append_left _ hbm))
        exact absurd (by omega) (hc b (List.mem_append_left _ hbm))
      · have h1 := hc e he
        omega
    constructor
    · exact h.st ▸ rfl
    · show m.done ++ [s] = g.done ++ [s]
      rw [h.done]
    · show List.foldl (fun q e => insertStable e q) (br ++ t) (P m.st s).2
        = stableSort (g.attached.erase s ++ (P g.st s).2)
      rw [stableSort_append, stableSort_erase_head hq.symm, h.st]
    · show br <+: List.foldl (fun q e => insertStable e q) (br ++ t) (P m.st s).2
      cases br with
      | nil => exact List.nil_prefix
      | cons b0 br' => exact prefix_foldl_insertStable (List.prefix_append ..) (hnew (by simp))
    · show ∀ b ∈ br, ∀ x ∈ List.foldl (fun q e => insertStable e q) (br ++ t) (P m.st s).2, b.prio ≤ x.prio
      intro b hbm x hx
      rcases mem_foldl_insertStable.1 hx with hx | hx
      · exact hurg b (List.mem_cons_of_mem _ hbm) x (List.mem_cons_of_mem _ hx)
      · exact hnew (List.ne_nil_of_mem hbm) x hx b hbm

/-! ### any step -/

/-- related states: either both loops have nothing to dispatch, or both dispatch the same signal and stay
related -/
theorem sim_step (P : Prog σ) {m : MState σ} {g : GState σ} (h : Sim m g) (hc : sibCalmStep P m = true) :
    (mstep P m = none ∧ gstep P g = none) ∨
    ∃ m' g', mstep P m = some m' ∧ gstep P g = some g' ∧ Sim m' g' := by
  cases hb : g.batch with
  | cons s br =>
    obtain ⟨m', g', h1, h2, h3, _⟩ := sim_step_batch P h hb hc
    exact .inr ⟨m', g', h1, h2, h3⟩
  | nil =>
    rw [gstep_of_batch_nil P hb]
    have h' := sim_collect h
    cases hcol : collect g.attached with
    | nil =>
      left
      have hq : m.queue = [] := by
        rw [h.queue, stableSort_eq_nil]
        exact collect_eq_nil.1 hcol
      constructor
      · unfold mstep
        rw [hq]
      · rw [gstep_eq]
        simp only [hcol]
    | cons s br =>
      obtain ⟨m', g', h1, h2, h3, _⟩ := sim_step_batch P h' (by simpa using hcol) hc
      rw [hcol] at h2
      exact .inr ⟨m', g', h1, h2, h3⟩

/-! ### runs -/

theorem calmStep_imp_sibCalmStep (P : Prog σ) {m : MState σ} (h : calmStep P m = true) :
    sibCalmStep P m = true := by
  unfold calmStep at h
  unfold sibCalmStep
  split
  · rfl
  · next s rest hq =>
    simp only [hq, Bool.or_eq_true, List.isEmpty_iff] at h
    rcases h with h | h
    · simp [h]
    · simp only [h, Bool.or_true]

theorem calmRun_imp_sibCalmRun (P : Prog σ) (n : Nat) {m : MState σ} (h : calmRun P n m = true) :
    sibCalmRun P n m = true := by
  induction n generalizing m with
  | zero => rfl
  | succ n ih =>
    simp only [calmRun, Bool.and_eq_true] at h
    simp only [sibCalmRun, Bool.and_eq_true, calmStep_imp_sibCalmStep P h.1, true_and]
    cases hs : mstep P m with
    | none => rfl
    | some m' =>
      have h2 := h.2
      simp only [hs] at h2
      exact ih h2

theorem sim_run (P : Prog σ) (n : Nat) {m : MState σ} {g : GState σ} (h : Sim m g)
    (hc : sibCalmRun P n m = true) : Sim (mrun P n m) (grun P n g) := by
  induction n generalizing m g with
  | zero => exact h
  | succ n ih =>
    simp only [sibCalmRun, Bool.and_eq_true] at hc
    rcases sim_step P h hc.1 with ⟨h1, h2⟩ | ⟨m', g', h1, h2, h3⟩
    · simp only [mrun, grun, h1, h2]
      exact h
    · simp only [mrun, grun, h1, h2]
      have hc2 := hc.2
      simp only [h1] at hc2
      exact ih h3 hc2

/-- calm for `n` steps is calm for any shorter run and for the run that follows -/
theorem calmRun_add (P : Prog σ) (k n : Nat) (m : MState σ) :
    calmRun P (k + n) m = (calmRun P k m && calmRun P n (mrun P k m)) := by
  induction k generalizing m with
  | zero => simp [calmRun, mrun]
  | succ k ih =>
    rw [Nat.add_right_comm]
    simp only [calmRun, mrun]
    cases hs : mstep P m with
    | none =>
      simp only [Bool.and_true]
      cases n with
      | zero => simp [calmRun]
      | succ n => simp [calmRun, hs]
    | some m' => simp only [ih, Bool.and_assoc]

theorem mstep_eq_none {P : Prog σ} {m : MState σ} : mstep P m = none ↔ m.queue = [] := by
  unfold mstep
  split <;> simp [*]

theorem gstep_eq_none {P : Prog σ} {g : GState σ} : gstep P g = none ↔ g.batch = [] ∧ g.attached = [] := by
  rw [gstep_eq]
  cases hb : g.batch with
  | cons s br => simp
  | nil =>
    simp only [true_and]
    cases hcol : collect g.attached with
    | nil => simpa using collect_eq_nil.1 hcol
    | cons x xs =>
      simp only [reduceCtorEq, false_iff]
      intro h
      rw [collect_eq_nil.2 h] at hcol
      cases hcol

/-- related states: the loops are stuck together (nothing pending on either side) -/
theorem sim_stuck_iff (P : Prog σ) {m : MState σ} {g : GState σ} (h : Sim m g) :
    mstep P m = none ↔ gstep P g = none := by
  rw [mstep_eq_none, gstep_eq_none, h.queue, stableSort_eq_nil]
  constructor
  · intro ha
    refine ⟨?_, ha⟩
    have hp := h.batch_prefix
    rw [h.queue, ha] at hp
    exact List.prefix_nil.1 hp
  · exact fun ha => ha.2

theorem mrun_of_stuck (P : Prog σ) (n : Nat) {m : MState σ} (h : mstep P m = none) : mrun P n m = m := by
  cases n with
  | zero => rfl
  | succ n => simp only [mrun, h]

theorem grun_of_stuck (P : Prog σ) (n : Nat) {g : GState σ} (h : gstep P g = none) : grun P n g = g := by
  cases n with
  | zero => rfl
  | succ n => simp only [grun, h]

theorem mrun_add (P : Prog σ) (k n : Nat) (m : MState σ) : mrun P (k + n) m = mrun P n (mrun P k m) := by
  induction k generalizing m with
  | zero => simp [mrun]
  | succ k ih =>
    rw [Nat.add_right_comm]
    simp only [mrun]
    cases hs : mstep P m with
    | none => simp only [mrun_of_stuck P n hs]
    | some m' => exact ih m'

theorem grun_add (P : Prog σ) (k n : Nat) (g : GState σ) : grun P (k + n) g = grun P n (grun P k g) := by
  induction k generalizing g with
  | zero => simp [grun]
  | succ k ih =>
    rw [Nat.add_right_comm]
    simp only [grun]
    cases hs : gstep P g with
    | none => simp only [grun_of_stuck P n hs]
    | some g' => exact ih g'

/-- while a batch lasts both loops dispatch exactly the batch, whatever the handlers enqueue meanwhile -/
theorem sim_batch_first (P : Prog σ) (k : Nat) {m : MState σ} {g : GState σ} (h : Sim m g)
    (hk : k ≤ g.batch.length) (hc : sibCalmRun P k m = true) :
    (mrun P k m).done = m.done ++ g.batch.take k ∧ (grun P k g).done = g.done ++ g.batch.take k ∧
      (grun P k g).batch = g.batch.drop k := by
  induction k generalizing m g with
  | zero => simp [mrun, grun]
  | succ k ih =>
    cases hb : g.batch with
    | nil => rw [hb] at hk; simp at hk
    | cons s br =>
      simp only [sibCalmRun, Bool.and_eq_true] at hc
      obtain ⟨m', g', h1, h2, h3, h4, h5, _⟩ := sim_step_batch P h hb hc.1
      have hc2 := hc.2
      simp only [h1] at hc2
      rw [hb] at hk
      have hk' : k ≤ g'.batch.length := by rw [h4]; simpa using hk
      obtain ⟨i1, i2, i3⟩ := ih h3 hk' hc2
      simp only [mrun, grun, h1, h2, List.take_succ_cons, List.drop_succ_cons]
      rw [i1, i2, i3, h4, h5, ← h3.done, h5, h.done]
      simp

end Simpleline.GLoop
