/-
  C20, loop level: facts about `insertStable`, `stableSort`, `minPrio` and `collect`.

  The working tool is `insertFront` (insert *before* everything at most as urgent): it commutes with
  `insertStable`, which turns the left fold `stableSort` into a structural recursion
  `stableSort (a :: l) = insertFront a (stableSort l)`.
-/
import Simpleline.Spec.GLoopSpec

namespace Simpleline.GLoop

/-- insert before everything that is not more urgent (the mirror image of `insertStable`) -/
def insertFront (a : GSig) : List GSig → List GSig
  | [] => [a]
  | x :: xs => if a.prio ≤ x.prio then a :: x :: xs else x :: insertFront a xs

theorem insertStable_insertFront (e a : GSig) (q : List GSig) :
    insertStable e (insertFront a q) = insertFront a (insertStable e q) := by
  induction q with
  | nil =>
    simp only [insertFront, insertStable]
    split <;> split <;> first | rfl | omega
  | cons x xs ih =>
    simp only [insertFront, insertStable]
    split <;> split <;> simp only [insertFront, insertStable, ih] <;> (repeat' split) <;> first | rfl | omega

theorem foldl_insertStable_insertFront (a : GSig) (l q : List GSig) :
    l.foldl (fun q e => insertStable e q) (insertFront a q)
      = insertFront a (l.foldl (fun q e => insertStable e q) q) := by
  induction l generalizing q with
  | nil => rfl
  | cons e l ih => simp only [List.foldl_cons, insertStable_insertFront, ih]

@[simp] theorem stableSort_nil : stableSort [] = [] := rfl

theorem stableSort_cons (a : GSig) (l : List GSig) :
    stableSort (a :: l) = insertFront a (stableSort l) := by
  unfold stableSort
  rw [List.foldl_cons]
  exact foldl_insertStable_insertFront a l []

theorem stableSort_append (l new : List GSig) :
    stableSort (l ++ new) = new.foldl (fun q e => insertStable e q) (stableSort l) := by
  unfold stableSort
  rw [List.foldl_append]

/-! ### membership -/

theorem mem_insertStable {x e : GSig} {q : List GSig} : x ∈ insertStable e q ↔ x = e ∨ x ∈ q := by
  induction q with
  | nil => simp [insertStable]
  | cons y ys ih =>
    simp only [insertStable]
    split
    · simp
    · simp only [List.mem_cons, ih]
      grind

theorem mem_insertFront {x a : GSig} {q : List GSig} : x ∈ insertFront a q ↔ x = a ∨ x ∈ q := by
  induction q with
  | nil => simp [insertFront]
  | cons y ys ih =>
    simp only [insertFront]
    split
    · simp
    · simp only [List.mem_cons, ih]
      grind

theorem mem_foldl_insertStable {x : GSig} {new q : List GSig} :
    x ∈ new.foldl (fun q e => insertStable e q) q ↔ x ∈ q ∨ x ∈ new := by
  induction new generalizing q with
  | nil => simp
  | cons e new ih =>
    simp only [List.foldl_cons, ih, mem_insertStable, List.mem_cons]
    grind

theorem mem_stableSort {x : GSig} {l : List GSig} : x ∈ stableSort l ↔ x ∈ l := by
  unfold stableSort
  rw [mem_foldl_insertStable]
  simp

theorem stableSort_eq_nil {l : List GSig} : stableSort l = [] ↔ l = [] := by
  cases l with
  | nil => simp
  | cons a l =>
    simp only [reduceCtorEq, iff_false]
    intro h
    have : a ∈ stableSort (a :: l) := mem_stableSort.2 (List.mem_cons_self ..)
    rw [h] at this
    cases this

/-! ### the head of the queue is the first attached source of the most urgent priority; erasing it -/

/-- dispatching the head of the `MainLoop` queue and detaching that source from the GLib context leave the same
pending signals (equal signals included: `erase` removes the first attached occurrence, and that is the one the
stable sort puts first) -/
theorem stableSort_erase_head {l : List GSig} {s : GSig} {q : List GSig}
    (h : stableSort l = s :: q) : stableSort (l.erase s) = q := by
  induction l generalizing q with
  | nil => cases h
  | cons a l ih =>
    rw [stableSort_cons] at h
    rw [List.erase_cons]
    split
    next hb =>
      have ha : a = s := by simpa using hb
      subst ha
      -- `insertFront a Q = a :: q` forces `Q = q`
      generalize stableSort l = Q at h
      cases Q with
      | nil => simp only [insertFront] at h; simpa using h.symm
      | cons y ys =>
        simp only [insertFront] at h
        split at h
        · simpa using h
        · next hlt =>
          have := (List.cons.inj h).1
          subst this
          omega
    next hb =>
      have ha : a ≠ s := by simpa using hb
      rw [stableSort_cons]
      generalize hQ : stableSort l = Q at h
      cases Q with
      | nil =>
        simp only [insertFront] at h
        exact absurd (List.cons.inj h).1 ha
      | cons y ys =>
        simp only [insertFront] at h
        split at h
        · exact absurd (List.cons.inj h).1 ha
        · have ⟨h1, h2⟩ := List.cons.inj h
          subst h1
          rw [ih hQ, h2]

/-! ### inserting something not more urgent than a prefix keeps the prefix -/

theorem insertStable_append_of_le {b : List GSig} {e : GSig} (q : List GSig)
    (h : ∀ x ∈ b, x.prio ≤ e.prio) : insertStable e (b ++ q) = b ++ insertStable e q := by
  induction b with
  | nil => rfl
  | cons x xs ih =>
    have hx : ¬ e.prio < x.prio := by have := h x (List.mem_cons_self ..); omega
    simp only [List.cons_append, insertStable, if_neg hx]
    rw [ih (fun y hy => h y (List.mem_cons_of_mem _ hy))]

theorem foldl_insertStable_append_of_le {b new : List GSig} (q : List GSig)
    (h : ∀ e ∈ new, ∀ x ∈ b, x.prio ≤ e.prio) :
    new.foldl (fun q e => insertStable e q) (b ++ q) = b ++ new.foldl (fun q e => insertStable e q) q := by
  induction new generalizing q with
  | nil => rfl
  | cons e new ih =>
    simp only [List.foldl_cons]
    rw [insertStable_append_of_le q (h e (List.mem_cons_self ..)),
      ih _ (fun e' he' => h e' (List.mem_cons_of_mem _ he'))]

theorem prefix_foldl_insertStable {b new q : List GSig} (hp : b <+: q)
    (h : ∀ e ∈ new, ∀ x ∈ b, x.prio ≤ e.prio) : b <+: new.foldl (fun q e => insertStable e q) q := by
  obtain ⟨t, rfl⟩ := hp
  rw [foldl_insertStable_append_of_le t h]
  exact List.prefix_append ..

/-! ### `minPrio` and the collected batch -/

theorem minPrio_eq_none {l : List GSig} : minPrio l = none ↔ l = [] := by
  cases l with
  | nil => simp [minPrio]
  | cons a l =>
    simp only [minPrio, reduceCtorEq, iff_false]
    split <;> simp

theorem minPrio_le {l : List GSig} {p : Int} (h : minPrio l = some p) : ∀ x ∈ l, p ≤ x.prio := by
  induction l generalizing p with
  | nil => simp
  | cons a l ih =>
    intro x hx
    simp only [minPrio] at h
    split at h
    next hn =>
      rw [minPrio_eq_none] at hn
      subst hn
      simp only [List.mem_cons, List.not_mem_nil, or_false] at hx
      subst hx
      simp only [Option.some.injEq] at h
      omega
    next p' hp' =>
      have := ih hp'
      simp only [Option.some.injEq] at h
      rcases List.mem_cons.1 hx with rfl | hx
      · split at h <;> omega
      · have := this x hx
        split at h <;> omega

theorem minPrio_mem {l : List GSig} {p : Int} (h : minPrio l = some p) : ∃ x ∈ l, x.prio = p := by
  induction l generalizing p with
  | nil => simp [minPrio] at h
  | cons a l ih =>
    simp only [minPrio] at h
    split at h
    next hn =>
      simp only [Option.some.injEq] at h
      exact ⟨a, List.mem_cons_self .., h⟩
    next p' hp' =>
      simp only [Option.some.injEq] at h
      split at h
      · exact ⟨a, List.mem_cons_self .., h⟩
      · obtain ⟨x, hx, hxp⟩ := ih hp'
        exact ⟨x, List.mem_cons_of_mem _ hx, by omega⟩

theorem collect_nil : collect [] = [] := rfl

theorem collect_eq_nil {l : List GSig} : collect l = [] ↔ l = [] := by
  constructor
  · intro h
    unfold collect at h
    split at h
    next p hp =>
      obtain ⟨x, hx, hxp⟩ := minPrio_mem hp
      have : x ∈ l.filter (fun s => s.prio = p) := by simp [List.mem_filter, hx, hxp]
      rw [h] at this
      cases this
    next hn => exact minPrio_eq_none.1 hn
  · rintro rfl
    rfl

theorem mem_collect {l : List GSig} {b : GSig} (h : b ∈ collect l) : b ∈ l ∧ ∀ x ∈ l, b.prio ≤ x.prio := by
  unfold collect at h
  split at h
  next p hp =>
    simp only [List.mem_filter, decide_eq_true_eq] at h
    exact ⟨h.1, fun x hx => by have := minPrio_le hp x hx; omega⟩
  next => cases h

theorem collect_cons_of_minPrio {a : GSig} {l : List GSig} {p : Int} (hp : minPrio l = some p) :
    collect (a :: l) = if a.prio < p then [a] else if a.prio = p then a :: collect l else collect l := by
  have hle := minPrio_le hp
  unfold collect
  simp only [minPrio, hp]
  split
  next hlt =>
    rw [List.filter_cons]
    simp only [decide_true, if_true, List.cons.injEq, true_and]
    apply List.filter_eq_nil_iff.2
    intro x hx
    have := hle x hx
    simp only [decide_eq_true_eq]
    omega
  next hlt =>
    split
    next he => simp [he]
    next hne => simp [hne]

theorem insertFront_of_le {a : GSig} {q : List GSig} (h : ∀ x ∈ q, a.prio ≤ x.prio) :
    insertFront a q = a :: q := by
  cases q with
  | nil => rfl
  | cons x xs => simp only [insertFront, if_pos (h x (List.mem_cons_self ..))]

theorem insertFront_append_of_lt {a : GSig} {b : List GSig} (q : List GSig) (h : ∀ x ∈ b, x.prio < a.prio) :
    insertFront a (b ++ q) = b ++ insertFront a q := by
  induction b with
  | nil => rfl
  | cons x xs ih =>
    have hx : ¬ a.prio ≤ x.prio := by have := h x (List.mem_cons_self ..); omega
    simp only [List.cons_append, insertFront, if_neg hx]
    rw [ih (fun y hy => h y (List.mem_cons_of_mem _ hy))]

theorem prio_of_mem_collect {l : List GSig} {p : Int} (hp : minPrio l = some p) {b : GSig}
    (h : b ∈ collect l) : b.prio = p := by
  unfold collect at h
  simp only [hp, List.mem_filter, decide_eq_true_eq] at h
  exact h.2

/-- the batch of a GLib iteration is the maximal most-urgent prefix of the `MainLoop` queue: the stable sort
of the attached sources is the batch followed by strictly less urgent signals -/
theorem stableSort_eq_collect_append (l : List GSig) :
    ∃ t, stableSort l = collect l ++ t ∧ ∀ b ∈ collect l, ∀ x ∈ t, b.prio < x.prio := by
  induction l with
  | nil => exact ⟨[], rfl, by simp [collect_nil]⟩
  | cons a l ih =>
    obtain ⟨t, ht, hlt⟩ := ih
    rw [stableSort_cons, ht]
    cases hm : minPrio l with
    | none =>
      rw [minPrio_eq_none] at hm
      subst hm
      rw [stableSort_nil] at ht
      have : t = [] := by simpa [collect_nil] using ht.symm
      subst this
      exact ⟨[], by simp [collect, minPrio, insertFront], by simp⟩
    | some p =>
      have hpc : ∀ b ∈ collect l, b.prio = p := fun b hb => prio_of_mem_collect hm hb
      have htp : ∀ x ∈ t, p < x.prio := by
        intro x hx
        obtain ⟨y, hy, hyp⟩ := minPrio_mem hm
        have hyc : y ∈ collect l := by
          unfold collect
          simp only [hm, List.mem_filter, decide_eq_true_eq]
          exact ⟨hy, hyp⟩
        have := hlt y hyc x hx
        omega
      have hall : ∀ x ∈ collect l ++ t, p ≤ x.prio := by
        intro x hx
        rcases List.mem_append.1 hx with hx | hx
        · have := hpc x hx; omega
        · have := htp x hx; omega
      rw [collect_cons_of_minPrio hm]
      split
      next h1 =>
        refine ⟨collect l ++ t, ?_, ?_⟩
        · rw [insertFront_of_le (fun x hx => by have := hall x hx; omega)]
          rfl
        · intro b hb x hx
          simp only [List.mem_singleton] at hb
          subst hb
          have := hall x hx
          omega
      next h1 =>
        split
        next h2 =>
          refine ⟨t, ?_, ?_⟩
          · rw [insertFront_of_le (fun x hx => by have := hall x hx; omega)]
            rfl
          · intro b hb x hx
            rcases List.mem_cons.1 hb with rfl | hb
            · have := htp x hx; omega
            · exact hlt b hb x hx
        next h2 =>
          refine ⟨insertFront a t, ?_, ?_⟩
          · rw [insertFront_append_of_lt]
            intro x hx
            have := hpc x hx
            omega
          · intro b hb x hx
            rcases mem_insertFront.1 hx with rfl | hx
            · have := hpc b hb; omega
            · exact hlt b hb x hx

theorem collect_prefix_stableSort (l : List GSig) : collect l <+: stableSort l := by
  obtain ⟨t, ht, _⟩ := stableSort_eq_collect_append l
  exact ⟨t, ht.symm⟩

end Simpleline.GLoop
