/-
  GLib machine: invariants over `Reach` derived from `step_facts` — handler calls are registered (C20b.2), what goes on
  after force-quit (C20b.1), batches (C20b.3).
-/
import Simpleline.Lemmas.GMStepAll

namespace Simpleline.G

theorem newTr_eq {c c' : Cfg} {new : List Tr} (h : c'.tr = new ++ c.tr) : newTr c c' = new := by
  simp [newTr, h]

/-- an invariant preserved by machine steps (through `StepFacts`) and by deliveries holds in every reachable configuration -/
theorem reach_inv {P : Prog} {c0 c : Cfg} {I : Cfg → Prop} (h0 : I c0)
    (hstep : ∀ c c', I c → StepFacts c c' → I c')
    (hdel : ∀ c c', I c → c'.code = c.code → Keep c c' → I c') (hr : Reach P c0 c) : I c := by
  induction hr with
  | init => exact h0
  | @step c1 c2 _ hs ih => have := step_facts P c1; rw [hs] at this; exact hstep _ _ ih this
  | deliver _ hd ih => exact hdel _ _ ih (deliver_code hd) (deliver_keep hd)
  | @halt c1 c2 o _ hs ih => have := step_facts P c1; rw [hs] at this; exact hstep _ _ ih this

theorem reach_trans {P : Prog} {c0 c c' : Cfg} (hr : Reach P c0 c) (ht : Trans P c c') : Reach P c0 c' := by
  cases ht with
  | step hs => exact .step hr hs
  | deliver hd => exact .deliver hr hd
  | halt hs => exact .halt hr hs

theorem reach_steps {P : Prog} {c0 c c' : Cfg} (hr : Reach P c0 c) (hs : Steps P c c') : Reach P c0 c' := by
  induction hs with
  | refl => exact hr
  | tail _ ht ih => exact reach_trans ih ht

/-- a transition is a machine step (with its facts) or a delivery -/
theorem trans_cases {P : Prog} {c c' : Cfg} (ht : Trans P c c') : StepFacts c c' ∨ (c'.code = c.code ∧ Keep c c') := by
  cases ht with
  | step hs => left; have := step_facts P c; rw [hs] at this; exact this
  | deliver hd => right; exact ⟨deliver_code hd, deliver_keep hd⟩
  | halt hs => left; have := step_facts P c; rw [hs] at this; exact this

/-- the loud events a transition adds are justified by the head instruction -/
theorem trans_loud {P : Prog} {c c' : Cfg} (ht : Trans P c c') (t : Tr) (hm : t ∈ newTr c c') (hl : t.quiet = false) : LoudOK c t := by
  rcases trans_cases ht with h | h
  · obtain ⟨new, e, hq⟩ := h.tr
    rw [newTr_eq e] at hm
    exact hq t hm hl
  · obtain ⟨new, e, hq⟩ := h.2.tr
    rw [newTr_eq e] at hm
    rw [hq t hm] at hl; cases hl

theorem trans_tr_grows {P : Prog} {c c' : Cfg} (ht : Trans P c c') : ∃ new, c'.tr = new ++ c.tr := by
  rcases trans_cases ht with h | h
  · obtain ⟨new, e, _⟩ := h.tr; exact ⟨new, e⟩
  · obtain ⟨new, e, _⟩ := h.2.tr; exact ⟨new, e⟩

/-! ### handler calls are registered -/

def RegInv (c : Cfg) : Prop := ∀ h d s, Instr.callH h d s ∈ c.code → (s.cls, h, d) ∈ c.L.handlers

theorem regInv_init (init : List Act) (hs : List (Cls × HRef × Option Nat)) (q : Option Nat) (stdin : List Str) :
    RegInv (initCfg init hs q stdin) := by
  intro h d s hm
  simp [initCfg] at hm

theorem regInv_reach {P : Prog} {c0 c : Cfg} (h0 : Started c0) (hr : Reach P c0 c) : RegInv c := by
  obtain ⟨init, hs, q, stdin, rfl⟩ := h0
  refine reach_inv (regInv_init init hs q stdin) ?_ ?_ hr
  · intro c c' ih sf h d s hm
    rcases sf.code _ hm rfl with h1 | h1
    · exact sf.handlers.subset (ih h d s (List.mem_of_mem_tail h1))
    · exact sf.handlers.subset h1.2.1
  · intro c c' ih hc hk h d s hm
    rw [hc] at hm
    exact hk.handlers.subset (ih h d s hm)

theorem head_mem {c : Cfg} {i : Instr} (h : c.code.head? = some i) : i ∈ c.code := by
  cases hc : c.code with
  | nil => simp [hc] at h
  | cons a l => simp [hc] at h; simp [h]

/-! ### after force-quit -/

theorem afterStart_fq_trans {P : Prog} {c c' : Cfg} (hA : AfterStart c) (hf : c.L.forceQuit = true) (ht : Trans P c c') :
    AfterStart c' ∧ c'.L.forceQuit = true := by
  rcases trans_cases ht with sf | ⟨hc, hk⟩
  · refine ⟨fun hm => ?_, sf.fq hf fun hh => hA (head_mem hh)⟩
    rcases sf.code _ hm rfl with h1 | h1
    · exact hA (List.mem_of_mem_tail h1)
    · exact h1
  · exact ⟨by unfold AfterStart; rw [hc]; exact hA, by rw [hk.fq]; exact hf⟩

theorem afterStart_fq_steps {P : Prog} {c c' : Cfg} (hA : AfterStart c) (hf : c.L.forceQuit = true) (hs : Steps P c c') :
    AfterStart c' ∧ c'.L.forceQuit = true := by
  induction hs with
  | refl => exact ⟨hA, hf⟩
  | tail _ ht ih => exact afterStart_fq_trans ih.1 ih.2 ht

/-- a handler-call instruction is pending only as the very next instruction (it was pushed by the handler loop one step
ago), nowhere deeper in the code, and only while force-quit is not set -/
def CallInv (c : Cfg) : Prop :=
  ∀ h d s, Instr.callH h d s ∈ c.code →
    c.code.head? = some (.callH h d s) ∧ Instr.callH h d s ∉ c.code.tail ∧ c.L.forceQuit = false

theorem callInv_reach {P : Prog} {c0 c : Cfg} (h0 : Started c0) (hr : Reach P c0 c) : CallInv c := by
  obtain ⟨init, hs, q, stdin, rfl⟩ := h0
  refine reach_inv (by intro h d s hm; simp [initCfg] at hm) ?_ ?_ hr
  · intro c c' ih sf h d s hm
    rcases sf.code _ hm rfl with h1 | h1
    · exact absurd h1 (ih h d s (List.mem_of_mem_tail h1)).2.1
    · obtain ⟨⟨k, hk, _, hcode⟩, _, hf⟩ := h1
      refine ⟨by simp [hcode], ?_, ?_⟩
      · rw [hcode]
        intro hm'
        simp only [List.tail_cons, List.mem_cons] at hm'
        rcases hm' with hm' | hm'
        · cases hm'
        · exact (ih h d s (List.mem_of_mem_tail hm')).2.1 hm'
      · cases hq : c'.L.forceQuit with
        | false => rfl
        | true => have := sf.fqSet hf hq; rw [hk] at this; cases this
  · intro c c' ih hc hk h d s hm
    rw [hc] at hm ⊢
    obtain ⟨h1, h2, h3⟩ := ih h d s hm
    exact ⟨h1, h2, by rw [hk.fq]; exact h3⟩

/-! ### batches -/

def BatchInv (c : Cfg) : Prop :=
  (∀ q e g, Instr.gDisp q e g ∈ c.code → ∃ p att batch, Tr.iter q e p att batch ∈ c.tr ∧ g ∈ batch) ∧
  (∀ q e p att batch, Tr.iter q e p att batch ∈ c.tr →
    minPrio (att.filter fun g => !g.inCall) = some p ∧ batch = (att.filter fun g => !g.inCall).filter fun g => g.sig.prio = p)

theorem batchInv_reach {P : Prog} {c0 c : Cfg} (h0 : Started c0) (hr : Reach P c0 c) : BatchInv c := by
  obtain ⟨init, hs, q, stdin, rfl⟩ := h0
  refine reach_inv ⟨by intro q e g hm; simp [initCfg] at hm, by intro q e p att batch hm; simp [initCfg] at hm⟩ ?_ ?_ hr
  · intro c c' ih sf
    obtain ⟨new, e, hq⟩ := sf.tr
    refine ⟨fun q e' g hm => ?_, fun q e' p att batch hm => ?_⟩
    · rcases sf.code _ hm rfl with h1 | h1
      · obtain ⟨p, att, batch, h2, h3⟩ := ih.1 q e' g (List.mem_of_mem_tail h1)
        exact ⟨p, att, batch, by rw [e]; exact List.mem_append_right _ h2, h3⟩
      · exact h1.2
    · rw [e] at hm
      rcases List.mem_append.1 hm with h1 | h1
      · exact (hq _ h1 rfl).2
      · exact ih.2 q e' p att batch h1
  · intro c c' ih hc hk
    obtain ⟨new, e, hq⟩ := hk.tr
    refine ⟨fun q e' g hm => ?_, fun q e' p att batch hm => ?_⟩
    · rw [hc] at hm
      obtain ⟨p, att, batch, h2, h3⟩ := ih.1 q e' g hm
      exact ⟨p, att, batch, by rw [e]; exact List.mem_append_right _ h2, h3⟩
    · rw [e] at hm
      rcases List.mem_append.1 hm with h1 | h1
      · have := hq _ h1; simp [Tr.quiet] at this
      · exact ih.2 q e' p att batch h1

theorem minPrio_le : ∀ (l : List GSource) (p : Int), minPrio l = some p → ∀ g ∈ l, p ≤ g.sig.prio
  | [], p, h, g, hg => by cases hg
  | x :: xs, p, h, g, hg => by
    unfold minPrio at h
    cases hm : minPrio xs with
    | none =>
      rw [hm] at h
      simp at h
      cases xs with
      | nil => simp at hg; subst hg; omega
      | cons y ys => unfold minPrio at hm; split at hm <;> cases hm
    | some p' =>
      rw [hm] at h
      simp at h
      have ih := minPrio_le xs p' hm
      rcases List.mem_cons.1 hg with rfl | hg'
      · split at h <;> omega
      · have := ih g hg'
        split at h <;> omega

theorem minPrio_attained : ∀ (l : List GSource) (p : Int), minPrio l = some p → ∃ g ∈ l, g.sig.prio = p
  | [], p, h => by cases h
  | x :: xs, p, h => by
    unfold minPrio at h
    cases hm : minPrio xs with
    | none => rw [hm] at h; simp at h; exact ⟨x, by simp, h⟩
    | some p' =>
      rw [hm] at h
      simp at h
      split at h
      · exact ⟨x, by simp, h⟩
      · obtain ⟨g, hg, hp⟩ := minPrio_attained xs p' hm
        exact ⟨g, List.mem_cons_of_mem _ hg, by omega⟩

end Simpleline.G
