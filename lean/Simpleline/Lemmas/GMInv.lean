/-
  GLib machine: invariants over `Reach` derived from `step_facts` — handler calls are registered (C20b.2), what goes on
  after force-quit (C20b.1), batches (C20b.3).
-/
import Simpleline.Lemmas.GMStepAll

namespace Simpleline.G

theorem newTr_eq {c c' : Cfg} {new : List Tr} (h : c'.tr = new ++ c.tr) : newTr c c' = new := by
  simp [newTr, h]

/-- an invariant preserved by machine steps (through `StepFacts`) and by deliveries holds in every reachable configuration -/
theorem reach_inv {P : Prog} {c0 c : Cfg} {I : Cfg → Prop} (h0 : I c0)
    (hstep : ∀ c c', I c → StepFacts c c' → I c')
    (hdel : ∀ c c', I c → c'.code = c.code → Keep c c' → I c') (hr : Reach P c0 c) : I c := by
  induction hr with
  | init => exact h0
  | @step c1 c2 _ hs ih => have := step_facts P c1; rw [hs] at this; exact hstep _ _ ih this
  | deliver _ hd ih => exact hdel _ _ ih (deliver_code hd) (deliver_keep hd)
  | @halt c1 c2 o _ hs ih => have := step_facts P c1; rw [hs] at this; exact hstep _ _ ih this

/-- a transition is a machine step (with its facts) or a delivery -/
theorem trans_cases {P : Prog} {c c' : Cfg} (ht : Trans P c c') : StepFacts c c' ∨ (c'.code = c.code ∧ Keep c c') := by
  cases ht with
  | step hs => left; have := step_facts P c; rw [hs] at this; exact this
  | deliver hd => right; exact ⟨deliver_code hd, deliver_keep hd⟩
  | halt hs => left; have := step_facts P c; rw [hs] at this; exact this

/-- the loud events a transition adds are justified by the head instruction -/
theorem trans_loud {P : Prog} {c c' : Cfg} (ht : Trans P c c') (t : Tr) (hm : t ∈ newTr c c') (hl : t.quiet = false) : LoudOK c t := by
  rcases trans_cases ht with h | h
  · obtain ⟨new, e, hq⟩ := h.tr
    rw [newTr_eq e] at hm
    exact hq t hm hl
  · obtain ⟨new, e, hq⟩ := h.2.tr
    rw [newTr_eq e] at hm
    rw [hq t hm] at hl; cases hl

theorem trans_tr_grows {P : Prog} {c c' : Cfg} (ht : Trans P c c') : ∃ new, c'.tr = new ++ c.tr := by
  rcases trans_cases ht with h | h
  · obtain ⟨new, e, _⟩ := h.tr; exact ⟨new, e⟩
  · obtain ⟨new, e, _⟩ := h.2.tr; exact ⟨new, e⟩

/-! ### handler calls are registered -/

def RegInv (c : Cfg) : Prop := ∀ h d s, Instr.callH h d s ∈ c.code → (s.cls, h, d) ∈ c.L.handlers

theorem regInv_init (init : List Act) (hs : List (Cls × HRef × Option Nat)) (q : Option Nat) (stdin : List Str) :
    RegInv (initCfg init hs q stdin) := by
  intro h d s hm
  simp [initCfg] at hm

theorem regInv_reach {P : Prog} {c0 c : Cfg} (h0 : Started c0) (hr : Reach P c0 c) : RegInv c := by
  obtain ⟨init, hs, q, stdin, rfl⟩ := h0
  refine reach_inv (regInv_init init hs q stdin) ?_ ?_ hr
  · intro c c' ih sf h d s hm
    rcases sf.code _ hm rfl with h1 | h1
    · exact sf.handlers _ (ih h d s (List.mem_of_mem_tail h1))
    · exact sf.handlers _ h1.2
  · intro c c' ih hc hk h d s hm
    rw [hc] at hm
    exact hk.handlers _ (ih h d s hm)

theorem head_mem {c : Cfg} {i : Instr} (h : c.code.head? = some i) : i ∈ c.code := by
  cases hc : c.code with
  | nil => simp [hc] at h
  | cons a l => simp [hc] at h; simp [h]

/-! ### after force-quit -/

theorem afterStart_fq_trans {P : Prog} {c c' : Cfg} (hA : AfterStart c) (hf : c.L.forceQuit = true) (ht : Trans P c c') :
    AfterStart c' ∧ c'.L.forceQuit = true := by
  rcases trans_cases ht with sf | ⟨hc, hk⟩
  · refine ⟨fun hm => ?_, sf.fq hf fun hh => hA (head_mem hh)⟩
    rcases sf.code _ hm rfl with h1 | h1
    · exact hA (List.mem_of_mem_tail h1)
    · exact h1
  · exact ⟨by unfold AfterStart; rw [hc]; exact hA, by rw [hk.fq]; exact hf⟩

theorem afterStart_fq_steps {P : Prog} {c c' : Cfg} (hA : AfterStart c) (hf : c.L.forceQuit = true) (hs : Steps P c c') :
    AfterStart c' ∧ c'.L.forceQuit = true := by
  induction hs with
  | refl => exact ⟨hA, hf⟩
  | tail _ ht ih => exact afterStart_fq_trans ih.1 ih.2 ht

/-- under force-quit no new dispatch enters its handler loop: the signals with a handler-call instruction pending can only
become fewer -/
theorem inDispatch_trans {P : Prog} {c c' : Cfg} (hf : c.L.forceQuit = true) (ht : Trans P c c') :
    ∀ s ∈ c'.inDispatch, s ∈ c.inDispatch := by
  intro s hs
  obtain ⟨i, hi, his⟩ := List.mem_filterMap.1 hs
  rcases trans_cases ht with sf | ⟨hc, _⟩
  · have hb : i.boring = false := by cases i <;> simp [Instr.callSig] at his <;> rfl
    rcases sf.code i hi hb with h1 | h1
    · exact List.mem_filterMap.2 ⟨i, List.mem_of_mem_tail h1, his⟩
    · cases i with
      | callH h d s' =>
        simp [Instr.callSig] at his; subst his
        obtain ⟨⟨k, hk, _⟩, _⟩ := h1
        exact List.mem_filterMap.2 ⟨_, head_mem hk, rfl⟩
      | gCall s' hs' k =>
        simp [Instr.callSig] at his; subst his
        rcases h1 with ⟨k0, hk⟩ | ⟨q, g, _, _, _, hfq⟩
        · exact List.mem_filterMap.2 ⟨_, head_mem hk, rfl⟩
        · rw [hf] at hfq; cases hfq
      | _ => simp [Instr.callSig] at his
  · rw [hc] at hi
    exact List.mem_filterMap.2 ⟨i, hi, his⟩

theorem inDispatch_steps {P : Prog} {c c' : Cfg} (hA : AfterStart c) (hf : c.L.forceQuit = true) (hs : Steps P c c') :
    ∀ s ∈ c'.inDispatch, s ∈ c.inDispatch := by
  induction hs with
  | refl => exact fun s h => h
  | tail hs' ht ih =>
    intro s h
    exact ih s (inDispatch_trans (afterStart_fq_steps hA hf hs').2 ht s h)

/-! ### batches -/

def BatchInv (c : Cfg) : Prop :=
  (∀ q e g, Instr.gDisp q e g ∈ c.code → ∃ p att batch, Tr.iter q e p att batch ∈ c.tr ∧ g ∈ batch) ∧
  (∀ q e p att batch, Tr.iter q e p att batch ∈ c.tr →
    minPrio (att.filter fun g => !g.inCall) = some p ∧ batch = (att.filter fun g => !g.inCall).filter fun g => g.sig.prio = p)

theorem batchInv_reach {P : Prog} {c0 c : Cfg} (h0 : Started c0) (hr : Reach P c0 c) : BatchInv c := by
  obtain ⟨init, hs, q, stdin, rfl⟩ := h0
  refine reach_inv ⟨by intro q e g hm; simp [initCfg] at hm, by intro q e p att batch hm; simp [initCfg] at hm⟩ ?_ ?_ hr
  · intro c c' ih sf
    obtain ⟨new, e, hq⟩ := sf.tr
    refine ⟨fun q e' g hm => ?_, fun q e' p att batch hm => ?_⟩
    · rcases sf.code _ hm rfl with h1 | h1
      · obtain ⟨p, att, batch, h2, h3⟩ := ih.1 q e' g (List.mem_of_mem_tail h1)
        exact ⟨p, att, batch, by rw [e]; exact List.mem_append_right _ h2, h3⟩
      · exact h1.2
    · rw [e] at hm
      rcases List.mem_append.1 hm with h1 | h1
      · exact (hq _ h1 rfl).2
      · exact ih.2 q e' p att batch h1
  · intro c c' ih hc hk
    obtain ⟨new, e, hq⟩ := hk.tr
    refine ⟨fun q e' g hm => ?_, fun q e' p att batch hm => ?_⟩
    · rw [hc] at hm
      obtain ⟨p, att, batch, h2, h3⟩ := ih.1 q e' g hm
      exact ⟨p, att, batch, by rw [e]; exact List.mem_append_right _ h2, h3⟩
    · rw [e] at hm
      rcases List.mem_append.1 hm with h1 | h1
      · have := hq _ h1; simp [Tr.quiet] at this
      · exact ih.2 q e' p att batch h1

theorem minPrio_le : ∀ (l : List GSource) (p : Int), minPrio l = some p → ∀ g ∈ l, p ≤ g.sig.prio
  | [], p, h, g, hg => by cases hg
  | x :: xs, p, h, g, hg => by
    unfold minPrio at h
    cases hm : minPrio xs with
    | none =>
      rw [hm] at h
      simp at h
      cases xs with
      | nil => simp at hg; subst hg; omega
      | cons y ys => unfold minPrio at hm; split at hm <;> cases hm
    | some p' =>
      rw [hm] at h
      simp at h
      have ih := minPrio_le xs p' hm
      rcases List.mem_cons.1 hg with rfl | hg'
      · split at h <;> omega
      · have := ih g hg'
        split at h <;> omega

theorem minPrio_attained : ∀ (l : List GSource) (p : Int), minPrio l = some p → ∃ g ∈ l, g.sig.prio = p
  | [], p, h => by cases h
  | x :: xs, p, h => by
    unfold minPrio at h
    cases hm : minPrio xs with
    | none => rw [hm] at h; simp at h; exact ⟨x, by simp, h⟩
    | some p' =>
      rw [hm] at h
      simp at h
      split at h
      · exact ⟨x, by simp, h⟩
      · obtain ⟨g, hg, hp⟩ := minPrio_attained xs p' hm
        exact ⟨g, List.mem_cons_of_mem _ hg, by omega⟩

end Simpleline.G
