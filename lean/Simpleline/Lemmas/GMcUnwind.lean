/-
  GLib machine, lemmas for `Props/C20c.lean`: where a raise lands (the innermost `try` of `_run_handlers`), what
  `_quit_all_loops` does to the loops, where `enqueue_signal` routes a signal.
-/
import Simpleline.Lemmas.GMInv

namespace Simpleline.G

/-- instructions an exception of kind `k` passes without any effect (everything but the catchers of `k` and the stand-in's
dispatch frame `gAfter`, whose `finally` clears the in-dispatch mark) -/
def Instr.passes (k : Kind) : Instr → Bool
  | .catchRun => match k with | .sysexit => true | _ => false
  | .catchPS => match k with | .err => false | _ => true
  | .catchDraw => match k with | .err => false | _ => true
  | .catchPI _ => match k with | .err => false | _ => true
  | .gAfter .. => false
  | _ => true

theorem unwind_pass (k : Kind) : ∀ (pre rest : List Instr) (c : Cfg), (∀ i ∈ pre, i.passes k = true) →
    unwind k (pre ++ rest) c = unwind k rest c
  | [], rest, c, _ => rfl
  | ins :: pre, rest, c, h => by
    have ih := unwind_pass k pre rest c (fun i hi => h i (List.mem_cons_of_mem _ hi))
    have h0 := h ins (List.mem_cons_self ..)
    cases k <;> cases ins <;> simp [Instr.passes] at h0 <;> simp [unwind, ih]

/-- **An ordinary exception lands behind the innermost `try` of `_run_handlers`**: everything in front of it — the rest
of the failing handler, the remaining handlers of the signal (`gCall`) — is dropped, one `ExceptionSignal` (priority −20,
source = the loop) is enqueued, nothing else changes. -/
theorem raise_err_catchRun (c c2 : Cfg) (pre rest : List Instr) (hc : c.code = pre ++ .catchRun :: rest)
    (hp : ∀ i ∈ pre, i.passes .err = true)
    (he : (c.newSig .exception (-20) .loop).2.enq? (c.newSig .exception (-20) .loop).1 = some c2) :
    c.raise .err = .ok { c2 with code := rest } := by
  unfold Cfg.raise
  simp only [hc]
  rw [unwind_pass .err pre _ c hp]
  simp only [unwind]
  rw [he]

/-- **`ExitMainLoop` lands behind the innermost `try` of `_run_handlers`** too — nothing beyond it is unwound — and its
effect is `_quit_all_loops()`. -/
theorem raise_exit_catchRun (c : Cfg) (pre rest : List Instr) (hc : c.code = pre ++ .catchRun :: rest)
    (hp : ∀ i ∈ pre, i.passes .exit = true) :
    c.raise .exit = .ok { ((c.trace .exit).quitAll.gtrace .quitAll) with code := rest } := by
  unfold Cfg.raise
  simp only [trace_code, hc]
  rw [unwind_pass .exit pre _ _ hp]
  simp only [unwind]

theorem quitAll_ctx (c : Cfg) (q : Nat) :
    c.quitAll.ctx q = if c.L.loops.contains q then { c.ctx q with running := false } else c.ctx q := by
  simp only [Cfg.ctx, GSt.ctx, Cfg.quitAll, List.getD_eq_getElem?_getD, List.getElem?_map, List.getElem?_zipIdx]
  cases h : c.L.ctxs[q]? with
  | none => simp
  | some x => simp

/-- after `_quit_all_loops()` no loop of `_event_loops` is running -/
theorem quitAll_not_running (c : Cfg) (q : Nat) (hq : q ∈ c.L.loops) : (c.quitAll.ctx q).running = false := by
  rw [quitAll_ctx]
  have : c.L.loops.contains q = true := by simpa using hq
  rw [if_pos this]

theorem quitAll_loops (c : Cfg) : c.quitAll.L.loops = c.L.loops := rfl

/-! ### routing -/

/-- `_find_loop_data_for_source`: the result is a loop of `_event_loops`; it is the innermost one (no loop above it) whose
source set contains the source, or else — no loop owning the source — the top loop -/
theorem route_spec (L : GSt) (src : Src) (q : Nat) (h : L.route src = some q) :
    q ∈ L.loops ∧
    ((∃ inner outer, L.loops = outer ++ q :: inner ∧ (L.ctx q).srcset.contains src = true ∧
        ∀ a ∈ inner, (L.ctx a).srcset.contains src = false) ∨
     (L.loops.getLast? = some q ∧ ∀ a ∈ L.loops, (L.ctx a).srcset.contains src = false)) := by
  unfold GSt.route at h
  split at h
  · rename_i q' hf
    cases h
    obtain ⟨hp, as, bs, hl, has⟩ := List.find?_eq_some_iff_append.1 hf
    have hl' : L.loops = bs.reverse ++ q :: as.reverse := by
      have := congrArg List.reverse hl
      simpa using this
    refine ⟨by rw [hl']; simp, Or.inl ⟨as.reverse, bs.reverse, hl', hp, ?_⟩⟩
    intro a ha
    have := has a (List.mem_reverse.1 ha)
    simpa using this
  · rename_i hf
    have hnone := List.find?_eq_none.1 hf
    refine ⟨List.mem_of_getLast? h, Or.inr ⟨h, fun a ha => ?_⟩⟩
    have := hnone a (List.mem_reverse.2 ha)
    simpa using this

/-- with no loop left there is no route (`IndexError`) -/
theorem route_none (L : GSt) (src : Src) (h : L.loops = []) : L.route src = none := by
  simp [GSt.route, h]

end Simpleline.G
