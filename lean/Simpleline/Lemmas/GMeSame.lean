/-
  GLib machine vs. MainLoop machine: the part of a configuration the scheduler / screen / input instructions read and write
  (`View`), the translation of the shared instructions, the relation between the results of one step on the two machines,
  and what the loop API calls (`enqueue_signal`, `redraw`, `register_signal_source`, the reader's delivery, `emit`) do to
  the view on either machine.
-/
import Simpleline.Lemmas.GMcUnwind

namespace Simpleline.G

/-- what the instructions above the loop API read and write: the application state (screen stack, screen objects, input
subsystem, console), the observable log, the counter for framework signal ids, the return registers of the callbacks, and
the handler registrations (an `InputHandler` registers itself), the quit-callback registration -/
structure View where
  A : AppSt
  log : List Ev
  nextSid : Nat
  retSetup : Bool
  retPromptNone : Bool
  retInput : Ret
  retKey : Str
  retAction : UAction
  handlers : List (Cls × HRef × Option Nat)
  quitCb : Option Nat

def Cfg.view (c : Cfg) : View :=
  ⟨c.A, c.log, c.nextSid, c.retSetup, c.retPromptNone, c.retInput, c.retKey, c.retAction, c.L.handlers, c.L.quitCb⟩

/-- the same projection of a configuration of the MainLoop machine -/
def mview (c : Simpleline.Cfg) : View :=
  ⟨c.A, c.log, c.nextSid, c.retSetup, c.retPromptNone, c.retInput, c.retKey, c.retAction, c.L.handlers, c.L.quitCb⟩

/-- the instructions both machines share (scheduler, screens, input, the user actions, and the loop API *entry points* the
scheduler pushes: `newLoop`, `closeLoop`, `procWait`), translated constructor by constructor; the GLib-only loop
instructions have no counterpart (`mapped = false`; their image here is a dummy) -/
def tI : Instr → Simpleline.Instr
  | .act a => .act a
  | .apprun => .apprun
  | .quitCb => .quitCb
  | .kill s => .kill s
  | .callH h d s => .callH h d s
  | .hret h => .hret h
  | .note w => .note w
  | .procWait c => .procWait c
  | .newLoop s => .newLoop s
  | .closeLoop => .closeLoop
  | .pushModal s a => .pushModal s a
  | .modalRet e => .modalRet e
  | .closeScreen f => .closeScreen f
  | .closeScreen2 e f => .closeScreen2 e f
  | .closeScreen3 e => .closeScreen3 e
  | .processScreen => .processScreen
  | .afterSetup t => .afterSetup t
  | .afterSetupFail e => .afterSetupFail e
  | .afterSetup2 t => .afterSetup2 t
  | .identCheck t => .identCheck t
  | .catchPS => .catchPS
  | .drawScreen t => .drawScreen t
  | .catchDraw => .catchDraw
  | .maybeInput t => .maybeInput t
  | .callScr s cb a k => .callScr s cb a k
  | .scrRet s cb r k => .scrRet s cb r k
  | .printWidget s => .printWidget s
  | .printLines ls => .printLines ls
  | .getInput s a => .getInput s a
  | .getInput2 s a => .getInput2 s a
  | .blockingInput s c => .blockingInput s c
  | .waitInput ih => .waitInput ih
  | .inputReceived s => .inputReceived s
  | .inputReady n s => .inputReady n s
  | .processInput s k => .processInput s k
  | .classify s => .classify s
  | .catchPI s => .catchPI s
  | .countAndAct s => .countAndAct s
  | .endPI => .endPI
  | .afterQuit q => .afterQuit q
  | _ => .catchHandler

def mapped : Instr → Bool
  | .gRun .. | .gIter .. | .gDisp .. | .runH .. | .gCall .. | .catchRun | .endRun .. | .gAfter .. | .gWait .. | .procIter => false
  | _ => true

/-- how the results of one step of the two machines correspond -/
inductive ResRel (rg : List Instr) (rm : List Simpleline.Instr) :
    Except (Outcome × Cfg) Cfg → Except (Outcome × Simpleline.Cfg) Simpleline.Cfg → Prop
  /-- both go on: same view, the same instructions (up to the translation) pushed in front of the rest -/
  | ok {g' : Cfg} {m' : Simpleline.Cfg} (pushed : List Instr) : g'.view = mview m' → g'.code = pushed ++ rg →
      m'.code = pushed.map tI ++ rm → (∀ j ∈ pushed, mapped j = true) → ResRel rg rm (.ok g') (.ok m')
  /-- both raise the same kind of exception from configurations with the same view (where it lands differs: the catchers
  of the two loops differ) -/
  | raise {gc : Cfg} {mc : Simpleline.Cfg} (k : Kind) (pushed : List Instr) : gc.view = mview mc → gc.code = pushed ++ rg →
      mc.code = pushed.map tI ++ rm → ResRel rg rm (gc.raise k) (mc.raise k)
  /-- both skip to the end of `_process_screen`'s `try` -/
  | skip {g' : Cfg} {m' : Simpleline.Cfg} : g'.view = mview m' →
      g'.code = (rg.dropWhile fun i => match i with | .catchPS => false | _ => true) →
      m'.code = (rm.dropWhile fun i => match i with | .catchPS => false | _ => true) → ResRel rg rm (.ok g') (.ok m')
  /-- both halt with the same outcome -/
  | halt {g' : Cfg} {m' : Simpleline.Cfg} (o : Outcome) : g'.view = mview m' → ResRel rg rm (.error (o, g')) (.error (o, m'))

/-! ### the loop API calls and the view -/

theorem enq?_view {c c' : Cfg} {s : Sig} (h : c.enq? s = some c') : c'.view = c.view ∧ c'.code = c.code ∧ c'.L.loops = c.L.loops := by
  unfold Cfg.enq? at h
  split at h
  · cases h; exact ⟨rfl, rfl, rfl⟩
  · split at h
    · cases h
    · cases h; exact ⟨rfl, rfl, rfl⟩

theorem route_some (L : GSt) (src : Src) (hl : L.loops ≠ []) : ∃ q, L.route src = some q := by
  unfold GSt.route
  split
  · exact ⟨_, rfl⟩
  · cases h : L.loops.getLast? with
    | none => exact absurd (List.getLast?_eq_none_iff.1 h) hl
    | some q => exact ⟨q, rfl⟩

/-- with a loop left `enqueue_signal` does not raise on GLib, and it does not touch the view -/
theorem enqueue_ok (c : Cfg) (s : Sig) (hl : c.L.loops ≠ []) :
    ∃ c', c.enqueue s = .ok c' ∧ c'.view = c.view ∧ c'.code = c.code ∧ c'.L.loops = c.L.loops := by
  unfold Cfg.enqueue
  cases he : c.enq? s with
  | some c' => exact ⟨c', rfl, enq?_view he⟩
  | none =>
    exfalso
    unfold Cfg.enq? at he
    split at he
    · cases he
    · obtain ⟨q, hq⟩ := route_some c.L s.src hl
      rw [hq] at he; cases he

theorem redraw_ok (c : Cfg) (hl : c.L.loops ≠ []) :
    ∃ c', c.redraw = .ok c' ∧ c'.view = { c.view with nextSid := c.nextSid + 1 } ∧ c'.code = c.code ∧ c'.L.loops = c.L.loops := by
  obtain ⟨c', h1, h2, h3, h4⟩ := enqueue_ok (c.newSig .render 0 .sched).2 (c.newSig .render 0 .sched).1 hl
  exact ⟨c', h1, h2, h3, h4⟩

theorem regSource_ok (c : Cfg) (src : Src) (hl : c.L.loops ≠ []) :
    ∃ c', c.regSource src = .ok c' ∧ c'.view = c.view ∧ c'.code = c.code ∧ c'.L.loops = c.L.loops := by
  unfold Cfg.regSource
  cases h : c.L.loops.getLast? with
  | none => exact absurd (List.getLast?_eq_none_iff.1 h) hl
  | some q => exact ⟨_, rfl, rfl, rfl, rfl⟩

/-- on the MainLoop machine `enqueue_signal` never raises and does not touch the view either -/
theorem m_enqueue_view (m : Simpleline.Cfg) (s : Sig) : mview (m.enqueue s) = mview m ∧ (m.enqueue s).code = m.code := by
  unfold Simpleline.Cfg.enqueue
  split <;> exact ⟨rfl, rfl⟩

theorem m_redraw_view (m : Simpleline.Cfg) : mview m.redraw = { mview m with nextSid := m.nextSid + 1 } ∧ m.redraw.code = m.code := by
  have := m_enqueue_view (m.newSig .render 0 .sched).2 (m.newSig .render 0 .sched).1
  exact ⟨this.1, this.2⟩

/-- the reader's delivery: same view on both machines (the submission may fail on GLib when no loop is left: the view is
the same all the same) -/
theorem deliver_views (g : Cfg) (m : Simpleline.Cfg) (hv : g.view = mview m) :
    ((g.deliver).getD g).view = mview ((m.deliver).getD m) ∧ ((g.deliver).getD g).code = g.code ∧
      ((m.deliver).getD m).code = m.code ∧ ((g.deliver).getD g).L.loops = g.L.loops := by
  obtain ⟨gc, gL, gA, gl, gt, gs, g1, g2, g3, g4, g5⟩ := g
  obtain ⟨mc, mL, mA, ml, mt, ms, m1, m2, m3, m4, m5⟩ := m
  simp only [Cfg.view, mview, View.mk.injEq] at hv
  obtain ⟨rfl, rfl, rfl, rfl, rfl, rfl, rfl, rfl, hh, hq⟩ := hv
  simp only [Cfg.deliver, Simpleline.Cfg.deliver]
  cases hr : gA.readers with
  | nil => simp [Cfg.view, mview, hh, hq]
  | cons r rs =>
    simp only [Option.getD_some]
    refine ⟨?_, ?_, ?_, ?_⟩
    · rw [(m_enqueue_view _ _).1]
      cases he : Cfg.enq? _ _ with
      | none => simp [Cfg.view, mview, Cfg.newSig, Simpleline.Cfg.newSig, hh, hq]
      | some g2 =>
        simp only [Option.getD_some]
        rw [(enq?_view he).1]
        simp [Cfg.view, mview, Cfg.newSig, Simpleline.Cfg.newSig, hh, hq]
    · cases he : Cfg.enq? _ _ with
      | none => rfl
      | some g2 => simp only [Option.getD_some]; rw [(enq?_view he).2.1]; rfl
    · rw [(m_enqueue_view _ _).2]; rfl
    · cases he : Cfg.enq? _ _ with
      | none => rfl
      | some g2 => simp only [Option.getD_some]; rw [(enq?_view he).2.2]; rfl

/-- logging an observable event (with the delivery a delivery point of the case may trigger): same view on both machines -/
theorem emit_views (P : Prog) (g : Cfg) (m : Simpleline.Cfg) (e : Ev) (hv : g.view = mview m) :
    (g.emit P e).view = mview (m.emit P e) ∧ (g.emit P e).code = g.code ∧ (m.emit P e).code = m.code ∧
      (g.emit P e).L.loops = g.L.loops := by
  obtain ⟨gc, gL, gA, gl, gt, gs, g1, g2, g3, g4, g5⟩ := g
  obtain ⟨mc, mL, mA, ml, mt, ms, m1, m2, m3, m4, m5⟩ := m
  have hv0 := hv
  simp only [Cfg.view, mview, View.mk.injEq] at hv
  obtain ⟨rfl, rfl, rfl, rfl, rfl, rfl, rfl, rfl, hh, hq⟩ := hv
  simp only [Cfg.emit, Simpleline.Cfg.emit]
  split
  · exact deliver_views _ _ (by simp [Cfg.view, mview, hh, hq])
  · exact ⟨by simp [Cfg.view, mview, hh, hq], rfl, rfl, rfl⟩

theorem chunkOut_map (scr : Nat) : ∀ (evs : List OutEv) (cur : List Str) (acc : List Instr),
    (chunkOut scr evs cur acc).map tI = Simpleline.step.go scr evs cur (acc.map tI) ∧ (∀ j ∈ acc, mapped j = true → True)
  | [], cur, acc => by
    unfold chunkOut Simpleline.step.go
    refine ⟨?_, fun _ _ _ => trivial⟩
    split <;> simp [tI]
  | .line l :: r, cur, acc => by
    unfold chunkOut Simpleline.step.go
    exact ⟨(chunkOut_map scr r _ _).1, fun _ _ _ => trivial⟩
  | .ask :: r, cur, acc => by
    unfold chunkOut Simpleline.step.go
    refine ⟨?_, fun _ _ _ => trivial⟩
    rw [(chunkOut_map scr r _ _).1]
    split <;> simp [tI]

theorem chunkOut_mapped (scr : Nat) : ∀ (evs : List OutEv) (cur : List Str) (acc : List Instr),
    (∀ j ∈ acc, mapped j = true) → ∀ j ∈ chunkOut scr evs cur acc, mapped j = true
  | [], cur, acc, h => by
    unfold chunkOut
    split
    · exact h
    · intro j hj
      rcases List.mem_append.1 hj with h' | h'
      · exact h j h'
      · simp at h'; subst h'; rfl
  | .line l :: r, cur, acc, h => by
    unfold chunkOut
    exact chunkOut_mapped scr r _ _ h
  | .ask :: r, cur, acc, h => by
    unfold chunkOut
    apply chunkOut_mapped scr r
    intro j hj
    rcases List.mem_append.1 hj with h' | h'
    · split at h'
      · exact h j h'
      · rcases List.mem_append.1 h' with h'' | h''
        · exact h j h''
        · simp at h''; subst h''; rfl
    · simp at h'; subst h'; rfl

end Simpleline.G
