/-
  GLib machine: frame lemmas.  What the helper functions (`enq?`, `deliver`, `emit`, `unwind`/`raise`, `enqueue`, `redraw`,
  `regSource`, `startRequest`, …) do to the components the C20b theorems talk about: the pending code, the handler
  registrations, the force-quit flag, the trace.
-/
import Simpleline.Spec.GMSpec

namespace Simpleline.G

/-- quit-callback events of the observable log -/
def isQ : Ev → Bool
  | .quitcb _ => true
  | _ => false

/-- trace events that are *not* handler calls, batch collections or dispatch starts -/
def Tr.quiet : Tr → Bool
  | .m (.call ..) => false
  | .iter .. => false
  | .disp .. => false
  | _ => true

/-- `c'` differs from `c` by helper effects only: same registrations, same force-quit flag, the trace extended by quiet events -/
structure Keep (c c' : Cfg) : Prop where
  handlers : c.L.handlers <+: c'.L.handlers
  fq : c'.L.forceQuit = c.L.forceQuit
  tickets : c'.L.tickets = c.L.tickets
  qcb : c'.L.quitCb = c.L.quitCb
  logq : c'.log.filter isQ = c.log.filter isQ
  tr : ∃ new, c'.tr = new ++ c.tr ∧ ∀ t ∈ new, t.quiet = true

theorem Keep.refl (c : Cfg) : Keep c c := ⟨List.prefix_refl _, rfl, rfl, rfl, rfl, [], rfl, by simp⟩

theorem Keep.trans {a b c : Cfg} (h1 : Keep a b) (h2 : Keep b c) : Keep a c := by
  obtain ⟨n1, e1, q1⟩ := h1.tr
  obtain ⟨n2, e2, q2⟩ := h2.tr
  refine ⟨h1.handlers.trans h2.handlers, h2.fq.trans h1.fq, h2.tickets.trans h1.tickets, h2.qcb.trans h1.qcb, h2.logq.trans h1.logq, n2 ++ n1, by simp [e2, e1], ?_⟩
  intro t ht
  rcases List.mem_append.1 ht with h | h
  · exact q2 t h
  · exact q1 t h

/-- a configuration that agrees with `c` on handlers, force-quit flag and trace -/
theorem Keep.of_eq {c c' : Cfg} (h1 : c'.L.handlers = c.L.handlers) (h2 : c'.L.forceQuit = c.L.forceQuit) (h3 : c'.tr = c.tr)
    (h4 : c'.L.tickets = c.L.tickets := by rfl) (h5 : c'.L.quitCb = c.L.quitCb := by rfl)
    (h6 : c'.log.filter isQ = c.log.filter isQ := by rfl) :
    Keep c c' := ⟨by rw [h1]; exact List.prefix_refl _, h2, h4, h5, h6, [], by simp [h3], by simp⟩

theorem Keep.cons {c c' : Cfg} (t : Tr) (h1 : c'.L.handlers = c.L.handlers) (h2 : c'.L.forceQuit = c.L.forceQuit)
    (h3 : c'.tr = t :: c.tr) (hq : t.quiet = true)
    (h4 : c'.L.tickets = c.L.tickets := by rfl) (h5 : c'.L.quitCb = c.L.quitCb := by rfl)
    (h6 : c'.log.filter isQ = c.log.filter isQ := by rfl) : Keep c c' := ⟨by rw [h1]; exact List.prefix_refl _, h2, h4, h5, h6, [t], by simp [h3], by simpa using hq⟩

@[simp] theorem setCtx_handlers (c : Cfg) (q : Nat) (f : Ctx → Ctx) : (c.setCtx q f).L.handlers = c.L.handlers := rfl
@[simp] theorem setCtx_fq (c : Cfg) (q : Nat) (f : Ctx → Ctx) : (c.setCtx q f).L.forceQuit = c.L.forceQuit := rfl
@[simp] theorem setCtx_tr (c : Cfg) (q : Nat) (f : Ctx → Ctx) : (c.setCtx q f).tr = c.tr := rfl
@[simp] theorem setCtx_code (c : Cfg) (q : Nat) (f : Ctx → Ctx) : (c.setCtx q f).code = c.code := rfl
@[simp] theorem setCtx_loops (c : Cfg) (q : Nat) (f : Ctx → Ctx) : (c.setCtx q f).L.loops = c.L.loops := rfl
@[simp] theorem setInCall_handlers (c : Cfg) (q s : Nat) (b : Bool) : (c.setInCall q s b).L.handlers = c.L.handlers := rfl
@[simp] theorem setInCall_fq (c : Cfg) (q s : Nat) (b : Bool) : (c.setInCall q s b).L.forceQuit = c.L.forceQuit := rfl
@[simp] theorem setInCall_tr (c : Cfg) (q s : Nat) (b : Bool) : (c.setInCall q s b).tr = c.tr := rfl
@[simp] theorem setInCall_code (c : Cfg) (q s : Nat) (b : Bool) : (c.setInCall q s b).code = c.code := rfl
@[simp] theorem destroy_handlers (c : Cfg) (q s : Nat) : (c.destroy q s).L.handlers = c.L.handlers := rfl
@[simp] theorem destroy_fq (c : Cfg) (q s : Nat) : (c.destroy q s).L.forceQuit = c.L.forceQuit := rfl
@[simp] theorem destroy_tr (c : Cfg) (q s : Nat) : (c.destroy q s).tr = c.tr := rfl
@[simp] theorem destroy_code (c : Cfg) (q s : Nat) : (c.destroy q s).code = c.code := rfl
@[simp] theorem quitAll_handlers (c : Cfg) : c.quitAll.L.handlers = c.L.handlers := rfl
@[simp] theorem quitAll_fq (c : Cfg) : c.quitAll.L.forceQuit = c.L.forceQuit := rfl
@[simp] theorem quitAll_tr (c : Cfg) : c.quitAll.tr = c.tr := rfl
@[simp] theorem quitAll_code (c : Cfg) : c.quitAll.code = c.code := rfl
@[simp] theorem trace_handlers (c : Cfg) (t : Simpleline.Tr) : (c.trace t).L.handlers = c.L.handlers := rfl
@[simp] theorem trace_fq (c : Cfg) (t : Simpleline.Tr) : (c.trace t).L.forceQuit = c.L.forceQuit := rfl
@[simp] theorem trace_tr (c : Cfg) (t : Simpleline.Tr) : (c.trace t).tr = .m t :: c.tr := rfl
@[simp] theorem trace_code (c : Cfg) (t : Simpleline.Tr) : (c.trace t).code = c.code := rfl
@[simp] theorem gtrace_handlers (c : Cfg) (t : Tr) : (c.gtrace t).L.handlers = c.L.handlers := rfl
@[simp] theorem gtrace_fq (c : Cfg) (t : Tr) : (c.gtrace t).L.forceQuit = c.L.forceQuit := rfl
@[simp] theorem gtrace_tr (c : Cfg) (t : Tr) : (c.gtrace t).tr = t :: c.tr := rfl
@[simp] theorem gtrace_code (c : Cfg) (t : Tr) : (c.gtrace t).code = c.code := rfl
@[simp] theorem write_handlers (c : Cfg) (t : Str) : (c.write t).L.handlers = c.L.handlers := rfl
@[simp] theorem write_fq (c : Cfg) (t : Str) : (c.write t).L.forceQuit = c.L.forceQuit := rfl
@[simp] theorem write_tr (c : Cfg) (t : Str) : (c.write t).tr = c.tr := rfl
@[simp] theorem write_code (c : Cfg) (t : Str) : (c.write t).code = c.code := rfl
@[simp] theorem push_handlers (c : Cfg) (l : List Instr) : (push c l).L.handlers = c.L.handlers := rfl
@[simp] theorem push_fq (c : Cfg) (l : List Instr) : (push c l).L.forceQuit = c.L.forceQuit := rfl
@[simp] theorem push_tr (c : Cfg) (l : List Instr) : (push c l).tr = c.tr := rfl
@[simp] theorem push_code (c : Cfg) (l : List Instr) : (push c l).code = l ++ c.code := rfl

theorem enq?_code {c c' : Cfg} {s : Sig} (h : c.enq? s = some c') : c'.code = c.code := by
  unfold Cfg.enq? at h
  split at h
  · cases h; rfl
  · split at h
    · cases h
    · cases h; rfl

theorem enq?_keep {c c' : Cfg} {s : Sig} (h : c.enq? s = some c') : Keep c c' := by
  unfold Cfg.enq? at h
  split at h
  · cases h; exact Keep.cons _ rfl rfl rfl rfl
  · split at h
    · cases h
    · cases h
      exact ⟨List.prefix_refl _, rfl, rfl, rfl, rfl, [_, _], rfl, by simp [Tr.quiet]⟩

/-- under force-quit `enqueue_signal` drops the signal -/
theorem enq?_fq (c : Cfg) (s : Sig) (hf : c.L.forceQuit = true) : c.enq? s = some (c.trace (.dropped s)) := by
  simp [Cfg.enq?, hf]

theorem newSig_keep (c : Cfg) (cls : Cls) (prio : Int) (src : Src) (line : Str) (ih : Nat) (ok : Bool) :
    Keep c (c.newSig cls prio src line ih ok).2 ∧ (c.newSig cls prio src line ih ok).2.code = c.code :=
  ⟨Keep.of_eq rfl rfl rfl, rfl⟩

theorem deliver_code {c c' : Cfg} (h : c.deliver = some c') : c'.code = c.code := by
  unfold Cfg.deliver at h
  split at h
  · cases h
  · simp only [Option.some.injEq] at h
    subst h
    cases he : Cfg.enq? _ _ with
    | none => simp [Cfg.newSig]
    | some c2 => simp [enq?_code he, Cfg.newSig]

theorem deliver_keep {c c' : Cfg} (h : c.deliver = some c') : Keep c c' := by
  unfold Cfg.deliver at h
  split at h
  · cases h
  · simp only [Option.some.injEq] at h
    subst h
    cases he : Cfg.enq? _ _ with
    | none => simp only [Option.getD_none]; exact Keep.of_eq rfl rfl rfl
    | some c2 =>
      simp only [Option.getD_some]
      refine Keep.trans ?_ (enq?_keep he)
      exact Keep.of_eq rfl rfl rfl

theorem deliverD_code (c : Cfg) : (c.deliver.getD c).code = c.code := by
  cases h : c.deliver with
  | none => rfl
  | some c' => simp [deliver_code h]

theorem deliverD_keep (c : Cfg) : Keep c (c.deliver.getD c) := by
  cases h : c.deliver with
  | none => exact Keep.refl c
  | some c' => simpa using deliver_keep h

@[simp] theorem emit_code (P : Prog) (c : Cfg) (e : Ev) : (c.emit P e).code = c.code := by
  unfold Cfg.emit
  simp only
  split
  · exact deliverD_code _
  · rfl

theorem emit_keep (P : Prog) (c : Cfg) (e : Ev) (he : isQ e = false := by rfl) : Keep c (c.emit P e) := by
  unfold Cfg.emit
  simp only
  have h0 : Keep c { c with log := e :: c.log } := Keep.of_eq rfl rfl rfl rfl rfl (by simp [List.filter, he])
  split
  · exact h0.trans (deliverD_keep _)
  · exact h0

/-! ### results of statements that may raise -/

/-- the configuration a statement ends in, whether it returned or ended the run -/
def rcfg : Except (Outcome × Cfg) Cfg → Cfg
  | .ok c => c
  | .error (_, c) => c

/-- the result of a statement that only calls helpers: the pending code may only have been cut (unwinding), the rest is kept -/
def Good (c : Cfg) (r : Except (Outcome × Cfg) Cfg) : Prop := (rcfg r).code <:+ c.code ∧ Keep c (rcfg r)

theorem Good.ok (c c' : Cfg) (h1 : c'.code <:+ c.code) (h2 : Keep c c') : Good c (.ok c') := ⟨h1, h2⟩

theorem Good.mono {c0 c : Cfg} {r} (h : Good c r) (h1 : c.code <:+ c0.code) (h2 : Keep c0 c) : Good c0 r :=
  ⟨h.1.trans h1, h2.trans h.2⟩

theorem unwind_good (k : Kind) : ∀ (code : List Instr) (c : Cfg), (rcfg (unwind k code c)).code <:+ code ∧ Keep c (rcfg (unwind k code c))
  | [], c => by
    cases k <;> exact ⟨by simp [unwind, rcfg], Keep.of_eq rfl rfl rfl⟩
  | ins :: rest, c => by
    have ih := unwind_good k rest
    have hs : ∀ {l : List Instr}, l <:+ rest → l <:+ ins :: rest := fun h => h.trans (List.suffix_cons _ _)
    have enqCase : ∀ (src : Src) (rest' : List Instr), rest' <:+ rest →
        (rcfg (match (c.newSig .exception (-20) src).2.enq? (c.newSig .exception (-20) src).1 with
          | some c' => Except.ok { c' with code := rest' }
          | none => unwind .err rest (c.newSig .exception (-20) src).2)).code <:+ ins :: rest ∧
        Keep c (rcfg (match (c.newSig .exception (-20) src).2.enq? (c.newSig .exception (-20) src).1 with
          | some c' => Except.ok { c' with code := rest' }
          | none => unwind .err rest (c.newSig .exception (-20) src).2)) := by
      intro src rest' hr
      split
      · rename_i c' he
        refine ⟨by simpa [rcfg] using hs hr, ?_⟩
        refine Keep.trans ?_ (Keep.of_eq (c := c') rfl rfl rfl)
        exact (newSig_keep c _ _ _ _ _ _).1.trans (enq?_keep he)
      · have := unwind_good .err rest (c.newSig .exception (-20) src).2
        refine ⟨hs this.1, Keep.trans ?_ this.2⟩
        exact Keep.of_eq rfl rfl rfl
    unfold unwind
    split
    · exact enqCase .loop rest (List.suffix_refl _)
    · exact ⟨by simpa [rcfg] using hs (List.suffix_refl _), Keep.cons _ rfl rfl rfl rfl⟩
    · exact enqCase .sched rest (List.suffix_refl _)
    · exact enqCase .sched rest (List.suffix_refl _)
    · rename_i scr
      exact enqCase (.im scr) _ ((List.drop_suffix _ _).trans (List.dropWhile_suffix _))
    · refine ⟨hs (ih _).1, Keep.trans ?_ (ih _).2⟩
      exact Keep.of_eq rfl rfl rfl
    · have := ih c
      exact ⟨hs this.1, this.2⟩

theorem raise_good (c : Cfg) (k : Kind) : Good c (c.raise k) := by
  unfold Cfg.raise
  cases k
  · have := unwind_good .exit c.code (c.trace .exit)
    refine ⟨this.1, Keep.trans ?_ this.2⟩
    exact Keep.cons _ rfl rfl rfl rfl
  · exact unwind_good .err c.code c
  · exact unwind_good .sysexit c.code c

theorem enqueue_good (c : Cfg) (s : Sig) : Good c (c.enqueue s) := by
  unfold Cfg.enqueue
  cases he : c.enq? s with
  | some c' => exact ⟨by simp [rcfg, enq?_code he], enq?_keep he⟩
  | none => exact raise_good c .err

theorem redraw_good (c : Cfg) : Good c c.redraw := by
  show Good c ((c.newSig .render 0 .sched).2.enqueue (c.newSig .render 0 .sched).1)
  exact (enqueue_good _ _).mono (List.suffix_refl _) (Keep.of_eq rfl rfl rfl)

theorem regSource_good (c : Cfg) (src : Src) : Good c (c.regSource src) := by
  unfold Cfg.regSource
  split
  · exact raise_good c .err
  · exact ⟨by simp [rcfg], Keep.of_eq rfl rfl rfl⟩

theorem startRequest_good (c : Cfg) (ih : Nat) (r : Src) (t : Str) : Good c (startRequest c ih r t) := by
  unfold startRequest
  simp only
  split
  · exact (raise_good _ .err).mono (List.suffix_refl _) (Keep.of_eq rfl rfl rfl)
  · split
    · exact ⟨by simp [rcfg], Keep.of_eq rfl rfl rfl⟩
    · exact ⟨by simp [rcfg], Keep.of_eq rfl rfl rfl⟩

/-- sequencing two statements -/
theorem Good.bind {c : Cfg} {r : Except (Outcome × Cfg) Cfg} {f : Cfg → Except (Outcome × Cfg) Cfg}
    (h : Good c r) (hf : ∀ c1, Good c1 (f c1)) : Good c (r >>= f) := by
  cases r with
  | error e => exact h
  | ok c1 => exact (hf c1).mono h.1 h.2

end Simpleline.G
