/-
  GLib machine: the quit callback is logged at most once (invariant over `Reach`).  Built on a copy of the step-facts
  development (`GMfFrame`, `GMfStep`, `GMfStepAll` = `GMFrame`, `GMStep`, `GMStepAll` with three more clauses: the
  quit-callback registration is never changed, no step but `quitCb` logs a quit-callback event, the number of pending
  `quitCb` / `apprun` instructions never grows).
-/
import Simpleline.Lemmas.GMfStepAll

namespace Simpleline.G

theorem mem_filter_isQ {l : List Ev} {d : Nat} : Ev.quitcb d ∈ l ↔ Ev.quitcb d ∈ l.filter isQ := by
  simp [List.mem_filter, isQ]

/-- the step of the `quitCb` instruction: the code behind it is left, and the log gets exactly the event of the registered
datum (none if no quit callback is registered) -/
theorem step_quitCb (P : Prog) (c : Cfg) (rest : List Instr) (hc : c.code = .quitCb :: rest) :
    (rcfg (step P c)).code = rest ∧ (rcfg (step P c)).L.quitCb = c.L.quitCb ∧
    (rcfg (step P c)).log.filter isQ = (c.L.quitCb.toList.map Ev.quitcb) ++ c.log.filter isQ := by
  cases hq : c.L.quitCb with
  | none => simp [step, hc, hq, rcfg]
  | some d =>
    have kk := deliverD_keep ({ c with code := rest, log := Ev.quitcb d :: c.log } : Cfg)
    have hcode := deliverD_code ({ c with code := rest, log := Ev.quitcb d :: c.log } : Cfg)
    simp only [step, hc, hq, rcfg, Cfg.emit]
    split
    · refine ⟨hcode, kk.qcb.trans hq, ?_⟩
      rw [kk.logq]; simp [List.filter, isQ]
    · exact ⟨rfl, hq, by simp [List.filter, isQ]⟩

/-- registration unchanged; at most one of: a pending `apprun`, a pending `quitCb`, a logged quit callback; a logged quit
callback carries the registered datum -/
def QInv (q0 : Option Nat) (c : Cfg) : Prop :=
  c.L.quitCb = q0 ∧ c.code.countP qa + (c.log.filter isQ).length ≤ 1 ∧ ∀ d, Ev.quitcb d ∈ c.log → q0 = some d

theorem qInv_step (P : Prog) (q0 : Option Nat) (c : Cfg) (h : QInv q0 c) : QInv q0 (rcfg (step P c)) := by
  obtain ⟨h1, h2, h3⟩ := h
  by_cases hh : c.code.head? = some .quitCb
  · cases hc : c.code with
    | nil => rw [hc] at hh; cases hh
    | cons i rest =>
      rw [hc] at hh
      simp only [List.head?_cons, Option.some.injEq] at hh
      subst hh
      obtain ⟨k1, k2, k3⟩ := step_quitCb P c rest hc
      have hcnt : rest.countP qa = 0 ∧ (c.log.filter isQ).length = 0 := by
        rw [hc, List.countP_cons] at h2
        simp only [qa, if_true] at h2
        omega
      refine ⟨k2.trans h1, ?_, fun d hd => ?_⟩
      · rw [k1, k3, hcnt.1, List.length_append, hcnt.2]
        cases c.L.quitCb <;> simp
      · rw [mem_filter_isQ, k3] at hd
        rcases List.mem_append.1 hd with hd | hd
        · rw [h1] at hd
          cases hq : q0 with
          | none => rw [hq] at hd; simp at hd
          | some d0 => rw [hq] at hd; simp at hd; rw [hd]
        · exact h3 d (mem_filter_isQ.2 hd)
  · have sf := step_facts P c
    refine ⟨sf.qcb.trans h1, ?_, fun d hd => ?_⟩
    · rw [sf.logq hh]; exact Nat.le_trans (Nat.add_le_add_right sf.cnt _) h2
    · rw [mem_filter_isQ, sf.logq hh] at hd
      exact h3 d (mem_filter_isQ.2 hd)

theorem qInv_reach {P : Prog} {c0 c : Cfg} (h0 : Started c0) (hr : Reach P c0 c) : QInv c0.L.quitCb c := by
  induction hr with
  | init =>
    obtain ⟨init, hs, q, stdin, rfl⟩ := h0
    refine ⟨rfl, ?_, fun d hd => by simp [initCfg] at hd⟩
    simp [initCfg, List.countP_append, cnt_map, qa]
  | @step c1 c2 _ hs ih => have := qInv_step P _ c1 ih; rw [hs] at this; exact this
  | @deliver c1 c2 _ hd ih =>
    have hk := deliver_keep hd
    obtain ⟨h1, h2, h3⟩ := ih
    refine ⟨hk.qcb.trans h1, by rw [deliver_code hd, hk.logq]; exact h2, fun d hd' => ?_⟩
    rw [mem_filter_isQ, hk.logq] at hd'
    exact h3 d (mem_filter_isQ.2 hd')
  | @halt c1 c2 o _ hs ih => have := qInv_step P _ c1 ih; rw [hs] at this; exact this

end Simpleline.G
