/-
  GLib machine: what one step does, for every instruction — where handler calls, batch collections and dispatch starts
  in the trace come from, and where the instructions `callH`, `gCall`, `gDisp`, `apprun` in the pending code come from.
-/
import Simpleline.Lemmas.GMfFrame

namespace Simpleline.G

/-- every instruction but the handler-call / batch instructions and `apprun` -/
def Instr.boring : Instr → Bool
  | .callH .. => false
  | .gCall .. => false
  | .gDisp .. => false
  | .apprun => false
  | .quitCb => false
  | _ => true

/-- the quit-callback instruction and `apprun` (which pushes it) -/
def qa : Instr → Bool
  | .quitCb => true
  | .apprun => true
  | _ => false

theorem countP_boring {l : List Instr} (h : ∀ i ∈ l, i.boring = true) : l.countP qa = 0 := by
  rw [List.countP_eq_zero]
  intro i hi hq
  have := h i hi
  cases i <;> simp [qa, Instr.boring] at hq this

/-- how a non-boring instruction gets into the pending code: pushed by the instruction at the head of `c` -/
def PushedOK (c c' : Cfg) : Instr → Prop
  | .callH h d s => (∃ k, c.code.head? = some (.gCall s .live k) ∧ (handlersOf c.L s.cls)[k]? = some (h, d) ∧
        c'.code = .callH h d s :: .gCall s .live (k + 1) :: c.code.tail) ∧ (s.cls, h, d) ∈ c.L.handlers ∧ c.L.forceQuit = false
  | .gCall s hs k => (∃ k0, c.code.head? = some (.gCall s hs k0) ∧ k = k0 + 1) ∨
      (∃ q g, c.code.head? = some (.runH q g) ∧ g.sig = s ∧ g.hs = hs ∧ c.L.forceQuit = false ∧ k = 0)
  | .quitCb => c.code.head? = some .apprun
  | .gDisp q e g => (∃ mode, c.code.head? = some (.gIter q mode)) ∧ ∃ p att batch, Tr.iter q e p att batch ∈ c'.tr ∧ g ∈ batch
  | _ => False

/-- where a loud trace event comes from -/
def LoudOK (c : Cfg) : Tr → Prop
  | .m (.call h d s) => c.code.head? = some (.callH h d s)
  | .iter q _ p att batch => (∃ mode, c.code.head? = some (.gIter q mode)) ∧
      minPrio (att.filter fun g => !g.inCall) = some p ∧ batch = (att.filter fun g => !g.inCall).filter fun g => g.sig.prio = p
  | .disp q e g => c.code.head? = some (.gDisp q e g)
  | _ => True

/-- how the ticket lines change: only `take_ticket` (`procWait`), a released wait (`gWait`), and the epilogue of
`_run_handlers` (`endRun`: `mark_line_to_go`) touch them -/
def TicketOK (c : Cfg) (ts : List Ticket) : Prop :=
  match c.code.head? with
  | some (.procWait cls) => ts = c.L.tickets ++ [({ line := cls, id := c.L.tcounter, marked := false } : Ticket)]
  | some (.gWait cls t _) => ts = c.L.tickets.filter fun k => ¬ (k.line = cls ∧ k.id = t)
  | some (.endRun _ g) => ts = mark c.L.tickets g.sig.cls
  | _ => False

structure StepFacts (c c' : Cfg) : Prop where
  cnt : c'.code.countP qa ≤ c.code.countP qa
  qcb : c'.L.quitCb = c.L.quitCb
  logq : c.code.head? ≠ some .quitCb → c'.log.filter isQ = c.log.filter isQ
  tickets : c'.L.tickets = c.L.tickets ∨ TicketOK c c'.L.tickets
  tr : ∃ new, c'.tr = new ++ c.tr ∧ ∀ t ∈ new, t.quiet = false → LoudOK c t
  handlers : c.L.handlers <+: c'.L.handlers
  code : ∀ i ∈ c'.code, i.boring = false → i ∈ c.code.tail ∨ PushedOK c c' i
  fq : c.L.forceQuit = true → c.code.head? ≠ some .apprun → c'.L.forceQuit = true
  fqSet : c.L.forceQuit = false → c'.L.forceQuit = true → c.code.head? = some (.act .forceQuit)

@[simp] theorem rcfg_ok (c : Cfg) : rcfg (.ok c) = c := rfl
@[simp] theorem rcfg_error (o : Outcome) (c : Cfg) : rcfg (.error (o, c)) = c := rfl
@[simp] theorem rcfg_pure (c : Cfg) : rcfg (pure c) = c := rfl

/-- `X` is reached from `c0` by helper effects and loud events that the head instruction of `c0` justifies -/
structure KeepL (c0 X : Cfg) : Prop where
  handlers : c0.L.handlers <+: X.L.handlers
  fq : X.L.forceQuit = c0.L.forceQuit
  tickets : X.L.tickets = c0.L.tickets ∨ TicketOK c0 X.L.tickets
  qcb : X.L.quitCb = c0.L.quitCb
  logq : c0.code.head? ≠ some .quitCb → X.log.filter isQ = c0.log.filter isQ
  tr : ∃ new, X.tr = new ++ c0.tr ∧ ∀ t ∈ new, t.quiet = false → LoudOK c0 t

theorem Keep.toL {c0 X : Cfg} (h : Keep c0 X) : KeepL c0 X := by
  obtain ⟨new, e, hq⟩ := h.tr
  exact ⟨h.handlers, h.fq, Or.inl h.tickets, h.qcb, fun _ => h.logq, new, e, fun t ht hl => by rw [hq t ht] at hl; cases hl⟩

theorem KeepL.trans {c0 X Y : Cfg} (h1 : KeepL c0 X) (h2 : Keep X Y) : KeepL c0 Y := by
  obtain ⟨n1, e1, q1⟩ := h1.tr
  obtain ⟨n2, e2, q2⟩ := h2.tr
  refine ⟨h1.handlers.trans h2.handlers, h2.fq.trans h1.fq, by rw [h2.tickets]; exact h1.tickets, h2.qcb.trans h1.qcb, fun hh => h2.logq.trans (h1.logq hh), n2 ++ n1, by simp [e2, e1], ?_⟩
  intro t ht hl
  rcases List.mem_append.1 ht with h | h
  · rw [q2 t h] at hl; cases hl
  · exact q1 t h hl

/-- one loud event justified by the head of `c0` -/
theorem KeepL.loud {c0 X : Cfg} (t : Tr) (hl : LoudOK c0 t) (h1 : X.L.handlers = c0.L.handlers) (h2 : X.L.forceQuit = c0.L.forceQuit)
    (h3 : X.tr = t :: c0.tr) (h4 : X.L.tickets = c0.L.tickets := by rfl) (h5 : X.L.quitCb = c0.L.quitCb := by rfl)
    (h6 : X.log.filter isQ = c0.log.filter isQ := by rfl) : KeepL c0 X :=
  ⟨by rw [h1]; exact List.prefix_refl _, h2, Or.inl h4, h5, fun _ => h6, [t], by simp [h3], by intro t' ht' _; simp at ht'; subst ht'; exact hl⟩

theorem cnt_suffix {c0 : Cfg} {ins : Instr} {rest l : List Instr} (hc : c0.code = ins :: rest) (h : l <:+ rest) :
    l.countP qa ≤ c0.code.countP qa := by
  rw [hc, List.countP_cons]
  exact Nat.le_trans (h.sublist.countP_le) (Nat.le_add_right _ _)

theorem facts_gen {c0 X : Cfg} {ins : Instr} {rest : List Instr} (hc : c0.code = ins :: rest) (hk : KeepL c0 X)
    (hcode : ∀ i ∈ X.code, i.boring = false → i ∈ rest ∨ PushedOK c0 X i)
    (hcnt : X.code.countP qa ≤ c0.code.countP qa) : StepFacts c0 X :=
  ⟨hcnt, hk.qcb, hk.logq, hk.tickets, hk.tr, hk.handlers, fun i hi hb => by rw [hc]; exact hcode i hi hb, fun hf _ => by rw [hk.fq]; exact hf,
    fun h1 h2 => by rw [hk.fq, h1] at h2; cases h2⟩

theorem facts_push {c0 X : Cfg} {ins : Instr} {rest : List Instr} (hc : c0.code = ins :: rest) (pushed : List Instr)
    (hp : ∀ i ∈ pushed, i.boring = true) (hX : X.code <:+ rest) (hk : Keep c0 X) : StepFacts c0 (push X pushed) := by
  refine facts_gen hc (hk.toL.trans (Keep.of_eq rfl rfl rfl)) (fun i hi hb => ?_) ?_
  · rcases List.mem_append.1 hi with h | h
    · rw [hp i h] at hb; cases hb
    · left; exact hX.subset h
  · show (pushed ++ X.code).countP qa ≤ _
    rw [List.countP_append, countP_boring hp, Nat.zero_add]
    exact cnt_suffix hc hX

theorem facts_plain {c0 X : Cfg} {ins : Instr} {rest : List Instr} (hc : c0.code = ins :: rest)
    (hX : X.code <:+ rest) (hk : Keep c0 X) : StepFacts c0 X :=
  facts_gen hc hk.toL (fun i hi _ => Or.inl (hX.subset hi)) (cnt_suffix hc hX)

/-- a statement that only calls helpers, started with boring instructions `pre` pushed in front of the rest -/
theorem facts_good' {c0 c1 : Cfg} {ins : Instr} {rest : List Instr} (hc : c0.code = ins :: rest) {r : Except (Outcome × Cfg) Cfg}
    (hg : Good c1 r) (pre : List Instr) (hpre : ∀ i ∈ pre, i.boring = true) (h1 : c1.code <:+ pre ++ rest) (hk : Keep c0 c1) :
    StepFacts c0 (rcfg r) := by
  refine facts_gen hc (hk.trans hg.2).toL (fun i hi hb => ?_) ?_
  · rcases List.mem_append.1 ((hg.1.trans h1).subset hi) with h | h
    · rw [hpre i h] at hb; cases hb
    · exact Or.inl h
  · have := (hg.1.trans h1).sublist.countP_le (p := qa)
    rw [List.countP_append, countP_boring hpre, Nat.zero_add] at this
    rw [hc, List.countP_cons]
    omega

theorem facts_good {c0 c1 : Cfg} {ins : Instr} {rest : List Instr} (hc : c0.code = ins :: rest) {r : Except (Outcome × Cfg) Cfg}
    (hg : Good c1 r) (h1 : c1.code <:+ rest) (hk : Keep c0 c1) : StepFacts c0 (rcfg r) :=
  facts_good' hc hg [] (by simp) (by simpa using h1) hk

/-- `do let c ← r; pure (push (f c) l)` -/
theorem facts_bind_push {c0 c1 : Cfg} {ins : Instr} {rest : List Instr} (hc : c0.code = ins :: rest) {r : Except (Outcome × Cfg) Cfg}
    (hg : Good c1 r) (h1 : c1.code <:+ rest) (hk : Keep c0 c1) (f : Cfg → Cfg) (hf : ∀ c, (f c).code = c.code ∧ Keep c (f c))
    (pushed : List Instr) (hp : ∀ i ∈ pushed, i.boring = true) :
    StepFacts c0 (rcfg (r >>= fun c => pure (push (f c) pushed))) := by
  cases r with
  | error e => exact facts_good hc hg h1 hk
  | ok c2 =>
    show StepFacts c0 (push (f c2) pushed)
    refine facts_push hc pushed hp ?_ ((hk.trans hg.2).trans (hf c2).2)
    rw [(hf c2).1]; exact hg.1.trans h1

/-- `do let c ← r; pure (f c)` -/
theorem facts_bind_map {c0 c1 : Cfg} {ins : Instr} {rest : List Instr} (hc : c0.code = ins :: rest) {r : Except (Outcome × Cfg) Cfg}
    (hg : Good c1 r) (h1 : c1.code <:+ rest) (hk : Keep c0 c1) (f : Cfg → Cfg) (hf : ∀ c, (f c).code = c.code ∧ Keep c (f c)) :
    StepFacts c0 (rcfg (r >>= fun c => pure (f c))) := by
  have := facts_bind_push hc hg h1 hk f hf [] (by simp)
  simpa [push] using this

theorem boring_acts (l : List Act) : ∀ i ∈ l.map Instr.act, i.boring = true := by
  intro i hi
  obtain ⟨a, _, rfl⟩ := List.mem_map.1 hi
  rfl

theorem chunkOut_boring (scr : Nat) : ∀ (evs : List OutEv) (cur : List Str) (acc : List Instr),
    (∀ i ∈ acc, i.boring = true) → ∀ i ∈ chunkOut scr evs cur acc, i.boring = true
  | [], cur, acc, h => by
    unfold chunkOut
    split
    · exact h
    · intro i hi
      rcases List.mem_append.1 hi with h' | h'
      · exact h i h'
      · simp at h'; subst h'; rfl
  | .line l :: r, cur, acc, h => by
    unfold chunkOut
    exact chunkOut_boring scr r _ _ h
  | .ask :: r, cur, acc, h => by
    unfold chunkOut
    apply chunkOut_boring scr r
    intro i hi
    rcases List.mem_append.1 hi with h' | h'
    · split at h'
      · exact h i h'
      · rcases List.mem_append.1 h' with h'' | h''
        · exact h i h''
        · simp at h''; subst h''; rfl
    · simp at h'; subst h'; rfl

theorem foldlM_good (f : Cfg → Nat → Except (Outcome × Cfg) Cfg) (hf : ∀ c t, Good c (f c t)) :
    ∀ (l : List Nat) (c : Cfg), Good c (l.foldlM f c)
  | [], c => Good.ok c c (List.suffix_refl _) (Keep.refl c)
  | t :: l, c => by
    rw [List.foldlM_cons]
    exact (hf c t).bind (fun c1 => foldlM_good f hf l c1)

theorem doAct_facts {c0 : Cfg} {a : Act} {rest : List Instr} (hc : c0.code = .act a :: rest) :
    StepFacts c0 (rcfg (doAct { c0 with code := rest } a)) := by
  have k0 : Keep c0 { c0 with code := rest } := Keep.of_eq rfl rfl rfl
  have s0 : ({ c0 with code := rest } : Cfg).code <:+ rest := List.suffix_refl _
  cases a with
  | enq cls prio src sid => exact facts_good hc (enqueue_good _ _) s0 k0
  | regSource src => exact facts_good hc (regSource_good _ _) s0 k0
  | newLoop cls prio sid => exact facts_push hc _ (by simp [Instr.boring]) s0 k0
  | closeLoop => exact facts_push hc _ (by simp [Instr.boring]) s0 k0
  | proc cls =>
    cases cls with
    | none => exact facts_push hc _ (by simp [Instr.boring]) s0 k0
    | some cls => exact facts_push hc _ (by simp [Instr.boring]) s0 k0
  | forceQuit =>
    refine ⟨cnt_suffix hc (List.suffix_refl _), rfl, fun _ => rfl, Or.inl rfl, ⟨[_], rfl, by simp [Tr.quiet]⟩, List.prefix_refl _, fun i hi _ => ?_, fun _ _ => rfl, fun _ _ => by simp [hc]⟩
    left; rw [hc]; exact hi
  | raiseExit => exact facts_good hc (raise_good _ _) s0 k0
  | raiseErr => exact facts_good hc (raise_good _ _) s0 k0
  | schedule scr args =>
    simp only [doAct]
    split
    · exact facts_plain hc s0 (by exact Keep.cons _ rfl rfl rfl (by rfl))
    · exact facts_bind_map hc (redraw_good _) (List.suffix_refl _) (by exact Keep.cons _ rfl rfl rfl (by rfl))
        (fun c => { c with A := { c.A with firstScheduled := true } }) (fun c => ⟨rfl, Keep.of_eq rfl rfl rfl⟩)
  | push scr args => exact facts_good hc (redraw_good _) (List.suffix_refl _) (by exact Keep.cons _ rfl rfl rfl (by rfl))
  | pushModal scr args => exact facts_push hc _ (by simp [Instr.boring]) s0 k0
  | replace scr args =>
    simp only [doAct]
    split
    · exact facts_good hc (raise_good _ _) s0 k0
    · exact facts_good hc (redraw_good _) (List.suffix_refl _) (by exact Keep.cons _ rfl rfl rfl (by rfl))
  | closeDirect => exact facts_push hc _ (by simp [Instr.boring]) s0 k0
  | closeSig scr => exact facts_good hc (enqueue_good _ _) (List.suffix_refl _) (by exact Keep.of_eq rfl rfl rfl)
  | redrawSig scr => exact facts_good hc (enqueue_good _ _) (List.suffix_refl _) (by exact Keep.of_eq rfl rfl rfl)
  | schedRedraw => exact facts_good hc (redraw_good _) s0 k0
  | getUserInput scr hidden => exact facts_push hc _ (by simp [Instr.boring]) s0 k0

end Simpleline.G
